import Gmx.Lemmas.PerpValue
import Gmx.Lemmas.FundingBacked
import Gmx.Props.C12
import Gmx.Lemmas.Whole
import Gmx.Lemmas.FundSim
/-!
# C08 — market token accounting is conserved and funding payouts stay backed

`ledger m token = liquidity + swap impact + claimable fees + collateral sums` of a pool token.
Statements are about the faithful position model `Gmx.Model.Perp` (tied to the implementation
by the stateful `perp` engine, whose harness additionally checks the ledger identity and the
refined funding invariant after EVERY operation of its histories).

Headline over whole-market histories (`PSys.wstep`: real deposit / withdraw / swap / clock / fee-state
operations, no guarded `.market` replacement): `whole_ledger`, `run_preserves_ledger`,
`step_preserves_MarketInv`, `run_preserves_MarketInv`, `run_indices_monotone` (below); `ledger_step`'s
`.market m'` case is only a frame guard (`sameBookB && sameLedgerB`), superseded by `whole_ledger`.

Proved here: the ledger step of an increase and of a decrease through EVERY collateral-processor
branch, lifted to histories (`ledger_step_increase`, `ledger_step_decrease`, `ledger_step`,
`ledger_history`) — which exposed a dust-level defect (F-C08b, `fee_dust_witness`); conservation
inside the payment routine; fee-state updates move no tokens; packing rounds the payer up and the
receiver down; **`funding_backed`**: the potential argument over `FundSys` — histories of funding
updates, settlements with size changes and openings for one collateral token, built from the same
`packFunding` / `unpackFunding` as the faithful model; the literal clause "collected − claimed ≥ 0"
is false (`claim_before_collect_witness`, F-C08).
Still open (named): `psys_simulates_fundsys` — that a `PSys` history of the faithful model without
reported funding shortfall projects, per collateral token, onto a `FundSys` history (funding value
attribution of `nextFundingAmounts`, settlement inside `positionFees`); the harness oracle checks
the refined invariant on the implementation after every operation.
-/
namespace Gmx.C08
open Gmx Gmx.Perp Gmx.Lem

/-- **ledger step of an increase**: accounted holdings of the collateral token grow by the tokens
paid in minus the funding fee collected; the other token is untouched. -/
theorem ledger_step_increase {W U : Nat} {m m' : Market} {c : PerpCfg} {pr : Prices} {p p' : Pos} {ci sd : Nat}
    {r : IncreaseReport} (h : increase W U m c pr p ci sd = .ok (m', p', r)) :
    ledger m' p.collLong + r.fees.fundAmount = ledger m p.collLong + ci ∧
    ledger m' (!p.collLong) = ledger m (!p.collLong) := by
  unfold increase at h
  split at h
  · cases h
  · have := increaseCore_ledger h
    have e : (initIfEmpty p m).collLong = p.collLong := by unfold initIfEmpty; split <;> rfl
    rw [e] at this
    exact this

/-- **the payment routine conserves amounts**: a cost is paid from the output amount, then the
collateral, then the secondary output; what leaves them is exactly what is reported as paid. -/
theorem pay_conserves {W : Nat} {x : PCtx} {s s1 : PState} {cost pc ps left : Nat}
    (h : doPayForCost W x s cost = some (s1, pc, ps, left)) :
    s1.out + s1.rem + pc = s.out + s.rem ∧ s1.sec + ps = s.sec ∧ s1.m = s.m ∧
    s1.holdOut = s.holdOut ∧ s1.holdSec = s.holdSec ∧ s1.userOut = s.userOut ∧ s1.userSec = s.userSec := by
  unfold doPayForCost at h
  split at h
  · cases h
  · rename_i o r sc pc' ps' left' hp
    cases h
    obtain ⟨a, b, _, _⟩ := payAmounts_conserves hp
    exact ⟨a, b, rfl, rfl, rfl, rfl, rfl⟩

/-- **ledger step of a decrease** through every collateral-processor branch (see
`Lem.decrease_ledger`): holdings after + all outputs + funding fee collected = holdings before +
fee dust; collected `≤` the funding fee and `=` it unless an insufficient funding payment is
reported; the dust is worth less than one pnl-token unit and is zero when pnl and collateral
tokens coincide (finding F-C08b). -/
theorem ledger_step_decrease {W U : Nat} {m m' : Market} {c : PerpCfg} {pr : Prices} {p p' : Pos} {sd0 wd : Nat}
    {fl : DecreaseFlags} {r : DecreaseReport} (h : decrease W U m c pr p sd0 wd fl = .ok (m', p', r)) :
    ∃ paid dust, paid ≤ r.fees.fundAmount ∧ (r.fundingShort = false → paid = r.fees.fundAmount) ∧
      (dust = 0 ∨ dust * (pr.collateral p.collLong).min < (pr.collateral p.isLong).min) ∧
      (p.isLong = p.collLong → dust = 0) ∧
      ∀ t, ledger m' t + tokAmt p.collLong t (r.output + r.holdOut + r.userOut + paid) +
             tokAmt p.isLong t (r.secondary + r.holdSec + r.userSec) = ledger m t + tokAmt p.collLong t dust := by
  obtain ⟨paid, dust, h1, h2, h3, h4⟩ := decrease_ledger h
  refine ⟨paid, dust, h1, h2, h3, ?_, fun t => by simpa [tok_eq] using h4 t⟩
  intro hs
  rcases h3 with h0 | hlt
  · exact h0
  · rw [hs] at hlt
    cases dust with
    | zero => rfl
    | succ n =>
      exfalso
      have : (pr.collateral p.collLong).min ≤ (n + 1) * (pr.collateral p.collLong).min := Nat.le_mul_of_pos_left _ (by omega)
      omega

/-- the fee dust is real: a long with short-token collateral closed at index price 99 with exactly
50 collateral units missing for the 1 % fee: the remainder converts to `50·1/99 = 0` long tokens,
the cost counts as paid and the pool / fee receiver are credited the full fee — accounted holdings
of the short token grow by 50 units that nobody paid. Replayed on the implementation (F-C08b). -/
theorem fee_dust_witness : dustOutcome = some (100000599999950, 100000600000000, 0, 0) := by rfl

/-- flows of one operation of a history (`PSys.stepF`) balance the ledger. -/
theorem ledger_step (W U : Nat) (c : PerpCfg) (s : PSys) (o : POp) :
    ∃ paid dust : Bool → Nat, ∀ t,
      ledger (s.stepF W U c o).1.m t + (s.stepF W U c o).2.out t + paid t
        = ledger s.m t + (s.stepF W U c o).2.inn t + dust t ∧
      paid t ≤ (s.stepF W U c o).2.fund t ∧
      ((s.stepF W U c o).2.short = false → paid t = (s.stepF W U c o).2.fund t) ∧
      ((s.stepF W U c o).2.mixed = false → dust t = 0) := by
  have triv : ∀ s' : PSys, (∀ t, ledger s'.m t = ledger s.m t) →
      ∃ paid dust : Bool → Nat, ∀ t, ledger s'.m t + ({} : Perp.Flow).out t + paid t = ledger s.m t + ({} : Perp.Flow).inn t + dust t ∧
        paid t ≤ ({} : Perp.Flow).fund t ∧ (({} : Perp.Flow).short = false → paid t = ({} : Perp.Flow).fund t) ∧ (({} : Perp.Flow).mixed = false → dust t = 0) :=
    fun s' hs => ⟨fun _ => 0, fun _ => 0, fun t => ⟨by simp [hs t], Nat.le_refl _, fun _ => rfl, fun _ => rfl⟩⟩
  cases o with
  | openPos il cl => simpa [PSys.stepF] using triv { s with ps := s.ps ++ [{ isLong := il, collLong := cl }] } (fun _ => rfl)
  | market m' =>
    simp only [PSys.stepF]
    split
    · rename_i hb
      suffices hh : ∀ t, ledger m' t = ledger s.m t by simpa using triv { s with m := m' } hh
      intro t
      simp only [Bool.and_eq_true] at hb
      have hl := hb.2
      unfold sameLedgerB at hl
      simp only [Bool.and_eq_true, beq_iff_eq] at hl
      obtain ⟨⟨⟨⟨h1, h2⟩, h3⟩, h4⟩, h5⟩ := hl
      unfold ledger; rw [h1, h2, h3, h4, h5]
    · simpa using triv s (fun _ => rfl)
  | inc i coll size pr =>
    simp only [PSys.stepF]
    split
    · simpa using triv s (fun _ => rfl)
    · rename_i p hget
      split
      · rename_i m' p' r hinc
        obtain ⟨l1, l2⟩ := ledger_step_increase hinc
        refine ⟨fun t => tokAmt p.collLong t r.fees.fundAmount, fun _ => 0, fun t => ⟨?_, Nat.le_refl _, fun _ => rfl, fun _ => rfl⟩⟩
        simp only [tokAmt]
        by_cases hc : p.collLong = t
        · simp only [hc, if_true]; rw [← hc]; omega
        · simp only [hc, if_false]
          have : (!p.collLong) = t := by cases hp : p.collLong <;> cases t <;> simp_all
          rw [← this]; omega
      · simpa using triv s (fun _ => rfl)
  | dec i size wd fl pr =>
    simp only [PSys.stepF]
    split
    · simpa using triv s (fun _ => rfl)
    · rename_i p hget
      split
      · rename_i m' p' r hdec
        obtain ⟨paid, dust, h1, h2, _, h4, h5⟩ := ledger_step_decrease hdec
        refine ⟨fun t => tokAmt p.collLong t paid, fun t => tokAmt p.collLong t dust, fun t => ⟨?_, ?_, ?_, ?_⟩⟩
        · have := h5 t
          simp only [tokAmt] at *
          by_cases hc : p.collLong = t <;> by_cases hi : p.isLong = t <;> simp only [hc, hi, if_true, if_false] at * <;> omega
        · simp only [tokAmt]; split <;> omega
        · intro hs; simp only [tokAmt]; rw [h2 hs]
        · intro hm
          have : p.isLong = p.collLong := by simpa using hm
          rw [h4 this]; simp [tokAmt]
      · simpa using triv s (fun _ => rfl)

/-- **ledger over histories**: after any sequence of position openings, increases, decreases
(any flags, failing attempts included) and ledger-neutral market operations, per pool token:
`holdings_final + Σ outputs + collected = holdings_initial + Σ inputs + dust`, where the funding
collected is at most the funding fees charged — exactly them if no insufficient funding payment
was reported — and the dust is zero if no decrease mixed pnl and collateral tokens. -/
theorem ledger_history (W U : Nat) (c : PerpCfg) (ops : List POp) : ∀ s : PSys,
    ∃ paid dust : Bool → Nat, ∀ t,
      ledger (s.runF W U c ops).1.m t + (s.runF W U c ops).2.out t + paid t
        = ledger s.m t + (s.runF W U c ops).2.inn t + dust t ∧
      paid t ≤ (s.runF W U c ops).2.fund t ∧
      ((s.runF W U c ops).2.short = false → paid t = (s.runF W U c ops).2.fund t) ∧
      ((s.runF W U c ops).2.mixed = false → dust t = 0) := by
  induction ops with
  | nil =>
    intro s
    exact ⟨fun _ => 0, fun _ => 0, fun t => ⟨by simp [PSys.runF], Nat.le_refl _, fun _ => rfl, fun _ => rfl⟩⟩
  | cons o os ih =>
    intro s
    obtain ⟨p1, d1, h1⟩ := ledger_step W U c s o
    obtain ⟨p2, d2, h2⟩ := ih (s.stepF W U c o).1
    refine ⟨fun t => p1 t + p2 t, fun t => d1 t + d2 t, fun t => ?_⟩
    obtain ⟨a1, a2, a3, a4⟩ := h1 t
    obtain ⟨b1, b2, b3, b4⟩ := h2 t
    simp only [PSys.runF, Perp.Flow.add]
    refine ⟨by omega, by omega, ?_, ?_⟩
    · intro hs
      simp only [Bool.or_eq_false_iff] at hs
      rw [a3 hs.1, b3 hs.2]
    · intro hm
      simp only [Bool.or_eq_false_iff] at hm
      rw [a4 hm.1, b4 hm.2]

/-- fee-state updates (funding, borrowing) move no tokens. -/
theorem fee_updates_keep_ledger {W U : Nat} {m m' : Market} {rc : RateCfg} {pr : Prices} (il : Bool) :
    (marketUpdateFunding W U m rc pr = .ok m' → ledger m' il = ledger m il) ∧
    (marketUpdateBorrowing W U m rc pr = .ok m' → ledger m' il = ledger m il) := by
  constructor
  · intro h
    unfold marketUpdateFunding at h
    repeat' (split at h)
    all_goals first | (cases h; done) | (cases h; rfl)
  · intro h
    unfold marketUpdateBorrowing at h
    repeat' (split at h)
    all_goals first | (cases h; done) | (cases h; rfl)

/-- **payer indices round up**: the per-size delta charged to the paying side, times the price,
times that side's open interest, covers the funding value (scaled by `adjustment·UNIT`). -/
theorem pack_round_up {W U adj fv oi price d : Nat} (h : packFunding W U adj fv oi price true = some d)
    (hfv : fv ≠ 0) (hoi : oi ≠ 0) : fv * (adj * U) ≤ d * price * oi := by
  unfold packFunding at h
  simp only [hfv, hoi, or_self, if_false, if_true] at h
  split at h
  · cases h
  · rename_i num hn
    have en : num = adj * U := by
      unfold checkedMul toU at hn; split at hn <;> cases hn; rfl
    split at h
    · cases h
    · rename_i per hper
      obtain ⟨h1, _⟩ := C01.mulDivCeil_ceil hper
      obtain ⟨_, _, h2, _⟩ := C01.roundUpDiv_sound h
      subst en
      calc fv * (adj * U) ≤ per * oi := h1
        _ ≤ d * price * oi := Nat.mul_le_mul_right _ h2

/-- **receiver indices round down**: the per-size delta credited to the receiving side never
promises more than the funding value. -/
theorem pack_round_down {W U adj fv oi price d : Nat} (h : packFunding W U adj fv oi price false = some d) :
    d * price * oi ≤ fv * (adj * U) := by
  unfold packFunding at h
  split at h
  · cases h; simp
  · split at h
    · cases h
    · rename_i num hn
      have en : num = adj * U := by
        unfold checkedMul toU at hn; split at hn <;> cases hn; rfl
      simp only [Bool.false_eq_true, if_false] at h
      split at h
      · cases h
      · rename_i per hper
        obtain ⟨h1, _⟩ := C01.mulDiv_floor hper
        unfold checkedDiv at h
        split at h
        · cases h
        · cases h
          subst en
          calc per / price * price * oi ≤ per * oi := Nat.mul_le_mul_right _ (Nat.div_mul_le_self per price)
            _ ≤ fv * (adj * U) := h1

/-- **one funding update is backed**: for the same funding value of a collateral token, what the
receivers can claim per the claimable index never exceeds what the payers owe per the funding
index (both summed over the respective open interest, in `adjustment·UNIT` units of value). -/
theorem funding_backed_single_update_partial {W U adj fv oiPay oiRecv price dPay dClaim : Nat}
    (hp : packFunding W U adj fv oiPay price true = some dPay)
    (hc : packFunding W U adj fv oiRecv price false = some dClaim) (hfv : fv ≠ 0) (hoi : oiPay ≠ 0) :
    dClaim * price * oiRecv ≤ dPay * price * oiPay :=
  Nat.le_trans (pack_round_down hc) (pack_round_up hp hfv hoi)

/-- a position's pending funding amounts: the payer's is rounded UP, the receiver's DOWN (C12's
`pending_funding_nonneg`), so settling never collects less / pays more than the exact share. -/
theorem pending_rounding {W U adj latest snap size r : Nat} :
    (unpackFunding W U adj latest snap size true = some r → size * (latest - snap) ≤ r * (adj * U)) ∧
    (unpackFunding W U adj latest snap size false = some r → r * (adj * U) ≤ size * (latest - snap)) := by
  constructor
  · intro h
    obtain ⟨_, hU, hr⟩ := C12.pending_funding_nonneg h
    simp only [if_true] at hr
    subst hr
    exact (C01.ceil_char _ _ hU).1
  · intro h
    obtain ⟨_, hU, hr⟩ := C12.pending_funding_nonneg h
    simp only [Bool.false_eq_true, if_false] at hr
    subst hr
    exact Nat.div_mul_le_self _ _

/-- **funding is backed** (refined clause, potential argument of DESIGN Appendix E) over histories
of funding updates (either side paying, any funding value and price), settlements with size
changes (increase / decrease / close, paid in full) and position openings, per collateral token:
everything claimed so far plus everything claimable now (integer amounts, rounded down) is covered
by what was collected plus the exact pending payable funding of the positions not yet touched —
all scaled by `adjustment·UNIT`. In particular a deficit `claimed − collected` never exceeds the
pending payable funding (the predicate of known finding F-C08). -/
theorem funding_backed (W U adj : Nat) (ops : List FundOp) :
    (adj * U) * ((FundSys.init.run W U adj ops).claimed + pendClaimInt W U adj (FundSys.init.run W U adj ops).C (FundSys.init.run W U adj ops).pos)
      ≤ (adj * U) * (FundSys.init.run W U adj ops).collected + pendPay (FundSys.init.run W U adj ops).F (FundSys.init.run W U adj ops).pos ∧
    (adj * U) * (FundSys.init.run W U adj ops).claimed
      ≤ (adj * U) * (FundSys.init.run W U adj ops).collected + pendPay (FundSys.init.run W U adj ops).F (FundSys.init.run W U adj ops).pos := by
  obtain ⟨hpot, _⟩ := fund_inv_run W U adj ops _ (fund_inv_init U adj)
  have := pendClaimInt_le W U adj (FundSys.init.run W U adj ops).C (FundSys.init.run W U adj ops).pos
  rw [Nat.mul_add]
  constructor <;> omega

/-- one step of a funding history keeps the potential invariant (any state, not only reachable). -/
theorem funding_backed_step (W U adj : Nat) (s : FundSys) (o : FundOp) (h : s.Inv U adj) : (s.step W U adj o).Inv U adj :=
  fund_inv_step W U adj s o h

/-- **negation of the literal clause** "the funding residual `collected − claimed` never becomes
negative": a long (20 USD) and a short (10 USD, the receiver) are opened with zero funding paid,
funding accrues for one day, then the short submits an empty increase and is credited 10 368 000
claimable short tokens although nothing has been collected yet — the long has not been touched.
Replayed on the implementation (known finding F-C08). -/
theorem claim_before_collect_witness : fOutcome = some (0, 0, 0, 10368000) := by rfl

/-! ### whole-market histories (round 3): one step function, the conjunction of the invariants

`PSys.wstep` (`Gmx.Model.Whole`) runs MIXED histories — deposit, withdrawal, swap, new position,
increase, decrease, liquidation (several positions of several owners, both sides, both collateral
tokens), clock, funding update, borrowing update, impact distribution — with the functions the
stateful `perp` engine runs against the implementation (harness bin `whole`, histories ≤ 200 ops,
oracle recomputing Σ positions independently after every step). `MarketInv` = C07 (open interest
in USD / tokens and collateral sums per side and collateral token = Σ positions, `size = 0 ↔
tokens = 0`) ∧ C13 (total borrowing of each side = Σ ⌊size · factor snapshot / UNIT⌋); `IdxLe` =
C12/C13 monotonicity of the ten indices. Token-ledger conservation (C08) over such histories:
position operations by `ledger_step_increase` / `ledger_step_decrease` (the same step functions),
clock / fee-state / distribution operations by `whole_ledger_nonflow_ops`, deposit / withdrawal /
swap from mkt-liq's `DepositFacts` / `WithdrawFacts` / `ApplyFacts` (round 3b): `whole_ledger` holds
for EVERY operation and `run_preserves_ledger` for every history. `funding_backed` over whole histories still needs
`psys_simulates_fundsys` (see above). -/

/-- **every operation of a whole-market history preserves `MarketInv`** (successful or failing). -/
theorem step_preserves_MarketInv (W U : Nat) (c : PerpCfg) (rc : RateCfg) (s : PSys) (o : WOp) (h : MarketInv U s) :
    MarketInv U (s.wstep W U c rc o) :=
  Lem.step_preserves_MarketInv W U c rc s o h

/-- **after any mixed history** the invariant holds (induction on the history). -/
theorem run_preserves_MarketInv (W U : Nat) (c : PerpCfg) (rc : RateCfg) (ops : List WOp) (s : PSys) (h : MarketInv U s) :
    MarketInv U (s.wrun W U c rc ops) :=
  Lem.run_preserves_MarketInv W U c rc ops s h

/-- the invariant holds initially (no positions, empty pools). -/
theorem MarketInv_init (U : Nat) (cfg : MarketConfig) : MarketInv U ⟨{ cfg := cfg }, []⟩ :=
  ⟨C07.inv_init_empty cfg, fun il => by cases il <;> rfl⟩

/-- **no operation lowers an index**: funding / claimable funding amounts per size (C12) and
cumulative borrowing factors (C13) along every whole-market history. -/
theorem run_indices_monotone (W U : Nat) (c : PerpCfg) (rc : RateCfg) (ops : List WOp) (s : PSys) :
    IdxLe s.m (s.wrun W U c rc ops).m :=
  Lem.run_indices_monotone W U c rc ops s

/-- clock, fee-state updates, impact distribution and opening an empty position account move no
tokens: the accounted holdings are unchanged. -/
theorem whole_ledger_nonflow_ops (W U : Nat) (c : PerpCfg) (rc : RateCfg) (s : PSys) (o : WOp) (t : Bool)
    (ho : (∃ n, o = .tick n) ∨ (∃ pr, o = .updFunding pr) ∨ (∃ pr, o = .updBorrowing pr) ∨ o = .distribute ∨ (∃ a b, o = .openPos a b)) :
    ledger (s.wstep W U c rc o).m t = ledger s.m t := by
  rcases ho with ⟨n, rfl⟩ | ⟨pr, rfl⟩ | ⟨pr, rfl⟩ | rfl | ⟨a, b, rfl⟩
  · rfl
  · simp only [PSys.wstep, wMarketOp, Except.toOption]
    split
    · rename_i m' hm
      split at hm
      · rename_i hu; cases hm; exact (fee_updates_keep_ledger t).1 hu
      · cases hm
    · rfl
  · simp only [PSys.wstep, wMarketOp, Except.toOption]
    split
    · rename_i m' hm
      split at hm
      · rename_i hu; cases hm; exact (fee_updates_keep_ledger t).2 hu
      · cases hm
    · rfl
  · simp only [PSys.wstep, wMarketOp]
    split
    · rename_i m' hm
      split at hm
      · rename_i hd
        cases hm
        unfold distributePositionImpact at hd
        simp only at hd
        repeat' (split at hd)
        all_goals first | (cases hd; done) | (cases hd; rfl)
      · cases hm
    · rfl
  · rfl

/-- the flow-recording step is the step: the invariants above speak about the same states. -/
theorem wstepF_state (W U : Nat) (c : PerpCfg) (rc : RateCfg) (s : PSys) (o : WOp) :
    (s.wstepF W U c rc o).1 = s.wstep W U c rc o := by
  cases o with
  | openPos il cl => rfl
  | inc i coll size pr =>
    simp only [PSys.wstepF, PSys.wstep, PSys.stepF, PSys.step]
    cases s.ps[i]? with
    | none => rfl
    | some p =>
      simp only
      cases increase W U s.m c pr p coll size with
      | error e => rfl
      | ok v => rfl
  | dec i size wd fl pr =>
    simp only [PSys.wstepF, PSys.wstep, PSys.stepF, PSys.step]
    cases s.ps[i]? with
    | none => rfl
    | some p =>
      simp only
      cases decrease W U s.m c pr p size wd fl with
      | error e => rfl
      | ok v => rfl
  | deposit l sh pr =>
    simp only [PSys.wstepF, PSys.wstep, wMarketOpF, wMarketOp]
    cases perpInOf W U s.m rc pr with
    | none => rfl
    | some pin =>
      simp only
      cases hd : deposit W U s.m ⟨l, sh, pr⟩ pin with
      | mk m' e => cases e <;> rfl
  | withdraw a pr =>
    simp only [PSys.wstepF, PSys.wstep, wMarketOpF, wMarketOp]
    cases perpInOf W U s.m rc pr with
    | none => rfl
    | some pin =>
      simp only
      cases hd : withdraw W U s.m ⟨a, pr⟩ pin with
      | mk m' e => cases e <;> rfl
  | swap il a pr =>
    simp only [PSys.wstepF, PSys.wstep, wMarketOpF, wMarketOp]
    cases swap W U s.m ⟨il, a, pr⟩ with
    | error e => rfl
    | ok v => rfl
  | tick n => rfl
  | updFunding pr =>
    simp only [PSys.wstepF, PSys.wstep, wMarketOpF]
    cases wMarketOp W U rc s.m (.updFunding pr) <;> rfl
  | updBorrowing pr =>
    simp only [PSys.wstepF, PSys.wstep, wMarketOpF]
    cases wMarketOp W U rc s.m (.updBorrowing pr) <;> rfl
  | distribute =>
    simp only [PSys.wstepF, PSys.wstep, wMarketOpF]
    cases wMarketOp W U rc s.m .distribute <;> rfl

/-- **token-ledger step of EVERY whole-market operation** (`liquidity_ops_ledger` closed): accounted
holdings after + tokens out + funding fee collected = accounted holdings before + tokens in
(+ fee dust only for decreases with pnl token ≠ collateral token) — deposit (+ both amounts),
withdrawal (− both outputs), swap (+ amount in, − amount out), increase, decrease / liquidation,
and no change for the clock, fee-state and distribution operations. -/
theorem whole_ledger (W U : Nat) (c : PerpCfg) (rc : RateCfg) (s : PSys) (o : WOp) :
    ∃ paid dust : Bool → Nat, ∀ t,
      ledger (s.wstepF W U c rc o).1.m t + (s.wstepF W U c rc o).2.out t + paid t
        = ledger s.m t + (s.wstepF W U c rc o).2.inn t + dust t ∧
      paid t ≤ (s.wstepF W U c rc o).2.fund t ∧
      ((s.wstepF W U c rc o).2.short = false → paid t = (s.wstepF W U c rc o).2.fund t) ∧
      ((s.wstepF W U c rc o).2.mixed = false → dust t = 0) := by
  have plain : ∀ (s' : PSys) (f : Perp.Flow), f.fund = (fun _ => 0) → (∀ t, ledger s'.m t + f.out t = ledger s.m t + f.inn t) →
      ∃ paid dust : Bool → Nat, ∀ t, ledger s'.m t + f.out t + paid t = ledger s.m t + f.inn t + dust t ∧
        paid t ≤ f.fund t ∧ (f.short = false → paid t = f.fund t) ∧ (f.mixed = false → dust t = 0) := by
    intro s' f hf hl
    refine ⟨fun _ => 0, fun _ => 0, fun t => ⟨by have := hl t; omega, by rw [hf]; exact Nat.le_refl _, fun _ => by rw [hf], fun _ => rfl⟩⟩
  have nonflow : ∀ o', ((∃ n, o' = WOp.tick n) ∨ (∃ pr, o' = WOp.updFunding pr) ∨ (∃ pr, o' = WOp.updBorrowing pr) ∨ o' = WOp.distribute ∨
      (∃ a b, o' = WOp.openPos a b)) → ∀ m', wMarketOp W U rc s.m o' = some m' → ∀ t, ledger m' t = ledger s.m t := by
    intro o' ho m' hm t
    have := whole_ledger_nonflow_ops W U c rc s o' t ho
    rcases ho with ⟨n, rfl⟩ | ⟨pr, rfl⟩ | ⟨pr, rfl⟩ | rfl | ⟨a, b, rfl⟩ <;> simp only [PSys.wstep, hm] at this
    all_goals first | exact this | (simp [wMarketOp] at hm)
  have viaMap : ∀ o', ((∃ n, o' = WOp.tick n) ∨ (∃ pr, o' = WOp.updFunding pr) ∨ (∃ pr, o' = WOp.updBorrowing pr) ∨ o' = WOp.distribute ∨
      (∃ a b, o' = WOp.openPos a b)) →
      ∃ paid dust : Bool → Nat, ∀ t,
        ledger (match (wMarketOp W U rc s.m o').map (fun m' => (m', ({} : Perp.Flow))) with | some (m', _) => ({ s with m := m' } : PSys) | none => s).m t +
          (match (wMarketOp W U rc s.m o').map (fun m' => (m', ({} : Perp.Flow))) with | some (_, f) => f | none => {}).out t + paid t
          = ledger s.m t + (match (wMarketOp W U rc s.m o').map (fun m' => (m', ({} : Perp.Flow))) with | some (_, f) => f | none => {}).inn t + dust t ∧
        paid t ≤ (match (wMarketOp W U rc s.m o').map (fun m' => (m', ({} : Perp.Flow))) with | some (_, f) => f | none => {}).fund t ∧
        ((match (wMarketOp W U rc s.m o').map (fun m' => (m', ({} : Perp.Flow))) with | some (_, f) => f | none => {}).short = false →
          paid t = (match (wMarketOp W U rc s.m o').map (fun m' => (m', ({} : Perp.Flow))) with | some (_, f) => f | none => {}).fund t) ∧
        ((match (wMarketOp W U rc s.m o').map (fun m' => (m', ({} : Perp.Flow))) with | some (_, f) => f | none => {}).mixed = false → dust t = 0) := by
    intro o' ho
    cases hm : wMarketOp W U rc s.m o' with
    | none => exact plain s {} rfl (fun _ => rfl)
    | some m' => exact plain { s with m := m' } {} rfl (fun t => by simp [nonflow o' ho m' hm t])
  cases o with
  | openPos il cl => exact ledger_step W U c s (.openPos il cl)
  | inc i coll size pr => exact ledger_step W U c s (.inc i coll size pr)
  | dec i size wd fl pr => exact ledger_step W U c s (.dec i size wd fl pr)
  | deposit l sh pr =>
    simp only [PSys.wstepF, wMarketOpF]
    cases perpInOf W U s.m rc pr with
    | none => exact plain s {} rfl (fun _ => rfl)
    | some pin =>
      simp only
      cases hd : deposit W U s.m ⟨l, sh, pr⟩ pin with
      | mk m' e =>
        cases e with
        | error x => exact plain s {} rfl (fun _ => rfl)
        | ok tr =>
          exact plain { s with m := m' } { inn := fun t => if t then l else sh } rfl
            (fun t => by have := Lem.deposit_ledger hd t; simp only at this ⊢; omega)
  | withdraw a pr =>
    simp only [PSys.wstepF, wMarketOpF]
    cases perpInOf W U s.m rc pr with
    | none => exact plain s {} rfl (fun _ => rfl)
    | some pin =>
      simp only
      cases hd : withdraw W U s.m ⟨a, pr⟩ pin with
      | mk m' e =>
        cases e with
        | error x => exact plain s {} rfl (fun _ => rfl)
        | ok r =>
          exact plain { s with m := m' } { out := fun t => if t then r.longOut else r.shortOut } rfl
            (fun t => by have := Lem.withdraw_ledger hd t; simp only at this ⊢; omega)
  | swap il a pr =>
    simp only [PSys.wstepF, wMarketOpF]
    cases hd : swap W U s.m ⟨il, a, pr⟩ with
    | error x => exact plain s {} rfl (fun _ => rfl)
    | ok v =>
      obtain ⟨m', cc⟩ := v
      exact plain { s with m := m' } { inn := fun t => tokAmt il t a, out := fun t => tokAmt (!il) t cc.tokenOut } rfl
        (fun t => by have := Lem.swap_ledger hd t; simp only at this ⊢; omega)
  | tick n => exact viaMap (.tick n) (Or.inl ⟨n, rfl⟩)
  | updFunding pr =>
    simp only [PSys.wstepF, wMarketOpF]
    cases hm : wMarketOp W U rc s.m (.updFunding pr) with
    | none => exact plain s {} rfl (fun _ => rfl)
    | some m' =>
      exact plain { s with m := m' } {} rfl
        (fun t => by simp [nonflow (.updFunding pr) (Or.inr (Or.inl ⟨pr, rfl⟩)) m' hm t])
  | updBorrowing pr =>
    simp only [PSys.wstepF, wMarketOpF]
    cases hm : wMarketOp W U rc s.m (.updBorrowing pr) with
    | none => exact plain s {} rfl (fun _ => rfl)
    | some m' =>
      exact plain { s with m := m' } {} rfl
        (fun t => by simp [nonflow (.updBorrowing pr) (Or.inr (Or.inr (Or.inl ⟨pr, rfl⟩))) m' hm t])
  | distribute =>
    simp only [PSys.wstepF, wMarketOpF]
    cases hm : wMarketOp W U rc s.m .distribute with
    | none => exact plain s {} rfl (fun _ => rfl)
    | some m' =>
      exact plain { s with m := m' } {} rfl
        (fun t => by simp [nonflow .distribute (Or.inr (Or.inr (Or.inr (Or.inl rfl)))) m' hm t])

/-- **token-ledger conservation over every whole-market history** (induction): accounted holdings
after + all tokens paid out + funding fees collected = accounted holdings before + all tokens
paid in (+ fee dust of mixed-token decreases). -/
theorem run_preserves_ledger (W U : Nat) (c : PerpCfg) (rc : RateCfg) (ops : List WOp) : ∀ s : PSys,
    ∃ paid dust : Bool → Nat, ∀ t,
      ledger (s.wrunF W U c rc ops).1.m t + (s.wrunF W U c rc ops).2.out t + paid t
        = ledger s.m t + (s.wrunF W U c rc ops).2.inn t + dust t ∧
      paid t ≤ (s.wrunF W U c rc ops).2.fund t ∧
      ((s.wrunF W U c rc ops).2.short = false → paid t = (s.wrunF W U c rc ops).2.fund t) ∧
      ((s.wrunF W U c rc ops).2.mixed = false → dust t = 0) := by
  induction ops with
  | nil =>
    intro s
    exact ⟨fun _ => 0, fun _ => 0, fun t => ⟨by simp [PSys.wrunF], Nat.le_refl _, fun _ => rfl, fun _ => rfl⟩⟩
  | cons o os ih =>
    intro s
    obtain ⟨p1, d1, h1⟩ := whole_ledger W U c rc s o
    obtain ⟨p2, d2, h2⟩ := ih (s.wstepF W U c rc o).1
    refine ⟨fun t => p1 t + p2 t, fun t => d1 t + d2 t, fun t => ?_⟩
    obtain ⟨a1, a2, a3, a4⟩ := h1 t
    obtain ⟨b1, b2, b3, b4⟩ := h2 t
    simp only [PSys.wrunF, Perp.Flow.add]
    refine ⟨by omega, by omega, ?_, ?_⟩
    · intro hs
      simp only [Bool.or_eq_false_iff] at hs
      rw [a3 hs.1, b3 hs.2]
    · intro hm
      simp only [Bool.or_eq_false_iff] at hm
      rw [a4 hm.1, b4 hm.2]

/-! ### pieces of `psys_simulates_fundsys`

Every numeric identification between the faithful model and the `FundSys` abstraction of
`funding_backed` is proved below: the funding update (`funding_update_is_fundsys_update`, with
`funding_oi_is_sum_of_positions` under `MarketInv`), what `increase` / `decrease` charge and credit
(`increase_is_fundsys_settle`, `decrease_is_fundsys_settle`: the report's funding fee and claimable
amounts are the pending amounts for the OLD size; `position_fees_are_fundsys_settle`), and the
snapshot refresh (`increase_refreshes_snapshots`, `decrease_refreshes_snapshots`).
STILL MISSING — the list-level composition only: a projection `fproj k : PSys → FundSys` (per
collateral token `k`, with ghost `collected` / `claimed` summed from the reports) and
`fproj k (s.wstep o) = (fproj k s).step (op)` for successful steps without `fundingShort`. Two
details make the literal `FundSys` unsuitable as the image and must be adjusted first: `settle`
refreshes `f` also for positions whose collateral is not `k` (the model refreshes the position's
own-collateral snapshot) and `openPos` starts with snapshots = indices (the model starts at 0 and
synchronises at the first increase) — both irrelevant to `FundSys.Inv` (`f` is read only for
`hasCollK`, and size 0 makes the snapshot irrelevant) but they break state EQUALITY. Until then
`funding_backed` is a theorem about the abstraction; over faithful histories the invariant is
checked by the harness oracle after every step (bins `c08`, `whole`). -/

/-- a funding update moves, per collateral token, exactly what `FundSys.update` moves. -/
theorem funding_update_is_fundsys_update {W U adj : Nat} {p : FundingParams} {st : FundingState} {dur pl ps : Nat}
    {r : FundingReport} (h : nextFundingAmounts W U adj p st dur pl ps = .ok r) :
    (r.dF = Quad.zero ∧ r.dC = Quad.zero) ∨
    ∃ lps fvL fvS recvOI, checkedAdd W (st.oi.get (!lps) true) (st.oi.get (!lps) false) = some recvOI ∧
      packFunding W U adj fvL (st.oi.get lps true) pl true = some (r.dF.get lps true) ∧
      packFunding W U adj fvS (st.oi.get lps false) ps true = some (r.dF.get lps false) ∧
      r.dF.get (!lps) true = 0 ∧ r.dF.get (!lps) false = 0 ∧
      packFunding W U adj fvL recvOI pl false = some (r.dC.get (!lps) true) ∧
      packFunding W U adj fvS recvOI ps false = some (r.dC.get (!lps) false) ∧
      r.dC.get lps true = 0 ∧ r.dC.get lps false = 0 :=
  Lem.nextFundingAmounts_spec h

/-- the funding fee charged and the claimable amounts credited by a position operation are what
`FundSys.settle` pays and claims (pending amounts between indices and snapshots, old size). -/
theorem position_fees_are_fundsys_settle {W U : Nat} {m : Market} {c : PerpCfg} {p : Pos} {cp : Price} {sd : Nat}
    {bc : BalanceChange} {isLiq : Bool} {f : PosFees} (h : positionFees W U m c p cp sd bc isLiq = .ok f) :
    unpackFunding W U m.cfg.fundingAdjustment ((fapsPool m p.isLong).amount p.collLong) p.fIdx p.sizeUsd true = some f.fundAmount ∧
    unpackFunding W U m.cfg.fundingAdjustment (cfapsPool m p.isLong).long p.cIdxL p.sizeUsd false = some f.claimL ∧
    unpackFunding W U m.cfg.fundingAdjustment (cfapsPool m p.isLong).short p.cIdxS p.sizeUsd false = some f.claimS :=
  Lem.positionFees_funding h

/-- a decrease charges and credits exactly what `FundSys.settle` pays and claims (pre-state
indices, snapshots and size). -/
theorem decrease_is_fundsys_settle {W U : Nat} {m m' : Market} {c : PerpCfg} {pr : Prices} {p p' : Pos} {sd0 wd : Nat}
    {fl : DecreaseFlags} {r : DecreaseReport} (h : decrease W U m c pr p sd0 wd fl = .ok (m', p', r)) :
    unpackFunding W U m.cfg.fundingAdjustment ((fapsPool m p.isLong).amount p.collLong) p.fIdx p.sizeUsd true = some r.fees.fundAmount ∧
    unpackFunding W U m.cfg.fundingAdjustment (cfapsPool m p.isLong).long p.cIdxL p.sizeUsd false = some r.fees.claimL ∧
    unpackFunding W U m.cfg.fundingAdjustment (cfapsPool m p.isLong).short p.cIdxS p.sizeUsd false = some r.fees.claimS :=
  Lem.decrease_is_settle h

/-- an increase charges and credits exactly what `FundSys.settle` pays and claims, on the
initialised position (an empty position is first synchronised, so it pays and claims nothing). -/
theorem increase_is_fundsys_settle {W U : Nat} {m m' : Market} {c : PerpCfg} {pr : Prices} {p0 p' : Pos} {ci sd : Nat}
    {r : IncreaseReport} (h : increase W U m c pr p0 ci sd = .ok (m', p', r)) :
    unpackFunding W U m.cfg.fundingAdjustment ((fapsPool m p0.isLong).amount p0.collLong) (initIfEmpty p0 m).fIdx p0.sizeUsd true = some r.fees.fundAmount ∧
    unpackFunding W U m.cfg.fundingAdjustment (cfapsPool m p0.isLong).long (initIfEmpty p0 m).cIdxL p0.sizeUsd false = some r.fees.claimL ∧
    unpackFunding W U m.cfg.fundingAdjustment (cfapsPool m p0.isLong).short (initIfEmpty p0 m).cIdxS p0.sizeUsd false = some r.fees.claimS :=
  Lem.increase_is_settle h

/-- after a decrease the position's funding snapshots equal the market's indices (also for a
collateral-only decrease, size delta 0 — seeded change C08-2 is the negation of the increase
counterpart). -/
theorem decrease_refreshes_snapshots {W U : Nat} {m m' : Market} {c : PerpCfg} {pr : Prices} {p p' : Pos} {sd0 wd : Nat}
    {fl : DecreaseFlags} {r : DecreaseReport} (h : decrease W U m c pr p sd0 wd fl = .ok (m', p', r)) :
    p'.fIdx = (fapsPool m p.isLong).amount p.collLong ∧ p'.cIdxL = (cfapsPool m p.isLong).long ∧
    p'.cIdxS = (cfapsPool m p.isLong).short :=
  Lem.decrease_snap h

/-- after an increase (any size delta, including 0) the snapshots equal the indices. -/
theorem increase_refreshes_snapshots {W U : Nat} {m m' : Market} {c : PerpCfg} {pr : Prices} {p p' : Pos} {ci sd : Nat}
    {r : IncreaseReport} (h : increaseCore W U m c pr p ci sd = .ok (m', p', r)) :
    p'.fIdx = (fapsPool m p.isLong).amount p.collLong ∧ p'.cIdxL = (cfapsPool m p.isLong).long ∧
    p'.cIdxS = (cfapsPool m p.isLong).short :=
  Lem.increaseCore_snap h

/-- under `MarketInv` the open interest the funding update reads is Σ positions (`oiPayK`, `oiSide`). -/
theorem funding_oi_is_sum_of_positions {U : Nat} {s : PSys} (h : MarketInv U s) (il cl : Bool) :
    (fundingStateOf s.m).oi.get il cl = sumKey (·.sizeUsd) il cl s.ps :=
  Lem.oi_is_sum h il cl

/-! ### Non-vacuity -/
example : packFunding 64 (10 ^ 9) 10000 10368000 (20 * 10 ^ 9) 1 true = some 5184000000 := by rfl
example : packFunding 64 (10 ^ 9) 10000 10368000 (10 * 10 ^ 9) 1 false = some 10368000000 := by rfl

/-! #### audit additions: witnesses for the remaining hypotheses

(`ledger_step_increase`, `ledger_step_decrease` and the funding half of `fee_updates_keep_ledger` are
witnessed by `fee_dust_witness` / `claim_before_collect_witness`: `dustOutcome` / `fOutcome` are `some _`
only if every `increase`, `decrease`, `marketUpdateFunding` in them returned `.ok`.) -/
/-- `pay_conserves`: a cost of 18 paid from output 5, then collateral 10 (3 missing are then taken from the
secondary output, converted at the prices): `(out, rem, sec after; paid collateral, paid secondary, left)`;
and a cost that cannot be paid in full (1400 left over). -/
example : (match doPayForCost 64 ⟨wPrices, false, true, false⟩ { m := wMarket, out := 5, sec := 300, rem := 10 } 18 with
  | some (s1, pc, ps, left) => [s1.out, s1.rem, s1.sec, pc, ps, left] | none => []) = [0, 0, 300, 15, 0, 0] := by decide +kernel
example : (match doPayForCost 64 ⟨wPrices, false, true, false⟩ { m := wMarket, out := 5, sec := 3, rem := 10 } 1800 with
  | some (s1, pc, ps, left) => [s1.out, s1.rem, s1.sec, pc, ps, left] | none => []) = [0, 0, 0, 15, 3, 1400] := by decide +kernel
/-- `funding_backed_single_update_partial` instantiated on the two `packFunding` examples below (same
funding value 10 368 000, price 1; payers' OI 20 USD, receivers' OI 10 USD): claimable ≤ payable, here equal. -/
example : 10368000000 * 1 * (10 * 10 ^ 9) ≤ 5184000000 * 1 * (20 * 10 ^ 9) :=
  funding_backed_single_update_partial (W := 64) (U := 10 ^ 9) (adj := 10000) (fv := 10368000) (by rfl) (by rfl) (by decide) (by decide)
/-- `pending_rounding`: an index difference that does not divide: the payer owes 10 368 001 (rounded up),
the receiver may claim 10 368 000 (rounded down). -/
example : unpackFunding 64 (10 ^ 9) 10000 5184000007 0 (20 * 10 ^ 9) true = some 10368001 ∧
    unpackFunding 64 (10 ^ 9) 10000 5184000007 0 (20 * 10 ^ 9) false = some 10368000 := by decide +kernel
/-- `funding_backed` / `funding_backed_step` on a concrete non-empty `FundSys` history (the F-C08 shape):
a long and a short opened, an update with the long side paying, the SHORT settles first: claimed
10 368 000 > collected 0, covered by the pending payable funding; a second update with a remainder
(pending claimable, integer, 259), and a settle of a non-existing position (no-op). -/
example : (fun s : FundSys => [s.claimed, s.collected, pendPay s.F s.pos, pendClaimInt 64 (10 ^ 9) 10000 s.C s.pos, s.F true, s.C false])
    (FundSys.init.run 64 (10 ^ 9) 10000 [.openPos true true, .openPos false true, .settle 0 (20 * 10 ^ 9), .settle 1 (10 * 10 ^ 9),
      .update true 10368000 1, .settle 1 (10 * 10 ^ 9), .update true 777 3, .settle 7 1])
    = [10368000, 0, 103682590000000000000, 259, 5184129500, 10368259000] := by decide +kernel
/-- the invariant of `funding_backed_step` on that non-initial reachable state. -/
example : (FundSys.init.run 64 (10 ^ 9) 10000 [.openPos true true, .openPos false true, .settle 0 (20 * 10 ^ 9),
      .settle 1 (10 * 10 ^ 9), .update true 10368000 1, .settle 1 (10 * 10 ^ 9)]).Inv (10 ^ 9) 10000 :=
  fund_inv_run _ _ _ _ _ (fund_inv_init _ _)
/-- `ledger_history` on a concrete position history (open, increase with 3·10⁹ short tokens, partial
decrease withdrawing 10⁹, full close at a profit paid in LONG tokens — a mixed-token decrease):
`[ledger before, after, tokens in, tokens out]` for the short token and for the long token;
`10¹⁴ + 3·10⁹ = 100 000 400 000 000 + 2.6·10⁹` and `10¹² = 999 990 909 091 + 9 090 909`. -/
example : (fun x : PSys × Perp.Flow => ([ledger x.1.m false, x.2.inn false, x.2.out false, ledger x.1.m true, x.2.inn true, x.2.out true,
      x.2.fund false], x.2.short, x.2.mixed))
    ((PSys.mk { cfg := wCfg, primary := ⟨10 ^ 12, 10 ^ 14⟩ } []).runF 64 (10 ^ 9) wPerp
      [.openPos true false, .inc 0 (3 * 10 ^ 9) (20 * 10 ^ 9) wPrices, .dec 0 (10 * 10 ^ 9) (10 ^ 9) {} wPrices,
       .dec 0 (10 * 10 ^ 9) 0 {} ⟨⟨110, 110⟩, ⟨110, 110⟩, ⟨1, 1⟩⟩])
    = ([100000400000000, 3000000000, 2600000000, 999990909091, 0, 9090909, 0], false, true) := by decide +kernel
/-- `run_preserves_MarketInv`, `run_preserves_ledger`, `whole_ledger`, `whole_ledger_nonflow_ops`,
`run_indices_monotone`, `funding_oi_is_sum_of_positions` on a concrete MIXED history from the empty market:
deposit, two positions (long / short), funding and borrowing updates a day apart (the funding index of the
longs and the claimable index of the shorts move), partial decrease, swap, withdrawal, distribution, an empty
increase that collects the short's claimable funding. Positions `(size, tokens, collateral)`, supply, the two
indices, `[ledger long, ledger short, in long, in short, out long, out short, funding collected (short token)]`:
`1 000 000 095 000 + 5 000 = 0 + 1 000 000 100 000` and
`100 005 979 131 999 + 10 500 001 + 10 368 000 = 0 + 100 006 000 000 000`. -/
example : (fun x : PSys × Perp.Flow => (x.1.ps.map (fun p => (p.sizeUsd, p.sizeTokens, p.collateral)), x.1.m.supply, x.1.m.fapsL.short,
      x.1.m.cfapsS.short, [ledger x.1.m true, ledger x.1.m false, x.2.inn true, x.2.inn false, x.2.out true, x.2.out false, x.2.fund false]))
    ((PSys.mk { cfg := wCfg } []).wrunF 64 (10 ^ 9) wPerp ⟨⟨10 ^ 9, 20, 0, 0, 10, 0, 0, 0⟩, ⟨true, 10 ^ 9, true⟩, ⟨10 ^ 9, 10, 0, 0, 0, 10 ^ 18⟩, ⟨10 ^ 9, 10, 0, 0, 0, 10 ^ 18⟩⟩
      [.deposit (10 ^ 12) (10 ^ 14) wPrices, .openPos true false, .inc 0 (3 * 10 ^ 9) (20 * 10 ^ 9) wPrices,
       .openPos false false, .inc 1 (3 * 10 ^ 9) (10 * 10 ^ 9) wPrices, .updFunding wPrices, .updBorrowing wPrices,
       .tick 86400, .updFunding wPrices, .updBorrowing wPrices, .dec 0 (10 * 10 ^ 9) 0 {} wPrices, .swap true 100000 wPrices,
       .withdraw 1000000 wPrices, .distribute, .inc 1 0 0 wPrices])
    = ([(10000000000, 100000000, 2689632000), (10000000000, 100000000, 2900000000)], 199999999000000, 5184000000, 10368000000,
       [1000000095000, 100005979131999, 1000000100000, 100006000000000, 5000, 10500001, 10368000]) := by decide +kernel
/-- `MarketInv` on that reachable state, by the theorems themselves (premise `MarketInv_init`). -/
example : MarketInv (10 ^ 9) ((PSys.mk { cfg := wCfg } []).wrun 64 (10 ^ 9) wPerp ⟨⟨10 ^ 9, 20, 0, 0, 10, 0, 0, 0⟩, ⟨true, 10 ^ 9, true⟩, ⟨10 ^ 9, 10, 0, 0, 0, 10 ^ 18⟩, ⟨10 ^ 9, 10, 0, 0, 0, 10 ^ 18⟩⟩
      [.deposit (10 ^ 12) (10 ^ 14) wPrices, .openPos true false, .inc 0 (3 * 10 ^ 9) (20 * 10 ^ 9) wPrices,
       .openPos false false, .inc 1 (3 * 10 ^ 9) (10 * 10 ^ 9) wPrices, .updFunding wPrices, .updBorrowing wPrices,
       .tick 86400, .updFunding wPrices, .updBorrowing wPrices, .dec 0 (10 * 10 ^ 9) 0 {} wPrices, .swap true 100000 wPrices,
       .withdraw 1000000 wPrices, .distribute, .inc 1 0 0 wPrices]) :=
  run_preserves_MarketInv _ _ _ _ _ _ (MarketInv_init _ _)
/-- `funding_update_is_fundsys_update`: a funding update that moves indices (longs 20 USD pay, shorts 10 USD
receive, one day): second disjunct, `dF` of (long, short token) and `dC` of (short, short token) non-zero. -/
example : nextFundingAmounts 64 (10 ^ 9) 10000 ⟨10 ^ 9, 20, 0, 0, 10, 0, 0, 0⟩
      ⟨⟨0, 20 * 10 ^ 9, 0, 10 * 10 ^ 9⟩, ⟨0, 0, 0, 0⟩, ⟨0, 0, 0, 0⟩, 0⟩ 86400 100 1
    = .ok ⟨0, ⟨0, 5184000000, 0, 0⟩, ⟨0, 0, 0, 10368000000⟩⟩ := by decide +kernel
/-- `position_fees_are_fundsys_settle`: `positionFees` succeeds with a non-zero pending funding fee. -/
example : (match positionFees 64 (10 ^ 9) { wMarket with fapsL := ⟨0, 5184000000⟩ } wPerp wPos ⟨1, 1⟩ (10 * 10 ^ 9) .worsened false with
  | .ok f => some (f.fundAmount, f.claimL, f.claimS) | _ => none) = some (10368000, 0, 0) := by decide +kernel

end Gmx.C08
