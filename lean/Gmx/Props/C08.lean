import Gmx.Lemmas.PerpLedger
import Gmx.Props.C12
/-!
# C08 — market token accounting is conserved and funding payouts stay backed

`ledger m token = liquidity + swap impact + claimable fees + collateral sums` of a pool token.
Statements are about the faithful position model `Gmx.Model.Perp` (tied to the implementation
by the stateful `perp` engine, whose harness additionally checks the ledger identity and the
refined funding invariant after EVERY operation of its histories).

Proved here: the ledger step of an increase; conservation inside the collateral processor's
payment routine; fee-state updates do not move the ledger; the packing of funding indices
rounds the payer up and the receiver down, so one funding update never promises more than it
charges; the literal clause "collected − claimed ≥ 0" is false (`claim_before_collect_witness`,
known finding F-C08). NOT proved in Lean (checked by the harness oracle only): the ledger step
of a decrease through all collateral-processor branches, and the history-level potential
argument for the refined invariant (DESIGN Appendix E).
-/
namespace Gmx.C08
open Gmx Gmx.Perp Gmx.Lem

/-- **ledger step of an increase**: accounted holdings of the collateral token grow by the tokens
paid in minus the funding fee collected; the other token is untouched. -/
theorem ledger_step_increase {W U : Nat} {m m' : Market} {c : PerpCfg} {pr : Prices} {p p' : Pos} {ci sd : Nat}
    {r : IncreaseReport} (h : increase W U m c pr p ci sd = .ok (m', p', r)) :
    ledger m' p.collLong + r.fees.fundAmount = ledger m p.collLong + ci ∧
    ledger m' (!p.collLong) = ledger m (!p.collLong) := by
  unfold increase at h
  split at h
  · cases h
  · have := increaseCore_ledger h
    have e : (initIfEmpty p m).collLong = p.collLong := by unfold initIfEmpty; split <;> rfl
    rw [e] at this
    exact this

/-- **the payment routine conserves amounts**: a cost is paid from the output amount, then the
collateral, then the secondary output; what leaves them is exactly what is reported as paid. -/
theorem pay_conserves {W : Nat} {x : PCtx} {s s1 : PState} {cost pc ps left : Nat}
    (h : doPayForCost W x s cost = some (s1, pc, ps, left)) :
    s1.out + s1.rem + pc = s.out + s.rem ∧ s1.sec + ps = s.sec ∧ s1.m = s.m ∧
    s1.holdOut = s.holdOut ∧ s1.holdSec = s.holdSec ∧ s1.userOut = s.userOut ∧ s1.userSec = s.userSec := by
  unfold doPayForCost at h
  split at h
  · cases h
  · rename_i o r sc pc' ps' left' hp
    cases h
    obtain ⟨a, b, _, _⟩ := payAmounts_conserves hp
    exact ⟨a, b, rfl, rfl, rfl, rfl, rfl⟩

/-- fee-state updates (funding, borrowing) move no tokens. -/
theorem fee_updates_keep_ledger {W U : Nat} {m m' : Market} {rc : RateCfg} {pr : Prices} (il : Bool) :
    (marketUpdateFunding W U m rc pr = .ok m' → ledger m' il = ledger m il) ∧
    (marketUpdateBorrowing W U m rc pr = .ok m' → ledger m' il = ledger m il) := by
  constructor
  · intro h
    unfold marketUpdateFunding at h
    repeat' (split at h)
    all_goals first | (cases h; done) | (cases h; rfl)
  · intro h
    unfold marketUpdateBorrowing at h
    repeat' (split at h)
    all_goals first | (cases h; done) | (cases h; rfl)

/-- **payer indices round up**: the per-size delta charged to the paying side, times the price,
times that side's open interest, covers the funding value (scaled by `adjustment·UNIT`). -/
theorem pack_round_up {W U adj fv oi price d : Nat} (h : packFunding W U adj fv oi price true = some d)
    (hfv : fv ≠ 0) (hoi : oi ≠ 0) : fv * (adj * U) ≤ d * price * oi := by
  unfold packFunding at h
  simp only [hfv, hoi, or_self, if_false, if_true] at h
  split at h
  · cases h
  · rename_i num hn
    have en : num = adj * U := by
      unfold checkedMul toU at hn; split at hn <;> cases hn; rfl
    split at h
    · cases h
    · rename_i per hper
      obtain ⟨h1, _⟩ := C01.mulDivCeil_ceil hper
      obtain ⟨_, _, h2, _⟩ := C01.roundUpDiv_sound h
      subst en
      calc fv * (adj * U) ≤ per * oi := h1
        _ ≤ d * price * oi := Nat.mul_le_mul_right _ h2

/-- **receiver indices round down**: the per-size delta credited to the receiving side never
promises more than the funding value. -/
theorem pack_round_down {W U adj fv oi price d : Nat} (h : packFunding W U adj fv oi price false = some d) :
    d * price * oi ≤ fv * (adj * U) := by
  unfold packFunding at h
  split at h
  · cases h; simp
  · split at h
    · cases h
    · rename_i num hn
      have en : num = adj * U := by
        unfold checkedMul toU at hn; split at hn <;> cases hn; rfl
      simp only [Bool.false_eq_true, if_false] at h
      split at h
      · cases h
      · rename_i per hper
        obtain ⟨h1, _⟩ := C01.mulDiv_floor hper
        unfold checkedDiv at h
        split at h
        · cases h
        · cases h
          subst en
          calc per / price * price * oi ≤ per * oi := Nat.mul_le_mul_right _ (Nat.div_mul_le_self per price)
            _ ≤ fv * (adj * U) := h1

/-- **one funding update is backed**: for the same funding value of a collateral token, what the
receivers can claim per the claimable index never exceeds what the payers owe per the funding
index (both summed over the respective open interest, in `adjustment·UNIT` units of value). -/
theorem funding_backed_single_update_partial {W U adj fv oiPay oiRecv price dPay dClaim : Nat}
    (hp : packFunding W U adj fv oiPay price true = some dPay)
    (hc : packFunding W U adj fv oiRecv price false = some dClaim) (hfv : fv ≠ 0) (hoi : oiPay ≠ 0) :
    dClaim * price * oiRecv ≤ dPay * price * oiPay :=
  Nat.le_trans (pack_round_down hc) (pack_round_up hp hfv hoi)

/-- a position's pending funding amounts: the payer's is rounded UP, the receiver's DOWN (C12's
`pending_funding_nonneg`), so settling never collects less / pays more than the exact share. -/
theorem pending_rounding {W U adj latest snap size r : Nat} :
    (unpackFunding W U adj latest snap size true = some r → size * (latest - snap) ≤ r * (adj * U)) ∧
    (unpackFunding W U adj latest snap size false = some r → r * (adj * U) ≤ size * (latest - snap)) := by
  constructor
  · intro h
    obtain ⟨_, hU, hr⟩ := C12.pending_funding_nonneg h
    simp only [if_true] at hr
    subst hr
    exact (C01.ceil_char _ _ hU).1
  · intro h
    obtain ⟨_, hU, hr⟩ := C12.pending_funding_nonneg h
    simp only [Bool.false_eq_true, if_false] at hr
    subst hr
    exact Nat.div_mul_le_self _ _

/-- **negation of the literal clause** "the funding residual `collected − claimed` never becomes
negative": a long (20 USD) and a short (10 USD, the receiver) are opened with zero funding paid,
funding accrues for one day, then the short submits an empty increase and is credited 10 368 000
claimable short tokens although nothing has been collected yet — the long has not been touched.
Replayed on the implementation (known finding F-C08). -/
theorem claim_before_collect_witness : fOutcome = some (0, 0, 0, 10368000) := by rfl

/-! ### Non-vacuity -/
example : packFunding 64 (10 ^ 9) 10000 10368000 (20 * 10 ^ 9) 1 true = some 5184000000 := by rfl
example : packFunding 64 (10 ^ 9) 10000 10368000 (10 * 10 ^ 9) 1 false = some 10368000000 := by rfl

end Gmx.C08
