import Gmx.Model.Discount
/-!
# C31 — order fee discounts are valid fractions combining rank and referral

`A` = rank discount (table entry, capped at `U` = 100 % by the setter), `B` = referral discount.
The program computes `B + ⌊A·(U − B)/U⌋`; the exact value is `U − (U − A)(U − B)/U`.
-/
namespace Gmx.C31
open Gmx Gmx.Discount

/-- exact characterisation of the checked chain. -/
theorem combine_ok_iff (U a b d : Nat) :
    combine U a b = .ok d ↔
      b ≤ U ∧ U ≠ 0 ∧ d = b + a * (U - b) / U ∧ a * (U - b) / U < 2 ^ 128 ∧ d < 2 ^ 128 := by
  unfold combine checkedSub applyFactor mulDiv checkedAdd toU
  by_cases hb : b ≤ U
  · by_cases hU : U = 0
    · have : b = 0 := by omega
      simp [hU, this]
    · by_cases h1 : a * (U - b) / U < 2 ^ 128
      · by_cases h2 : b + a * (U - b) / U < 2 ^ 128
        · simp [hb, hU, h1, h2]
          constructor
          · intro h; subst h; exact ⟨rfl, h2⟩
          · intro h; exact h.1.symm
        · simp [hb, hU, h1, h2]
          intro h; omega
      · simp [hb, hU, h1]
  · simp [hb]

/-- the setter only stores tables whose entries are at most 100 %. -/
theorem setFactors_capped {U maxRank : Nat} {cur fs out : List Nat}
    (hcur : ∀ f ∈ cur, f ≤ U) (h : setFactors U maxRank cur fs = .ok out) :
    (∀ f ∈ out, f ≤ U) ∧ out.length = cur.length ∧ fs.length = maxRank + 1 := by
  unfold setFactors at h
  split at h
  · cases h
  · rename_i hl
    split at h
    · rename_i hall
      split at h
      · rename_i hle
        cases h
        refine ⟨?_, ?_, by omega⟩
        · intro f hf
          rcases List.mem_append.1 hf with hf | hf
          · have := List.all_eq_true.1 hall f hf
            exact of_decide_eq_true this
          · exact hcur f (List.mem_of_mem_drop hf)
        · simp [List.length_append, List.length_drop]; omega
      · cases h
    · cases h

/-- a table entry above 100 % is rejected by the setter. -/
theorem setFactors_rejects_above_unit {U maxRank : Nat} {cur fs : List Nat} {f : Nat}
    (hf : f ∈ fs) (hgt : U < f) : setFactors U maxRank cur fs = .error .arg := by
  unfold setFactors
  split
  · rfl
  · have : fs.all (fun f => decide (f ≤ U)) = false := by
      apply Bool.eq_false_iff.2
      intro hall
      have := of_decide_eq_true (List.all_eq_true.1 hall f hf)
      omega
    simp [this]

/-- ranks above the configured maximum are rejected (program). -/
theorem rank_above_max_rejected (U maxRank : Nat) (factors : List Nat) (referral rank : Nat)
    (isReferred : Bool) (h : maxRank < rank) :
    programDiscount U maxRank factors referral rank isReferred = .error .rank := by
  simp [programDiscount, rankFactor, h]

/-- ranks above the configured maximum are rejected (SDK). -/
theorem rank_above_max_rejected_sdk (U maxRank : Nat) (factors : List Nat) (referral rank : Nat)
    (isReferred : Bool) (h : maxRank < rank) :
    sdkDiscount U maxRank factors referral rank isReferred = .error .rank := by
  simp [sdkDiscount, h]

/-- what a successful program call returns. -/
theorem programDiscount_ok_iff (U maxRank : Nat) (factors : List Nat) (referral rank : Nat)
    (isReferred : Bool) (d : Nat) :
    programDiscount U maxRank factors referral rank isReferred = .ok d ↔
      rank ≤ maxRank ∧ ∃ a, factors[rank]? = some a ∧
        (if isReferred then combine U a referral = .ok d else d = a) := by
  unfold programDiscount rankFactor
  by_cases hr : maxRank < rank
  · simp [hr]; intro h; omega
  · cases hf : factors[rank]? with
    | none => simp [hr, hf]
    | some a =>
      cases isReferred
      · simp [hr, hf]; constructor
        · intro h; exact ⟨by omega, h.symm⟩
        · intro h; exact h.2.symm
      · simp [hr, hf]; intro _; omega

/-- the discount is a valid fraction: at most 100 % (and trivially at least 0 %) whenever the
rank discount is at most 100 % (which `setFactors_capped` guarantees for every stored table). -/
theorem discount_le_unit {U maxRank : Nat} {factors : List Nat} {referral rank : Nat}
    {isReferred : Bool} {d : Nat} (hcap : ∀ f ∈ factors, f ≤ U)
    (h : programDiscount U maxRank factors referral rank isReferred = .ok d) : 0 ≤ d ∧ d ≤ U := by
  obtain ⟨_, a, ha, hd⟩ := (programDiscount_ok_iff ..).1 h
  have haU : a ≤ U := hcap a (List.mem_of_getElem? ha)
  refine ⟨Nat.zero_le _, ?_⟩
  cases isReferred
  · simp at hd; omega
  · simp at hd
    obtain ⟨hb, hU, rfl, _, _⟩ := (combine_ok_iff ..).1 hd
    have h1 : a * (U - referral) / U ≤ U - referral := by
      apply Nat.div_le_of_le_mul
      exact Nat.mul_le_mul_right _ haU
    omega

/-- a referred user's discount is at least the unreferred one. -/
theorem referred_ge_unreferred {U maxRank : Nat} {factors : List Nat} {referral rank : Nat}
    {d0 d1 : Nat} (hcap : ∀ f ∈ factors, f ≤ U)
    (h0 : programDiscount U maxRank factors referral rank false = .ok d0)
    (h1 : programDiscount U maxRank factors referral rank true = .ok d1) : d0 ≤ d1 := by
  obtain ⟨_, a, ha, hd0⟩ := (programDiscount_ok_iff ..).1 h0
  obtain ⟨_, a', ha', hd1⟩ := (programDiscount_ok_iff ..).1 h1
  rw [ha] at ha'; cases ha'
  have haU : a ≤ U := hcap a (List.mem_of_getElem? ha)
  simp at hd0 hd1
  subst hd0
  obtain ⟨hb, hU, rfl, _, _⟩ := (combine_ok_iff ..).1 hd1
  -- a·(U − B) = a·U − a·B ≥ (a − B)·U  because a·B ≤ U·B
  have key : (d0 - referral) * U ≤ d0 * (U - referral) := by
    by_cases hle : referral ≤ d0
    · obtain ⟨k, rfl⟩ : ∃ k, d0 = referral + k := ⟨d0 - referral, by omega⟩
      obtain ⟨m, rfl⟩ : ∃ m, U = referral + k + m := ⟨U - (referral + k), by omega⟩
      have e1 : referral + k - referral = k := by omega
      have e2 : referral + k + m - referral = k + m := by omega
      rw [e1, e2]
      simp only [Nat.mul_add, Nat.add_mul]
      have : k * referral = referral * k := Nat.mul_comm _ _
      omega
    · have : d0 - referral = 0 := by omega
      simp [this]
  have := (Nat.le_div_iff_mul_le (Nat.pos_of_ne_zero hU)).2 key
  omega

/-- the discount equals `1 − (1 − A)(1 − B)` up to (strictly less than) one unit in the last
place, rounded down: in `U`-scaled integers `d·U ≤ U² − (U − A)(U − B) < (d + 1)·U`. -/
theorem discount_formula {U a b d : Nat} (ha : a ≤ U) (h : combine U a b = .ok d) :
    d * U ≤ U * U - (U - a) * (U - b) ∧ U * U - (U - a) * (U - b) < (d + 1) * U := by
  obtain ⟨hb, hU, rfl, _, _⟩ := (combine_ok_iff ..).1 h
  have hexact : U * U - (U - a) * (U - b) = b * U + a * (U - b) := by
    obtain ⟨x, rfl⟩ : ∃ x, U = a + x := ⟨U - a, by omega⟩
    obtain ⟨y, hy⟩ : ∃ y, a + x = b + y := ⟨a + x - b, by omega⟩
    have e1 : a + x - a = x := by omega
    have e2 : a + x - b = y := by omega
    rw [e1, e2]
    have e3 : (a + x) * (a + x) = b * (a + x) + a * y + x * y := by
      have : (a + x) * (a + x) = (b + y) * (a + x) := by rw [hy]
      rw [this, Nat.add_mul]
      have : y * (a + x) = a * y + x * y := by rw [Nat.mul_add, Nat.mul_comm y a, Nat.mul_comm y x]
      omega
    omega
  rw [hexact]
  have h1 := Nat.div_add_mod (a * (U - b)) U
  have h2 := Nat.mod_lt (a * (U - b)) (Nat.pos_of_ne_zero hU)
  generalize a * (U - b) / U = q at *
  generalize a * (U - b) % U = r at *
  generalize a * (U - b) = n at *
  simp only [Nat.add_mul, Nat.one_mul]
  have : U * q = q * U := Nat.mul_comm _ _
  omega

/-- `discount_formula` for the program entry point (referred user). -/
theorem program_discount_formula {U maxRank : Nat} {factors : List Nat} {referral rank d : Nat}
    (hcap : ∀ f ∈ factors, f ≤ U)
    (h : programDiscount U maxRank factors referral rank true = .ok d) :
    ∃ a, factors[rank]? = some a ∧
      d * U ≤ U * U - (U - a) * (U - referral) ∧ U * U - (U - a) * (U - referral) < (d + 1) * U := by
  obtain ⟨_, a, ha, hd⟩ := (programDiscount_ok_iff ..).1 h
  simp at hd
  exact ⟨a, ha, discount_formula (hcap a (List.mem_of_getElem? ha)) hd⟩

/-- with valid fractions (`A, B ≤ U`, `0 < U ≤ 2^127`) the computation cannot fail. -/
theorem combine_total {U a b : Nat} (hU : 0 < U) (hU' : U ≤ 2 ^ 127) (ha : a ≤ U) (hb : b ≤ U) :
    ∃ d, combine U a b = .ok d := by
  have h1 : a * (U - b) / U ≤ U - b :=
    Nat.div_le_of_le_mul (Nat.mul_le_mul_right _ ha)
  have hp : (2:Nat) ^ 128 = 2 * 2 ^ 127 := by decide
  have hne : U ≠ 0 := by omega
  have h2 : a * (U - b) / U < 2 ^ 128 := by omega
  have h3 : b + a * (U - b) / U < 2 ^ 128 := by omega
  exact ⟨_, (combine_ok_iff U a b _).2 ⟨hb, hne, rfl, h2, h3⟩⟩

/-- the SDK computes the same discount (and the same error kind) as the program, for every
table, rank, referral factor and flag. -/
theorem sdk_eq_program (U maxRank : Nat) (factors : List Nat) (referral rank : Nat)
    (isReferred : Bool) :
    sdkDiscount U maxRank factors referral rank isReferred =
      programDiscount U maxRank factors referral rank isReferred := by
  unfold sdkDiscount programDiscount rankFactor combine checkedSub applyFactor mulDiv checkedAdd toU
  by_cases hr : maxRank < rank
  · simp [hr]
  · have hr' : ¬ rank > maxRank := hr
    cases hf : factors[rank]? with
    | none => simp [hr]
    | some a =>
      cases isReferred
      · simp [hr]
      · by_cases hb : referral ≤ U
        · by_cases hU : U = 0
          · have : referral = 0 := by omega
            simp [hr, hU, this]
          · by_cases h1 : a * (U - referral) / U < 2 ^ 128
            · by_cases h2 : referral + a * (U - referral) / U < 2 ^ 128 <;>
                simp [hr, hb, hU, h1, h2]
            · simp [hr, hb, hU, h1]
        · simp [hr, hb]

/-! ### Non-vacuity (on-chain unit `10^20`) -/
example : programDiscount (10 ^ 20) 9 (List.replicate 16 (25 * 10 ^ 17)) (10 ^ 19) 1 true
    = .ok 12250000000000000000 := by rfl
example : programDiscount (10 ^ 20) 9 (List.replicate 16 0) 0 10 false = .error .rank := by rfl
example : combine 3 2 1 = .ok 2 := by rfl
example : setFactors 100 1 [0, 0, 0] [100, 7] = .ok [100, 7, 0] := by rfl
example : setFactors 100 1 [0, 0, 0] [101, 7] = .error .arg := by rfl

-- `referred_ge_unreferred`, `discount_le_unit`, `program_discount_formula`: all hypotheses at once (factors capped by the unit,
-- both the unreferred and the referred discount defined) on the on-chain unit 10^20
example : (2500000000000000000 : Nat) ≤ 12250000000000000000 :=
  referred_ge_unreferred (U := 10 ^ 20) (maxRank := 9) (factors := List.replicate 16 (25 * 10 ^ 17)) (referral := 10 ^ 19) (rank := 1)
    (by intro f hf; rw [List.eq_of_mem_replicate hf]; decide) rfl rfl
example : (12250000000000000000 : Nat) ≤ 10 ^ 20 :=
  (discount_le_unit (U := 10 ^ 20) (maxRank := 9) (factors := List.replicate 16 (25 * 10 ^ 17)) (referral := 10 ^ 19) (rank := 1)
    (isReferred := true) (by intro f hf; rw [List.eq_of_mem_replicate hf]; decide) rfl).2
example : ∃ d, combine (10 ^ 20) (25 * 10 ^ 17) (10 ^ 19) = .ok d :=
  combine_total (by decide) (by decide) (by decide) (by decide)

end Gmx.C31
