import Gmx.Model.Market
/-!
# C14 — position impact distribution respects the pool floor

`pendingDistribution W U cur min factor t` is `pending_position_impact_pool_distribution_amount`
on the raw numbers, `distributePositionImpact` the action (clock + pool write). All statements
are for every width `W`, unit `U`, amounts, minimum, rate and elapsed time.
-/
namespace Gmx.C14
open Gmx

/-- the documented amount: rate × seconds (floored), capped at the excess over the minimum. -/
def distSpec (U cur mn factor t : Nat) : Nat :=
  if factor = 0 ∨ cur ≤ mn then 0
  else if t * factor / U > cur - mn then cur - mn else t * factor / U

/-- closed form of the computation: zero when the rate is zero or the pool is at/below the
minimum; otherwise it fails exactly on arithmetic the types cannot represent (zero unit, elapsed
time or `⌊t·factor/U⌋` not fitting) and else returns the documented amount and `cur − amount`. -/
theorem dist_eq (W U cur mn f t : Nat) :
    pendingDistribution W U cur mn f t =
      if f = 0 ∨ cur ≤ mn then some (0, cur)
      else if U = 0 ∨ ¬ t < 2 ^ W ∨ ¬ t * f / U < 2 ^ W then none
      else some (distSpec U cur mn f t, cur - distSpec U cur mn f t) := by
  unfold pendingDistribution distSpec
  by_cases hc : f = 0 ∨ cur ≤ mn
  · simp [hc]
  · have h1 : mn ≤ cur := by omega
    simp only [hc, if_false, checkedSub, h1, if_true, toU, applyFactor, mulDiv]
    by_cases ht : t < 2 ^ W
    · by_cases hU : U = 0
      · simp [hU, ht]
      · by_cases hp : t * f / U < 2 ^ W
        · simp only [ht, hU, hp, if_true, if_false, not_true, or_self]
          by_cases hgt : t * f / U > cur - mn
          · have : cur - mn ≤ cur := by omega
            simp [hgt, this]
          · have : t * f / U ≤ cur := by omega
            simp [hgt, this]
        · simp [ht, hU, hp]
    · simp [ht]

theorem distSpec_le (U cur mn f t : Nat) : distSpec U cur mn f t ≤ cur - mn ∧ distSpec U cur mn f t ≤ t * f / U := by
  unfold distSpec
  generalize t * f / U = a
  split
  · omega
  · split <;> omega

/-- a successful computation returns exactly the documented amount, and `next = cur − dist`. -/
theorem dist_amount_spec {W U cur mn f t d n : Nat}
    (h : pendingDistribution W U cur mn f t = some (d, n)) :
    d = distSpec U cur mn f t ∧ n = cur - d ∧ d ≤ cur := by
  rw [dist_eq] at h
  have hl := distSpec_le U cur mn f t
  split at h
  · rename_i hc; cases h; simp [distSpec, hc]
  · split at h
    · cases h
    · cases h; exact ⟨rfl, rfl, by omega⟩

/-- the computation succeeds whenever the unit is non-zero and the elapsed time and
`⌊t·factor/U⌋` fit the number type. -/
theorem dist_defined {W U cur mn f t : Nat} (hU : U ≠ 0) (ht : t < 2 ^ W) (hp : t * f / U < 2 ^ W) :
    ∃ r, pendingDistribution W U cur mn f t = some r := by
  rw [dist_eq]
  split
  · exact ⟨_, rfl⟩
  · simp [hU, ht, hp]

/-- zero rate or a pool at/below the minimum: nothing is distributed. -/
theorem dist_zero_cases {W U cur mn f t : Nat} (h : f = 0 ∨ cur ≤ mn) :
    pendingDistribution W U cur mn f t = some (0, cur) := by
  unfold pendingDistribution; simp [h]

/-- distribution never increases the pool. -/
theorem dist_never_increases {W U cur mn f t d n : Nat}
    (h : pendingDistribution W U cur mn f t = some (d, n)) : n ≤ cur := by
  obtain ⟨_, rfl, _⟩ := dist_amount_spec h; omega

/-- a pool above the minimum never drops below it; a pool at/below it is left alone. -/
theorem floor_respected {W U cur mn f t d n : Nat}
    (h : pendingDistribution W U cur mn f t = some (d, n)) :
    (cur > mn → n ≥ mn) ∧ (cur ≤ mn → n = cur) := by
  obtain ⟨hd, rfl, hle⟩ := dist_amount_spec h
  have hl := distSpec_le U cur mn f t
  constructor
  · intro hgt; omega
  · intro hle'; omega

/-- the distributed amount never exceeds rate × seconds nor the excess over the minimum. -/
theorem dist_le {W U cur mn f t d n : Nat}
    (h : pendingDistribution W U cur mn f t = some (d, n)) :
    d ≤ t * f / U ∧ d ≤ cur - mn := by
  obtain ⟨hd, _, _⟩ := dist_amount_spec h
  have hl := distSpec_le U cur mn f t
  omega

/-- repeated distributions over a list of elapsed times. -/
def runDist (W U mn f : Nat) : Nat → List Nat → Option Nat
  | cur, [] => some cur
  | cur, t :: ts => match pendingDistribution W U cur mn f t with
    | none => none
    | some (_, n) => runDist W U mn f n ts

/-- after ANY sequence of distributions: the pool did not grow, stayed at or above the minimum if
it started above it, and was left untouched if it started at or below it. -/
theorem repeated_dist {W U mn f : Nat} (ts : List Nat) :
    ∀ {cur n : Nat}, runDist W U mn f cur ts = some n →
      n ≤ cur ∧ (cur > mn → n ≥ mn) ∧ (cur ≤ mn → n = cur) := by
  induction ts with
  | nil => intro cur n h; simp [runDist] at h; subst h; omega
  | cons t ts ih =>
    intro cur n h
    simp only [runDist] at h
    split at h
    · cases h
    · rename_i d n1 h1
      obtain ⟨ha, hb, hc⟩ := ih h
      have hle := dist_never_increases h1
      obtain ⟨hf1, hf2⟩ := floor_respected h1
      refine ⟨by omega, fun hgt => ?_, fun hle' => ?_⟩
      · have := hf1 hgt
        by_cases hn : n1 > mn
        · exact hb hn
        · have : n1 = mn := by omega
          have := hc (by omega); omega
      · have := hf2 hle'
        subst this
        exact hc hle'

/-- splitting an interval never distributes more than distributing once over the whole interval
(the two floors lose at most what the single floor loses). -/
theorem dist_additive_le {W U cur mn f t₁ t₂ d₁ n₁ d₂ n₂ d n : Nat}
    (h₁ : pendingDistribution W U cur mn f t₁ = some (d₁, n₁))
    (h₂ : pendingDistribution W U n₁ mn f t₂ = some (d₂, n₂))
    (h : pendingDistribution W U cur mn f (t₁ + t₂) = some (d, n)) :
    d₁ + d₂ ≤ d ∧ n ≤ n₂ := by
  obtain ⟨e1, rfl, l1⟩ := dist_amount_spec h₁
  obtain ⟨e2, rfl, l2⟩ := dist_amount_spec h₂
  obtain ⟨e, rfl, l⟩ := dist_amount_spec h
  by_cases hU : U = 0
  · subst hU
    simp only [distSpec, Nat.div_zero] at e1 e2 e
    have : d₁ = 0 := by split at e1 <;> simp_all
    have : d₂ = 0 := by split at e2 <;> simp_all
    omega
  have key : t₁ * f / U + t₂ * f / U ≤ (t₁ + t₂) * f / U := by
    rw [Nat.le_div_iff_mul_le (Nat.pos_of_ne_zero hU), Nat.add_mul, Nat.add_mul]
    have a := Nat.div_mul_le_self (t₁ * f) U
    have b := Nat.div_mul_le_self (t₂ * f) U
    omega
  unfold distSpec at e1 e2 e
  generalize t₁ * f / U = a₁ at *
  generalize t₂ * f / U = a₂ at *
  generalize (t₁ + t₂) * f / U = a at *
  by_cases hz : f = 0 ∨ cur ≤ mn
  · simp only [hz, if_true] at e1 e
    subst e1 e
    have : f = 0 ∨ cur - 0 ≤ mn := by omega
    simp only [this, if_true] at e2
    omega
  · simp only [hz, if_false] at e1 e
    have hf : f ≠ 0 := by omega
    split at e1 <;> split at e <;> split at e2 <;> (try split at e2) <;> omega

/-! ### the action on the market state -/

/-- a successful `distribute_position_impact` writes exactly `next` into the position impact
pool, reports the spec amounts for the time since the last distribution, resets the clock and
touches nothing else. -/
theorem distribute_spec {W U : Nat} {m m' : Market} {r : DistReport}
    (h : distributePositionImpact W U m = (m', some r)) :
    r.duration = passedInSeconds m.now m.clockImpactDist ∧
    r.distributed = distSpec U m.positionImpact.long m.cfg.minPositionImpactPool m.cfg.distributeFactor r.duration ∧
    r.next = m.positionImpact.long - r.distributed ∧
    m'.positionImpact.long = r.next ∧
    m' = { m with clockImpactDist := some m.now, positionImpact := { m.positionImpact with long := r.next } } := by
  unfold distributePositionImpact at h
  simp only at h
  split at h
  · cases h
  · rename_i d next hp
    unfold Market.pendingDistribution at hp
    simp only at hp
    obtain ⟨e1, e2, e3⟩ := dist_amount_spec hp
    split at h
    · rename_i hd
      cases h
      subst hd
      simp only [Nat.sub_zero] at e2
      subst e2
      refine ⟨rfl, e1, by simp, rfl, ?_⟩
      simp
    · rename_i hd
      split at h
      · cases h
      · rename_i delta hdelta
        split at h
        · cases h
        · rename_i p hpd
          cases h
          unfold toOppositeSigned toSigned at hdelta
          split at hdelta
          · simp only [Option.map_some, Option.some.injEq] at hdelta
            subst hdelta
            unfold Pool.applyDelta checkedAddWithSigned checkedSub at hpd
            simp only [Pool.amount, if_true] at hpd
            have hneg : ¬ (-(d : Int) > 0) := by omega
            simp only [hneg, if_false, Int.natAbs_neg, Int.natAbs_natCast, e3, if_true, Pool.setAmount] at hpd
            cases hpd
            refine ⟨rfl, e1, e2, by simp [e2], ?_⟩
            simp [e2]
          · simp at hdelta

/-- the clock is reset even when the distribution fails (the action is not atomic), but no pool
changes. -/
theorem distribute_fail_keeps_pools {W U : Nat} {m m' : Market}
    (h : distributePositionImpact W U m = (m', none)) :
    m' = { m with clockImpactDist := some m.now } := by
  unfold distributePositionImpact at h
  simp only at h
  repeat' split at h
  all_goals first | (cases h; rfl) | cases h

/-- **the clock is reset even when nothing can be distributed** (pool at or below its floor, or a
zero rate): the action still moves the distribution clock to `now`, so time spent at the floor is
never distributed later, after the pool has been refilled. -/
theorem distribute_at_floor {W U : Nat} (m : Market)
    (h : m.cfg.distributeFactor = 0 ∨ m.positionImpact.long ≤ m.cfg.minPositionImpactPool) :
    distributePositionImpact W U m =
      ({ m with clockImpactDist := some m.now },
       some ⟨passedInSeconds m.now m.clockImpactDist, 0, m.positionImpact.long⟩) := by
  unfold distributePositionImpact Market.pendingDistribution
  simp only
  rw [dist_zero_cases h]
  simp

/-- a distribution clock AHEAD of `now` reads as zero elapsed seconds (saturating subtraction, as in
the Rust) and the action moves it BACK to `now`. -/
theorem distribute_clock_ahead {W U : Nat} {m m' : Market} {r : DistReport} {c : Nat}
    (hc : m.clockImpactDist = some c) (hle : m.now ≤ c)
    (h : distributePositionImpact W U m = (m', some r)) :
    r.duration = 0 ∧ r.distributed = 0 ∧ m'.positionImpact.long = m.positionImpact.long ∧
    m'.clockImpactDist = some m.now := by
  obtain ⟨h1, h2, h3, h4, h5⟩ := distribute_spec h
  have hd : r.duration = 0 := by
    rw [h1]; exact (passedInSeconds_eq_zero_iff _ _).2 (Or.inr ⟨c, hc, hle⟩)
  have h0 : r.distributed = 0 := by
    rw [h2, hd]; unfold distSpec; simp
  refine ⟨hd, h0, by rw [h4, h3, h0]; simp, by rw [h5]⟩

/-! ### Non-vacuity -/

/-- observable summary of the action: `[1, duration, distributed, next, pool long, pool short, clock, now]`
on success, `[0, pool long, clock]` on failure. -/
def obsD (x : Market × Option DistReport) : List Nat :=
  match x with
  | (m', some r) => [1, r.duration, r.distributed, r.next, m'.positionImpact.long, m'.positionImpact.short,
                     m'.clockImpactDist.getD 0, m'.now]
  | (m', none) => [0, m'.positionImpact.long, m'.clockImpactDist.getD 0]

/-- sample market (`TestMarketConfig::default()` for `<u64, 9>`: rate 1 token/s, floor 10⁹): pool 5
above the floor, 7 s since the last distribution. -/
def mS : Market :=
  { Market.ofConfig MarketConfig.test64 with positionImpact := ⟨1000000005, 3⟩, now := 100, clockImpactDist := some 93 }

/-- `distribute_spec` on a concrete market: 7 s × 1/s = 7, capped at the excess 5 → next = floor,
clock reset to `now`, the short amount of the pool untouched. -/
example : obsD (distributePositionImpact 64 1000000000 mS) = [1, 7, 5, 1000000000, 1000000000, 3, 100, 100] := by
  decide +kernel
example (m' : Market) (r : DistReport) (h : distributePositionImpact 64 1000000000 mS = (m', some r)) :
    m'.positionImpact.long = r.next := (distribute_spec h).2.2.2.1

/-- run `tick t; distribute` for each `t` and collect the observations. -/
def histD (W U : Nat) (m : Market) : List Nat → List (List Nat)
  | [] => []
  | t :: ts => let x := distributePositionImpact W U (m.tick t); obsD x :: histD W U x.1 ts

/-- a multi-step history: the first distribution takes the pool to its floor; the next four run AT the
floor — nothing is distributed but the clock follows `now` every time (100, 102, 107, 117, 118). -/
example : histD 64 1000000000 mS [0, 2, 5, 10, 1] =
    [[1, 7, 5, 1000000000, 1000000000, 3, 100, 100], [1, 2, 0, 1000000000, 1000000000, 3, 102, 102],
     [1, 5, 0, 1000000000, 1000000000, 3, 107, 107], [1, 10, 0, 1000000000, 1000000000, 3, 117, 117],
     [1, 1, 0, 1000000000, 1000000000, 3, 118, 118]] := by decide +kernel

/-- …so that after the pool is refilled (positions pay 1 000 of impact at t = 118) a distribution 2 s
later distributes 2 s worth — not the 20 s the pool had spent at the floor (the "skip the clock update
at the floor" class of changes). -/
example :
    (let m1 := (distributePositionImpact 64 1000000000 (mS.tick 18)).1        -- at the floor, t = 118
     let m2 := { m1 with positionImpact := ⟨1000001000, 3⟩ }                   -- refilled
     obsD (distributePositionImpact 64 1000000000 (m2.tick 2)))
    = [1, 2, 2, 1000000998, 1000000998, 3, 120, 120] := by decide +kernel

/-- a clock ahead of `now` (5000 > 100): zero seconds, nothing distributed, clock moved back to 100. -/
example : obsD (distributePositionImpact 64 1000000000 { mS with clockImpactDist := some 5000 })
    = [1, 0, 0, 1000000005, 1000000005, 3, 100, 100] := by decide +kernel

/-- `distribute_fail_keeps_pools`: rate × time does not fit the number type — the action fails, the
pool is kept, the clock has nevertheless been reset (the action is not atomic). -/
example : obsD (distributePositionImpact 64 1000000000
      { mS with cfg := { MarketConfig.test64 with distributeFactor := 18446744073709551615 },
                now := 18446744073709551615, clockImpactDist := some 0, positionImpact := ⟨5000000000, 0⟩ })
    = [0, 5000000000, 18446744073709551615] := by decide +kernel

example : pendingDistribution 64 (10 ^ 9) 5000000000 1000000000 (10 ^ 9) 7 = some (7, 4999999993) := by decide
example : pendingDistribution 64 (10 ^ 9) 1000000005 1000000000 (10 ^ 9) 7 = some (5, 1000000000) := by decide
example : pendingDistribution 64 (10 ^ 9) 999 1000000000 (10 ^ 9) 7 = some (0, 999) := by decide
example : runDist 64 (10 ^ 9) 1000000000 (5 * 10 ^ 8) 1000000003 [1, 1, 3, 100] = some 1000000000 := by decide
/-- splitting 3 s into 1 s + 2 s at rate 0.5/s loses one unit: 0 + 1 < 1 … here 0 + 1 = 1;
and 1 s + 1 s distributes 0 while 2 s distributes 1. -/
example : pendingDistribution 64 (10 ^ 9) 2000000000 1000000000 (5 * 10 ^ 8) 1 = some (0, 2000000000)
    ∧ pendingDistribution 64 (10 ^ 9) 2000000000 1000000000 (5 * 10 ^ 8) 2 = some (1, 1999999999) := by decide

-- added by the hygiene audit
-- `dist_defined`: its three hypotheses; `dist_additive_le`: three defined distributions over 1 s + 1 s vs 2 s
example : (10 ^ 9 : Nat) ≠ 0 ∧ (7 : Nat) < 2 ^ 64 ∧ 7 * 10 ^ 9 / 10 ^ 9 < 2 ^ 64 := by decide
example : (0 : Nat) + 0 ≤ 1 ∧ (1999999999 : Nat) ≤ 2000000000 :=
  dist_additive_le (W := 64) (U := 10 ^ 9) (cur := 2000000000) (mn := 1000000000) (f := 5 * 10 ^ 8) (t₁ := 1) (t₂ := 1)
    (d₁ := 0) (n₁ := 2000000000) (d₂ := 0) (n₂ := 2000000000) (d := 1) (n := 1999999999) (by decide) (by decide) (by decide)

end Gmx.C14
