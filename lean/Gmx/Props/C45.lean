import Gmx.Model.Glv
import Gmx.Props.C01
import Gmx.Gen.C45Shapes
import Gmx.Lemmas.GlvLife
import Mathlib.Tactic.Linarith
import Mathlib.Tactic.Ring
/-!
# C45 — GLV vaults keep their composition and price in their own favour
-/
namespace Gmx.C45
open Gmx

/-! ### composition -/

/-- `insert_market` only accepts a market with the GLV's own long and short token, and never
changes the GLV's tokens. -/
theorem insert_requires_same_tokens {g g' : GlvS} {m : GMeta} (h : glvInsert g m = some g') :
    m.long = g.long ∧ m.short = g.short ∧ g'.long = g.long ∧ g'.short = g.short ∧
    g'.markets = g.markets ++ [{ token := m.token }] := by
  unfold glvInsert at h
  split at h
  · cases h
  · rename_i hne
    split at h
    · cases h
    · split at h
      · cases h
      · cases h; exact ⟨by omega, by omega, rfl, rfl, rfl⟩

/-- every market of the GLV has the GLV's long and short tokens (w.r.t. the market metas) -/
def Composed (metaOf : Nat → GMeta) (g : GlvS) : Prop :=
  ∀ e ∈ g.markets, (metaOf e.token).long = g.long ∧ (metaOf e.token).short = g.short

/-- any sequence of insert attempts (failed ones change nothing) keeps the composition invariant;
market metas (token mints) never change. -/
theorem composition_invariant (metaOf : Nat → GMeta) (hm : ∀ t, (metaOf t).token = t) :
    ∀ (ops : List Nat) (g : GlvS), Composed metaOf g →
      Composed metaOf (ops.foldl (fun g t => (glvInsert g (metaOf t)).getD g) g)
  | [], g, hc => hc
  | t :: ops, g, hc => by
    simp only [List.foldl_cons]
    apply composition_invariant metaOf hm ops
    cases h : glvInsert g (metaOf t) with
    | none => simpa using hc
    | some g' =>
      obtain ⟨h1, h2, h3, h4, h5⟩ := insert_requires_same_tokens h
      intro e he
      simp only [Option.getD_some] at he ⊢
      rw [h5] at he
      rw [h3, h4]
      rcases List.mem_append.1 he with he | he
      · exact hc e he
      · simp only [List.mem_singleton] at he
        subst he
        simp only [hm]
        exact ⟨h1, h2⟩

theorem init_go_shares_tokens (l s : Nat) : ∀ (ms : List GMeta) (seen toks : List Nat),
    glvValidateInit.go l s seen ms = some toks → ∀ m ∈ ms, m.long = l ∧ m.short = s
  | [], _, _, _ => by intro m hm; cases hm
  | x :: xs, seen, toks, h => by
    simp only [glvValidateInit.go] at h
    split at h
    · cases h
    · rename_i hx
      split at h
      · cases h
      · intro m hm
        rcases List.mem_cons.1 hm with rfl | hm
        · omega
        · exact init_go_shares_tokens l s xs _ toks h m hm

/-- GLV creation: all initial markets share one long and one short token. -/
theorem init_markets_share_tokens {ms : List GMeta} {l s : Nat} {toks : List Nat}
    (h : glvValidateInit ms = some (l, s, toks)) : ∀ m ∈ ms, m.long = l ∧ m.short = s := by
  cases ms with
  | nil => cases h
  | cons m0 rest =>
    simp only [glvValidateInit] at h
    split at h
    · cases h
    · rename_i toks' hgo
      cases h
      intro m hm
      rcases List.mem_cons.1 hm with rfl | hm
      · exact ⟨rfl, rfl⟩
      · exact init_go_shares_tokens _ _ rest _ _ hgo m hm

/-! ### balance caps -/

/-- a deposit that passes the balance validation respects the configured maximum amount and
maximum value of that market's tokens in the GLV. -/
theorem balance_caps_respected {e : GEntry} {nb sup : Nat} {pv : Int}
    (h : glvValidateBalance e nb pv sup = true) :
    (0 < e.maxAmount → nb ≤ e.maxAmount) ∧
    (0 < e.maxValue → 0 ≤ pv ∧ sup ≠ 0 ∧ pv.natAbs * nb / sup ≤ e.maxValue) := by
  unfold glvValidateBalance at h
  split at h
  · rename_i hz; omega
  · split at h
    · cases h
    · rename_i h1 h2
      refine ⟨fun hp => by omega, fun hv => ?_⟩
      simp only [hv, if_true] at h
      split at h
      · cases h
      · rename_i hpv
        split at h
        · cases h
        · rename_i v hv'
          obtain ⟨hs, rfl, _⟩ := C01.mtToUsd_spec hv'
          refine ⟨by omega, hs, by simpa using h⟩

/-! ### pricing -/

/-- minting formula on a non-empty GLV: `⌊supply · received / value⌋`. -/
theorem glvMint_spec {R G S d g : Nat} (hS : S ≠ 0) (h : glvMint R G S d = some g) :
    G ≠ 0 ∧ g = S * R / G := by
  have := C01.usdToMt_spec h
  obtain ⟨_, _, _, h3⟩ := this
  obtain ⟨hG, hg, _⟩ := h3 hS
  exact ⟨hG, hg⟩

/-- **a deposit immediately followed by a withdrawal never returns more market tokens than were
deposited.** `a` market tokens valued `R ≤ ⌊a·pvIn/msup⌋` (minimised) mint `g` GLV tokens against the
maximised GLV value `G`; redeeming `g` right away values the GLV minimised (`G' ≤ G + R + 1`: the
other markets unchanged, minimised ≤ maximised, one unit of floor rounding) and pays market
tokens at the maximised pool value `pvOut ≥ pvIn`. -/
theorem glv_roundtrip_no_gain {a R G G' S d g out msup : Nat} {pvIn pvOut : Nat}
    (hS : S ≠ 0) (hms : msup ≠ 0)
    (hR : R ≤ a * pvIn / msup) (hpv : pvIn ≤ pvOut)
    (hmint : glvMint R G S d = some g)
    (hG' : G' ≤ G + R + 1)
    (hred : glvRedeem g G' (S + g) (pvOut : Int) msup d = some out) : out ≤ a := by
  obtain ⟨hG, rfl⟩ := glvMint_spec hS hmint
  unfold glvRedeem at hred
  split at hred
  · cases hred
  · rename_i v hv
    obtain ⟨_, rfl, _⟩ := C01.mtToUsd_spec hv
    simp only [Int.natAbs_natCast] at hred
    split at hred
    · cases hred
    · obtain ⟨_, _, _, h3⟩ := C01.usdToMt_spec hred
      obtain ⟨hpo, rfl, _⟩ := h3 hms
      -- step 1: the redeemed value is at most the received value
      have hgG : S * R / G * G ≤ S * R := Nat.div_mul_le_self _ _
      have hv : G' * (S * R / G) / (S + S * R / G) ≤ R := by
        generalize S * R / G = g at *
        have hpos : 0 < S + g := by omega
        rw [← Nat.lt_succ_iff, Nat.div_lt_iff_lt_mul hpos]
        have h1 : G' * g ≤ (G + R + 1) * g := Nat.mul_le_mul_right _ hG'
        have hSpos : 0 < S := Nat.pos_of_ne_zero hS
        nlinarith
      -- step 2: converting it back at the maximised price gives at most `a` tokens
      have hRm : R * msup ≤ a * pvIn := by
        have := Nat.div_mul_le_self (a * pvIn) msup
        calc R * msup ≤ a * pvIn / msup * msup := Nat.mul_le_mul_right _ hR
          _ ≤ a * pvIn := this
      have hpop : 0 < pvOut := Nat.pos_of_ne_zero hpo
      rw [← Nat.lt_succ_iff, Nat.div_lt_iff_lt_mul hpop]
      have h2 : msup * (G' * (S * R / G) / (S + S * R / G)) ≤ msup * R := Nat.mul_le_mul_left _ hv
      have h3 : a * pvIn ≤ a * pvOut := Nat.mul_le_mul_left _ hpv
      nlinarith

/-! ### the pricing directions in the source (table REGENERATED from ops/glv.rs) -/
open Gmx.Gen.C45 in
theorem deposit_values_glv_maximized : depositGlvMaximized = true ∧ depositReceivedMinimized = true := by decide

open Gmx.Gen.C45 in
theorem withdrawal_values_glv_minimized : withdrawalGlvMaximized = false ∧ withdrawalPaysAtMaximizedPool = true := by decide

open Gmx.Gen.C45 in
/-- the pnl-factor kinds behind the two pool values of `glv_roundtrip_no_gain` are the ones the source uses:
received market tokens are valued with `MaxAfterDeposit` (`pvIn`), redeemed value is converted at
`MaxAfterWithdrawal` (`pvOut`). Regenerated from crates/model/src/glv.rs on every run. -/
theorem glv_pricing_kinds : glvValueUsesDepositKind = true ∧ glvAmountUsesWithdrawalKind = true := by decide

/-- **Finding F-C45-caps (witness)**: `glv_roundtrip_no_gain` needs `pvIn ≤ pvOut`. When the pay-out pool value is
BELOW the valuation pool value — which happens exactly when the market's withdrawal pnl cap is configured above its
deposit pnl cap and pending trader profit exceeds the deposit cap — the literal clause "a GLV deposit immediately
followed by a withdrawal never returns more market tokens" is false: 100 market tokens in (market supply 1000, valuation pool value 2000, GLV value and supply 1000), 200 out at
pay-out pool value 1000. -/
theorem glv_roundtrip_gain_witness :
    glvMint (100 * 2000 / 1000) 1000 1000 1 = some 200 ∧
    glvRedeem 200 (1000 + 100 * 2000 / 1000) (1000 + 200) (1000 : Int) 1000 1 = some 200 ∧
    (100 : Nat) < 200 ∧ (1000 : Nat) < 2000 := by
  decide

/-! ### Non-vacuity -/
example : glvInsert ⟨1, 2, [{ token := 10 }]⟩ ⟨11, 1, 2⟩ = some ⟨1, 2, [{ token := 10 }, { token := 11 }]⟩ := by decide
example : glvInsert ⟨1, 2, [{ token := 10 }]⟩ ⟨11, 1, 3⟩ = none := by decide
example : glvValidateBalance { token := 10, maxAmount := 100, maxValue := 5000 } 100 1000000 20000 = true := by decide
example : glvValidateBalance { token := 10, maxAmount := 100, maxValue := 4999 } 100 1000000 20000 = false := by decide
example : glvMint 999 10000 500 1 = some 49 ∧ glvRedeem 49 10999 549 (2000 : Int) 1000 1 = some 490 := by decide


-- added by the hygiene audit
-- `glv_roundtrip_no_gain` instantiated: ALL seven hypotheses at once (deposit 500 market tokens worth 2 each, mint 49 GLV, redeem them)
example : (490 : Nat) ≤ 500 :=
  glv_roundtrip_no_gain (a := 500) (R := 999) (G := 10000) (G' := 10999) (S := 500) (d := 1) (g := 49) (out := 490)
    (msup := 1000) (pvIn := 2000) (pvOut := 2000) (by decide) (by decide) (by decide) (by decide) (by decide) (by decide) (by decide)
-- `composition_invariant`: a non-empty GLV satisfying `Composed`, and a successful insert keeping it
example : Composed (fun t => ⟨t, 1, 2⟩) ⟨1, 2, [{ token := 10 }]⟩ ∧ (∀ t, ((fun t => (⟨t, 1, 2⟩ : GMeta)) t).token = t) := by
  refine ⟨?_, fun _ => rfl⟩
  intro e he; simp at he; subst he; exact ⟨rfl, rfl⟩
-- `init_markets_share_tokens` / `glvMint_spec`: successful validation / mint
example : (glvValidateInit [⟨10, 1, 2⟩, ⟨11, 1, 2⟩]).isSome = true := by decide
example : glvMint 999 10000 500 1 = some 49 ∧ (500 : Nat) ≠ 0 := by decide

/-! ## GlvLife — the native GLV deposit / withdrawal life cycles (model `Gmx.GlvLife`, harness `glvlife`)

Theorems over the machine that the real `gmsol_store::entry` is diffed against, for EVERY history of
transactions (`GlvLife.run`) or every single transaction. The amounts decided by the pool maths are
parameters of the machine; these theorems hold for all of them. -/
section GlvLife
open Gmx.GlvLife

/-- (iii) for every history: the market-token balances RECORDED in the GLV account equal the GLV's vault
balances, and the GLV supply `minted − burned` never underflows. -/
theorem glvlife_recorded_eq_vault (l sh : Nat) (now : Int) (ops : List Op) :
    (run (init l sh now) ops).1.glvRec0 = (run (init l sh now) ops).1.glvVault0 ∧
    (run (init l sh now) ops).1.glvRec1 = (run (init l sh now) ops).1.glvVault1 ∧
    (run (init l sh now) ops).1.glvBurned ≤ (run (init l sh now) ops).1.glvMinted := by
  have := run_ok ops (init l sh now) ⟨rfl, rfl⟩ (Nat.le_refl _)
  exact ⟨this.1.1, this.1.2, this.2⟩

/-- only a keeper executes, only a PENDING action, and the fee is `min(fee, execution lamports)` -/
theorem glvlife_exec_requires_pending (s s' : St) (who : Who) (slot fee x y z paid : Nat) (throw fail : Bool) (o : Outcome)
    (h : exec s who slot fee throw fail x y z = some (s', o, paid)) :
    ∃ act, s.acts slot = some act ∧ act.state = 0 ∧ who = .keeper ∧
      paid = (if fee ≤ act.execLamports then fee else act.execLamports) := by
  obtain ⟨act, h1, h2, h3, _, h5, _⟩ := exec_some h
  exact ⟨act, h1, h2, h3, h5⟩

/-- EXACTLY ONCE: after an execution (completed or cancelled) every further execution of the slot is rejected,
whoever calls it and whatever amounts are declared -/
theorem glvlife_exec_exactly_once (s s' : St) (who who' : Who) (slot fee fee' x y z x' y' z' paid : Nat)
    (throw fail throw' fail' : Bool) (o : Outcome)
    (h : exec s who slot fee throw fail x y z = some (s', o, paid)) :
    exec s' who' slot fee' throw' fail' x' y' z' = none := by
  obtain ⟨a, ha, hd⟩ := exec_done h
  exact exec_none_of_done ha hd who' fee' throw' fail' x' y' z'

/-- a cancelled execution changes nothing but the action's state: the whole escrow stays for `close` -/
theorem glvlife_cancel_keeps_escrow (s s' : St) (who : Who) (slot fee x y z paid : Nat) (throw fail : Bool)
    (h : exec s who slot fee throw fail x y z = some (s', .cancelled, paid)) :
    ∃ act, s.acts slot = some act ∧ s' = setAct s slot (some { act with state := 2 }) ∧ throw = false := by
  obtain ⟨act, h1, _, _, _, _, hcase⟩ := exec_some h
  rcases hcase with ⟨_, ht, hs⟩ | ⟨ho, _⟩
  · exact ⟨act, h1, hs, ht⟩
  · cases ho

/-- a completed GLV DEPOSIT: the collateral escrow goes to the market vaults, the escrowed market tokens plus the
`x` freshly minted ones go to the GLV vault AND are recorded, `y` GLV tokens are minted to the escrow -/
theorem glvlife_deposit_moves_exactly (s s' : St) (slot x y z : Nat) (act : Act) (hk : act.kind = 0)
    (h : complete s slot act x y z = some s') :
    s'.vaultLong = s.vaultLong + act.escLong ∧ s'.vaultShort = s.vaultShort + act.escShort ∧
    s'.glvVault act.m = s.glvVault act.m + (act.escMt + x) ∧ s'.glvRec act.m = s.glvRec act.m + (act.escMt + x) ∧
    s'.mtSupply act.m = s.mtSupply act.m + x ∧ s'.glvMinted = s.glvMinted + y ∧ s'.glvBurned = s.glvBurned ∧
    s'.acts slot = some { act with state := 1, escLong := 0, escShort := 0, escMt := 0, escGlv := act.escGlv + y } := by
  rcases complete_some h with ⟨_, rfl⟩ | ⟨hne, _⟩
  · refine ⟨?_, ?_, ?_, ?_, ?_, ?_, ?_, acts_setAct_same _ _ _⟩ <;>
      (by_cases hm : act.m = 0 <;> simp [setAct, glvIn, mintMt, St.glvVault, St.glvRec, St.mtSupply, hm])
  · exact absurd hk hne

/-- a completed GLV WITHDRAWAL: the escrowed GLV tokens are burned, `x` market tokens leave the GLV vault (and the
recorded balance) and are burned, `y`/`z` long/short leave the market vaults into the escrow -/
theorem glvlife_withdrawal_moves_exactly (s s' : St) (slot x y z : Nat) (act : Act) (hk : act.kind ≠ 0)
    (h : complete s slot act x y z = some s') :
    s'.vaultLong + y = s.vaultLong ∧ s'.vaultShort + z = s.vaultShort ∧
    s'.glvVault act.m + x = s.glvVault act.m ∧ s'.glvRec act.m + x = s.glvRec act.m ∧
    s'.mtSupply act.m + x = s.mtSupply act.m ∧ s'.glvBurned = s.glvBurned + act.escGlv ∧ s'.glvMinted = s.glvMinted ∧
    s'.acts slot = some { act with state := 1, escGlv := 0, escLong := act.escLong + y, escShort := act.escShort + z } := by
  rcases complete_some h with ⟨he, _⟩ | ⟨_, h1, h2, h3, h4, h5, _, rfl⟩
  · exact absurd he hk
  · refine ⟨?_, ?_, ?_, ?_, ?_, ?_, ?_, acts_setAct_same _ _ _⟩ <;>
      (by_cases hm : act.m = 0 <;> simp [setAct, glvOut, burnMt, St.glvVault, St.glvRec, St.mtSupply, hm] at * <;> omega)

/-- ESCROW HOME: `close` is for the owner (any state) or a keeper (completed / cancelled only); it empties the slot
and credits the owner with exactly the escrowed long, short, market and GLV tokens; vaults, supplies and the GLV's
recorded balances are untouched -/
theorem glvlife_close_escrow_home (s s' : St) (who : Who) (slot : Nat) (h : close s who slot = some s') :
    ∃ act, s.acts slot = some act ∧ (who = .user act.owner ∨ (who = .keeper ∧ act.state ≠ 0)) ∧
      s'.acts slot = none ∧
      (s'.users act.owner).long = (s.users act.owner).long + act.escLong ∧
      (s'.users act.owner).short = (s.users act.owner).short + act.escShort ∧
      (s'.users act.owner).glv = (s.users act.owner).glv + act.escGlv ∧
      (s'.users act.owner).mt act.m = (s.users act.owner).mt act.m + act.escMt ∧
      s'.vaultLong = s.vaultLong ∧ s'.vaultShort = s.vaultShort ∧ s'.glvVault0 = s.glvVault0 ∧ s'.glvVault1 = s.glvVault1 ∧
      s'.glvRec0 = s.glvRec0 ∧ s'.glvRec1 = s.glvRec1 ∧ s'.glvMinted = s.glvMinted ∧ s'.glvBurned = s.glvBurned := by
  obtain ⟨act, h1, _, h3, _, rfl⟩ := close_some h
  refine ⟨act, h1, h3, acts_setAct_same _ _ _, ?_, ?_, ?_, ?_, rfl, rfl, rfl, rfl, rfl, rfl, rfl, rfl⟩ <;>
    simp [setAct, setUser, User.mt, User.addMt] <;> (by_cases hm : act.m = 0 <;> simp [hm])

/-- THE GLOBAL LEDGER, for every history (`totalLong`/`totalShort`/`heldGlv` are folds over the finite user and slot
lists; `step_preserves_total`, then induction): the long and the short tokens held by all users, all escrows and the
market vault always add up to what the users started with — nothing is created or lost — and the GLV supply
`minted − burned` is exactly what users and escrows hold. -/
theorem glvlife_ledger_every_history (l sh : Nat) (now : Int) (ops : List Op) :
    totalLong (run (init l sh now) ops).1 = l + l ∧ totalShort (run (init l sh now) ops).1 = sh + sh ∧
    (run (init l sh now) ops).1.glvBurned + heldGlv (run (init l sh now) ops).1 = (run (init l sh now) ops).1.glvMinted := by
  have := run_preserves_total ops (init l sh now) (ledger_init l sh now)
  exact ⟨this.long, this.short, this.glv⟩

/-- THE MARKET-TOKEN LEDGERS, for every history: for each of the two markets, the market tokens held by all users, all
escrows and the GLV vault add up to the market token's supply (`totalMt0`/`totalMt1` are folds over the finite user and
slot lists; `step_preserves_mt`, then induction) — so the GLV vault never holds tokens that do not exist, and nothing is
minted or burned outside a deposit, a withdrawal or a shift -/
theorem glvlife_market_token_ledger_every_history (l sh : Nat) (now : Int) (ops : List Op) :
    totalMt0 (run (init l sh now) ops).1 = (run (init l sh now) ops).1.mtSupply0 ∧
    totalMt1 (run (init l sh now) ops).1 = (run (init l sh now) ops).1.mtSupply1 := by
  have := run_preserves_mt ops (init l sh now) (mtLedger_init l sh now)
  exact ⟨this.mt0, this.mt1⟩

/-- … one transaction at a time -/
theorem glvlife_step_preserves_total (L S : Nat) (s : St) (op : Op) (h : Ledger L S s) : Ledger L S (step s op).1 :=
  step_preserves_total s op h

/-- FINDING F-C45-orphan (hypothesis `S ≠ 0` of `glv_roundtrip_no_gain` is necessary): when the GLV supply is 0 but the
GLV still has value (market tokens left behind by earlier redemptions), `usd_to_market_token_amount` mints GLV tokens
for the WHOLE value `G + R`, and redeeming them pays out the deposit plus the orphaned residue. Pricing model
`Gmx.Model.Glv`: depositing market tokens worth `R = 1000` into a GLV worth `G = 500` with supply 0 mints 1500 GLV tokens,
which redeem (pool value = supply, so one market token is worth 1) for 1500 market tokens — 500 more than went in.
Replayed on the real program by `corpus/C45/glvlife-orphan.ops` (`!KNOWN F-C45-orphan`). -/
theorem glv_roundtrip_zero_supply_witness :
    glvMint 1000 500 0 1 = some 1500 ∧ glvRedeem 1500 (500 + 1000) (0 + 1500) 2000 2000 1 = some 1500 ∧ 1000 < 1500 := by
  decide

/-! GLV shifts (`create_glv_shift → execute_glv_shift → close_glv_shift`) -/

/-- a shift is created only by a keeper, between two different markets of the GLV, for a non-zero amount the GLV
vault holds, and not before the shift interval since the last executed shift has passed -/
theorem glvlife_shift_create_guards (s s' : St) (who : Who) (i a b c el : Nat) (h : screate s who i a b c el = some s') :
    who = .keeper ∧ a ≠ b ∧ c ≠ 0 ∧ c ≤ s.glvVault a ∧ s.lastShiftAt + SHIFT_INTERVAL ≤ s.now ∧
    s' = setShift s i (some ⟨0, a, b, c, s.now, el⟩) := by
  obtain ⟨h1, _, _, _, h5, _, h7, h8, h9, h10⟩ := screate_some h
  exact ⟨h1, h5, h7, h8, h9, h10⟩

/-- a shift is executed only by a keeper and only while PENDING; it COMPLETES only if the shift interval has passed
and the vault still holds the amount -/
theorem glvlife_shift_exec_guards (s s' : St) (who : Who) (i fee x paid : Nat) (throw fail : Bool) (o : Outcome)
    (h : sexec s who i fee throw fail x = some (s', o, paid)) :
    ∃ sh, s.shifts i = some sh ∧ sh.state = 0 ∧ who = .keeper ∧
      (o = .completed → s.lastShiftAt + SHIFT_INTERVAL ≤ s.now ∧ sh.amount ≤ s.glvVault sh.src) := by
  obtain ⟨sh, h1, h2, h3, _, _, hcase⟩ := sexec_some h
  refine ⟨sh, h1, h2, h3, fun ho => ?_⟩
  rcases hcase with ⟨hc, _, _⟩ | ⟨_, h4, h5, _⟩
  · rw [ho] at hc; cases hc
  · exact ⟨h4, h5⟩

/-- a completed shift only moves market tokens between the GLV's own vaults: `amount` of the source market are
redeemed (vault, recorded balance and supply go down together), `x` of the destination market are minted into the
vault (vault, recorded balance and supply go up together); users, escrows, the shared collateral vaults and the GLV
supply are untouched; the shift clock is set -/
theorem glvlife_shift_moves_exactly (s s' : St) (i x : Nat) (sh : Shift) (hne : sh.src ≠ sh.dst) (hs : sh.src < 2)
    (hd : sh.dst < 2) (hv : sh.amount ≤ s.glvVault sh.src) (h : scomplete s i sh x = some s') :
    s'.glvVault sh.src + sh.amount = s.glvVault sh.src ∧ s'.glvRec sh.src + sh.amount = s.glvRec sh.src ∧
    s'.mtSupply sh.src + sh.amount = s.mtSupply sh.src ∧
    s'.glvVault sh.dst = s.glvVault sh.dst + x ∧ s'.glvRec sh.dst = s.glvRec sh.dst + x ∧
    s'.mtSupply sh.dst = s.mtSupply sh.dst + x ∧
    s'.users = s.users ∧ s'.acts = s.acts ∧ s'.vaultLong = s.vaultLong ∧ s'.vaultShort = s.vaultShort ∧
    s'.glvMinted = s.glvMinted ∧ s'.glvBurned = s.glvBurned ∧ s'.lastShiftAt = s.now := by
  obtain ⟨h1, h2, rfl⟩ := scomplete_some h
  have hcases : (sh.src = 0 ∧ sh.dst = 1) ∨ (sh.src = 1 ∧ sh.dst = 0) := by omega
  rcases hcases with ⟨ha, hb⟩ | ⟨ha, hb⟩ <;>
    simp [setShift, glvIn, glvOut, mintMt, burnMt, St.glvVault, St.glvRec, St.mtSupply, ha, hb] at * <;> omega

/-! non-vacuity: a GLV deposit of market tokens + collateral, executed and closed, then a withdrawal -/
example : (run (init 10000 5000 1700000000) glHist).2 =
    [.none, .none, .created 0, .executed 0 .completed, .closed 0, .created 2, .executed 2 .completed, .closed 2] := by decide
example : ((run (init 10000 5000 1700000000) glHist).1.glvVault0, (run (init 10000 5000 1700000000) glHist).1.glvRec0,
    glvSupply (run (init 10000 5000 1700000000) glHist).1, ((run (init 10000 5000 1700000000) glHist).1.users 0).glv) =
    (310, 310, 250, 250) := by decide
example : (exec (run (init 10000 5000 1700000000) (glHist.take 4)).1 .keeper 0 0 false false 1 1 1).isNone = true := by decide

-- added by the hygiene audit: `glvlife_cancel_keeps_escrow` — an execution that is CANCELLED (the action fails, no throw)
example : (exec (run (init 10000 5000 1700000000) (glHist.take 3)).1 .keeper 0 0 false true 1 1 1).map (fun r => r.2.1) =
    some .cancelled := by decide

example : ((run (init 10000 5000 1700000000) (glHist.take 5 ++ [.screate .keeper 0 0 1 200 0, .sexec .keeper 0 0 true false 190])).1.glvVault0,
    (run (init 10000 5000 1700000000) (glHist.take 5 ++ [.screate .keeper 0 0 1 200 0, .sexec .keeper 0 0 true false 190])).1.glvRec1) = (260, 190) := by decide

example : totalLong (run (init 10000 5000 1700000000) glHist).1 = 20000 ∧ heldGlv (run (init 10000 5000 1700000000) glHist).1 = 250 := by decide

example : totalMt0 (run (init 10000 5000 1700000000) glHist).1 = 810 ∧ (run (init 10000 5000 1700000000) glHist).1.mtSupply0 = 810 := by decide

end GlvLife

end Gmx.C45
