import Gmx.Lemmas.OraclePrice
/-!
# C29 — an adjusted oracle price stays inside the allowed band

`r` = reference unit price (explicit or the feed's own mid), `dev = ⌊r·factor/U⌋`.
The clamp rewrites `max` to `⌊(r+dev)⌋_step` and `min` to `⌈(r−dev)⌉_step`, each at the decimal
precision of the bound it replaces.
-/
namespace Gmx.C29
open Gmx Gmx.OraclePrice

/-- complete description of a successful adjustment. -/
theorem adjust_spec {U f : Nat} {p p' : Price} {ref : Option Dec} (h : adjust U f p ref = some p') :
    ∃ r dev, refUnit p ref = some r ∧ applyFactor 128 U r f = some dev ∧
      (absDiff p.max.unit r > dev ∨ absDiff p.min.unit r > dev) ∧
      (if absDiff p.max.unit r > dev then
          p'.max.mult = p.max.mult ∧ p'.max.unit ≤ r + dev ∧ r + dev < p'.max.unit + 10 ^ p.max.mult
        else p'.max = p.max) ∧
      (if absDiff p.min.unit r > dev then
          dev ≤ r ∧ p'.min.mult = p.min.mult ∧ r - dev ≤ p'.min.unit ∧
            p'.min.unit < r - dev + 10 ^ p.min.mult
        else p'.min = p.min) := by
  unfold adjust at h
  cases hr : refUnit p ref with
  | none => simp [hr] at h
  | some r =>
    cases hd : applyFactor 128 U r f with
    | none => simp [hr, hd] at h
    | some dev =>
      simp only [hr, hd] at h
      refine ⟨r, dev, rfl, hd, ?_⟩
      by_cases hmax : absDiff p.max.unit r > dev
      · simp only [hmax, if_true] at h ⊢
        unfold checkedAdd toU at h
        by_cases hfit : r + dev < 2 ^ 128
        · simp only [hfit, if_true] at h
          cases hw : p.max.withUnit (r + dev) false with
          | none => simp [hw] at h
          | some mx =>
            obtain ⟨w1, w2, w3, _⟩ := withUnit_floor hw
            simp only [hw] at h
            by_cases hmin : absDiff p.min.unit r > dev
            · simp only [hmin, if_true] at h ⊢
              unfold checkedSub at h
              by_cases hle : dev ≤ r
              · simp only [hle, if_true] at h
                cases hw2 : p.min.withUnit (r - dev) true with
                | none => simp [hw2] at h
                | some mn =>
                  obtain ⟨v1, v2, v3, _⟩ := withUnit_ceil hw2
                  simp only [hw2, Option.getD_some, Option.some.injEq] at h
                  subst h
                  exact ⟨Or.inl trivial, ⟨w1, w2, w3⟩, hle, v1, v2, v3⟩
              · simp [hle] at h
            · simp only [hmin, if_false, Option.some.injEq] at h ⊢
              subst h
              exact ⟨Or.inl trivial, ⟨w1, w2, w3⟩, rfl⟩
        · simp [hfit] at h
      · simp only [hmax, if_false] at h ⊢
        by_cases hmin : absDiff p.min.unit r > dev
        · simp only [hmin, if_true] at h ⊢
          unfold checkedSub at h
          by_cases hle : dev ≤ r
          · simp only [hle, if_true] at h
            cases hw2 : p.min.withUnit (r - dev) true with
            | none => simp [hw2] at h
            | some mn =>
              obtain ⟨v1, v2, v3, _⟩ := withUnit_ceil hw2
              simp only [hw2, Option.getD_none, Option.some.injEq] at h
              subst h
              exact ⟨Or.inr trivial, rfl, hle, v1, v2, v3⟩
          · simp [hle] at h
        · simp [hmin] at h

/-- every adjusted price has its max at or below `r + dev` (floored) and its min at or above
`r − dev` (ceiled): neither bound is ever left, or moved, outside the band on its own side. -/
theorem adjust_in_band {U f : Nat} {p p' : Price} {ref : Option Dec} (h : adjust U f p ref = some p') :
    ∃ r dev, refUnit p ref = some r ∧ applyFactor 128 U r f = some dev ∧
      p'.max.unit ≤ r + dev ∧ r ≤ p'.min.unit + dev := by
  obtain ⟨r, dev, h1, h2, _, hmax, hmin⟩ := adjust_spec h
  refine ⟨r, dev, h1, h2, ?_, ?_⟩
  · by_cases c : absDiff p.max.unit r > dev
    · simp only [c, if_true] at hmax; exact hmax.2.1
    · simp only [c, if_false] at hmax
      rw [hmax]; have := (absDiff_le_iff p.max.unit r dev).1 (by omega); omega
  · by_cases c : absDiff p.min.unit r > dev
    · simp only [c, if_true] at hmin; omega
    · simp only [c, if_false] at hmin
      rw [hmin]; have := (absDiff_le_iff p.min.unit r dev).1 (by omega); omega

theorem fromPriceOk_iff (p : Price) :
    fromPriceOk p = true ↔ p.min.mult = p.max.mult ∧ p.min.value ≠ 0 ∧ p.min.value ≤ p.max.value := by
  simp [fromPriceOk, and_assoc]

/-- an adjusted price that the price map accepts is well formed and inside the band:
`0 < min`, `r ≤ min + dev` (i.e. `r − dev ≤ min` without truncated subtraction; `dev ≤ r` is NOT
claimed), `min ≤ max ≤ r + dev` (unit prices). -/
theorem accepted_after_adjust {U f : Nat} {p p' : Price} {ref : Option Dec}
    (h : adjust U f p ref = some p') (hok : fromPriceOk p' = true) :
    ∃ r dev, refUnit p ref = some r ∧ applyFactor 128 U r f = some dev ∧
      0 < p'.min.unit ∧ r ≤ p'.min.unit + dev ∧ p'.min.unit ≤ p'.max.unit ∧ p'.max.unit ≤ r + dev := by
  obtain ⟨r, dev, h1, h2, h3, h4⟩ := adjust_in_band h
  obtain ⟨m, v0, vle⟩ := (fromPriceOk_iff p').1 hok
  refine ⟨r, dev, h1, h2, ?_, h4, ?_, h3⟩
  · simp only [Dec.unit]; exact Nat.mul_pos (Nat.pos_of_ne_zero v0) (pow10_pos _)
  · simp only [Dec.unit, m]; exact Nat.mul_le_mul_right _ vle

/-- an inverted price (`max < min` in unit prices) — such as the clamp can produce — is never
accepted by the price map. -/
theorem never_accept_inverted (p : Price) (h : p.max.unit < p.min.unit) : fromPriceOk p = false := by
  cases hf : fromPriceOk p with
  | false => rfl
  | true =>
    obtain ⟨m, _, vle⟩ := (fromPriceOk_iff p).1 hf
    have : p.min.unit ≤ p.max.unit := by
      simp only [Dec.unit, m]; exact Nat.mul_le_mul_right _ vle
    omega

/-- a price whose bounds carry different decimal multipliers — the clamp keeps each bound's own
multiplier, so it can return one — is never accepted either. -/
theorem never_accept_mismatched (p : Price) (h : p.min.mult ≠ p.max.mult) : fromPriceOk p = false := by
  cases hf : fromPriceOk p with
  | false => rfl
  | true => exact absurd ((fromPriceOk_iff p).1 hf).1 h

/-- a price already inside the band is left alone (the function reports "no adjustment"). -/
theorem adjust_none_in_band {U f : Nat} {p : Price} {ref : Option Dec} {r dev : Nat}
    (h1 : refUnit p ref = some r) (h2 : applyFactor 128 U r f = some dev)
    (hmax : absDiff p.max.unit r ≤ dev) (hmin : absDiff p.min.unit r ≤ dev) :
    adjust U f p ref = none := by
  have a : ¬ absDiff p.max.unit r > dev := by omega
  have b : ¬ absDiff p.min.unit r > dev := by omega
  simp [adjust, h1, h2, a, b]

/-- adjustment never touches the decimal precision of either bound. -/
theorem adjust_keeps_multipliers {U f : Nat} {p p' : Price} {ref : Option Dec}
    (h : adjust U f p ref = some p') : p'.max.mult = p.max.mult ∧ p'.min.mult = p.min.mult := by
  obtain ⟨r, dev, _, _, _, hmax, hmin⟩ := adjust_spec h
  constructor
  · by_cases c : absDiff p.max.unit r > dev
    · simp only [c, if_true] at hmax; exact hmax.1
    · simp only [c, if_false] at hmax; rw [hmax]
  · by_cases c : absDiff p.min.unit r > dev
    · simp only [c, if_true] at hmin; exact hmin.2.1
    · simp only [c, if_false] at hmin; rw [hmin]

/-- WITNESS: mid reference, deviation below half a precision step — the clamp produces an
inverted price (`min' > max'`, and `max'` below the band), which the price map rejects. -/
theorem adjust_inverted_witness :
    adjust (10 ^ 20) (10 ^ 16) ⟨⟨1000, 2⟩, ⟨1001, 2⟩⟩ none = some ⟨⟨1001, 2⟩, ⟨1000, 2⟩⟩ ∧
      fromPriceOk ⟨⟨1001, 2⟩, ⟨1000, 2⟩⟩ = false := by
  decide

/-! ### end to end: adjust ∘ validate ∘ price map (one token of `set_prices_from_remaining_accounts`) -/

/-- why an adjustment that was needed did not happen: a checked step or a `u32` conversion failed. -/
def AdjFail (p : Price) (r dev : Nat) : Prop :=
  (absDiff p.max.unit r > dev ∧ (2 ^ 128 ≤ r + dev ∨ p.max.withUnit (r + dev) false = none)) ∨
  (absDiff p.min.unit r > dev ∧ (r < dev ∨ p.min.withUnit (r - dev) true = none))

/-- "no adjustment" means: already in band, or one of the enumerated failures. -/
theorem adjust_none_cases {U f : Nat} {p : Price} {ref : Option Dec} {r dev : Nat}
    (h1 : refUnit p ref = some r) (h2 : applyFactor 128 U r f = some dev)
    (h : adjust U f p ref = none) :
    (absDiff p.max.unit r ≤ dev ∧ absDiff p.min.unit r ≤ dev) ∨ AdjFail p r dev := by
  unfold adjust at h
  simp only [h1, h2] at h
  by_cases hmax : absDiff p.max.unit r > dev
  · simp only [hmax, if_true] at h
    unfold checkedAdd toU at h
    by_cases hfit : r + dev < 2 ^ 128
    · simp only [hfit, if_true] at h
      cases hw : p.max.withUnit (r + dev) false with
      | none => exact Or.inr (Or.inl ⟨hmax, Or.inr hw⟩)
      | some mx =>
        simp only [hw] at h
        by_cases hmin : absDiff p.min.unit r > dev
        · simp only [hmin, if_true] at h
          unfold checkedSub at h
          by_cases hle : dev ≤ r
          · simp only [hle, if_true] at h
            cases hw2 : p.min.withUnit (r - dev) true with
            | none => exact Or.inr (Or.inr ⟨hmin, Or.inr hw2⟩)
            | some mn => simp [hw2] at h
          · exact Or.inr (Or.inr ⟨hmin, Or.inl (by omega)⟩)
        · simp [hmin] at h
    · exact Or.inr (Or.inl ⟨hmax, Or.inl (by omega)⟩)
  · simp only [hmax, if_false] at h
    by_cases hmin : absDiff p.min.unit r > dev
    · simp only [hmin, if_true] at h
      unfold checkedSub at h
      by_cases hle : dev ≤ r
      · simp only [hle, if_true] at h
        cases hw2 : p.min.withUnit (r - dev) true with
        | none => exact Or.inr (Or.inr ⟨hmin, Or.inr hw2⟩)
        | some mn => simp [hw2] at h
      · exact Or.inr (Or.inr ⟨hmin, Or.inl (by omega)⟩)
    · exact Or.inl ⟨by omega, by omega⟩

/-- the price that reaches the validator and the price map when adjustment is enabled. -/
def adjusted (U f : Nat) (p : Price) (ref : Option Dec) : Price := (adjust U f p ref).getD p

/-- one token accepted end to end: the (possibly adjusted) price passes the validator's deviation
clause (`validate_one` with the same factor; timestamps are a separate clause) and the price map. -/
def Accepted (U f : Nat) (p : Price) (ref : Option Dec) : Prop :=
  (∃ b, checkDeviation U f (adjusted U f p ref) ref = .ok b) ∧ fromPriceOk (adjusted U f p ref) = true

/-- END TO END: with adjustment enabled, an accepted price is well formed and lies within the
reference ± the maximum deviation — exactly when the adjuster rewrote it, and up to less than one
precision step (the validator's rounding, F-C24b) when it was left alone; with a zero floored
deviation it is in band unless the adjustment itself failed (`AdjFail`). `r`, `dev` are those of
the feed price as delivered. -/
theorem e2e_accepted_in_band {U f : Nat} {p : Price} {ref : Option Dec} (h : Accepted U f p ref) :
    ∃ r dev, refUnit p ref = some r ∧ applyFactor 128 U r f = some dev ∧
      0 < (adjusted U f p ref).min.unit ∧
      (adjusted U f p ref).min.unit ≤ (adjusted U f p ref).max.unit ∧
      ((∃ p', adjust U f p ref = some p' ∧ r ≤ p'.min.unit + dev ∧ p'.max.unit ≤ r + dev) ∨
       (adjust U f p ref = none ∧
         (0 < dev → absDiff p.max.unit r < dev + 10 ^ p.max.mult ∧
                    absDiff p.min.unit r < dev + 10 ^ p.max.mult) ∧
         (dev = 0 → (absDiff p.max.unit r = 0 ∧ absDiff p.min.unit r = 0) ∨ AdjFail p r 0))) := by
  obtain ⟨⟨b, hc⟩, hok⟩ := h
  cases ha : adjust U f p ref with
  | some p' =>
    have e : adjusted U f p ref = p' := by simp [adjusted, ha]
    rw [e] at hok
    obtain ⟨r, dev, h1, h2, h3, h4, h5, h6⟩ := accepted_after_adjust ha hok
    rw [e]
    exact ⟨r, dev, h1, h2, h3, h5, Or.inl ⟨p', rfl, h4, h6⟩⟩
  | none =>
    have e : adjusted U f p ref = p := by simp [adjusted, ha]
    rw [e] at hok hc
    rw [e]
    obtain ⟨m, v0, vle⟩ := (fromPriceOk_iff p).1 hok
    have hpos : 0 < p.min.unit := by
      simp only [Dec.unit]; exact Nat.mul_pos (Nat.pos_of_ne_zero v0) (pow10_pos _)
    have hle : p.min.unit ≤ p.max.unit := by
      simp only [Dec.unit, m]; exact Nat.mul_le_mul_right _ vle
    unfold checkDeviation at hc
    cases hr : refUnit p ref with
    | none => simp [hr] at hc
    | some r =>
      cases hd : applyFactor 128 U r f with
      | none => simp [hr, hd] at hc
      | some dev =>
        refine ⟨r, dev, rfl, hd, hpos, hle, Or.inr ⟨rfl, ?_, ?_⟩⟩
        · intro hdp
          simp only [hr, hd, hdp, gt_iff_lt, if_true] at hc
          cases hw : p.max.withUnit dev true with
          | none => simp [hw] at hc
          | some d =>
            obtain ⟨_, w2, w3, _⟩ := withUnit_ceil hw
            simp only [hw] at hc
            by_cases c1 : d.unit < absDiff p.max.unit r
            · simp [c1] at hc
            · by_cases c2 : d.unit < absDiff p.min.unit r
              · simp [c1, c2] at hc
              · constructor <;> omega
        · intro hz
          subst hz
          rcases adjust_none_cases hr hd ha with ⟨a, b⟩ | hf
          · exact Or.inl ⟨by omega, by omega⟩
          · exact Or.inr hf

/-- in the configurable domain (`factor = ratio·10^12 ≥ 10^12`, `U = 10^20`) a zero floored
deviation means a reference below `10^8`, for which no step of the adjustment can fail: an accepted
price then EQUALS the reference (both bounds), i.e. a feed price that differs from its reference
is clamped or rejected, never passed through. -/
theorem e2e_dev_zero_equals_reference {f : Nat} {p : Price} {ref : Option Dec} {r : Nat}
    (hf : 10 ^ 12 ≤ f) (hr : refUnit p ref = some r) (hd : applyFactor 128 (10 ^ 20) r f = some 0)
    (h : Accepted (10 ^ 20) f p ref) :
    (adjusted (10 ^ 20) f p ref).min.unit = r ∧ (adjusted (10 ^ 20) f p ref).max.unit = r := by
  -- r < 10^8
  have hsmall : r < 10 ^ 8 := by
    unfold applyFactor mulDiv toU at hd
    simp only [show (10:Nat) ^ 20 ≠ 0 by decide, if_false] at hd
    split at hd
    · injection hd with hd
      have h0 : r * f < 10 ^ 20 := by
        rcases Nat.lt_or_ge (r * f) (10 ^ 20) with h | h
        · exact h
        · have := Nat.div_pos h (by decide : 0 < 10 ^ 20); omega
      rcases Nat.lt_or_ge r (10 ^ 8) with h | h
      · exact h
      · have : 10 ^ 8 * 10 ^ 12 ≤ r * f := Nat.mul_le_mul h hf
        have e : (10:Nat) ^ 8 * 10 ^ 12 = 10 ^ 20 := by decide
        omega
    · cases hd
  obtain ⟨r', dev', h1, h2, hpos, hle, hcase⟩ := e2e_accepted_in_band h
  rw [hr] at h1; cases h1
  rw [hd] at h2; cases h2
  rcases hcase with ⟨p', ha, l, u⟩ | ⟨ha, _, hz⟩
  · have e : adjusted (10 ^ 20) f p ref = p' := by simp [adjusted, ha]
    rw [e] at hle ⊢
    omega
  · have e : adjusted (10 ^ 20) f p ref = p := by simp [adjusted, ha]
    rw [e]
    rcases hz rfl with ⟨a, b⟩ | hfail
    · have := (absDiff_le_iff p.max.unit r 0).1 (by omega)
      have := (absDiff_le_iff p.min.unit r 0).1 (by omega)
      omega
    · -- no failure is possible for r < 10^8
      exfalso
      have hq : ∀ (d : Dec) (up : Bool), d.withUnit r up ≠ none := by
        intro d up hn
        unfold Dec.withUnit at hn
        have hp := pow10_pos d.mult
        have hb : (if up = true then ceilDiv r (10 ^ d.mult) else r / 10 ^ d.mult) < 2 ^ 32 := by
          have h1 : r / 10 ^ d.mult ≤ r := Nat.div_le_self _ _
          have h2 : ceilDiv r (10 ^ d.mult) ≤ r := by
            unfold ceilDiv
            rcases Nat.eq_zero_or_pos r with h0 | h0
            · subst h0; simp; omega
            · apply Nat.div_le_of_le_mul
              have : r + 10 ^ d.mult - 1 ≤ r * 10 ^ d.mult := by
                have := Nat.mul_le_mul h0 hp
                calc r + 10 ^ d.mult - 1 ≤ r + 10 ^ d.mult - 1 := Nat.le_refl _
                  _ ≤ r * 10 ^ d.mult := by
                    have e1 : r * 10 ^ d.mult = (r - 1) * 10 ^ d.mult + 10 ^ d.mult := by
                      rw [← Nat.add_one_mul]; congr 1; omega
                    have e2 : r - 1 ≤ (r - 1) * 10 ^ d.mult := Nat.le_mul_of_pos_right _ hp
                    omega
              rw [Nat.mul_comm]; exact this
          have : (2:Nat) ^ 32 > 10 ^ 8 := by decide
          split <;> omega
        simp [hb] at hn
      rcases hfail with ⟨_, h | h⟩ | ⟨_, h | h⟩
      · have : (2:Nat) ^ 128 > 10 ^ 8 := by decide
        omega
      · exact hq p.max false (by simpa using h)
      · omega
      · exact hq p.min true (by simpa using h)

/-- WITNESS (model only, outside the configurable domain): with a factor BELOW the minimum a feed
config can hold (`10^9 < 10^12`) the floored deviation is 0 for a large reference, the clamp fails
on the `u32` conversion (`with_unit_price` returns `None`), and the validator skips — the feed
price 45/60 is accepted against reference 5·10^10. `FeedConfig::with_max_deviation_factor` rejects
such factors (`MaxDeviationFactorTooSmall`), so this is why `e2e_dev_zero_equals_reference`
needs `10^12 ≤ f`. -/
theorem e2e_below_min_factor_witness :
    adjust (10 ^ 20) (10 ^ 9) ⟨⟨45, 0⟩, ⟨60, 0⟩⟩ (some ⟨5, 10⟩) = none ∧
    checkDeviation (10 ^ 20) (10 ^ 9) ⟨⟨45, 0⟩, ⟨60, 0⟩⟩ (some ⟨5, 10⟩) = .ok false ∧
    fromPriceOk ⟨⟨45, 0⟩, ⟨60, 0⟩⟩ = true := by
  refine ⟨by decide, by rfl, by decide⟩

/-! ### Non-vacuity -/
example : adjust (10 ^ 20) (10 ^ 18) ⟨⟨900, 2⟩, ⟨1200, 2⟩⟩ (some ⟨1000, 2⟩) = some ⟨⟨990, 2⟩, ⟨1010, 2⟩⟩ := by decide
example : fromPriceOk ⟨⟨990, 2⟩, ⟨1010, 2⟩⟩ = true := by decide
example : adjust (10 ^ 20) (10 ^ 18) ⟨⟨995, 2⟩, ⟨1005, 2⟩⟩ (some ⟨1000, 2⟩) = none := by decide

example : never_accept_mismatched ⟨⟨5, 1⟩, ⟨5, 2⟩⟩ (by decide) = (rfl : fromPriceOk ⟨⟨5, 1⟩, ⟨5, 2⟩⟩ = false) := rfl
example : adjusted (10 ^ 20) (10 ^ 12) ⟨⟨45, 0⟩, ⟨60, 0⟩⟩ (some ⟨50, 0⟩) = ⟨⟨50, 0⟩, ⟨50, 0⟩⟩ := by decide
example : checkDeviation (10 ^ 20) (10 ^ 12) ⟨⟨50, 0⟩, ⟨50, 0⟩⟩ (some ⟨50, 0⟩) = .ok false := by rfl

/-! ### Non-vacuity added by the audit (B6): the theorems instantiated on concrete inputs -/
-- the ingredients of the running example: reference 1000.00, deviation 1 % = 10.00
example : refUnit ⟨⟨900, 2⟩, ⟨1200, 2⟩⟩ (some ⟨1000, 2⟩) = some 100000 ∧
    applyFactor 128 (10 ^ 20) 100000 (10 ^ 18) = some 1000 := by decide
-- `adjust_spec` / `adjust_in_band` / `adjust_keeps_multipliers`: both bounds are clamped
example : ∃ r dev, refUnit ⟨⟨900, 2⟩, ⟨1200, 2⟩⟩ (some ⟨1000, 2⟩) = some r ∧ applyFactor 128 (10 ^ 20) r (10 ^ 18) = some dev ∧
    (⟨1010, 2⟩ : Dec).unit ≤ r + dev ∧ r ≤ (⟨990, 2⟩ : Dec).unit + dev :=
  adjust_in_band (U := 10 ^ 20) (f := 10 ^ 18) (p := ⟨⟨900, 2⟩, ⟨1200, 2⟩⟩) (p' := ⟨⟨990, 2⟩, ⟨1010, 2⟩⟩)
    (ref := some ⟨1000, 2⟩) (by decide)
example : (2 : Nat) = 2 ∧ (2 : Nat) = 2 :=
  adjust_keeps_multipliers (U := 10 ^ 20) (f := 10 ^ 18) (p := ⟨⟨900, 2⟩, ⟨1200, 2⟩⟩) (p' := ⟨⟨990, 2⟩, ⟨1010, 2⟩⟩)
    (ref := some ⟨1000, 2⟩) (by decide)
-- only the max is outside (min stays): the `else` branches of `adjust_spec`
example : adjust (10 ^ 20) (10 ^ 18) ⟨⟨995, 2⟩, ⟨1200, 2⟩⟩ (some ⟨1000, 2⟩) = some ⟨⟨995, 2⟩, ⟨1010, 2⟩⟩ ∧
    adjust (10 ^ 20) (10 ^ 18) ⟨⟨900, 2⟩, ⟨1005, 2⟩⟩ (some ⟨1000, 2⟩) = some ⟨⟨990, 2⟩, ⟨1005, 2⟩⟩ := by decide
-- rounding to the bound's own precision: band [989.505, 1009.495] at 0 decimals of the bound ⇒ [990, 1009]
example : adjust (10 ^ 20) (10 ^ 18) ⟨⟨9, 4⟩, ⟨12, 4⟩⟩ (some ⟨99950, 0⟩) = some ⟨⟨10, 4⟩, ⟨10, 4⟩⟩ := by decide
-- `accepted_after_adjust`: both hypotheses at once
example : ∃ r dev, refUnit ⟨⟨900, 2⟩, ⟨1200, 2⟩⟩ (some ⟨1000, 2⟩) = some r ∧ applyFactor 128 (10 ^ 20) r (10 ^ 18) = some dev ∧
    0 < (⟨990, 2⟩ : Dec).unit ∧ r ≤ (⟨990, 2⟩ : Dec).unit + dev ∧ (⟨990, 2⟩ : Dec).unit ≤ (⟨1010, 2⟩ : Dec).unit ∧
    (⟨1010, 2⟩ : Dec).unit ≤ r + dev :=
  accepted_after_adjust (U := 10 ^ 20) (f := 10 ^ 18) (p := ⟨⟨900, 2⟩, ⟨1200, 2⟩⟩) (p' := ⟨⟨990, 2⟩, ⟨1010, 2⟩⟩)
    (ref := some ⟨1000, 2⟩) (by decide) (by decide)
-- `fromPriceOk_iff` / `never_accept_inverted`: the three ways of being rejected
example : fromPriceOk ⟨⟨990, 2⟩, ⟨1010, 3⟩⟩ = false ∧ fromPriceOk ⟨⟨0, 2⟩, ⟨1010, 2⟩⟩ = false ∧
    fromPriceOk ⟨⟨1011, 2⟩, ⟨1010, 2⟩⟩ = false := by decide
example : fromPriceOk ⟨⟨1001, 2⟩, ⟨1000, 2⟩⟩ = false := never_accept_inverted _ (by decide)
-- `adjust_none_in_band`: all four hypotheses with the explicit `r`, `dev`
example : adjust (10 ^ 20) (10 ^ 18) ⟨⟨995, 2⟩, ⟨1005, 2⟩⟩ (some ⟨1000, 2⟩) = none :=
  adjust_none_in_band (U := 10 ^ 20) (f := 10 ^ 18) (p := ⟨⟨995, 2⟩, ⟨1005, 2⟩⟩) (ref := some ⟨1000, 2⟩)
    (r := 100000) (dev := 1000) (by decide) (by decide) (by decide) (by decide)
-- `adjust_none_cases`: the in-band disjunct and the `AdjFail` disjunct are both inhabited
example : (absDiff (⟨1005, 2⟩ : Dec).unit 100000 ≤ 1000 ∧ absDiff (⟨995, 2⟩ : Dec).unit 100000 ≤ 1000) ∨
    AdjFail ⟨⟨995, 2⟩, ⟨1005, 2⟩⟩ 100000 1000 :=
  adjust_none_cases (U := 10 ^ 20) (f := 10 ^ 18) (p := ⟨⟨995, 2⟩, ⟨1005, 2⟩⟩) (ref := some ⟨1000, 2⟩)
    (r := 100000) (dev := 1000) (by decide) (by decide) (by decide)
example : adjust (10 ^ 20) (10 ^ 9) ⟨⟨45, 0⟩, ⟨60, 0⟩⟩ (some ⟨5, 10⟩) = none ∧
    AdjFail ⟨⟨45, 0⟩, ⟨60, 0⟩⟩ 50000000000 0 :=
  ⟨by decide, Or.inl ⟨by decide, Or.inr (by decide)⟩⟩
-- `Accepted` is inhabited in all three regimes: clamped (dev > 0), left alone (dev > 0), clamped with dev = 0
example : Accepted (10 ^ 20) (10 ^ 18) ⟨⟨900, 2⟩, ⟨1200, 2⟩⟩ (some ⟨1000, 2⟩) := ⟨⟨true, by rfl⟩, by decide⟩
example : Accepted (10 ^ 20) (10 ^ 18) ⟨⟨995, 2⟩, ⟨1005, 2⟩⟩ (some ⟨1000, 2⟩) := ⟨⟨true, by rfl⟩, by decide⟩
example : Accepted (10 ^ 20) (10 ^ 12) ⟨⟨45, 0⟩, ⟨60, 0⟩⟩ (some ⟨50, 0⟩) := ⟨⟨false, by rfl⟩, by decide⟩
-- ... while the clamp-then-validate pipeline rejects what the clamp inverted, and an un-clampable outlier
example : ¬ Accepted (10 ^ 20) (10 ^ 16) ⟨⟨1000, 2⟩, ⟨1001, 2⟩⟩ none := fun h => by
  have : fromPriceOk (adjusted (10 ^ 20) (10 ^ 16) ⟨⟨1000, 2⟩, ⟨1001, 2⟩⟩ none) = false := by decide
  rw [h.2] at this; cases this
-- `e2e_accepted_in_band` instantiated in the clamped regime
example : ∃ r dev, refUnit ⟨⟨900, 2⟩, ⟨1200, 2⟩⟩ (some ⟨1000, 2⟩) = some r ∧
    applyFactor 128 (10 ^ 20) r (10 ^ 18) = some dev ∧
    0 < (adjusted (10 ^ 20) (10 ^ 18) ⟨⟨900, 2⟩, ⟨1200, 2⟩⟩ (some ⟨1000, 2⟩)).min.unit :=
  have ⟨r, dev, h1, h2, h3, _⟩ := e2e_accepted_in_band (U := 10 ^ 20) (f := 10 ^ 18) (p := ⟨⟨900, 2⟩, ⟨1200, 2⟩⟩)
    (ref := some ⟨1000, 2⟩) ⟨⟨true, by rfl⟩, by decide⟩
  ⟨r, dev, h1, h2, h3⟩
-- `e2e_dev_zero_equals_reference`: the minimum configurable factor, reference 50 (< 10^8 ⇒ dev = 0)
example : (adjusted (10 ^ 20) (10 ^ 12) ⟨⟨45, 0⟩, ⟨60, 0⟩⟩ (some ⟨50, 0⟩)).min.unit = 50 ∧
    (adjusted (10 ^ 20) (10 ^ 12) ⟨⟨45, 0⟩, ⟨60, 0⟩⟩ (some ⟨50, 0⟩)).max.unit = 50 :=
  e2e_dev_zero_equals_reference (f := 10 ^ 12) (p := ⟨⟨45, 0⟩, ⟨60, 0⟩⟩) (ref := some ⟨50, 0⟩) (r := 50)
    (by decide) (by decide) (by decide) ⟨⟨false, by rfl⟩, by decide⟩

end Gmx.C29
