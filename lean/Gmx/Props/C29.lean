import Gmx.Lemmas.OraclePrice
/-!
# C29 — an adjusted oracle price stays inside the allowed band

`r` = reference unit price (explicit or the feed's own mid), `dev = ⌊r·factor/U⌋`.
The clamp rewrites `max` to `⌊(r+dev)⌋_step` and `min` to `⌈(r−dev)⌉_step`, each at the decimal
precision of the bound it replaces.
-/
namespace Gmx.C29
open Gmx Gmx.OraclePrice

/-- complete description of a successful adjustment. -/
theorem adjust_spec {U f : Nat} {p p' : Price} {ref : Option Dec} (h : adjust U f p ref = some p') :
    ∃ r dev, refUnit p ref = some r ∧ applyFactor 128 U r f = some dev ∧
      (absDiff p.max.unit r > dev ∨ absDiff p.min.unit r > dev) ∧
      (if absDiff p.max.unit r > dev then
          p'.max.mult = p.max.mult ∧ p'.max.unit ≤ r + dev ∧ r + dev < p'.max.unit + 10 ^ p.max.mult
        else p'.max = p.max) ∧
      (if absDiff p.min.unit r > dev then
          dev ≤ r ∧ p'.min.mult = p.min.mult ∧ r - dev ≤ p'.min.unit ∧
            p'.min.unit < r - dev + 10 ^ p.min.mult
        else p'.min = p.min) := by
  unfold adjust at h
  cases hr : refUnit p ref with
  | none => simp [hr] at h
  | some r =>
    cases hd : applyFactor 128 U r f with
    | none => simp [hr, hd] at h
    | some dev =>
      simp only [hr, hd] at h
      refine ⟨r, dev, rfl, hd, ?_⟩
      by_cases hmax : absDiff p.max.unit r > dev
      · simp only [hmax, if_true] at h ⊢
        unfold checkedAdd toU at h
        by_cases hfit : r + dev < 2 ^ 128
        · simp only [hfit, if_true] at h
          cases hw : p.max.withUnit (r + dev) false with
          | none => simp [hw] at h
          | some mx =>
            obtain ⟨w1, w2, w3, _⟩ := withUnit_floor hw
            simp only [hw] at h
            by_cases hmin : absDiff p.min.unit r > dev
            · simp only [hmin, if_true] at h ⊢
              unfold checkedSub at h
              by_cases hle : dev ≤ r
              · simp only [hle, if_true] at h
                cases hw2 : p.min.withUnit (r - dev) true with
                | none => simp [hw2] at h
                | some mn =>
                  obtain ⟨v1, v2, v3, _⟩ := withUnit_ceil hw2
                  simp only [hw2, Option.getD_some, Option.some.injEq] at h
                  subst h
                  exact ⟨Or.inl trivial, ⟨w1, w2, w3⟩, hle, v1, v2, v3⟩
              · simp [hle] at h
            · simp only [hmin, if_false, Option.some.injEq] at h ⊢
              subst h
              exact ⟨Or.inl trivial, ⟨w1, w2, w3⟩, rfl⟩
        · simp [hfit] at h
      · simp only [hmax, if_false] at h ⊢
        by_cases hmin : absDiff p.min.unit r > dev
        · simp only [hmin, if_true] at h ⊢
          unfold checkedSub at h
          by_cases hle : dev ≤ r
          · simp only [hle, if_true] at h
            cases hw2 : p.min.withUnit (r - dev) true with
            | none => simp [hw2] at h
            | some mn =>
              obtain ⟨v1, v2, v3, _⟩ := withUnit_ceil hw2
              simp only [hw2, Option.getD_none, Option.some.injEq] at h
              subst h
              exact ⟨Or.inr trivial, rfl, hle, v1, v2, v3⟩
          · simp [hle] at h
        · simp [hmin] at h

/-- every adjusted price has its max at or below `r + dev` (floored) and its min at or above
`r − dev` (ceiled): neither bound is ever left, or moved, outside the band on its own side. -/
theorem adjust_in_band {U f : Nat} {p p' : Price} {ref : Option Dec} (h : adjust U f p ref = some p') :
    ∃ r dev, refUnit p ref = some r ∧ applyFactor 128 U r f = some dev ∧
      p'.max.unit ≤ r + dev ∧ r ≤ p'.min.unit + dev := by
  obtain ⟨r, dev, h1, h2, _, hmax, hmin⟩ := adjust_spec h
  refine ⟨r, dev, h1, h2, ?_, ?_⟩
  · by_cases c : absDiff p.max.unit r > dev
    · simp only [c, if_true] at hmax; exact hmax.2.1
    · simp only [c, if_false] at hmax
      rw [hmax]; have := (absDiff_le_iff p.max.unit r dev).1 (by omega); omega
  · by_cases c : absDiff p.min.unit r > dev
    · simp only [c, if_true] at hmin; omega
    · simp only [c, if_false] at hmin
      rw [hmin]; have := (absDiff_le_iff p.min.unit r dev).1 (by omega); omega

theorem fromPriceOk_iff (p : Price) :
    fromPriceOk p = true ↔ p.min.mult = p.max.mult ∧ p.min.value ≠ 0 ∧ p.min.value ≤ p.max.value := by
  simp [fromPriceOk, and_assoc]

/-- an adjusted price that the price map accepts is well formed and inside the band:
`0 < r − dev ≤ min ≤ max ≤ r + dev` (in unit prices). -/
theorem accepted_after_adjust {U f : Nat} {p p' : Price} {ref : Option Dec}
    (h : adjust U f p ref = some p') (hok : fromPriceOk p' = true) :
    ∃ r dev, refUnit p ref = some r ∧ applyFactor 128 U r f = some dev ∧
      0 < p'.min.unit ∧ r ≤ p'.min.unit + dev ∧ p'.min.unit ≤ p'.max.unit ∧ p'.max.unit ≤ r + dev := by
  obtain ⟨r, dev, h1, h2, h3, h4⟩ := adjust_in_band h
  obtain ⟨m, v0, vle⟩ := (fromPriceOk_iff p').1 hok
  refine ⟨r, dev, h1, h2, ?_, h4, ?_, h3⟩
  · simp only [Dec.unit]; exact Nat.mul_pos (Nat.pos_of_ne_zero v0) (pow10_pos _)
  · simp only [Dec.unit, m]; exact Nat.mul_le_mul_right _ vle

/-- an inverted or multiplier-mismatched result of the clamp is never accepted. -/
theorem never_accept_inverted (p : Price) (h : p.max.unit < p.min.unit) : fromPriceOk p = false := by
  cases hf : fromPriceOk p with
  | false => rfl
  | true =>
    obtain ⟨m, _, vle⟩ := (fromPriceOk_iff p).1 hf
    have : p.min.unit ≤ p.max.unit := by
      simp only [Dec.unit, m]; exact Nat.mul_le_mul_right _ vle
    omega

/-- a price already inside the band is left alone (the function reports "no adjustment"). -/
theorem adjust_none_in_band {U f : Nat} {p : Price} {ref : Option Dec} {r dev : Nat}
    (h1 : refUnit p ref = some r) (h2 : applyFactor 128 U r f = some dev)
    (hmax : absDiff p.max.unit r ≤ dev) (hmin : absDiff p.min.unit r ≤ dev) :
    adjust U f p ref = none := by
  have a : ¬ absDiff p.max.unit r > dev := by omega
  have b : ¬ absDiff p.min.unit r > dev := by omega
  simp [adjust, h1, h2, a, b]

/-- adjustment never touches the decimal precision of either bound. -/
theorem adjust_keeps_multipliers {U f : Nat} {p p' : Price} {ref : Option Dec}
    (h : adjust U f p ref = some p') : p'.max.mult = p.max.mult ∧ p'.min.mult = p.min.mult := by
  obtain ⟨r, dev, _, _, _, hmax, hmin⟩ := adjust_spec h
  constructor
  · by_cases c : absDiff p.max.unit r > dev
    · simp only [c, if_true] at hmax; exact hmax.1
    · simp only [c, if_false] at hmax; rw [hmax]
  · by_cases c : absDiff p.min.unit r > dev
    · simp only [c, if_true] at hmin; exact hmin.2.1
    · simp only [c, if_false] at hmin; rw [hmin]

/-- WITNESS: mid reference, deviation below half a precision step — the clamp produces an
inverted price (`min' > max'`, and `max'` below the band), which the price map rejects. -/
theorem adjust_inverted_witness :
    adjust (10 ^ 20) (10 ^ 16) ⟨⟨1000, 2⟩, ⟨1001, 2⟩⟩ none = some ⟨⟨1001, 2⟩, ⟨1000, 2⟩⟩ ∧
      fromPriceOk ⟨⟨1001, 2⟩, ⟨1000, 2⟩⟩ = false := by
  decide

/-! ### Non-vacuity -/
example : adjust (10 ^ 20) (10 ^ 18) ⟨⟨900, 2⟩, ⟨1200, 2⟩⟩ (some ⟨1000, 2⟩) = some ⟨⟨990, 2⟩, ⟨1010, 2⟩⟩ := by decide
example : fromPriceOk ⟨⟨990, 2⟩, ⟨1010, 2⟩⟩ = true := by decide
example : adjust (10 ^ 20) (10 ^ 18) ⟨⟨995, 2⟩, ⟨1005, 2⟩⟩ (some ⟨1000, 2⟩) = none := by decide

end Gmx.C29
