import Gmx.Model.Competition
import Gmx.Lemmas.Competition
/-!
# C39 — the competition leaderboard is the top traders by volume

Model: `Gmx.Model.Competition` (transcription of `OnExecuted::invoke`, `update_leaderboard`,
`extend_competition_time`). Histories are arbitrary lists of `Op` (participant creations and
`on_executed` callbacks with arbitrary arguments, including failing ones) from `init`.
`volOf s t` is the volume stored in trader `t`'s participant account (0 if none).
-/
namespace Gmx.C39
open Gmx.Comp

/-- After any history: at most five entries, distinct traders, non-increasing volumes, every
entry shows the trader's latest volume, and on a full board every trader left off has no more
volume than the last entry. -/
theorem board_inv (start end_ : Int) (threshold : Nat) (ext cap : Int) (onlyInc : Bool) (window : Int)
    (ops : List Op) :
    let s := run (init start end_ threshold ext cap onlyInc window) ops
    s.comp.board.length ≤ 5 ∧
    (s.comp.board.map (·.addr)).Nodup ∧
    s.comp.board.Pairwise (fun a b => a.vol ≥ b.vol) ∧
    (∀ e ∈ s.comp.board, e.vol = volOf s e.addr) ∧
    (s.comp.board.length = 5 → ∀ last, s.comp.board.getLast? = some last →
      ∀ u, (∀ e ∈ s.comp.board, e.addr ≠ u) → volOf s u ≤ last.vol) := by
  intro s
  have h := (inv_run (inv_init start end_ threshold ext cap onlyInc window) ops).board
  refine ⟨h.len, h.nodup, h.sorted, fun e he => (h.latest e he).symm, ?_⟩
  intro hl last hlast u hu
  exact h.full hl u hu last (List.mem_of_getLast? hlast)

/-- While the board has room, every trader with counted volume is on it. -/
theorem board_not_full_lists_everyone (start end_ : Int) (threshold : Nat) (ext cap : Int)
    (onlyInc : Bool) (window : Int) (ops : List Op) :
    let s := run (init start end_ threshold ext cap onlyInc window) ops
    s.comp.board.length < 5 → ∀ u, 0 < volOf s u → ∃ e ∈ s.comp.board, e.addr = u := by
  intro s hl u hu
  have h := (inv_run (inv_init start end_ threshold ext cap onlyInc window) ops).board
  apply Classical.byContradiction
  intro hn
  have := h.notFull hl u (fun e he hea => hn ⟨e, he, hea⟩)
  simp only [s] at hu
  omega

/-- The invariant is inductive: it is preserved by every single operation from *any* state
satisfying it (not only from the empty board). -/
theorem board_inv_step {s : St} (h : Inv s) (op : Op) : Inv (step s op) := inv_step h op

/-- Volumes only grow. -/
theorem volume_nondecreasing {s : St} (h : Inv s) (op : Op) (u : Nat) : volOf s u ≤ volOf (step s op) u := by
  cases op with
  | create t now =>
    simp only [step, create]
    split
    · exact Nat.le_refl _
    · rename_i hn
      rw [volOf_setPart]
      by_cases hu : u = t
      · subst hu; simp [volOf, hn]
      · simp [hu]
  | trade t now kind ver extra success ev =>
    simp only [step]
    cases hr : onExecuted s t now kind ver extra success ev with
    | none => exact Nat.le_refl _
    | some s' =>
      simp only [Option.getD]
      rcases onExecuted_cases hr with rfl | ⟨p, volume, hp, _, _, rfl⟩
      · exact Nat.le_refl _
      · rw [volOf_setPart, applyTrade_vol]
        by_cases hu : u = t
        · subst hu
          have hb := h.bounded u
          have : volOf s u = p.vol := by simp [volOf, hp]
          simp only [if_true]
          rw [this]; exact le_satAddU _ _ (by omega)
        · simp only [hu, if_false]; exact Nat.le_refl _

/-- A counted trade puts (or keeps) the trader's latest volume on the board unless the board is
full of entries at least as large (ties keep the earlier entry ahead). -/
theorem update_on_sorted_board (b : List Entry) (t v : Nat) (hs : Sorted b) :
    updateBoard b t v =
      if insertPos (removeAddr t b) v < 5 then (ordIns ⟨t, v⟩ (removeAddr t b)).take 5
      else removeAddr t b := by
  unfold updateBoard
  have := insertAt_insertPos (removeAddr t b) (sorted_sublist (removeAddr_sublist t b) hs) ⟨t, v⟩
  simp only at this
  simp only [MAXLEN, this]

/-- `extend_competition_time`: `end' = max old (min (old ⊕ ext) (now ⊕ cap))` (⊕ saturating). -/
theorem extension_spec (old ext cap now : Int) :
    extendEnd old ext cap now = max old (min (satAddI old ext) (satAddI now cap)) := by
  unfold extendEnd
  simp only [Int.max_def, Int.min_def]
  repeat' split
  all_goals omega

/-- Extensions never move the end time earlier. -/
theorem extension_never_earlier (old ext cap now : Int) : old ≤ extendEnd old ext cap now :=
  extendEnd_ge old ext cap now

/-- … and never past the later of the old end time and trigger time plus cap (exact sum). -/
theorem extension_never_past (old ext cap now : Int) (hold : I64MIN ≤ old) :
    extendEnd old ext cap now ≤ max old (now + cap) := by
  have := extendEnd_le old ext cap now hold
  simp only [Int.max_def]
  split <;> omega

/-- Every operation of a history either leaves the end time alone or applies exactly one
extension at that operation's time; so the end time is bounded as in `extension_never_past`. -/
theorem end_time_step (s : St) (op : Op) (hold : I64MIN ≤ s.comp.end_) :
    s.comp.end_ ≤ (step s op).comp.end_ ∧
    (step s op).comp.end_ ≤ max s.comp.end_ (opNow op + s.comp.cap) := by
  have h2 := extension_never_past s.comp.end_ s.comp.ext s.comp.cap (opNow op) hold
  have h1 := extendEnd_ge s.comp.end_ s.comp.ext s.comp.cap (opNow op)
  simp only [Int.max_def] at h2 ⊢
  rcases step_end s op with h | h <;> rw [h] <;> constructor <;> (try split) <;> (try split at h2) <;> omega

/-- Over a whole history the end time never decreases. -/
theorem end_time_monotone (s : St) (ops : List Op) : s.comp.end_ ≤ (run s ops).comp.end_ := by
  induction ops generalizing s with
  | nil => exact Int.le_refl _
  | cons op ops ih =>
    have h1 : s.comp.end_ ≤ (step s op).comp.end_ := by
      rcases step_end s op with h | h <;> rw [h]
      · exact Int.le_refl _
      · exact extendEnd_ge ..
    exact Int.le_trans h1 (ih (step s op))

/-- Trades outside `[start, end]` change nothing. -/
theorem outside_window_noop (s s' : St) (t : Nat) (now : Int) (kind ver extra : Nat) (success : Bool)
    (ev : Option (Nat × Nat × Nat)) (hout : isOngoing s.comp now = false)
    (h : onExecuted s t now kind ver extra success ev = some s') : s' = s := by
  rcases onExecuted_cases h with rfl | ⟨_, _, _, _, hon, _⟩
  · rfl
  · rw [hout] at hon; cases hon

/-! ### Non-vacuity -/

private def tr (t : Nat) (now : Int) (v : Nat) : Op := .trade t now 3 0 2 true (some (t, 0, v))
private def demo : St :=
  run (init 100 200 50 30 60 false 10)
    ([0, 1, 2, 3, 4, 5, 6].map (fun t => Op.create t 100) ++
     [tr 0 100 5, tr 1 101 7, tr 2 102 5, tr 3 103 9, tr 4 104 1, tr 5 105 1, tr 6 106 2, tr 4 130 60])

/-- seven traders; ties (0 before 2); trader 5 (volume 1) and 6 (volume 2) are off the full board;
the last trade (60 ≥ threshold 50) extends the end time from 200 to `min (200+30) (130+60) = 190`
clamped up to the old 200, i.e. no change; then trader 4 leads. -/
example : demo.comp.board = [⟨4, 61⟩, ⟨3, 9⟩, ⟨1, 7⟩, ⟨0, 5⟩, ⟨2, 5⟩] := by decide
example : volOf demo 6 = 2 ∧ volOf demo 5 = 1 ∧ demo.comp.end_ = 200 ∧ demo.comp.triggerer = some 4 := by decide
example : extendEnd 200 30 60 180 = 230 ∧ extendEnd 200 30 60 150 = 210 ∧ extendEnd 200 30 60 100 = 200 := by decide
example : extendEnd (2 ^ 63 - 50) 30 60 (2 ^ 63 - 70) = 2 ^ 63 - 20 ∧ extendEnd (2 ^ 63 - 5) 30 60 (2 ^ 63 - 10) = 2 ^ 63 - 1 := by decide
example : updateBoard [⟨1, 9⟩, ⟨2, 5⟩, ⟨3, 5⟩, ⟨4, 5⟩, ⟨5, 5⟩] 6 5 = [⟨1, 9⟩, ⟨2, 5⟩, ⟨3, 5⟩, ⟨4, 5⟩, ⟨5, 5⟩] := by decide
example : updateBoard [⟨1, 9⟩, ⟨2, 5⟩, ⟨3, 5⟩, ⟨4, 5⟩, ⟨5, 5⟩] 6 6 = [⟨1, 9⟩, ⟨6, 6⟩, ⟨2, 5⟩, ⟨3, 5⟩, ⟨4, 5⟩] := by decide

-- added by the hygiene audit
-- `outside_window_noop`: a successful trade callback after the end of the competition (hypotheses `isOngoing = false` and `= some`)
example : isOngoing demo.comp 5000 = false ∧ (onExecuted demo 1 5000 3 0 2 true (some (1, 0, 5))).isSome = true := by decide
-- `extension_never_past` / `end_time_step`: the lower-bound hypothesis on the stored end time
example : I64MIN ≤ demo.comp.end_ := by decide

/-! ### participant accounts cannot be closed while the competition is ongoing -/

/-- **No participant can be closed while the competition is ongoing** — with the end time INCLUSIVE, exactly the window
in which `on_executed` still counts trades (`isOngoing`). -/
theorem close_rejected_while_ongoing (s : St) (t : Nat) (now : Int) (h : isOngoing s.comp now = true) :
    close s t now = none := by
  unfold isOngoing at h
  simp only [Bool.and_eq_true, decide_eq_true_eq] at h
  unfold close
  have : ¬ (now < s.comp.start ∨ now > s.comp.end_) := by omega
  simp [this]

/-- the two time windows are complementary: a close passes the time guard exactly when trades are no longer (or not
yet) counted. -/
theorem close_guard_iff_not_ongoing (s : St) (t : Nat) (now : Int) (p : Part) (hp : s.parts t = some p) :
    (close s t now).isSome = true ↔ isOngoing s.comp now = false := by
  unfold close isOngoing
  by_cases h : now < s.comp.start ∨ now > s.comp.end_
  · simp [h, hp]
    omega
  · simp [h]
    omega

/-- a successful close: outside the competition window, of an existing account; it removes that trader's volume record
and nothing else — the competition account (board, end time) is untouched. -/
theorem close_spec {s s' : St} {t : Nat} {now : Int} (h : close s t now = some s') :
    isOngoing s.comp now = false ∧ (s.parts t).isSome = true ∧ s'.parts t = none ∧ s'.comp = s.comp ∧
    ∀ u, u ≠ t → s'.parts u = s.parts u := by
  unfold close at h
  split at h; · cases h
  rename_i hg
  cases hp : s.parts t with
  | none => simp [hp] at h
  | some p =>
    simp [hp] at h
    subst h
    refine ⟨?_, rfl, by simp, rfl, fun u hu => by simp [hu]⟩
    unfold isOngoing
    have : now < s.comp.start ∨ now > s.comp.end_ := Classical.byContradiction (fun hn => hg hn)
    simp; omega

/-- **Hence volumes are never reset during the competition**: along any history (creations, trades, close attempts)
whose instructions all run while the competition is ongoing, every close is rejected, the board invariant
(≤ 5 entries, distinct, sorted, latest volumes, everyone off a full board dominated by its last entry) holds at the end
and no participant's volume ever decreases. -/
theorem ongoing_history_keeps_board (ops : List Op2) (s : St) (hI : Inv s) (ho : OngoingHist s ops) :
    Inv (run2 s ops) ∧ ∀ u, volOf s u ≤ volOf (run2 s ops) u := by
  induction ops generalizing s with
  | nil => exact ⟨hI, fun _ => Nat.le_refl _⟩
  | cons o rest ih =>
    obtain ⟨hon, hrest⟩ := ho
    have hstep : Inv (step2 s o) ∧ ∀ u, volOf s u ≤ volOf (step2 s o) u := by
      cases o with
      | op o' => exact ⟨inv_step hI o', fun u => volume_nondecreasing hI o' u⟩
      | close t now =>
        have : close s t now = none := close_rejected_while_ongoing s t now hon
        simp only [step2, this, Option.getD]
        exact ⟨hI, fun _ => Nat.le_refl _⟩
    obtain ⟨h1, h2⟩ := ih (step2 s o) hstep.1 hrest
    exact ⟨h1, fun u => Nat.le_trans (hstep.2 u) (h2 u)⟩

/-- non-vacuity and sharpness: at `now = end` a close is rejected and a trade is still counted; at `end + 1` the close
succeeds; the seeded history (close at `end`, re-create, small trade) therefore cannot reset a listed volume. -/
example : let s := run (init 100 200 1000000 10 20 false 5) [.create 0 100, .trade 0 150 3 0 2 true (some (0, 0, 50))]
    close s 0 200 = none ∧ (close s 0 201).isSome = true ∧ (close s 0 99).isSome = true ∧
    volOf ((onExecuted s 0 200 3 0 2 true (some (0, 50, 57))).getD s) 0 = 57 ∧
    volOf (run2 s [.close 0 200, .op (.create 0 200), .op (.trade 0 200 3 0 2 true (some (0, 0, 7)))]) 0 = 57 := by decide
example : OngoingHist (init 100 200 1000000 10 20 false 5)
    [.op (.create 0 100), .op (.trade 0 150 3 0 2 true (some (0, 0, 50))), .close 0 200] := by
  refine ⟨by decide, by decide, by decide, trivial⟩

end Gmx.C39
