import Gmx.Model.Referral
import Gmx.Lemmas.Referral
/-!
# C33 — referral relationships are write-once and never self-referential

Model: `Gmx.Model.Referral`. Histories are arbitrary lists of `Op` over any number of users and codes
(failed transactions change nothing). Observations: `referrerOf s u`, `codeOf s u` (the code a user holds),
`ownerOf s c` (the owner recorded in the code account).
-/
namespace Gmx.C33
open Gmx.Ref

/-- a referrer is set only by the user's own `set_referrer`, only while unset … -/
theorem referrer_write_once {s s' : St} {u c v : Nat} (h : setReferrer s u c v = some s') :
    referrerOf s u = none ∧ referrerOf s' u = some v ∧ ∀ i, i ≠ u → referrerOf s' i = referrerOf s i := by
  obtain ⟨h1, _, _, _, _, _, e⟩ := effect_setReferrer h
  refine ⟨h1, by rw [e.ref]; simp, ?_⟩
  intro i hi; rw [e.ref]; simp [hi]

/-- … and once set it never changes again, whatever happens afterwards. -/
theorem referrer_never_changes (s : St) (ops : List Op) (u r : Nat) (h : referrerOf s u = some r) :
    referrerOf (run s ops) u = some r := by
  induction ops generalizing s with
  | nil => exact h
  | cons op ops ih =>
    apply ih
    unfold step
    cases ha : apply s op with
    | none => exact h
    | some s' =>
      simp only [Option.getD]
      cases op with
      | prepare x => rw [(effect_prepare ha).ref]; exact h
      | initCode x c => rw [(effect_initCode ha).2.2.2.2.ref]; exact h
      | transfer x c v => rw [(effect_transfer ha).2.2.2.ref]; exact h
      | cancel x c => rw [(effect_cancel ha).2.ref]; exact h
      | accept n c v => rw [(effect_accept ha).2.2.2.2.2.ref]; exact h
      | setReferrer x c v =>
        obtain ⟨h1, _, _, _, _, _, e⟩ := effect_setReferrer ha
        rw [e.ref]
        by_cases hx : u = x
        · subst hx; rw [h] at h1; cases h1
        · simp [hx, h]

/-- never to the user themselves: at set time … -/
theorem never_self_at_set {s s' : St} {u c v : Nat} (h : setReferrer s u c v = some s') : v ≠ u :=
  (effect_setReferrer h).2.1

/-- … and in every reachable state. -/
theorem never_self (ops : List Op) (u : Nat) : referrerOf (run init ops) u ≠ some u :=
  (inv_run inv_init ops).noSelf u

/-- never to a user who is already referred by them (at set time) … -/
theorem never_mutual_at_set {s s' : St} {u c v : Nat} (h : setReferrer s u c v = some s') :
    referrerOf s v ≠ some u :=
  (effect_setReferrer h).2.2.1

/-- … hence no two users ever refer each other, in any reachable state. -/
theorem never_mutual (ops : List Op) (u v : Nat) (h : referrerOf (run init ops) u = some v) :
    referrerOf (run init ops) v ≠ some u :=
  (inv_run inv_init ops).noMutual u v h

/-- the referrer is the current owner of the presented code. -/
theorem referrer_owns_code {s s' : St} {u c v : Nat} (h : setReferrer s u c v = some s') :
    ownerOf s c = some v ∧ codeOf s v = some c :=
  ⟨(effect_setReferrer h).2.2.2.1, (effect_setReferrer h).2.2.2.2.1⟩

/-- **A code belongs to exactly one user at a time**: in every reachable state a user holds code `c`
iff the code account names that user as owner. -/
theorem code_unique_owner (ops : List Op) (u c : Nat) :
    codeOf (run init ops) u = some c ↔ ownerOf (run init ops) c = some u :=
  (inv_run inv_init ops).unique u c

/-- consequently two users never hold the same code. -/
theorem code_single_holder (ops : List Op) (u v c : Nat)
    (hu : codeOf (run init ops) u = some c) (hv : codeOf (run init ops) v = some c) : u = v := by
  have h1 := (code_unique_owner ops u c).1 hu
  have h2 := (code_unique_owner ops v c).1 hv
  rw [h1] at h2; cases h2; rfl

/-- **Ownership changes only when the proposed new owner accepts**: if one transaction changes the owner of
an existing code, it is an `accept` signed by the new owner, who was the recorded `next_owner`. -/
theorem ownership_changes_only_on_accept (s : St) (op : Op) (c o : Nat) (h : ownerOf s c = some o)
    (hch : ownerOf (step s op) c ≠ some o) :
    ∃ n v, op = .accept n c v ∧ ownerOf (step s op) c = some n ∧ (s.codes c).map (·.nextOwner) = some n := by
  unfold step at hch ⊢
  cases ha : apply s op with
  | none => rw [ha] at hch; exact absurd h hch
  | some s' =>
    rw [ha] at hch
    simp only [Option.getD] at hch ⊢
    cases op with
    | prepare x => rw [(effect_prepare ha).owner] at hch; exact absurd h hch
    | setReferrer x k v => rw [(effect_setReferrer ha).2.2.2.2.2.2.owner] at hch; exact absurd h hch
    | transfer x k v => rw [(effect_transfer ha).2.2.2.owner] at hch; exact absurd h hch
    | cancel x k => rw [(effect_cancel ha).2.owner] at hch; exact absurd h hch
    | initCode x k =>
      obtain ⟨_, h2, _, _, e⟩ := effect_initCode ha
      rw [e.owner] at hch
      by_cases hk : c = k
      · subst hk; rw [h] at h2; cases h2
      · simp only [hk, if_false] at hch; exact absurd h hch
    | accept n k v =>
      obtain ⟨_, _, _, _, hnx, e⟩ := effect_accept ha
      rw [e.owner] at hch ⊢
      by_cases hk : c = k
      · subst hk; exact ⟨n, v, rfl, by simp, hnx⟩
      · simp only [hk, if_false] at hch; exact absurd h hch

/-- the proposal itself can only be made (or withdrawn) by the current owner. -/
theorem proposal_only_by_owner {s s' : St} {u c v : Nat} (h : transfer s u c v = some s') :
    ownerOf s c = some u ∧ (s'.codes c).map (·.nextOwner) = some v ∧ ownerOf s' c = some u := by
  obtain ⟨h1, _, h3, e⟩ := effect_transfer h
  exact ⟨h1, h3, by rw [e.owner]; exact h1⟩

theorem accept_spec {s s' : St} {n c v : Nat} (h : accept s n c v = some s') :
    ownerOf s c = some v ∧ (s.codes c).map (·.nextOwner) = some n ∧ n ≠ v ∧
    ownerOf s' c = some n ∧ codeOf s' n = some c ∧ codeOf s' v = none := by
  obtain ⟨h1, _, _, hne, hnx, e⟩ := effect_accept h
  refine ⟨h1, hnx, hne, by rw [e.owner]; simp, by rw [e.code]; simp [hne], by rw [e.code]; simp⟩

/-! ### Non-vacuity -/
private def demo : List Op :=
  [.prepare 0, .prepare 1, .prepare 2, .initCode 0 3, .setReferrer 1 3 0, .setReferrer 0 3 0, .setReferrer 1 3 0,
   .initCode 1 4, .setReferrer 0 4 1, .transfer 0 3 2, .accept 1 3 0, .accept 2 3 0, .setReferrer 2 3 2]
example : referrerOf (run init demo) 1 = some 0 ∧ referrerOf (run init demo) 0 = none := by decide
example : ownerOf (run init demo) 3 = some 2 ∧ codeOf (run init demo) 2 = some 3 ∧ codeOf (run init demo) 0 = none := by decide
example : (setReferrer (run init (demo.take 8)) 0 4 1).isNone = true := by decide
example : (accept (run init (demo.take 10)) 1 3 0).isNone = true ∧ (accept (run init (demo.take 10)) 2 3 0).isSome = true := by decide
-- hypotheses `… = some s'` of the per-operation theorems are satisfiable on reachable non-initial states
example : (setReferrer (run init (demo.take 4)) 1 3 0).isSome = true := by decide
example : (transfer (run init (demo.take 9)) 0 3 2).isSome = true := by decide
-- `referrer_never_changes` / `never_mutual`: a set referrer, followed by further operations
example : referrerOf (run init (demo.take 5)) 1 = some 0 ∧ referrerOf (run (run init (demo.take 5)) (demo.drop 5)) 1 = some 0 := by decide
-- `ownership_changes_only_on_accept`: an owner (0) of code 3 and one transaction that changes it
example : ownerOf (run init (demo.take 11)) 3 = some 0 ∧ ownerOf (step (run init (demo.take 11)) (.accept 2 3 0)) 3 ≠ some 0 := by decide

end Gmx.C33
