import Gmx.Model.BuilderFee
/-!
# C32 — builder fees are bounded by what the order actually produced
-/
namespace Gmx.C32
open Gmx Gmx.BuilderFee

/-- `checked_round_up_div` success: ceiling quotient, characterised by multiplication. -/
theorem roundUpDiv_some {W a b r : Nat} (h : roundUpDiv W a b = some r) :
    b ≠ 0 ∧ r = ceilDiv a b ∧ a ≤ r * b ∧ r * b < a + b := by
  unfold roundUpDiv checkedAdd checkedSub toU at h
  by_cases hb : b = 0
  · simp [hb] at h
  · by_cases hf : a + b < 2 ^ W
    · have h1 : 1 ≤ a + b := by omega
      simp [hb, hf, h1] at h
      subst h
      refine ⟨hb, rfl, ?_⟩
      have e1 := Nat.div_add_mod (a + b - 1) b
      have e2 := Nat.mod_lt (a + b - 1) (Nat.pos_of_ne_zero hb)
      rw [Nat.mul_comm] at e1
      constructor <;> omega
    · simp [hb, hf] at h

/-- the builder fee is the executed size times the builder factor (floored to a value), converted
at the minimum price and rounded up. -/
theorem fee_spec {U size factor pmin fee : Nat} (h : computeFee U size factor pmin = some fee) :
    (factor = 0 ∧ fee = 0) ∨
    (factor ≠ 0 ∧ U ≠ 0 ∧ pmin ≠ 0 ∧ fee = ceilDiv (size * factor / U) pmin ∧
      size * factor / U ≤ fee * pmin ∧ fee * pmin < size * factor / U + pmin) := by
  unfold computeFee at h
  by_cases hf : factor = 0
  · simp [hf] at h; exact Or.inl ⟨hf, h.symm⟩
  · right
    simp only [hf, if_false] at h
    unfold applyFactor mulDiv toU at h
    by_cases hU : U = 0
    · simp [hU] at h
    · by_cases hv : size * factor / U < 2 ^ 128
      · simp only [hU, hv, if_false, if_true] at h
        obtain ⟨hp, h1, h2, h3⟩ := roundUpDiv_some h
        exact ⟨hf, hU, hp, h1, h2, h3⟩
      · simp [hU, hv] at h

/-- a zero factor needs no price and charges nothing. -/
theorem fee_zero_factor (U size pmin : Nat) : computeFee U size 0 pmin = some 0 := by
  simp [computeFee]

/-- with a non-zero factor a zero minimum price is an error, never a free pass. -/
theorem fee_zero_price (U size factor : Nat) (hf : factor ≠ 0) :
    computeFee U size factor 0 = none := by
  unfold computeFee
  simp only [hf, if_false]
  cases applyFactor 128 U size factor <;> simp [roundUpDiv]

/-- the clamp is the minimum. -/
theorem clamp_spec (fee available : Nat) :
    clampFee fee available ≤ fee ∧ clampFee fee available ≤ available ∧
    (clampFee fee available = fee ∨ clampFee fee available = available) := by
  unfold clampFee; split <;> omega

/-- increase: the fee plus the remaining collateral increment equals the original increment,
and the fee is the computed one (no partial charge). -/
theorem increase_split {U increment size factor pmin after fee : Nat}
    (h : chargeOnIncrement U increment size factor pmin = .ok (after, fee)) :
    after + fee = increment ∧ computeFee U size factor pmin = some fee ∧ fee < 2 ^ 64 := by
  unfold chargeOnIncrement at h
  cases hc : computeFee U size factor pmin with
  | none => simp [hc] at h
  | some payable =>
    simp only [hc] at h
    unfold toU checkedSub at h
    by_cases h64 : payable < 2 ^ 64
    · by_cases hlt : increment < payable
      · simp [h64, hlt] at h
      · have hle : payable ≤ increment := by omega
        simp [h64, hlt, hle] at h
        obtain ⟨rfl, rfl⟩ := h
        exact ⟨by omega, rfl, h64⟩
    · simp [h64] at h

/-- increase: … or the order fails; an increment that cannot cover the fee is exactly the
`BuilderFeeExceedsCollateral` case. -/
theorem increase_error_iff (U increment size factor pmin : Nat) :
    chargeOnIncrement U increment size factor pmin = .error .exceedsCollateral ↔
      ∃ p, computeFee U size factor pmin = some p ∧ p < 2 ^ 64 ∧ increment < p := by
  unfold chargeOnIncrement
  cases hc : computeFee U size factor pmin with
  | none => simp
  | some payable =>
    unfold toU checkedSub
    by_cases h64 : payable < 2 ^ 64
    · by_cases hlt : increment < payable
      · simp [h64, hlt]
      · have hle : payable ≤ increment := by omega
        simp [h64, hlt, hle]
    · simp [h64]

/-- increase: the amount recorded on the order is the amount routed into the escrow. -/
theorem increase_records_what_it_routes {U increment size factor pmin cur after escrowIn r : Nat}
    (h : increaseCharge U increment size factor pmin cur = .ok (after, escrowIn, r)) :
    after + escrowIn = increment ∧ r = cur + escrowIn ∧ r < 2 ^ 64 ∧
      computeFee U size factor pmin = some escrowIn := by
  unfold increaseCharge at h
  cases hc : chargeOnIncrement U increment size factor pmin with
  | error e => simp [hc] at h
  | ok p =>
    obtain ⟨a, f⟩ := p
    obtain ⟨h1, h2, _⟩ := increase_split hc
    simp only [hc, Gen.C32.incRecordArg, Gen.C32.incTransferArg, recordFee, checkedAdd, toU] at h
    by_cases hr : cur + f < 2 ^ 64
    · simp [hr] at h
      obtain ⟨rfl, rfl, rfl⟩ := h
      exact ⟨h1, rfl, hr, h2⟩
    · simp [hr] at h

/-- the record accumulates with a checked add. -/
theorem record_accumulates_checked (cur amount r : Nat) :
    recordFee cur amount = .ok r ↔ r = cur + amount ∧ r < 2 ^ 64 := by
  unfold recordFee checkedAdd toU
  by_cases h : cur + amount < 2 ^ 64
  · simp [h]; constructor
    · intro e; subst e; exact ⟨rfl, h⟩
    · intro e; exact e.1.symm
  · simp [h]; intro e; omega

theorem record_overflow_iff (cur amount : Nat) :
    recordFee cur amount = .error .overflow ↔ 2 ^ 64 ≤ cur + amount := by
  unfold recordFee checkedAdd toU
  by_cases h : cur + amount < 2 ^ 64
  · simp [h]
  · simp [h]; omega

/-- decrease: what is added to the record never exceeds the final output amount, and is the
computed fee clamped to it. -/
theorem decrease_recorded_le_output {U size factor pmin output cur r : Nat}
    (h : decreaseRecord U size factor pmin output cur = .ok r) :
    ∃ payable, computeFee U size factor pmin = some payable ∧
      r = cur + clampFee payable output ∧ r - cur ≤ output ∧ r - cur ≤ payable ∧ cur ≤ r := by
  unfold decreaseRecord at h
  cases hc : computeFee U size factor pmin with
  | none => simp [hc] at h
  | some payable =>
    simp only [hc, Gen.C32.decClampArgs, Gen.C32.decConvertArg, Gen.C32.decRecordArg] at h
    unfold toU at h
    by_cases h64 : clampFee payable output < 2 ^ 64
    · simp only [h64, if_true] at h
      obtain ⟨rfl, _⟩ := (record_accumulates_checked ..).1 h
      have := clamp_spec payable output
      exact ⟨payable, rfl, rfl, by omega, by omega, by omega⟩
    · simp [h64] at h

/-- settlement transfers at most the recorded amount and never more than the escrow holds,
conserves tokens, and zeroes the record. -/
theorem settle_bounds {s s' : Settle} {amt : Nat} (h : settle s = some (s', amt)) :
    amt ≤ s.recorded ∧ amt ≤ s.escrow ∧ s'.recorded = 0 ∧
    s'.escrow + amt = s.escrow ∧ s'.vault = s.vault + amt := by
  unfold settle at h
  by_cases h0 : s.recorded = 0
  · simp [h0] at h; obtain ⟨rfl, rfl⟩ := h; simp [h0]
  · simp only [h0, if_false, Gen.C32.settledAmount, Gen.C32.transferAmount, Gen.C32.recordAfter] at h
    by_cases hle : s.recorded ≤ s.escrow
    · simp only [hle, if_true] at h
      have : ¬ s.escrow < s.recorded := by omega
      simp only [this, if_false, checkedAdd, toU] at h
      by_cases hv : s.vault + s.recorded < 2 ^ 64
      · simp [hv] at h; obtain ⟨rfl, rfl⟩ := h; simp; omega
      · simp [hv] at h
    · simp only [hle, if_false, Nat.lt_irrefl, checkedAdd, toU] at h
      by_cases hv : s.vault + s.escrow < 2 ^ 64
      · simp [hv] at h; obtain ⟨rfl, rfl⟩ := h; simp; omega
      · simp [hv] at h

/-- repeating the settlement is a no-op that moves nothing. -/
theorem settle_idempotent {s s' : Settle} {amt : Nat} (h : settle s = some (s', amt)) :
    settle s' = some (s', 0) := by
  obtain ⟨_, _, h0, _, _⟩ := settle_bounds h
  simp [settle, h0]

/-- a zero record is an explicit no-op whatever the escrow holds. -/
theorem settle_zero_noop (s : Settle) (h : s.recorded = 0) : settle s = some (s, 0) := by
  simp [settle, h]

/-- under the charging invariant (`recorded ≤ escrow`) the builder is paid in full. -/
theorem settle_pays_recorded {s s' : Settle} {amt : Nat} (hinv : s.recorded ≤ s.escrow)
    (h : settle s = some (s', amt)) : amt = s.recorded := by
  unfold settle at h
  by_cases h0 : s.recorded = 0
  · simp [h0] at h; omega
  · simp only [h0, if_false, Gen.C32.settledAmount, Gen.C32.transferAmount, Gen.C32.recordAfter,
      hinv, if_true] at h
    have : ¬ s.escrow < s.recorded := by omega
    simp only [this, if_false] at h
    cases hv : checkedAdd 64 s.vault s.recorded with
    | none => simp [hv] at h
    | some v => simp [hv] at h; omega

/-- the whole instruction: a successful call moves at most the recorded amount and at most the
escrow, zeroes the record and conserves tokens; with a non-zero record it needs the order's own
builder accounts. -/
theorem settleIx_bounds {s s' : Settle} {p : Passed} {amt : Nat} (h : settleIx s p = .ok (s', amt)) :
    amt ≤ s.recorded ∧ amt ≤ s.escrow ∧ s'.recorded = 0 ∧ s'.escrow + amt = s.escrow ∧
      s'.vault = s.vault + amt ∧ (s.recorded ≠ 0 → p = .builder) := by
  unfold settleIx at h
  by_cases h0 : s.recorded = 0
  · simp [h0] at h; obtain ⟨rfl, rfl⟩ := h; simp [h0]
  · simp only [h0, if_false] at h
    cases p with
    | none => simp at h
    | otherUser => simp at h
    | builder =>
      simp only at h
      cases hs : settle s with
      | none => simp [hs] at h
      | some r =>
        simp [hs] at h; subst h
        obtain ⟨a, b, c, d, e⟩ := settle_bounds hs
        exact ⟨a, b, c, d, e, fun _ => rfl⟩

/-- repeating the instruction (with any accounts) is a no-op that moves nothing. -/
theorem settleIx_idempotent {s s' : Settle} {p q : Passed} {amt : Nat} (h : settleIx s p = .ok (s', amt)) :
    settleIx s' q = .ok (s', 0) := by
  obtain ⟨_, _, h0, _, _, _⟩ := settleIx_bounds h
  simp [settleIx, h0]

/-- settlement pointed at any escrow other than the order's recorded final-output escrow (e.g. the
order's token account of another mint) is rejected, whatever the record and the balances. -/
theorem settle_foreign_escrow_rejected (s : Settle) (p : Passed) :
    settleWith s p false = .error .mismatched := by
  simp [settleWith]

/-- a successful settlement therefore used the recorded final-output escrow, and obeys all the
bounds of `settleIx_bounds` on THAT escrow. -/
theorem settleWith_ok {s s' : Settle} {p : Passed} {b : Bool} {amt : Nat}
    (h : settleWith s p b = .ok (s', amt)) :
    b = true ∧ amt ≤ s.recorded ∧ amt ≤ s.escrow ∧ s'.recorded = 0 ∧ s'.escrow + amt = s.escrow ∧
      s'.vault = s.vault + amt := by
  unfold settleWith at h
  cases b with
  | false => simp at h
  | true =>
    simp only [Bool.not_true, Bool.false_eq_true, if_false] at h
    obtain ⟨a, b', c, d, e, _⟩ := settleIx_bounds h
    exact ⟨rfl, a, b', c, d, e⟩

/-! ### Histories: charges, decreases and (repeated) settlements on one order -/

theorem step_preserves_backing (U : Nat) (s : Settle) (op : Op) (h : s.recorded ≤ s.escrow) :
    (step U s op).recorded ≤ (step U s op).escrow := by
  cases op with
  | inc increment size factor pmin =>
    simp only [step]
    cases hc : increaseCharge U increment size factor pmin s.recorded with
    | error e => simpa using h
    | ok p =>
      obtain ⟨a, e, r⟩ := p
      obtain ⟨_, hr, _, _⟩ := increase_records_what_it_routes hc
      simp; omega
  | dec size factor pmin output =>
    simp only [step]
    cases hc : decreaseRecord U size factor pmin output s.recorded with
    | error e => simpa using h
    | ok r =>
      obtain ⟨_, _, _, h1, _, h2⟩ := decrease_recorded_le_output hc
      simp; omega
  | settle =>
    simp only [step]
    cases hc : settle s with
    | none => simpa using h
    | some p =>
      obtain ⟨s', amt⟩ := p
      obtain ⟨_, _, h0, _, _⟩ := settle_bounds hc
      simp [h0]

/-- charging invariant: after any sequence of charges, decreases and settlements starting from an
empty record, the escrow covers the recorded amount — so the defensive clamp in settlement never
bites and every settlement pays the builder exactly what was recorded. -/
theorem recorded_backed_after_any_history (U : Nat) (s : Settle) (ops : List Op)
    (h : s.recorded ≤ s.escrow) : (run U s ops).recorded ≤ (run U s ops).escrow := by
  unfold run
  induction ops generalizing s with
  | nil => simpa using h
  | cons op ops ih => simp only [List.foldl_cons]; exact ih _ (step_preserves_backing U s op h)

/-- withdrawal estimate: zero factor leaves the amount alone; otherwise the
collateral-to-pnl swap type is rejected and the estimate is added with a checked add. -/
theorem estimate_spec {U w size factor pmin r : Nat} {c2p : Bool}
    (h : estimateWithdrawal U w size factor pmin c2p = .ok r) :
    (factor = 0 ∧ r = w) ∨
    (factor ≠ 0 ∧ c2p = false ∧ ∃ fee, computeFee U size factor pmin = some fee ∧
      r = w + fee ∧ r < 2 ^ 128) := by
  unfold estimateWithdrawal at h
  by_cases hf : factor = 0
  · simp [hf] at h; exact Or.inl ⟨hf, h.symm⟩
  · right
    cases c2p
    · simp only [hf, if_false] at h
      cases hc : computeFee U size factor pmin with
      | none => simp [hc] at h
      | some fee =>
        simp only [hc, checkedAdd, toU] at h
        by_cases hr : w + fee < 2 ^ 128
        · simp [hr] at h; exact ⟨hf, rfl, fee, rfl, h.symm, by omega⟩
        · simp [hr] at h
    · simp [hf] at h

theorem estimate_rejects_c2p (U w size factor pmin : Nat) (hf : factor ≠ 0) :
    estimateWithdrawal U w size factor pmin true = .error .swapType := by
  simp [estimateWithdrawal, hf]

/-! ### Non-vacuity -/
example : computeFee (10 ^ 20) (100000 * 10 ^ 20) (10 ^ 17) (2 * 10 ^ 20) = some 50 := by decide
example : computeFee (10 ^ 20) (3 * 10 ^ 20) (10 ^ 20) (2 * 10 ^ 20) = some 2 := by decide
example : chargeOnIncrement (10 ^ 20) 49 (100000 * 10 ^ 20) (10 ^ 17) (2 * 10 ^ 20)
    = .error .exceedsCollateral := by rfl
example : chargeOnIncrement (10 ^ 20) 50 (100000 * 10 ^ 20) (10 ^ 17) (2 * 10 ^ 20) = .ok (0, 50) := by rfl
example : decreaseRecord (10 ^ 20) (100000 * 10 ^ 20) (10 ^ 17) (2 * 10 ^ 20) 7 3 = .ok 10 := by rfl
example : settle ⟨42, 40, 1⟩ = some (⟨0, 0, 41⟩, 40) := by decide
example : settle ⟨0, 40, 1⟩ = some (⟨0, 40, 1⟩, 0) := by decide
example : settleIx ⟨42, 40, 1⟩ .builder = .ok (⟨0, 0, 41⟩, 40) := by rfl
example : settleIx ⟨42, 40, 1⟩ .none = .error .notProvided := by rfl
example : settleWith ⟨42, 40, 1⟩ .builder true = .ok (⟨0, 0, 41⟩, 40) := by rfl
example : settleWith ⟨0, 40, 1⟩ .builder false = .error .mismatched := by rfl
example : (run (10 ^ 20) ⟨0, 0, 0⟩ [.inc 60 (100000 * 10 ^ 20) (10 ^ 17) (2 * 10 ^ 20),
    .dec (100000 * 10 ^ 20) (10 ^ 17) (2 * 10 ^ 20) 7, .settle, .settle]) = ⟨0, 0, 57⟩ := by decide

-- added by the hygiene audit: success witnesses for `roundUpDiv_some`, `increase_records_what_it_routes`, `estimate_spec`,
-- and a backed state (recorded ≤ escrow) with a non-zero record for `settle_pays_recorded`
example : roundUpDiv 64 7 2 = some 4 := by decide
example : increaseCharge (10 ^ 20) 60 (100000 * 10 ^ 20) (10 ^ 17) (2 * 10 ^ 20) 5 = .ok (10, 50, 55) := by rfl
example : estimateWithdrawal (10 ^ 20) 100 (100000 * 10 ^ 20) (10 ^ 17) (2 * 10 ^ 20) false = .ok 150 := by rfl
example : settle ⟨30, 40, 1⟩ = some (⟨0, 10, 31⟩, 30) := by decide

end Gmx.C32
