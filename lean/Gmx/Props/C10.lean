import Gmx.Lemmas.PerpLedger
import Gmx.Props.C03
/-!
# C10 — opening and immediately closing a position is never profitable

Statements are about `Gmx.Model.Perp` (tied to the implementation by the stateful `perp` engine,
whose harness opens and immediately closes positions at unchanged prices in random market
states and compares the value received — output plus claimable collateral — with the deposit).

Proved here (the ingredients of the no-profit argument):
* the token size rounds against the trader on both legs;
* the price impact of the opening and of the exact reverse change sum to at most one unit of
  value (from C03), before caps;
* the caps only lower a positive impact and only raise a negative one, and the part of a
  negative impact above the cap is exactly the reported `price_impact_diff`, which is credited to
  the trader's claimable collateral;
* `roundtrip_profit_witness`: with `max_positive_position_impact_factor >
  max_negative_position_impact_factor` the round trip IS profitable (finding F-C10).
NOT proved in Lean: the end-to-end inequality `open_close_no_profit` through the collateral
processor (Plan B guard: caps with positive ≤ negative); it is oracle-checked on the
implementation.
-/
namespace Gmx.C10
open Gmx Gmx.Perp Gmx.Lem

/-- **token size rounds against the trader** (price spread `pmin ≤ pmax`): a long receives
`⌊size/pmax⌋` tokens whose closing value `·pmin` is at most the size; a short owes
`⌈size/pmin⌉` tokens whose closing cost `·pmax` is at least the size. So with no price impact the
pnl of an immediate close is never positive. -/
theorem open_close_tokens_against_trader (size pmin pmax : Nat) (hp : pmin ≤ pmax) (h0 : pmin ≠ 0) :
    size / pmax * pmin ≤ size ∧ size ≤ ceilDiv size pmin * pmax := by
  constructor
  · calc size / pmax * pmin ≤ size / pmax * pmax := Nat.mul_le_mul_left _ hp
      _ ≤ size := Nat.div_mul_le_self _ _
  · have := (C01.ceil_char size pmin h0).1
    calc size ≤ ceilDiv size pmin * pmin := this
      _ ≤ ceilDiv size pmin * pmax := Nat.mul_le_mul_left _ hp

/-- the pool delta of closing a just-opened position is the exact reverse of the opening's. -/
theorem close_delta_is_reverse {W ol os : Nat} {d : Int} {D : PoolDelta}
    (h : PoolDelta.tryNew W ol os d 0 1 1 = some D) :
    PoolDelta.tryNew W D.nextL D.nextS (-d) 0 1 1 = some D.rev ∨ PoolDelta.tryNew W D.nextL D.nextS (-d) 0 1 1 = none := by
  unfold PoolDelta.tryNew at h ⊢
  unfold checkedMul toU at h ⊢
  simp only [Nat.mul_one] at h ⊢
  split at h
  · cases h
  · rename_i cl hcl
    split at hcl
    · cases hcl
      split at h
      · cases h
      · rename_i cs hcs
        split at hcs
        · cases hcs
          split at h
          · cases h
          · rename_i nl hnl
            split at h
            · cases h
            · rename_i ns hns
              cases h
              have e1 := C01.checkedAddWithSigned_spec hnl
              have e2 := C01.checkedAddWithSigned_spec hns
              simp only [PoolDelta.rev]
              by_cases hf : nl < 2 ^ W
              · simp only [hf, if_true]
                by_cases hg : ns < 2 ^ W
                · simp only [hg, if_true]
                  cases hx : checkedAddWithSigned W nl (-d) with
                  | none => right; rfl
                  | some nl' =>
                    have e3 := C01.checkedAddWithSigned_spec hx
                    cases hy : checkedAddWithSigned W ns 0 with
                    | none => right; rfl
                    | some ns' =>
                      have e4 := C01.checkedAddWithSigned_spec hy
                      left
                      have : nl' = ol := by omega
                      have : ns' = os := by omega
                      subst_vars
                      rfl
                · right; simp [hg]
              · right; simp [hf]
        · cases hcs
    · cases hcl

/-- **round-trip impact ≤ one unit of value** (before caps, real pools): the impact of opening
`d` on the open-interest balance and the impact of the exact reverse change sum to at most 1
(≤ 0 when the change crosses the balance point). -/
theorem open_close_impact_le_one {W U : Nat} {p : ImpactParams} {ol os : Nat} {d : Int} {D : PoolDelta} {x y : Int}
    {b₁ b₂ : BalanceChange} (_h : PoolDelta.tryNew W ol os d 0 1 1 = some D)
    (hx : D.priceImpact W U p = some (x, b₁)) (hy : D.rev.priceImpact W U p = some (y, b₂)) :
    x + y ≤ 1 ∧ (D.isSameSide = false → x + y ≤ 0) :=
  C03.roundtrip_le_one hx hy

/-- the positive cap never raises the impact, and leaves a negative impact alone. -/
theorem cap_positive_le {W U : Nat} {m : Market} {c : PerpCfg} {index : Price} {sd i r : Int}
    (h : capPositiveImpact W U m c index sd i = some r) : r ≤ i ∧ (i < 0 → r = i) ∧ (0 ≤ i → 0 ≤ r ∨ r = i) := by
  unfold capPositiveImpact at h
  split at h
  · cases h; exact ⟨Int.le_refl _, fun _ => rfl, fun hh => by omega⟩
  · rename_i hn
    cases h1 : (checkedMul W m.positionImpact.long index.min).bind (toSigned W) with
    | none => rw [h1] at h; cases h
    | some max1 =>
      rw [h1] at h
      simp only at h
      cases h2 : (applyFactor W U sd.natAbs c.maxPosImpactFactor).bind (toSigned W) with
      | none => rw [h2] at h; cases h
      | some max2 =>
        rw [h2] at h
        simp only [Option.some.injEq] at h
        have hm1 : 0 ≤ max1 := by
          cases hc : checkedMul W m.positionImpact.long index.min with
          | none => simp [hc] at h1
          | some v => simp only [hc, Option.bind] at h1; have := Lem.toSigned_some h1; omega
        have hm2 : 0 ≤ max2 := by
          cases hc : applyFactor W U sd.natAbs c.maxPosImpactFactor with
          | none => simp [hc] at h2
          | some v => simp only [hc, Option.bind] at h2; have := Lem.toSigned_some h2; omega
        subst h
        refine ⟨?_, fun hh => absurd hh hn, fun _ => ?_⟩
        · split <;> split <;> omega
        · left; split <;> split <;> omega

/-- the negative cap never lowers the impact; the part cut off is exactly the reported diff,
which the decrease credits to the trader's claimable collateral. -/
theorem cap_negative_ge {W U : Nat} {c : PerpCfg} {sd i r : Int} {forLiq : Bool} {diff : Nat}
    (h : capNegativeImpact W U c sd forLiq i = some (r, diff)) : i ≤ r ∧ r - i = diff ∧ (0 ≤ i → r = i) := by
  unfold capNegativeImpact at h
  split at h
  · rename_i hneg
    simp only at h
    generalize (if forLiq = true then c.maxImpactFactorLiq else c.maxNegImpactFactor) = f at h
    cases hmi : (applyFactor W U sd.natAbs f).bind (toOppositeSigned W) with
    | none => rw [hmi] at h; cases h
    | some mi =>
      rw [hmi] at h
      simp only at h
      split at h
      · rename_i hlt
        split at h
        · cases h
        · rename_i dd hdd
          cases h
          have := Lem.toI_some hdd
          subst this
          exact ⟨by omega, by omega, fun hh => by omega⟩
      · cases h; exact ⟨Int.le_refl _, by simp, fun _ => rfl⟩
  · cases h; exact ⟨Int.le_refl _, by simp, fun _ => rfl⟩

/-- **negation of the literal clause** for a configuration whose positive impact cap exceeds the
negative one (5 % vs 0.5 %): a 500 USD short opened against 1000 USD of long open interest
receives +15 USD of impact (below the 5 % cap); closing it at once costs −15 USD of impact, of
which only −2.5 USD is charged (0.5 % cap) and 12.5 USD is reported as `price_impact_diff` and
credited to the trader's claimable collateral: 100·10⁹ tokens deposited, 100·10⁹ returned plus
12.5·10⁹ claimable. Replayed on the implementation (finding F-C10). -/
theorem roundtrip_profit_witness :
    cOutcome = some (100 * 10 ^ 9, 15 * 10 ^ 9, -(25 * 10 ^ 8), 125 * 10 ^ 8, 100 * 10 ^ 9, 125 * 10 ^ 8) := by rfl

/-! ### Non-vacuity -/
example : PoolDelta.tryNew 64 (1000 * 10 ^ 9) 0 0 (500 * 10 ^ 9) 1 1
    = some ⟨1000 * 10 ^ 9, 0, 1000 * 10 ^ 9, 500 * 10 ^ 9⟩ := by decide
example : capNegativeImpact 64 (10 ^ 9) cPerp (-(500 * 10 ^ 9)) false (-(15 * 10 ^ 9)) = some (-(25 * 10 ^ 8), 125 * 10 ^ 8) := by decide

end Gmx.C10
