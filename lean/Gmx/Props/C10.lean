import Gmx.Lemmas.RoundTrip
import Gmx.Props.C03
/-!
# C10 — opening and immediately closing a position is never profitable

Statements are about `Gmx.Model.Perp` (tied to the implementation by the stateful `perp` engine,
whose harness opens and immediately closes positions at unchanged prices in random market
states and compares the value received — output plus claimable collateral — with the deposit).

Proved here (the ingredients of the no-profit argument):
* the token size rounds against the trader on both legs;
* the price impact of the opening and of the exact reverse change sum to at most one unit of
  value (from C03), before caps;
* the caps only lower a positive impact and only raise a negative one, and the part of a
  negative impact above the cap is exactly the reported `price_impact_diff`, which is credited to
  the trader's claimable collateral;
* `roundtrip_profit_witness`: with `max_positive_position_impact_factor >
  max_negative_position_impact_factor` the round trip IS profitable (finding F-C10).
End to end (NoSwap, pnl token = collateral token), through every branch of the collateral
processor:
* `capped_roundtrip_impact_le_one`: with positive cap factor ≤ negative cap factor the impacts
  actually applied (after caps) still sum to at most one unit;
* `close_pnl_le_open_impact`: the pnl of the immediate full close is at most the opening's impact
  (token roundings and the price spread go against the trader);
* `close_receipt`: everything a decrease hands to the trader (output, secondary output, claimable)
  is at most collateral + credited tokens − charged tokens, or nothing (insolvent close);
* `close_impact_is_reverse_on_market`: whatever `position_price_impact` returns for `+size` on the
  market before and for `−size` on the market the increase left sums to ≤ 1 (frame of `increaseCore`:
  configuration unchanged, open interest of the side + size; the virtual inventory for positions
  only lowers either value);
* **`open_close_no_profit`**: opening a fresh position and closing it at once at the same prices
  returns at most the deposit + 1 token unit — no hypothesis on the impacts (round 3; the round-2
  statement with the explicit link `hxy` is kept as `open_close_no_profit_partial`).
Guards that remain, each necessary or out of scope: positive cap factor ≤ negative cap factor
(otherwise F-C10), pnl token = collateral token, `min ≤ max` for the two prices used.
NOT proved: tokens differing (pnl token ≠ collateral token: the bound then holds in value with a
slack of two token units, oracle-checked).
-/
namespace Gmx.C10
open Gmx Gmx.Perp Gmx.Lem

/-- **token size rounds against the trader** (price spread `pmin ≤ pmax`): a long receives
`⌊size/pmax⌋` tokens whose closing value `·pmin` is at most the size; a short owes
`⌈size/pmin⌉` tokens whose closing cost `·pmax` is at least the size. So with no price impact the
pnl of an immediate close is never positive. -/
theorem open_close_tokens_against_trader (size pmin pmax : Nat) (hp : pmin ≤ pmax) (h0 : pmin ≠ 0) :
    size / pmax * pmin ≤ size ∧ size ≤ ceilDiv size pmin * pmax := by
  constructor
  · calc size / pmax * pmin ≤ size / pmax * pmax := Nat.mul_le_mul_left _ hp
      _ ≤ size := Nat.div_mul_le_self _ _
  · have := (C01.ceil_char size pmin h0).1
    calc size ≤ ceilDiv size pmin * pmin := this
      _ ≤ ceilDiv size pmin * pmax := Nat.mul_le_mul_left _ hp

/-- **the pool delta of closing a just-opened position is the exact reverse of the opening's**, and
it always exists: the amounts the closing starts from fit the word because the opening's did (no
`none` branch; audit item). -/
theorem close_delta_is_reverse {W ol os : Nat} {d : Int} {D : PoolDelta}
    (h : PoolDelta.tryNew W ol os d 0 1 1 = some D) :
    PoolDelta.tryNew W D.nextL D.nextS (-d) 0 1 1 = some D.rev :=
  Lem.tryNew_rev h

/-- **round-trip impact ≤ one unit of value** (before caps, real pools), for ANY pool delta `D`:
the impact of `D` and the impact of its exact reverse sum to at most 1 (≤ 0 when the change
crosses the balance point). With `close_delta_is_reverse`, `D.rev` IS the closing's delta. -/
theorem open_close_impact_le_one {W U : Nat} {p : ImpactParams} {D : PoolDelta} {x y : Int}
    {b₁ b₂ : BalanceChange}
    (hx : D.priceImpact W U p = some (x, b₁)) (hy : D.rev.priceImpact W U p = some (y, b₂)) :
    x + y ≤ 1 ∧ (D.isSameSide = false → x + y ≤ 0) :=
  C03.roundtrip_le_one hx hy

/-- the two together, on the computed deltas: opening `d` on pools `(ol, os)` and closing `−d` on
the resulting pools. -/
theorem open_close_impact_le_one_computed {W U : Nat} {p : ImpactParams} {ol os : Nat} {d : Int} {D D' : PoolDelta} {x y : Int}
    {b₁ b₂ : BalanceChange} (h : PoolDelta.tryNew W ol os d 0 1 1 = some D)
    (h' : PoolDelta.tryNew W D.nextL D.nextS (-d) 0 1 1 = some D')
    (hx : D.priceImpact W U p = some (x, b₁)) (hy : D'.priceImpact W U p = some (y, b₂)) : x + y ≤ 1 := by
  rw [close_delta_is_reverse h] at h'
  cases h'
  exact (C03.roundtrip_le_one hx hy).1

/-- the positive cap never raises the impact, and leaves a negative impact alone. -/
theorem cap_positive_le {W U : Nat} {m : Market} {c : PerpCfg} {index : Price} {sd i r : Int}
    (h : capPositiveImpact W U m c index sd i = some r) : r ≤ i ∧ (i < 0 → r = i) ∧ (0 ≤ i → 0 ≤ r ∨ r = i) := by
  unfold capPositiveImpact at h
  split at h
  · cases h; exact ⟨Int.le_refl _, fun _ => rfl, fun hh => by omega⟩
  · rename_i hn
    cases h1 : (checkedMul W m.positionImpact.long index.min).bind (toSigned W) with
    | none => rw [h1] at h; cases h
    | some max1 =>
      rw [h1] at h
      simp only at h
      cases h2 : (applyFactor W U sd.natAbs c.maxPosImpactFactor).bind (toSigned W) with
      | none => rw [h2] at h; cases h
      | some max2 =>
        rw [h2] at h
        simp only [Option.some.injEq] at h
        have hm1 : 0 ≤ max1 := by
          cases hc : checkedMul W m.positionImpact.long index.min with
          | none => simp [hc] at h1
          | some v => simp only [hc, Option.bind] at h1; have := Lem.toSigned_some h1; omega
        have hm2 : 0 ≤ max2 := by
          cases hc : applyFactor W U sd.natAbs c.maxPosImpactFactor with
          | none => simp [hc] at h2
          | some v => simp only [hc, Option.bind] at h2; have := Lem.toSigned_some h2; omega
        subst h
        refine ⟨?_, fun hh => absurd hh hn, fun _ => ?_⟩
        · split <;> split <;> omega
        · left; split <;> split <;> omega

/-- the negative cap never lowers the impact; the part cut off is exactly the reported diff,
which the decrease credits to the trader's claimable collateral. -/
theorem cap_negative_ge {W U : Nat} {c : PerpCfg} {sd i r : Int} {forLiq : Bool} {diff : Nat}
    (h : capNegativeImpact W U c sd forLiq i = some (r, diff)) : i ≤ r ∧ r - i = diff ∧ (0 ≤ i → r = i) := by
  unfold capNegativeImpact at h
  split at h
  · rename_i hneg
    simp only at h
    generalize (if forLiq = true then c.maxImpactFactorLiq else c.maxNegImpactFactor) = f at h
    cases hmi : (applyFactor W U sd.natAbs f).bind (toOppositeSigned W) with
    | none => rw [hmi] at h; cases h
    | some mi =>
      rw [hmi] at h
      simp only at h
      split at h
      · rename_i hlt
        split at h
        · cases h
        · rename_i dd hdd
          cases h
          have := Lem.toI_some hdd
          subst this
          exact ⟨by omega, by omega, fun hh => by omega⟩
      · cases h; exact ⟨Int.le_refl _, by simp, fun _ => rfl⟩
  · cases h; exact ⟨Int.le_refl _, by simp, fun _ => rfl⟩

/-- **negation of the literal clause** for a configuration whose positive impact cap exceeds the
negative one (5 % vs 0.5 %): a 500 USD short opened against 1000 USD of long open interest
receives +15 USD of impact (below the 5 % cap); closing it at once costs −15 USD of impact, of
which only −2.5 USD is charged (0.5 % cap) and 12.5 USD is reported as `price_impact_diff` and
credited to the trader's claimable collateral: 100·10⁹ tokens deposited, 100·10⁹ returned plus
12.5·10⁹ claimable. Replayed on the implementation (finding F-C10). -/
theorem roundtrip_profit_witness :
    cOutcome = some (100 * 10 ^ 9, 15 * 10 ^ 9, -(25 * 10 ^ 8), 125 * 10 ^ 8, 100 * 10 ^ 9, 125 * 10 ^ 8) := by rfl


/-- **capped round-trip impact ≤ 1**: if the uncapped impacts of the opening (`x`) and of the
reverse change (`y`) sum to at most one unit, so do the impacts actually applied — the opening's
after the positive cap, the closing's after both caps — provided the positive cap factor does
not exceed the negative one (otherwise: `roundtrip_profit_witness`). -/
theorem capped_roundtrip_impact_le_one {W U : Nat} {m0 m1 : Market} {c : PerpCfg} {index : Price} {S : Nat}
    {x y iv1 i1 iv2 : Int} {diff : Nat} (hxy : x + y ≤ 1) (hcap : c.maxPosImpactFactor ≤ c.maxNegImpactFactor)
    (h1 : capPositiveImpact W U m0 c index (S : Int) x = some iv1)
    (h2 : capPositiveImpact W U m1 c index (-(S : Int)) y = some i1)
    (h3 : capNegativeImpact W U c (-(S : Int)) false i1 = some (iv2, diff)) : iv1 + iv2 ≤ 1 :=
  Lem.capped_roundtrip_le_one hxy hcap h1 h2 h3

/-- **the pnl of an immediate full close is at most the opening's price impact**: `T` tokens were
booked for size `S` (`⌊S/max⌋ + amt` long, `⌈S/min⌉ − amt` short, `amt` the impact amount:
`⌊iv/max⌋` if positive, `−⌈|iv|/min⌉` otherwise); closing prices them at `min` (long) / `max` (short). -/
theorem close_pnl_le_open_impact (isLong : Bool) (S T idxMin idxMax : Nat) (iv amt : Int) (hp : idxMin ≤ idxMax)
    (h0 : idxMin ≠ 0)
    (hamt : (0 < iv → amt = Int.tdiv iv idxMax) ∧ (iv ≤ 0 → amt ≤ 0 ∧ (-iv) ≤ (-amt) * idxMin))
    (hT : if isLong then (T : Int) = (S / idxMax : Nat) + amt else (T : Int) = (ceilDiv S idxMin : Nat) - amt) :
    (if isLong then (T : Int) * idxMin - S else (S : Int) - T * idxMax) ≤ iv :=
  Lem.close_pnl_le_open_impact isLong S T idxMin idxMax iv amt hp h0 hamt hT

/-- **what a decrease hands to the trader** (pnl token = collateral token), through every branch
of the collateral processor: output + secondary output + claimable amounts, plus the tokens
charged for a negative pnl / negative capped impact (rounded up at the min price), are at most the
position's collateral plus the tokens credited for a positive pnl / positive impact (rounded down
at the max price) — or the trader receives nothing (insolvent close). Fees and funding only
lower it; the price impact diff is moved to the claimable account, not lost. The two prices the
token amounts are divided by are non-zero (a successful decrease validated them), so
`creditTokens` / `chargeTokens` never hit their `x / 0 = 0` default here (audit item). -/
theorem close_receipt {W U : Nat} {m m' : Market} {c : PerpCfg} {pr : Prices} {p p' : Pos} {sd0 wd : Nat}
    {fl : DecreaseFlags} {r : DecreaseReport} (h : decrease W U m c pr p sd0 wd fl = .ok (m', p', r))
    (hs : p.isLong = p.collLong) :
    ((pr.collateral p.collLong).min ≠ 0 ∧ (pr.collateral p.collLong).max ≠ 0) ∧
    (r.output + r.secondary + r.userOut + r.userSec + chargeTokens r.pnl r.impactValue (pr.collateral p.collLong).min
        ≤ p.collateral + creditTokens r.pnl r.impactValue (pr.collateral p.collLong).max ∨
     r.output + r.secondary + r.userOut + r.userSec = 0) :=
  ⟨Lem.decrease_prices_nonzero h, Lem.decrease_receipt h hs⟩

/-- **open + immediate close is not profitable** (fresh position, same prices, pnl token =
collateral token, positive cap factor ≤ negative cap factor): everything returned is at most the
deposit plus ONE token unit. `hxy` is the one link not derived here (see the header). -/
theorem open_close_no_profit_partial {W U : Nat} {m m1 m2 : Market} {c : PerpCfg} {pr : Prices} {p0 p1 p2 : Pos}
    {ci S : Nat} {r1 : IncreaseReport} {r2 : DecreaseReport} {fl : DecreaseFlags}
    (hinc : increase W U m c pr p0 ci S = .ok (m1, p1, r1))
    (hfresh : p0.sizeUsd = 0 ∧ p0.collateral = 0) (hS : S ≠ 0) (hsame : p0.isLong = p0.collLong)
    (hdec : decrease W U m1 c pr p1 S 0 fl = .ok (m2, p2, r2))
    (hcap : c.maxPosImpactFactor ≤ c.maxNegImpactFactor)
    (hidx : pr.index.min ≤ pr.index.max) (hcp : (pr.collateral p0.collLong).min ≤ (pr.collateral p0.collLong).max)
    (hxy : ∀ x y bx by', positionPriceImpact W U m p0.isLong (S : Int) true = some (x, bx) →
      positionPriceImpact W U m1 p0.isLong (-(S : Int)) true = some (y, by') → x + y ≤ 1) :
    r2.output + r2.secondary + r2.userOut + r2.userSec ≤ ci + 1 :=
  Lem.open_close_bound hinc hfresh hS hsame hdec hcap hidx hcp hxy


/-- **the closing's impact is the reverse of the opening's** on the market the increase left:
the two values `position_price_impact` returns sum to at most one unit of value. -/
theorem close_impact_is_reverse_on_market {W U : Nat} {m m1 : Market} {c : PerpCfg} {pr : Prices} {p p1 : Pos} {ci S : Nat}
    {r1 : IncreaseReport} (hcore : increaseCore W U m c pr p ci S = .ok (m1, p1, r1)) {x y : Int} {bx by' : BalanceChange}
    (hx : positionPriceImpact W U m p.isLong (S : Int) true = some (x, bx))
    (hy : positionPriceImpact W U m1 p.isLong (-(S : Int)) true = some (y, by')) : x + y ≤ 1 :=
  Lem.close_impact_is_reverse_on_market hcore hx hy

/-- **open + immediate close is not profitable**, end to end through `increase`, the collateral
processor and `decrease` (fresh position, same prices, pnl token = collateral token, positive cap
factor ≤ negative cap factor): everything returned — output, secondary output, claimable — is at
most the deposit plus ONE token unit, in every market state. -/
theorem open_close_no_profit {W U : Nat} {m m1 m2 : Market} {c : PerpCfg} {pr : Prices} {p0 p1 p2 : Pos}
    {ci S : Nat} {r1 : IncreaseReport} {r2 : DecreaseReport} {fl : DecreaseFlags}
    (hinc : increase W U m c pr p0 ci S = .ok (m1, p1, r1))
    (hfresh : p0.sizeUsd = 0 ∧ p0.collateral = 0) (hS : S ≠ 0) (hsame : p0.isLong = p0.collLong)
    (hdec : decrease W U m1 c pr p1 S 0 fl = .ok (m2, p2, r2))
    (hcap : c.maxPosImpactFactor ≤ c.maxNegImpactFactor)
    (hidx : pr.index.min ≤ pr.index.max) (hcp : (pr.collateral p0.collLong).min ≤ (pr.collateral p0.collLong).max) :
    r2.output + r2.secondary + r2.userOut + r2.userSec ≤ ci + 1 :=
  Lem.open_close_bound_full hinc hfresh hS hsame hdec hcap hidx hcp

/-! ### Non-vacuity -/
example : PoolDelta.tryNew 64 (1000 * 10 ^ 9) 0 0 (500 * 10 ^ 9) 1 1
    = some ⟨1000 * 10 ^ 9, 0, 1000 * 10 ^ 9, 500 * 10 ^ 9⟩ := by decide
example : capNegativeImpact 64 (10 ^ 9) cPerp (-(500 * 10 ^ 9)) false (-(15 * 10 ^ 9)) = some (-(25 * 10 ^ 8), 125 * 10 ^ 8) := by decide
/-- a compliant round trip (caps 0.5 % / 5 %): impact +2.5 USD at opening, −15 USD at closing, no
diff; 87.5·10⁹ of the 100·10⁹ tokens deposited come back. -/
example : rtOutcome = some (25 * 10 ^ 8, -(15 * 10 ^ 9), 0, 875 * 10 ^ 8) := by rfl

/-! #### audit additions: witnesses for the remaining hypotheses -/
/-- `open_close_tokens_against_trader` with a real spread 99 < 101 (instantiating the theorem). -/
example : 1000 / 101 * 99 ≤ 1000 ∧ 1000 ≤ ceilDiv 1000 99 * 101 :=
  open_close_tokens_against_trader 1000 99 101 (by decide) (by decide)
/-- `close_delta_is_reverse` / `open_close_impact_le_one`: a delta of the hypothesis' shape (second delta 0,
prices 1): opening 500 USD of longs against 1000 / 200; the reverse change from the resulting pools is
`some D.rev` (first disjunct); both impacts exist, −21 001 050 000 and +21 000 000 000 (negative factor
slightly larger), sum ≤ 1; the change stays on the same side. -/
example : (match PoolDelta.tryNew 64 (1000 * 10 ^ 9) (200 * 10 ^ 9) (500 * 10 ^ 9) 0 1 1 with
  | some D => some (PoolDelta.tryNew 64 D.nextL D.nextS (-(500 * 10 ^ 9)) 0 1 1 == some D.rev,
      D.priceImpact 64 (10 ^ 9) ⟨2 * 10 ^ 9, 20000, 20001⟩, D.rev.priceImpact 64 (10 ^ 9) ⟨2 * 10 ^ 9, 20000, 20001⟩, D.isSameSide)
  | none => none)
    = some (true, some (-21001050000, .worsened), some (21000000000, .improved), true) := by decide +kernel
/-- `cap_positive_le`: a positive impact of 15 USD on a 500 USD order is cut to the 0.5 % cap, 2.5 USD; a
negative one passes unchanged. -/
example : capPositiveImpact 64 (10 ^ 9) cM0 rtPerp ⟨100, 100⟩ (500 * 10 ^ 9) (15 * 10 ^ 9) = some (25 * 10 ^ 8) ∧
    capPositiveImpact 64 (10 ^ 9) cM0 rtPerp ⟨100, 100⟩ (-(500 * 10 ^ 9)) (-(15 * 10 ^ 9)) = some (-(15 * 10 ^ 9)) := by
  decide +kernel
/-- `capped_roundtrip_impact_le_one` instantiated (`rtPerp`: positive cap 0.5 % ≤ negative cap 5 %; uncapped
impacts +15 and −15 USD): applied impacts 2.5 − 15 ≤ 1. -/
example : (25 * 10 ^ 8 : Int) + -(15 * 10 ^ 9) ≤ 1 :=
  capped_roundtrip_impact_le_one (W := 64) (U := 10 ^ 9) (m0 := cM0) (m1 := cM0) (c := rtPerp) (index := ⟨100, 100⟩) (S := 500 * 10 ^ 9)
    (x := 15 * 10 ^ 9) (y := -(15 * 10 ^ 9)) (i1 := -(15 * 10 ^ 9)) (diff := 0)
    (by decide) (by decide +kernel) (by decide +kernel) (by decide +kernel) (by decide +kernel)
/-- `close_pnl_le_open_impact` instantiated: long, size 1000, spread 99/101, impact +250 ⇒ impact amount
`250 tdiv 101 = 2`, tokens `⌊1000/101⌋ + 2 = 11`; closing pnl `11·99 − 1000 = 89 ≤ 250`. -/
example : ((11 : Nat) : Int) * (99 : Nat) - (1000 : Nat) ≤ 250 := by
  simpa using close_pnl_le_open_impact true 1000 11 99 101 250 2 (by decide) (by decide) (by decide) (by decide)
/-- `close_impact_is_reverse_on_market`: `increaseCore` succeeds on `cM0` and both `position_price_impact`
calls return a value: +15 USD for `+size` before, −15 USD for `−size` after. -/
example : positionPriceImpact 64 (10 ^ 9) cM0 false (500 * 10 ^ 9) true = some (15000000000, .improved) ∧
    (match increaseCore 64 (10 ^ 9) cM0 rtPerp wPrices { isLong := false, collLong := false } (100 * 10 ^ 9) (500 * 10 ^ 9) with
     | .ok (m1, p1, r1) => some (positionPriceImpact 64 (10 ^ 9) m1 false (-(500 * 10 ^ 9 : Int)) true, p1.sizeUsd, r1.impactValue)
     | _ => none) = some (some (-15000000000, .worsened), 500000000000, 2500000000) := by decide +kernel
/-- `open_close_no_profit` / `close_receipt` with a REAL spread (index and long token 99/101), a LONG with
long-token collateral (`hsame`), fresh position, `rtPerp` (`hcap`): the increase and the immediate full
close both succeed; `(open impact, close impact, pnl, everything returned)`: 672 217 220 ≤ 10⁹ + 1 deposited. -/
example : (match increase 64 (10 ^ 9) cM0 rtPerp ⟨⟨99, 101⟩, ⟨99, 101⟩, ⟨1, 1⟩⟩ { isLong := true, collLong := true } (10 ^ 9) (500 * 10 ^ 9) with
  | .ok (m1, p1, r1) => (match decrease 64 (10 ^ 9) m1 rtPerp ⟨⟨99, 101⟩, ⟨99, 101⟩, ⟨1, 1⟩⟩ p1 (500 * 10 ^ 9) 0 {} with
     | .ok (_, _, r2) => some (r1.impactValue, r2.impactValue, r2.pnl, r2.output + r2.secondary + r2.userOut + r2.userSec)
     | _ => none)
  | _ => none) = some (-25000000000, 2500000000, -34900990196, 672217220) := by decide +kernel

end Gmx.C10
