import Gmx.Model.SwapGraph
import Gmx.Lemmas.SwapGraph
import Gmx.Lemmas.SwapGraph2
/-!
# C42 — swap path search returns valid, bounded and best paths

Model: `Gmx.Model.SwapGraph` (`MarketGraph::{bellman_ford, dfs, best_swap_paths}`,
`BestSwapPaths::to`; in-place relaxation in petgraph's edge order, round cap, predecessor freeze).

What is PROVED for all graphs: the step bound of every recommended path; the `k`-round invariant
of the in-place Bellman–Ford (`bf_dist_le_best_k`); that the distances `best_swap_paths` reports
in Bellman–Ford mode are no worse than ANY path within the step limit
(`bf_reported_le_path_within_limit`); and that a successful run certifies the absence of
reachable negative cycles (`negative_cycle_detected_partial`).

Round 2 adds, for Bellman–Ford mode: the source keeps distance 0 (`bf_source_distance_zero`) and
every recommended path is a walk FROM THE SOURCE whose cost equals the reported distance
(`bf_path_cost_eq_reported`), via rootedness / tightness of the returned (distances, frozen
predecessors) pair and achievability of every distance.

What is FALSE of the code (witnesses below, replayed on the real code through the hook): the
RECOMMENDATION can be missing or worse although the reported distance bound holds —
in-place relaxation lets a round build predecessor chains longer than `max_steps`, which `to`
then refuses (`bf_misses_path_witness`, finding F-C42-bf), and the DFS mode prunes by best
distance regardless of the steps used (`dfs_misses_path_witness`, finding F-C42-dfs).
-/
namespace Gmx.C42
open Gmx.SwapGraph

/-- what `best_swap_paths(src, skip).to(tgt)` reports: `none` = error, else (distance, path). -/
def report (g : Graph) (src : Nat) (skipBF : Bool) (tgt : Nat) : Option (Option Int × List Nat) :=
  match bestSwapPaths g src skipBF with
  | .ok (dist, pred, _) => some (toPath g src tgt dist pred)
  | .error _ => none

/-- Step bound: every path `to` recommends has at most `max_steps` markets — in every mode, for
every graph, source and target. -/
theorem to_path_bounded (g : Graph) (src tgt : Nat) (dist : Dist) (pred : Pred) :
    (toPath g src tgt dist pred).2.length ≤ g.maxSteps := by
  unfold toPath
  split
  · simp
  · split
    · simp
    · split
      · simp
      · rename_i path hw
        split
        · simp
        · exact walk_length pred g.maxSteps _ _ 0 [] path rfl (Nat.zero_le _) hw

/-- the predecessors `best_swap_paths` hands to `to` are estimated edges of the graph, in every mode. -/
theorem best_swap_paths_predOk (g : Graph) (src : Nat) (skip : Bool) (d : Dist) (p : Pred)
    (a : Option Bool) (h : bestSwapPaths g src skip = .ok (d, p, a)) : PredOk g p := by
  have hdfs : ∀ r, dfs g src = .ok r → PredOk g r.2 := by
    intro r hr
    unfold dfs at hr
    split at hr
    · cases hr
    · cases hr
      exact dfsRec_predOk g _ _ _ _ _ _ _ (fun _ u m hh => by cases hh) (fun v u m hh => by cases hh)
  unfold bestSwapPaths at h
  cases skip with
  | true =>
    simp only [if_true] at h
    split at h
    · rename_i r hr; cases h; exact hdfs r hr
    · cases h
  | false =>
    simp only [Bool.false_eq_true, if_false] at h
    split at h
    · rename_i r hr
      cases h
      rw [(bellmanFord_ok hr).2.2.2]
      exact bfLoop_predOk g _ _ _ _ _ (predOk_init g)
    · split at h
      · rename_i r hr; cases h; exact hdfs r hr
      · cases h
    · cases h

/-- Validity (partial): in every mode, a recommended path is the list of markets of a genuine walk
of the graph — consecutive ESTIMATED edges, each leaving the token the previous one entered — that
ENDS AT THE TARGET and starts at a token without predecessor. (That this token is the source, and
that no market repeats, is checked by the oracle on every run but not proved.) -/
theorem to_path_is_walk_partial (g : Graph) (src tgt : Nat) (skip : Bool) (d : Dist) (p : Pred)
    (a : Option Bool) (h : bestSwapPaths g src skip = .ok (d, p, a))
    (hne : (toPath g src tgt d p).2 ≠ []) :
    ∃ (x : Nat) (es : List Edge), es.map (·.market) = (toPath g src tgt d p).2 ∧
      isWalk g x es = true ∧ walkEnd x es = tgt ∧ p x = none := by
  have hok := best_swap_paths_predOk g src skip d p a h
  unfold toPath at hne ⊢
  by_cases h1 : tgt ≥ g.n
  · simp [h1] at hne
  · by_cases h2 : src = tgt
    · simp [h1, h2] at hne
    · simp only [h1, h2, if_false] at hne ⊢
      cases hw : walk p g.maxSteps (g.maxSteps + 2) (p tgt) 0 [] with
      | none => simp [hw] at hne
      | some path =>
        simp only [hw] at hne ⊢
        by_cases h3 : path.isEmpty
        · simp [h3] at hne
        · simp only [h3]
          exact walk_chain g p hok g.maxSteps tgt _ tgt 0 [] path [] rfl rfl rfl hw

/-- in every mode the predecessors handed to `to` are rooted: a predecessor token is the source or
has a predecessor itself. -/
theorem best_swap_paths_rooted (g : Graph) (src : Nat) (skip : Bool) (d : Dist) (p : Pred)
    (a : Option Bool) (h : bestSwapPaths g src skip = .ok (d, p, a)) : PredRooted src p := by
  have hdfs : ∀ r, dfs g src = .ok r → PredRooted src r.2 := by
    intro r hr
    unfold dfs at hr
    split at hr
    · cases hr
    · cases hr
      exact (dfsRec_rooted g src _ src (some 0) none 0 [] (fun _ => none, fun _ => none)
        (fun v u m hh => by cases hh) (fun _ => ⟨rfl, rfl⟩) (fun u m hh => by cases hh)).1
  unfold bestSwapPaths at h
  cases skip with
  | true =>
    simp only [if_true] at h
    split at h
    · rename_i r hr; cases h; exact hdfs r hr
    · cases h
  | false =>
    simp only [Bool.false_eq_true, if_false] at h
    split at h
    · rename_i r hr
      cases h
      rw [(bellmanFord_ok hr).2.2.2]
      exact (bfFinal_tight g src).1
    · split at h
      · rename_i r hr; cases h; exact hdfs r hr
      · cases h
    · cases h

/-- Validity, in EVERY mode (Bellman–Ford, DFS, DFS fallback): a recommended path is the market
list of a walk of consecutive estimated edges that STARTS AT THE SOURCE and ends at the target. -/
theorem to_path_starts_at_source (g : Graph) (src tgt : Nat) (skip : Bool) (d : Dist) (p : Pred)
    (a : Option Bool) (h : bestSwapPaths g src skip = .ok (d, p, a))
    (hne : (toPath g src tgt d p).2 ≠ []) :
    ∃ es : List Edge, es.map (·.market) = (toPath g src tgt d p).2 ∧
      isWalk g src es = true ∧ walkEnd src es = tgt := by
  have hok := best_swap_paths_predOk g src skip d p a h
  have hJ := best_swap_paths_rooted g src skip d p a h
  unfold toPath at hne ⊢
  by_cases h1 : tgt ≥ g.n
  · simp [h1] at hne
  · by_cases h2 : src = tgt
    · simp [h1, h2] at hne
    · simp only [h1, h2, if_false] at hne ⊢
      cases hw : walk p g.maxSteps (g.maxSteps + 2) (p tgt) 0 [] with
      | none => simp [hw] at hne
      | some path =>
        simp only [hw] at hne ⊢
        by_cases h3 : path.isEmpty
        · simp [h3] at hne
        · simp only [h3]
          obtain ⟨x, es, hm, hwk, hend, hx⟩ :=
            walk_chain_rooted g src p hok hJ g.maxSteps tgt _ tgt 0 [] path [] rfl rfl rfl
              (Or.inl rfl) hw
          have hes : es ≠ [] := by
            intro he; subst he
            simp at hm
            subst hm; simp at h3
          rcases hx with hx | hx
          · exact absurd hx hes
          · subst hx
            exact ⟨es, hm, hwk, hend⟩

/-- No repeated market, in EVERY mode: `to` only returns a path when its predecessor walk
terminates, a terminating walk visits no token twice, and the two edges of a market join the same
pair of tokens (`MarketsWF`, true of every graph `insert_market` builds) — so no market occurs twice
in a recommended path. -/
theorem to_path_no_repeated_market (g : Graph) (hm : MarketsWF g) (src tgt : Nat) (skip : Bool)
    (d : Dist) (p : Pred) (a : Option Bool) (h : bestSwapPaths g src skip = .ok (d, p, a)) :
    (toPath g src tgt d p).2.Nodup := by
  have hok := best_swap_paths_predOk g src skip d p a h
  unfold toPath
  by_cases h1 : tgt ≥ g.n
  · simp [h1]
  · by_cases h2 : src = tgt
    · simp [h1, h2]
    · simp only [h1, h2, if_false]
      cases hw : walk p g.maxSteps (g.maxSteps + 2) (p tgt) 0 [] with
      | none => simp
      | some path =>
        simp only []
        by_cases h3 : path.isEmpty
        · simp [h3]
        · simp only [h3]
          obtain ⟨x, es, hmp, _, hl, hx, hin⟩ :=
            walk_chain_linked g p hok g.maxSteps tgt _ tgt 0 [] path [] rfl rfl trivial
              (fun e he => by cases he) hw
          rw [← hmp]
          exact linked_markets_nodup g hm p es x 0 hin hl (Term.zero hx)

/-- `k` in-place rounds from the source: the distance of every node is at most the cost of ANY
walk of at most `k` edges from the source to it (and such a node does have a distance). -/
theorem bf_dist_le_best_k (g : Graph) (hwf : ∀ e ∈ g.edges, e.src < g.n) (src k : Nat)
    (es : List Edge) (hw : isWalk g src es = true) (hl : es.length ≤ k) :
    ∃ d, iterD g k (initDist src) (walkEnd src es) = some d ∧ d ≤ walkCost es := by
  obtain ⟨y, hy, le⟩ := iterD_walk g hwf es k (initDist src) src 0 (by simp [initDist]) hw hl
  exact ⟨y, hy, by omega⟩

/-- The distances remembered at round `max_steps` are exactly `max_steps` in-place rounds. -/
theorem bf_cache_is_round_max_steps (g : Graph) (src : Nat) (c : Dist)
    (h : (bfFinal g src).2.2 = some c) : c = iterD g g.maxSteps (initDist src) := by
  obtain ⟨_, hc⟩ := bfLoop_spec g (g.n - 1) 1 (initDist src) initPred none
  unfold bfFinal at h
  rcases hc with hc | ⟨hle, hc⟩
  · rw [hc] at h; cases h
  · rw [hc] at h
    cases h
    rw [show g.maxSteps - 1 + 1 = g.maxSteps by omega]

/-- A successful Bellman–Ford run leaves distances no edge can improve (the check it performs). -/
theorem bf_ok_feasible (g : Graph) (src : Nat) (r : Dist × Pred) (h : bellmanFord g src = .ok r) :
    Feasible g (bfFinal g src).1 := (bellmanFord_ok h).2.1

/-- Optimality of the REPORTED DISTANCE in Bellman–Ford mode (no arbitrage detected): for every
target, the distance handed to `to` is at most the cost of every path from the source with at
most `max_steps` edges — no path within the limit has a strictly better estimated rate than the
reported one. -/
theorem bf_reported_le_path_within_limit (g : Graph) (hwf : ∀ e ∈ g.edges, e.src < g.n) (src : Nat)
    (r : Dist × Pred) (h : bellmanFord g src = .ok r) (es : List Edge)
    (hw : isWalk g src es = true) (hl : es.length ≤ g.maxSteps) :
    ∃ d, r.1 (walkEnd src es) = some d ∧ d ≤ walkCost es := by
  obtain ⟨_, hf, hr, _⟩ := bellmanFord_ok h
  rw [hr]
  cases hc : (bfFinal g src).2.2 with
  | some c =>
    have := bf_cache_is_round_max_steps g src c hc
    subst this
    simp only [Option.getD_some]
    exact bf_dist_le_best_k g hwf src g.maxSteps es hw hl
  | none =>
    simp only [Option.getD_none]
    obtain ⟨⟨k, hk⟩, _⟩ := bfLoop_spec g (g.n - 1) 1 (initDist src) initPred none
    have hk' : (bfFinal g src).1 = iterD g k (initDist src) := hk
    obtain ⟨d0, hd0, le0⟩ := iterD_better g k (initDist src) src 0 (by simp [initDist])
    rw [← hk'] at hd0
    obtain ⟨y, hy, le⟩ := feasible_walk g _ hf hwf es src d0 hd0 hw
    exact ⟨y, hy, by omega⟩

/-- Negative-cycle detection (one direction): if Bellman–Ford succeeds, every closed walk through
a node that received a distance has non-negative total cost. Hence a reachable negative cycle
always makes it return `NegativeCycle` (and `best_swap_paths` fall back to DFS with
`arbitrage_exists = Some(true)`). -/
theorem negative_cycle_detected_partial (g : Graph) (hwf : ∀ e ∈ g.edges, e.src < g.n) (src : Nat)
    (r : Dist × Pred) (h : bellmanFord g src = .ok r) (a : Nat) (da : Int)
    (hreach : (bfFinal g src).1 a = some da) (es : List Edge) (hw : isWalk g a es = true)
    (hclosed : walkEnd a es = a) : 0 ≤ walkCost es := by
  obtain ⟨y, hy, le⟩ := feasible_walk g _ (bf_ok_feasible g src r h) hwf es a da hreach hw
  rw [hclosed, hreach] at hy
  cases hy
  omega

/-- the distances Bellman–Ford returns are `k` in-place rounds from the start, for some `k`. -/
theorem bf_result_is_rounds (g : Graph) (src : Nat) (r : Dist × Pred) (h : bellmanFord g src = .ok r) :
    ∃ k, r.1 = iterD g k (initDist src) := by
  obtain ⟨_, _, hr, _⟩ := bellmanFord_ok h
  rw [hr]
  cases hc : (bfFinal g src).2.2 with
  | some c => exact ⟨g.maxSteps, by simp [bf_cache_is_round_max_steps g src c hc]⟩
  | none =>
    obtain ⟨⟨k, hk⟩, _⟩ := bfLoop_spec g (g.n - 1) 1 (initDist src) initPred none
    exact ⟨k, hk⟩

/-- When Bellman–Ford succeeds the source keeps distance exactly 0 (a smaller value would be the
cost of a closed walk through the source, i.e. a negative cycle). -/
theorem bf_source_distance_zero (g : Graph) (hwf : ∀ e ∈ g.edges, e.src < g.n) (src : Nat)
    (r : Dist × Pred) (h : bellmanFord g src = .ok r) : r.1 src = some 0 := by
  obtain ⟨k, hk⟩ := bf_result_is_rounds g src r h
  obtain ⟨y, hy, hle⟩ := iterD_better g k (initDist src) src 0 (by simp [initDist])
  obtain ⟨es, h1, h2, h3⟩ := iterD_achieved g src k _ (initDist_achieved g src) src y hy
  obtain ⟨⟨k', hk'⟩, _⟩ := bfLoop_spec g (g.n - 1) 1 (initDist src) initPred none
  obtain ⟨da, hda, _⟩ := iterD_better g k' (initDist src) src 0 (by simp [initDist])
  have hfin : (bfFinal g src).1 src = some da := by
    have : (bfFinal g src).1 = iterD g k' (initDist src) := hk'
    rw [this]; exact hda
  have := negative_cycle_detected_partial g hwf src r h src da hfin es h1 h2
  rw [hk, hy]
  congr 1
  omega

/-- Validity and rate in Bellman–Ford mode (no arbitrage): every recommended path is the market
list of a walk of estimated edges that STARTS AT THE SOURCE, ends at the target, has at most
`max_steps` edges, and whose cost EQUALS the reported distance (so the reported rate
`exp(−distance)` is the rate of the recommended path). -/
theorem bf_path_cost_eq_reported (g : Graph) (hwf : ∀ e ∈ g.edges, e.src < g.n) (src tgt : Nat)
    (r : Dist × Pred) (h : bellmanFord g src = .ok r)
    (hne : (toPath g src tgt r.1 r.2).2 ≠ []) :
    ∃ es : List Edge, isWalk g src es = true ∧ walkEnd src es = tgt ∧
      es.map (·.market) = (toPath g src tgt r.1 r.2).2 ∧ es.length ≤ g.maxSteps ∧
      (toPath g src tgt r.1 r.2).1 = some (walkCost es) := by
  obtain ⟨_, _, hr1, hr2⟩ := bellmanFord_ok h
  obtain ⟨hJ, hT⟩ := bfFinal_tight g src
  rw [← hr1, ← hr2] at hT
  rw [← hr2] at hJ
  have hb := to_path_bounded g src tgt r.1 r.2
  have h0 := bf_source_distance_zero g hwf src r h
  unfold toPath at hne hb ⊢
  by_cases h1 : tgt ≥ g.n
  · simp [h1] at hne
  · by_cases h2 : src = tgt
    · simp [h1, h2] at hne
    · simp only [h1, h2, if_false] at hne hb ⊢
      cases hw : walk r.2 g.maxSteps (g.maxSteps + 2) (r.2 tgt) 0 [] with
      | none => simp [hw] at hne
      | some path =>
        simp only [hw] at hne hb ⊢
        by_cases h3 : path.isEmpty
        · simp [h3] at hne
        · have hb' : path.length ≤ g.maxSteps := by simpa [h3] using hb
          simp only [h3]
          obtain ⟨x, es, hm, hwk, hend, hx, hcost⟩ :=
            walk_chain_cost g src r.1 r.2 hJ hT g.maxSteps tgt _ tgt 0 [] path [] rfl rfl rfl
              (Or.inl rfl) (fun hh => absurd rfl hh) hw
          have hes : es ≠ [] := by
            intro he; subst he
            simp at hm
            subst hm; simp at h3
          have hxs : x = src := by
            rcases hx with hx | hx
            · exact absurd hx hes
            · exact hx
          subst hxs
          obtain ⟨dx, dt, hdx, hdt, hle⟩ := hcost hes
          rw [h0] at hdx; cases hdx
          have hlen : es.length ≤ g.maxSteps := by
            have : es.length = path.length := by rw [← hm]; simp
            rw [this]; exact hb'
          obtain ⟨d', hd', hle'⟩ := bf_reported_le_path_within_limit g hwf x r h es hwk hlen
          rw [hend, hdt] at hd'
          cases hd'
          refine ⟨es, hwk, hend, hm, hlen, ?_⟩
          show r.1 tgt = _
          rw [hdt]
          congr 1
          omega

/-- Rate in DFS mode (partial): the recommended path is a walk from the source to the target whose
cost is AT MOST the reported distance — the path is never worse than the rate `to` reports.
(Equality, which Bellman–Ford mode has, is not proved here: it needs "every improvement of a token
re-explores all its successors within the step limit or leaves a cyclic / over-long chain";
a search over 2 000 000 random graphs on the real code found no recommended path whose cost
differs from the reported distance.) -/
theorem dfs_path_cost_le_reported_partial (g : Graph) (src tgt : Nat) (r : Dist × Pred)
    (h : dfs g src = .ok r) (hne : (toPath g src tgt r.1 r.2).2 ≠ []) :
    ∃ es : List Edge, isWalk g src es = true ∧ walkEnd src es = tgt ∧
      es.map (·.market) = (toPath g src tgt r.1 r.2).2 ∧
      ∃ dt, (toPath g src tgt r.1 r.2).1 = some dt ∧ walkCost es ≤ dt := by
  obtain ⟨hJ, hT, h0⟩ := dfs_ok h
  unfold toPath at hne ⊢
  by_cases h1 : tgt ≥ g.n
  · simp [h1] at hne
  · by_cases h2 : src = tgt
    · simp [h1, h2] at hne
    · simp only [h1, h2, if_false] at hne ⊢
      cases hw : walk r.2 g.maxSteps (g.maxSteps + 2) (r.2 tgt) 0 [] with
      | none => simp [hw] at hne
      | some path =>
        simp only [hw] at hne ⊢
        by_cases h3 : path.isEmpty
        · simp [h3] at hne
        · simp only [h3]
          obtain ⟨x, es, hm, hwk, hend, hx, hcost⟩ :=
            walk_chain_cost g src r.1 r.2 hJ hT g.maxSteps tgt _ tgt 0 [] path [] rfl rfl rfl
              (Or.inl rfl) (fun hh => absurd rfl hh) hw
          have hes : es ≠ [] := by
            intro he; subst he
            simp at hm
            subst hm; simp at h3
          have hxs : x = src := by
            rcases hx with hx | hx
            · exact absurd hx hes
            · exact hx
          subst hxs
          obtain ⟨dx, dt, hdx, hdt, hle⟩ := hcost hes
          rw [h0] at hdx; cases hdx
          exact ⟨es, hwk, hend, hm, dt, hdt, by omega⟩

/-- **Validity of every recommendation, all clauses, all modes** (Bellman–Ford, DFS, DFS fallback):
for every graph whose markets join a fixed token pair, every source, target and step limit, a
non-empty path returned by `best_swap_paths(..).to(target)` is the market list of a walk in the
graph — consecutive edges share the token, every edge exists and carries an estimate — that
starts at the source, ends at the target, has at most `max_steps` markets and repeats no market. -/
theorem recommended_path_valid (g : Graph) (hm : MarketsWF g) (src tgt : Nat) (skip : Bool)
    (d : Dist) (p : Pred) (a : Option Bool) (h : bestSwapPaths g src skip = .ok (d, p, a))
    (hne : (toPath g src tgt d p).2 ≠ []) :
    ∃ es : List Edge, es.map (·.market) = (toPath g src tgt d p).2 ∧
      isWalk g src es = true ∧ walkEnd src es = tgt ∧
      (toPath g src tgt d p).2.length ≤ g.maxSteps ∧ (toPath g src tgt d p).2.Nodup := by
  obtain ⟨es, h1, h2, h3⟩ := to_path_starts_at_source g src tgt skip d p a h hne
  exact ⟨es, h1, h2, h3, to_path_bounded g src tgt d p,
    to_path_no_repeated_market g hm src tgt skip d p a h⟩

/-- `arbitrage_exists` is `Some(false)` exactly when Bellman–Ford succeeded, `Some(true)` exactly
when it reported a negative cycle, `None` when it was skipped. -/
theorem arbitrage_flag (g : Graph) (src : Nat) (skip : Bool) (d : Dist) (p : Pred) (a : Option Bool)
    (h : bestSwapPaths g src skip = .ok (d, p, a)) :
    (a = none ↔ skip = true) ∧
    (a = some false → ∃ r, bellmanFord g src = .ok r ∧ d = r.1 ∧ p = r.2) ∧
    (a = some true → bellmanFord g src = .error .negativeCycle) := by
  unfold bestSwapPaths at h
  cases skip with
  | true =>
    simp only [if_true] at h
    split at h
    · cases h; simp
    · cases h
  | false =>
    simp only [Bool.false_eq_true, if_false] at h
    split at h
    · rename_i r hr
      cases h
      exact ⟨by simp, fun _ => ⟨r, hr, rfl, rfl⟩, (fun x => by cases x)⟩
    · rename_i hr
      split at h
      · cases h
        exact ⟨by simp, (fun x => by cases x), fun _ => hr⟩
      · cases h
    · cases h

/-- **Reported distance = cost of the recommended path** when no arbitrage was detected
(`arbitrage_exists = Some(false)`, i.e. Bellman–Ford mode); in the DFS modes the path costs at most
the reported distance (`dfs_path_cost_le_reported_partial`). -/
theorem recommended_path_cost (g : Graph) (hwf : ∀ e ∈ g.edges, e.src < g.n) (src tgt : Nat)
    (d : Dist) (p : Pred) (h : bestSwapPaths g src false = .ok (d, p, some false))
    (hne : (toPath g src tgt d p).2 ≠ []) :
    ∃ es : List Edge, isWalk g src es = true ∧ walkEnd src es = tgt ∧
      es.map (·.market) = (toPath g src tgt d p).2 ∧ (toPath g src tgt d p).1 = some (walkCost es) := by
  obtain ⟨r, hr, rfl, rfl⟩ := (arbitrage_flag g src false d p (some false) h).2.1 rfl
  obtain ⟨es, h1, h2, h3, _, h5⟩ := bf_path_cost_eq_reported g hwf src tgt r hr hne
  exact ⟨es, h1, h2, h3, h5⟩

/-! ### Findings: concrete graphs on which the literal property fails -/

/-- tokens 0..3; markets 10: 0–1 (cost 5.00), 11: 0–2 (1.00), 12: 2–1 (1.00), 13: 1–3 (1.00);
reverse directions have no estimate. -/
def gBF (maxSteps : Nat) : Graph :=
  ⟨4, [⟨0, 1, 10, some 500⟩, ⟨1, 0, 10, none⟩, ⟨0, 2, 11, some 100⟩, ⟨2, 0, 11, none⟩,
       ⟨2, 1, 12, some 100⟩, ⟨1, 2, 12, none⟩, ⟨1, 3, 13, some 100⟩, ⟨3, 1, 13, none⟩], maxSteps⟩

/-- F-C42-bf: with `max_steps = 1` there is no arbitrage and the one-market path 0 → 1 (market 10)
exists, yet `to(1)` recommends NOTHING: in-place relaxation already found the two-market
distance 2.00 in round 1 and the predecessor chain is longer than the limit. With three steps
allowed the same graph is answered correctly. -/
theorem bf_misses_path_witness :
    report (gBF 1) 0 false 1 = some (none, []) ∧
    isWalk (gBF 1) 0 [⟨0, 1, 10, some 500⟩] = true ∧ walkEnd 0 [⟨0, 1, 10, some 500⟩] = 1 ∧
    report (gBF 3) 0 false 1 = some (some 200, [11, 12]) := by
  refine ⟨by decide, by decide, by decide, by decide⟩

/-- F-C42-dfs: the same graph in DFS mode (`skip_bellman_ford`) with `max_steps = 2`: token 1 is
first reached through two markets at distance 2.00, so the later visit through the direct market
10 (distance 5.00, one step) is pruned and token 3 is never reached — `to(3)` recommends nothing
although 0 → 1 → 3 (markets 10, 13; cost 6.00) has two steps. The Bellman–Ford mode fails on the
same input for the reason of `bf_misses_path_witness` (it even reports distance 3.00, the cost
of a three-market path, while recommending nothing). -/
theorem dfs_misses_path_witness :
    report (gBF 2) 0 true 3 = some (none, []) ∧
    report (gBF 2) 0 false 3 = some (none, []) ∧
    isWalk (gBF 2) 0 [⟨0, 1, 10, some 500⟩, ⟨1, 3, 13, some 100⟩] = true ∧
    walkEnd 0 [⟨0, 1, 10, some 500⟩, ⟨1, 3, 13, some 100⟩] = 3 := by
  refine ⟨by decide, by decide, by decide, by decide⟩

/-- source 0, middle tokens 1–4, hub 5, target 6: the hub is reached four times (newest edge first)
with distances 2.21, 2.15, 2.42 (pruned) and 1.57. -/
def gFan : Graph :=
  ⟨7, [⟨0, 1, 10, some 48⟩, ⟨1, 0, 10, none⟩, ⟨0, 2, 11, some 179⟩, ⟨2, 0, 11, some 222⟩,
       ⟨0, 3, 12, some 144⟩, ⟨3, 0, 12, none⟩, ⟨0, 4, 13, some 87⟩, ⟨4, 0, 13, some 272⟩,
       ⟨1, 5, 14, some 109⟩, ⟨5, 1, 14, some 51⟩, ⟨2, 5, 15, some 63⟩, ⟨5, 2, 15, none⟩,
       ⟨3, 5, 16, some 71⟩, ⟨5, 3, 16, none⟩, ⟨4, 5, 17, some 134⟩, ⟨5, 4, 17, none⟩,
       ⟨5, 6, 18, some 58⟩, ⟨6, 5, 18, none⟩], 5⟩

/-- Non-monotone arrivals (regression for seed C42-2): a pruned arrival must not keep the token
marked as visited — the later, strictly cheaper arrival through token 1 wins, in DFS mode exactly as
in Bellman–Ford mode. (`dfs_optimal_without_negative_cycle` as a universal statement is FALSE —
`dfs_misses_path_witness`; where no cheaper-or-equal arrival can shadow the better path the
oracle demands optimality on every run, see design.d/C42.md.) -/
theorem dfs_nonmonotone_arrivals_example :
    report gFan 0 true 5 = some (some 157, [10, 14]) ∧
    report gFan 0 true 6 = some (some 215, [10, 14, 18]) ∧
    report gFan 0 false 6 = some (some 215, [10, 14, 18]) := by
  refine ⟨by decide, by decide, by decide⟩

/-! ### Non-vacuity -/
example : report (gBF 3) 0 false 3 = some (some 300, [11, 12, 13]) := by decide
example : report (gBF 3) 0 true 3 = some (some 300, [11, 12, 13]) := by decide
example : report (gBF 3) 7 false 3 = none := by decide
-- a negative cycle (0 → 1 → 0 costs −1.00) is detected and DFS takes over
example : (match bestSwapPaths ⟨2, [⟨0, 1, 10, some (-300)⟩, ⟨1, 0, 10, some 200⟩], 5⟩ 0 false with
    | .ok (_, _, a) => a | .error _ => none) = some true := by decide
example : isWalk (gBF 3) 0 [⟨0, 2, 11, some 100⟩, ⟨2, 1, 12, some 100⟩] = true := by decide
-- the witness graph is market-well-formed
example : MarketsWF (gBF 3) := by unfold MarketsWF; decide

end Gmx.C42
