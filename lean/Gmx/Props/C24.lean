import Gmx.Lemmas.OraclePrice
import Gmx.Props.C29
/-!
# C24 — only fresh, well-formed, in-band oracle prices are used
-/
namespace Gmx.C24
open Gmx Gmx.OraclePrice

/-- the source shapes the model relies on (regenerated from `states/oracle/mod.rs` on every run):
both arms of `with_prices_opts` clear the prices, clearing resets every field, the per-token loop
checks `enabled → parse (provider/feed) → validate_one → price map`, then the timestamp range. -/
theorem source_shapes :
    Gen.C24.clearOnOk = true ∧ Gen.C24.clearOnErr = true ∧
    Gen.C24.clearResets = ["prices", "minTs", "maxTs", "minSlot", "flag"] ∧
    Gen.C24.setPreChecks = ["cleared", "empty", "maxTokens", "accounts"] ∧
    Gen.C24.setLoopOrder = ["config", "enabled", "parse", "validate", "set"] ∧
    Gen.C24.setTail = ["range", "ok"] ∧
    Gen.C24.providerChecked = true ∧ Gen.C24.adjustGated = true := by decide

/-- the oracle is cleared after use whether or not price setting or the wrapped operation
succeeded. -/
theorem cleared_after_use (U : Nat) (o : Oracle) (v : Validator) (feeds : List Feed) (fOk : Bool) :
    (withPrices U o v feeds fOk).2 = {} ∧ (withPrices U o v feeds fOk).2.cleared = true ∧
      (withPrices U o v feeds fOk).2.prices = [] := by
  unfold withPrices
  cases setPrices U o v feeds <;> simp [Gen.C24.clearOnErr, Gen.C24.clearOnOk, clearAll]

theorem fromPriceOk_iff (p : Price) :
    fromPriceOk p = true ↔ p.min.mult = p.max.mult ∧ p.min.value ≠ 0 ∧ p.min.value ≤ p.max.value := by
  simp [fromPriceOk, and_assoc]

/-- what the price map accepts: `0 < min ≤ max` with one decimal multiplier. -/
theorem accepted_wellformed {p : Price} (h : fromPriceOk p = true) :
    0 < p.min.unit ∧ p.min.unit ≤ p.max.unit ∧ p.min.mult = p.max.mult := by
  obtain ⟨m, v0, vle⟩ := (fromPriceOk_iff p).1 h
  refine ⟨?_, ?_, m⟩
  · simp only [Dec.unit]; exact Nat.mul_pos (Nat.pos_of_ne_zero v0) (pow10_pos _)
  · simp only [Dec.unit, m]; exact Nat.mul_le_mul_right _ vle

theorem rejects_zero_or_inverted (p : Price)
    (h : p.min.value = 0 ∨ p.max.value < p.min.value ∨ p.min.mult ≠ p.max.mult) :
    fromPriceOk p = false := by
  cases hf : fromPriceOk p with
  | false => rfl
  | true => obtain ⟨m, v0, vle⟩ := (fromPriceOk_iff p).1 hf; omega

/-- decomposition of a successful `validate_one`. -/
theorem validateOne_ok {U : Nat} {v v' : Validator} {cfg : FeedCfg} {ots : Int} {slot : Nat} {p : Price}
    {ref : Option Dec} (h : validateOne U v cfg ots slot p ref = .ok v') :
    cfg.found = true ∧
    v.now ≤ ots - cfg.adjustment + v.maxAge ∧
    (ots ≤ v.now + v.maxFuture) ∧
    (∀ f, cfg.devFactor = some f → ∃ b, checkDeviation U f p ref = .ok b) ∧
    v' = mergeRange v (some slot) (ots - cfg.adjustment) (ots - cfg.adjustment) := by
  unfold validateOne at h
  by_cases hf : cfg.found = true
  · simp only [hf, Bool.not_true, Bool.false_eq_true, if_false] at h
    by_cases h1 : fitsI64 (ots - cfg.adjustment) = true
    · simp only [h1, Bool.not_true, Bool.false_eq_true, if_false] at h
      by_cases h2 : fitsI64 (ots - cfg.adjustment + v.maxAge) = true
      · simp only [h2, Bool.not_true, Bool.false_eq_true, if_false] at h
        by_cases h3 : ots - cfg.adjustment + v.maxAge < v.now
        · simp [h3] at h
        · simp only [h3, if_false] at h
          by_cases h4 : (if v.now + v.maxFuture > i64Max then i64Max else v.now + v.maxFuture) < ots
          · simp [h4] at h
          · simp only [h4, if_false] at h
            have hfut : ots ≤ v.now + v.maxFuture := by
              split at h4 <;> omega
            cases hd : cfg.devFactor with
            | none =>
              simp [hd] at h
              refine ⟨hf, by omega, hfut, ?_, h.symm⟩
              intro f hf'; cases hf'
            | some f =>
              simp only [hd] at h
              cases hc : checkDeviation U f p ref with
              | error e => simp [hc] at h
              | ok b =>
                simp [hc] at h
                refine ⟨hf, by omega, hfut, ?_, h.symm⟩
                intro f' hf'; cases hf'; exact ⟨b, hc⟩
      · simp [h2] at h
    · simp [h1] at h
  · simp [hf] at h

/-- everything `validate_one` establishes about time: the price is no older than the maximum age
after the per-feed timestamp adjustment and not too far in the future; its adjusted timestamp is
merged into the range. -/
theorem accepted_fresh {U : Nat} {v v' : Validator} {cfg : FeedCfg} {ots : Int} {slot : Nat} {p : Price}
    {ref : Option Dec} (h : validateOne U v cfg ots slot p ref = .ok v') :
    cfg.found = true ∧
    v.now ≤ ots - cfg.adjustment + v.maxAge ∧
    (ots ≤ v.now + v.maxFuture) ∧
    v' = mergeRange v (some slot) (ots - cfg.adjustment) (ots - cfg.adjustment) := by
  obtain ⟨a, b, c, _, d⟩ := validateOne_ok h
  exact ⟨a, b, c, d⟩

/-- the deviation check, as implemented: against the reference `r`, with the allowed deviation
`dev = ⌊r·f/U⌋` ROUNDED UP to the precision step of `max`; and SKIPPED when `dev = 0`. -/
theorem accepted_in_band_partial {U f : Nat} {v v' : Validator} {cfg : FeedCfg} {ots : Int} {slot : Nat}
    {p : Price} {ref : Option Dec} (hf : cfg.devFactor = some f)
    (h : validateOne U v cfg ots slot p ref = .ok v') :
    ∃ r dev, refUnit p ref = some r ∧ applyFactor 128 U r f = some dev ∧
      (0 < dev → ∃ rounded, dev ≤ rounded ∧ rounded < dev + 10 ^ p.max.mult ∧
        absDiff p.max.unit r ≤ rounded ∧ absDiff p.min.unit r ≤ rounded) := by
  obtain ⟨_, _, _, hdev, _⟩ := validateOne_ok h
  obtain ⟨b, hc⟩ := hdev f hf
  unfold checkDeviation at hc
  cases hr : refUnit p ref with
  | none => simp [hr] at hc
  | some r =>
    cases hd : applyFactor 128 U r f with
    | none => simp [hr, hd] at hc
    | some dev =>
      refine ⟨r, dev, rfl, hd, ?_⟩
      intro hpos
      simp only [hr, hd, hpos, gt_iff_lt, if_true] at hc
      cases hw : p.max.withUnit dev true with
      | none => simp [hw] at hc
      | some d =>
        obtain ⟨_, w2, w3, _⟩ := withUnit_ceil hw
        simp only [hw] at hc
        by_cases c1 : d.unit < absDiff p.max.unit r
        · simp [c1] at hc
        · by_cases c2 : d.unit < absDiff p.min.unit r
          · simp [c1, c2] at hc
          · exact ⟨d.unit, w2, w3, by omega, by omega⟩

/-- whenever the floored deviation is positive the literal band holds up to less than one precision
step (of `max`'s multiplier, for both bounds): `|price − ref| < dev + step` (F-C24b slack). -/
theorem accepted_in_band_within_step {U f : Nat} {v v' : Validator} {cfg : FeedCfg} {ots : Int} {slot : Nat}
    {p : Price} {ref : Option Dec} (hf : cfg.devFactor = some f)
    (h : validateOne U v cfg ots slot p ref = .ok v') :
    ∃ r dev, refUnit p ref = some r ∧ applyFactor 128 U r f = some dev ∧
      (0 < dev → absDiff p.max.unit r < dev + 10 ^ p.max.mult ∧
                 absDiff p.min.unit r < dev + 10 ^ p.max.mult) := by
  obtain ⟨r, dev, h1, h2, h3⟩ := accepted_in_band_partial hf h
  refine ⟨r, dev, h1, h2, fun hp => ?_⟩
  obtain ⟨rounded, _, b, c, d⟩ := h3 hp
  omega

/-- WITNESS (finding F-C24a): when `⌊r·f/U⌋ = 0` the deviation check is skipped — a price 100 %
away from its explicit reference is accepted although a non-zero maximum deviation (1e-8) is
configured. -/
theorem deviation_skipped_witness :
    (validateOne (10 ^ 20) { now := 1000, maxAge := 60, maxRange := 60, maxFuture := 10 }
      { found := true, adjustment := 1, devFactor := some (10 ^ 12) } 1000 7
      ⟨⟨100, 0⟩, ⟨100, 0⟩⟩ (some ⟨50, 0⟩)).toBool = true ∧
    applyFactor 128 (10 ^ 20) 50 (10 ^ 12) = some 0 := by
  constructor <;> rfl

/-- WITNESS (finding F-C24b): the allowed deviation is rounded UP to the precision step: with
`r = 100000`, `f = 0.1 %` (`dev = 100`) and step `10^4` a price 10 % above the reference
(`|110000 − 100000| = 10000 > 100`) passes. -/
theorem deviation_rounded_up_witness :
    (validateOne (10 ^ 20) { now := 1000, maxAge := 60, maxRange := 60, maxFuture := 10 }
      { found := true, adjustment := 1, devFactor := some (10 ^ 17) } 1000 7
      ⟨⟨11, 4⟩, ⟨11, 4⟩⟩ (some ⟨10, 4⟩)).toBool = true ∧
    applyFactor 128 (10 ^ 20) 100000 (10 ^ 17) = some 100 := by
  constructor <;> rfl

/-! ### timestamp range -/

theorem mergeRange_bounds (v : Validator) (slot : Option Nat) (a b : Int) :
    (mergeRange v slot a b).minTs ≤ v.minTs ∧ (mergeRange v slot a b).minTs ≤ a ∧
    v.maxTs ≤ (mergeRange v slot a b).maxTs ∧ b ≤ (mergeRange v slot a b).maxTs ∧
    (mergeRange v slot a b).maxRange = v.maxRange ∧ (mergeRange v slot a b).now = v.now := by
  simp only [mergeRange]
  refine ⟨?_, ?_, ?_, ?_, trivial, trivial⟩ <;> split <;> omega

/-- `finish`: the spread of the merged timestamps is within the configured range. -/
theorem range_ok {v : Validator} {res : Option (Nat × Int × Int)} (h : finish v = .ok res) :
    v.minTs ≤ v.maxTs ∧ v.maxTs - v.minTs ≤ v.maxRange ∧
      res = v.minSlot.map (fun s => (s, v.minTs, v.maxTs)) := by
  unfold finish at h
  by_cases h1 : fitsI64 (v.maxTs - v.minTs) = true
  · simp only [h1, Bool.not_true, Bool.false_eq_true, if_false] at h
    by_cases h2 : v.maxTs - v.minTs < 0
    · simp [h2] at h
    · simp only [h2, if_false] at h
      by_cases h3 : v.maxRange < (v.maxTs - v.minTs).toNat
      · simp [h3] at h
      · simp only [h3, if_false] at h
        injection h with h
        refine ⟨by omega, ?_, h.symm⟩
        have : ((v.maxTs - v.minTs).toNat : Int) = v.maxTs - v.minTs := Int.toNat_of_nonneg (by omega)
        omega
  · simp [h1] at h

/-- per-token step: everything the loop establishes before a price is stored. -/
theorem setOne_ok {U : Nat} {o o' : Oracle} {v v' : Validator} {fd : Feed}
    (h : setOne U (o, v) fd = .ok (o', v')) :
    fd.enabled = true ∧ fd.prov = some fd.expectedProvider ∧ fd.feedMatches = true ∧
    validateOne U v fd.cfg fd.oracleTs fd.slot (maybeAdjust U fd) fd.ref = .ok v' ∧
    fromPriceOk (maybeAdjust U fd) = true ∧
    o'.prices = (fd.token, maybeAdjust U fd) :: o.prices.filter (·.1 != fd.token) := by
  unfold setOne at h
  simp only at h
  by_cases h1 : fd.enabled = true
  · simp only [h1, Bool.not_true, Bool.false_eq_true, if_false] at h
    cases hp : fd.prov with
    | none => simp [hp] at h
    | some pv =>
      simp only [hp] at h
      by_cases h2 : fd.expectedProvider = pv
      · subst h2
        simp only [ne_eq, not_true_eq_false, and_false, if_false] at h
        by_cases h3' : fd.cfg.found = true
        · simp only [h3', Bool.not_true, Bool.false_eq_true, if_false] at h
          by_cases h3 : fd.feedMatches = true
          · simp only [h3, Bool.not_true, Bool.false_eq_true, if_false] at h
            by_cases h5 : fd.acct = .custom ∧ fd.expectedProvider ≠ 0
            · simp [h5] at h
            · simp only [h5, if_false] at h
              cases hv : validateOne U v fd.cfg fd.oracleTs fd.slot (maybeAdjust U fd) fd.ref with
              | error e => simp [hv] at h
              | ok v1 =>
                simp only [hv] at h
                by_cases h4 : fromPriceOk (maybeAdjust U fd) = true
                · simp only [h4, if_true] at h
                  injection h with h; injection h with ha hb
                  subst ha; subst hb
                  exact ⟨h1, rfl, h3, rfl, h4, rfl⟩
                · simp [h4] at h
          · simp [h3] at h
        · simp [h3'] at h
      · by_cases hc : fd.acct = .custom <;> simp [hc, h2] at h
  · simp [h1] at h

/-- expected provider and feed: a token whose feed comes from another provider, whose feed id
does not match, or whose config is disabled, never gets a price. -/
theorem provider_feed_match {U : Nat} {o : Oracle} {v : Validator} {fd : Feed}
    (h : fd.enabled = false ∨ fd.prov ≠ some fd.expectedProvider ∨ fd.feedMatches = false) :
    ∃ e, setOne U (o, v) fd = .error e := by
  cases hs : setOne U (o, v) fd with
  | error e => exact ⟨e, rfl⟩
  | ok ov =>
    obtain ⟨o', v'⟩ := ov
    obtain ⟨a, b, c, _⟩ := setOne_ok hs
    rcases h with h | h | h <;> simp_all

/-- the loop keeps every accepted (adjusted) timestamp inside the validator's running range. -/
theorem setLoop_range {U : Nat} : ∀ (feeds : List Feed) (o o' : Oracle) (v v' : Validator),
    setLoop U (o, v) feeds = .ok (o', v') →
    v'.minTs ≤ v.minTs ∧ v.maxTs ≤ v'.maxTs ∧ v'.maxRange = v.maxRange ∧ v'.now = v.now ∧
    ∀ fd ∈ feeds, v'.minTs ≤ fd.oracleTs - fd.cfg.adjustment ∧ fd.oracleTs - fd.cfg.adjustment ≤ v'.maxTs
  | [], o, o', v, v', h => by
    simp [setLoop] at h; obtain ⟨_, rfl⟩ := h; simp
  | fd :: rest, o, o', v, v', h => by
    simp only [setLoop] at h
    cases hs : setOne U (o, v) fd with
    | error e => simp [hs] at h
    | ok ov =>
      obtain ⟨o1, v1⟩ := ov
      simp only [hs] at h
      obtain ⟨_, _, _, hv, _, _⟩ := setOne_ok hs
      obtain ⟨_, _, _, rfl⟩ := accepted_fresh hv
      obtain ⟨b1, b2, b3, b4, b5, b6⟩ := mergeRange_bounds v (some fd.slot)
        (fd.oracleTs - fd.cfg.adjustment) (fd.oracleTs - fd.cfg.adjustment)
      obtain ⟨i1, i2, i3, i4, i5⟩ := setLoop_range rest o1 o' _ v' h
      refine ⟨by omega, by omega, by omega, by omega, ?_⟩
      intro x hx
      rcases List.mem_cons.1 hx with rfl | hx
      · omega
      · exact i5 x hx

/-- the loop only stores well-formed prices and only for accepted tokens: every stored price is
either one that was there before or the validated (possibly adjusted) price of a feed. -/
theorem setLoop_wellformed {U : Nat} : ∀ (feeds : List Feed) (o o' : Oracle) (v v' : Validator),
    setLoop U (o, v) feeds = .ok (o', v') →
    (∀ tp ∈ o.prices, fromPriceOk tp.2 = true) → ∀ tp ∈ o'.prices, fromPriceOk tp.2 = true
  | [], o, o', v, v', h, hi => by
    simp [setLoop] at h; obtain ⟨rfl, _⟩ := h; exact hi
  | fd :: rest, o, o', v, v', h, hi => by
    simp only [setLoop] at h
    cases hs : setOne U (o, v) fd with
    | error e => simp [hs] at h
    | ok ov =>
      obtain ⟨o1, v1⟩ := ov
      simp only [hs] at h
      obtain ⟨_, _, _, _, hok, hp⟩ := setOne_ok hs
      apply setLoop_wellformed rest o1 o' v1 v' h
      intro tp htp
      rw [hp] at htp
      simp only [List.mem_cons, List.mem_filter] at htp
      rcases htp with rfl | ⟨hm, _⟩
      · exact hok
      · exact hi tp hm

/-- end-to-end: a successful `set_prices_from_remaining_accounts` leaves only well-formed prices
and all accepted timestamps (after adjustment) within `max_oracle_timestamp_range` of each other
(each of them fresh and not too far in the future by `accepted_fresh`, from the expected provider
and feed by `setOne_ok`). -/
theorem accepted_batch {U : Nat} {o o' : Oracle} {v : Validator} {feeds : List Feed}
    (h : setPrices U o v feeds = .ok o') :
    (∀ tp ∈ o'.prices, 0 < tp.2.min.unit ∧ tp.2.min.unit ≤ tp.2.max.unit ∧ tp.2.min.mult = tp.2.max.mult) ∧
    (∀ a ∈ feeds, ∀ b ∈ feeds,
      (a.oracleTs - a.cfg.adjustment) - (b.oracleTs - b.cfg.adjustment) ≤ v.maxRange) := by
  unfold setPrices at h
  by_cases hc : o.cleared = true
  · simp only [hc, Bool.not_true, Bool.false_eq_true, if_false] at h
    by_cases he : o.prices.isEmpty = true
    · simp only [he, Bool.not_true, Bool.false_eq_true, if_false] at h
      by_cases hl : feeds.length > 512
      · simp [hl] at h
      · simp only [hl, if_false] at h
        cases hs : setLoop U (o, v) feeds with
        | error e => simp [hs] at h
        | ok ov =>
          obtain ⟨o1, v1⟩ := ov
          simp only [hs] at h
          have hempty : ∀ tp ∈ o.prices, fromPriceOk tp.2 = true := by
            have : o.prices = [] := List.isEmpty_iff.1 he
            simp [this]
          have hwf := setLoop_wellformed feeds o o1 v v1 hs hempty
          obtain ⟨_, _, r3, _, r5⟩ := setLoop_range feeds o o1 v v1 hs
          unfold updateTsAndSlot at h
          cases hfin : finish (mergeRange v1 (if o1.cleared = true then none else some o1.minSlot) o1.minTs o1.maxTs) with
          | error e => simp [hfin] at h
          | ok res =>
            simp only [hfin] at h
            obtain ⟨m1, m2, m3, m4, m5, _⟩ := mergeRange_bounds v1
              (if o1.cleared = true then none else some o1.minSlot) o1.minTs o1.maxTs
            obtain ⟨e1, e2, _⟩ := range_ok hfin
            have hprices : o'.prices = o1.prices := by
              cases res with
              | none => simp at h; rw [← h]
              | some t => obtain ⟨s, mn, mx⟩ := t; simp at h; rw [← h]
            refine ⟨fun tp htp => accepted_wellformed (hwf tp (hprices ▸ htp)), ?_⟩
            intro a ha b hb
            have ra := r5 a ha
            have rb := r5 b hb
            omega
    · simp [he] at h
  · simp [hc] at h

/-! ### Non-vacuity -/
example : fromPriceOk ⟨⟨990, 2⟩, ⟨1010, 2⟩⟩ = true := by decide
example : (validateOne (10 ^ 20) { now := 1000, maxAge := 60, maxRange := 60, maxFuture := 10 }
    { found := true, adjustment := 1, devFactor := some (10 ^ 18) } 990 7
    ⟨⟨995, 2⟩, ⟨1005, 2⟩⟩ (some ⟨1000, 2⟩)).toOption.map (·.minTs) = some 989 := by rfl
example : validateOne (10 ^ 20) { now := 1000, maxAge := 60, maxRange := 60, maxFuture := 10 }
    { found := true, adjustment := 1, devFactor := some (10 ^ 18) } 990 7
    ⟨⟨995, 2⟩, ⟨1011, 2⟩⟩ (some ⟨1000, 2⟩) = .error .deviation := by rfl
example : validateOne (10 ^ 20) { now := 1000, maxAge := 60, maxRange := 60, maxFuture := 10 }
    { found := true, adjustment := 1, devFactor := none } 900 7
    ⟨⟨995, 2⟩, ⟨1011, 2⟩⟩ none = .error .maxAge := by rfl

/-! ### audit: further non-vacuity instances (the loop, the batch, the range check) and the batch-level freshness statement -/

/-- `accepted_wellformed` / `rejects_zero_or_inverted` instantiated -/
example : 0 < (⟨990, 2⟩ : Dec).unit ∧ (⟨990, 2⟩ : Dec).unit ≤ (⟨1010, 2⟩ : Dec).unit ∧ (2 : Nat) = 2 :=
  accepted_wellformed (p := ⟨⟨990, 2⟩, ⟨1010, 2⟩⟩) (by decide)
example : fromPriceOk ⟨⟨1010, 2⟩, ⟨990, 2⟩⟩ = false ∧ fromPriceOk ⟨⟨0, 2⟩, ⟨990, 2⟩⟩ = false ∧
    fromPriceOk ⟨⟨99, 3⟩, ⟨990, 2⟩⟩ = false :=
  ⟨rejects_zero_or_inverted _ (.inr (.inl (by decide))), rejects_zero_or_inverted _ (.inl rfl),
   rejects_zero_or_inverted _ (.inr (.inr (by decide)))⟩

/-- `range_ok` hypothesis: `finish` succeeds on a validator that merged two timestamps (spread 5 = max range);
with max range 4 it is rejected; a validator that merged nothing is rejected as an invalid range -/
example : finish { now := 1000, maxAge := 60, maxRange := 5, maxFuture := 10, minTs := 989, maxTs := 994, minSlot := some 5 }
      = .ok (some (5, 989, 994)) ∧
    finish { now := 1000, maxAge := 60, maxRange := 4, maxFuture := 10, minTs := 989, maxTs := 994, minSlot := some 5 }
      = .error .range ∧
    finish { now := 1000, maxAge := 60, maxRange := 4, maxFuture := 10 } = .error .overflow := ⟨by rfl, by rfl, by rfl⟩

/-- `setOne_ok` hypothesis: one accepted token (expected provider, matching feed, fresh, in band, well-formed) -/
example : (setOne (10 ^ 20) ({}, { now := 1000, maxAge := 60, maxRange := 5, maxFuture := 10 }) { token := 1, enabled := true, expectedProvider := 0, provider := 0, feedMatches := true, allowAdjust := false, cfg := { found := true, adjustment := 1, devFactor := some (10 ^ 18) }, oracleTs := 990, slot := 7, price := ⟨⟨995, 2⟩, ⟨1005, 2⟩⟩, ref := some ⟨1000, 2⟩ }).toOption.map (fun r => (r.1.prices, r.2.minTs, r.2.maxTs, r.2.minSlot)) =
    some ([(1, ⟨⟨995, 2⟩, ⟨1005, 2⟩⟩)], 989, 989, some 7) := by rfl

/-- `provider_feed_match` instantiated: the same feed from another provider is rejected -/
example : ∃ e, setOne (10 ^ 20) (({} : Oracle), ({ now := 1000, maxAge := 60, maxRange := 5, maxFuture := 10 } : Validator))
    ({ ({ token := 1, enabled := true, expectedProvider := 0, provider := 0, feedMatches := true, allowAdjust := false, cfg := { found := true, adjustment := 1, devFactor := some (10 ^ 18) }, oracleTs := 990, slot := 7, price := ⟨⟨995, 2⟩, ⟨1005, 2⟩⟩, ref := some ⟨1000, 2⟩ } : Feed) with provider := 9 }) = .error e :=
  provider_feed_match (.inr (.inl (by decide)))

/-- `setLoop_range` / `setLoop_wellformed` / `accepted_batch` hypotheses: a batch of TWO tokens (different providers,
adjustments 1 and 0, one with a deviation check, one without) is accepted with adjusted timestamps 989 and 994 —
exactly `max_oracle_timestamp_range = 5` apart; with range 4 the same batch is rejected -/
example : (setLoop (10 ^ 20) ({}, { now := 1000, maxAge := 60, maxRange := 5, maxFuture := 10 }) [{ token := 1, enabled := true, expectedProvider := 0, provider := 0, feedMatches := true, allowAdjust := false, cfg := { found := true, adjustment := 1, devFactor := some (10 ^ 18) }, oracleTs := 990, slot := 7, price := ⟨⟨995, 2⟩, ⟨1005, 2⟩⟩, ref := some ⟨1000, 2⟩ }, { token := 2, enabled := true, expectedProvider := 1, provider := 1, acct := .pyth, feedMatches := true, allowAdjust := true, cfg := { found := true, adjustment := 0, devFactor := none }, oracleTs := 994, slot := 5, price := ⟨⟨3, 0⟩, ⟨4, 0⟩⟩, ref := none }]).toOption.map (fun r => (r.1.prices.map (·.1), r.2.minTs, r.2.maxTs, r.2.minSlot)) =
    some ([2, 1], 989, 994, some 5) := by rfl
example : setPrices (10 ^ 20) {} { now := 1000, maxAge := 60, maxRange := 5, maxFuture := 10 } [{ token := 1, enabled := true, expectedProvider := 0, provider := 0, feedMatches := true, allowAdjust := false, cfg := { found := true, adjustment := 1, devFactor := some (10 ^ 18) }, oracleTs := 990, slot := 7, price := ⟨⟨995, 2⟩, ⟨1005, 2⟩⟩, ref := some ⟨1000, 2⟩ }, { token := 2, enabled := true, expectedProvider := 1, provider := 1, acct := .pyth, feedMatches := true, allowAdjust := true, cfg := { found := true, adjustment := 0, devFactor := none }, oracleTs := 994, slot := 5, price := ⟨⟨3, 0⟩, ⟨4, 0⟩⟩, ref := none }] =
    .ok { minTs := 989, maxTs := 994, minSlot := 5, cleared := false,
          prices := [(2, ⟨⟨3, 0⟩, ⟨4, 0⟩⟩), (1, ⟨⟨995, 2⟩, ⟨1005, 2⟩⟩)] } := by rfl
example : setPrices (10 ^ 20) {} { now := 1000, maxAge := 60, maxRange := 4, maxFuture := 10 } [{ token := 1, enabled := true, expectedProvider := 0, provider := 0, feedMatches := true, allowAdjust := false, cfg := { found := true, adjustment := 1, devFactor := some (10 ^ 18) }, oracleTs := 990, slot := 7, price := ⟨⟨995, 2⟩, ⟨1005, 2⟩⟩, ref := some ⟨1000, 2⟩ }, { token := 2, enabled := true, expectedProvider := 1, provider := 1, acct := .pyth, feedMatches := true, allowAdjust := true, cfg := { found := true, adjustment := 0, devFactor := none }, oracleTs := 994, slot := 5, price := ⟨⟨3, 0⟩, ⟨4, 0⟩⟩, ref := none }] = .error .range := by rfl
/-- … and prices already set ⇒ rejected (the `cleared` precondition of `accepted_batch` is checked by the code) -/
example : setPrices (10 ^ 20) { cleared := false } { now := 1000, maxAge := 60, maxRange := 5, maxFuture := 10 } [{ token := 1, enabled := true, expectedProvider := 0, provider := 0, feedMatches := true, allowAdjust := false, cfg := { found := true, adjustment := 1, devFactor := some (10 ^ 18) }, oracleTs := 990, slot := 7, price := ⟨⟨995, 2⟩, ⟨1005, 2⟩⟩, ref := some ⟨1000, 2⟩ }] = .error .pricesSet := by rfl

/-- `cleared_after_use` on that batch: the wrapped operation saw the two prices, the oracle left behind is empty -/
example : (withPrices (10 ^ 20) {} { now := 1000, maxAge := 60, maxRange := 5, maxFuture := 10 } [{ token := 1, enabled := true, expectedProvider := 0, provider := 0, feedMatches := true, allowAdjust := false, cfg := { found := true, adjustment := 1, devFactor := some (10 ^ 18) }, oracleTs := 990, slot := 7, price := ⟨⟨995, 2⟩, ⟨1005, 2⟩⟩, ref := some ⟨1000, 2⟩ }, { token := 2, enabled := true, expectedProvider := 1, provider := 1, acct := .pyth, feedMatches := true, allowAdjust := true, cfg := { found := true, adjustment := 0, devFactor := none }, oracleTs := 994, slot := 5, price := ⟨⟨3, 0⟩, ⟨4, 0⟩⟩, ref := none }] true).1.toOption.map (fun r => r.2.prices.length) = some 2 ∧
    (withPrices (10 ^ 20) {} { now := 1000, maxAge := 60, maxRange := 5, maxFuture := 10 } [{ token := 1, enabled := true, expectedProvider := 0, provider := 0, feedMatches := true, allowAdjust := false, cfg := { found := true, adjustment := 1, devFactor := some (10 ^ 18) }, oracleTs := 990, slot := 7, price := ⟨⟨995, 2⟩, ⟨1005, 2⟩⟩, ref := some ⟨1000, 2⟩ }, { token := 2, enabled := true, expectedProvider := 1, provider := 1, acct := .pyth, feedMatches := true, allowAdjust := true, cfg := { found := true, adjustment := 0, devFactor := none }, oracleTs := 994, slot := 5, price := ⟨⟨3, 0⟩, ⟨4, 0⟩⟩, ref := none }] true).2 = {} := ⟨by rfl, (cleared_after_use _ _ _ _ _).1⟩

/-- AUDIT (strength): `setLoop_range` only carries the RANGE facts through the loop; this carries everything `setOne_ok`
and `accepted_fresh` establish for EVERY feed of an accepted batch, relative to the validator the batch started with
(the loop never changes `now`, `maxAge`, `maxFuture`) -/
theorem setLoop_each_accepted {U : Nat} : ∀ (feeds : List Feed) (o o' : Oracle) (v v' : Validator),
    setLoop U (o, v) feeds = .ok (o', v') →
    ∀ fd ∈ feeds, fd.enabled = true ∧ fd.prov = some fd.expectedProvider ∧ fd.feedMatches = true ∧ fd.cfg.found = true ∧
      fromPriceOk (maybeAdjust U fd) = true ∧
      v.now ≤ fd.oracleTs - fd.cfg.adjustment + v.maxAge ∧ fd.oracleTs ≤ v.now + v.maxFuture
  | [], _, _, _, _, _ => by intro fd hfd; cases hfd
  | fd :: rest, o, o', v, v', h => by
    simp only [setLoop] at h
    cases hs : setOne U (o, v) fd with
    | error e => simp [hs] at h
    | ok ov =>
      obtain ⟨o1, v1⟩ := ov
      simp only [hs] at h
      obtain ⟨e1, e2, e3, hv, e5, _⟩ := setOne_ok hs
      obtain ⟨f1, f2, f3, rfl⟩ := accepted_fresh hv
      have ih := setLoop_each_accepted rest o1 o' _ v' h
      intro x hx
      rcases List.mem_cons.1 hx with rfl | hx
      · exact ⟨e1, e2, e3, f1, e5, f2, f3⟩
      · exact ih x hx

/-- AUDIT (strength): the docstring of `accepted_batch` promises freshness, provider and feed match "by `accepted_fresh`
/ `setOne_ok`" but its statement only has well-formedness and the range; this is the missing batch-level clause:
after a successful `set_prices_from_remaining_accounts` EVERY token of the batch was enabled, came from its expected
provider and feed, is no older than `max_age` after its timestamp adjustment and not further than `max_future` ahead -/
theorem accepted_batch_each_fresh {U : Nat} {o o' : Oracle} {v : Validator} {feeds : List Feed}
    (h : setPrices U o v feeds = .ok o') :
    o.cleared = true ∧ o.prices = [] ∧ feeds.length ≤ 512 ∧
    ∀ fd ∈ feeds, fd.enabled = true ∧ fd.prov = some fd.expectedProvider ∧ fd.feedMatches = true ∧ fd.cfg.found = true ∧
      fromPriceOk (maybeAdjust U fd) = true ∧
      v.now ≤ fd.oracleTs - fd.cfg.adjustment + v.maxAge ∧ fd.oracleTs ≤ v.now + v.maxFuture := by
  unfold setPrices at h
  by_cases hc : o.cleared = true
  · simp only [hc, Bool.not_true, Bool.false_eq_true, if_false] at h
    by_cases he : o.prices.isEmpty = true
    · simp only [he, Bool.not_true, Bool.false_eq_true, if_false] at h
      by_cases hl : feeds.length > 512
      · simp [hl] at h
      · simp only [hl, if_false] at h
        cases hs : setLoop U (o, v) feeds with
        | error e => simp [hs] at h
        | ok ov =>
          obtain ⟨o1, v1⟩ := ov
          exact ⟨hc, List.isEmpty_iff.1 he, by omega, setLoop_each_accepted feeds o o1 v v1 hs⟩
    · simp [he] at h
  · simp [hc] at h

/-- instantiated on the two-token batch: token 1's adjusted timestamp 989 is within max age 60 of now = 1000 -/
example : (1000 : Int) ≤ 990 - (1 : Nat) + (60 : Nat) ∧ (990 : Int) ≤ 1000 + (10 : Nat) :=
  ((accepted_batch_each_fresh (U := 10 ^ 20) (o := {}) (v := { now := 1000, maxAge := 60, maxRange := 5, maxFuture := 10 }) (feeds := [{ token := 1, enabled := true, expectedProvider := 0, provider := 0, feedMatches := true, allowAdjust := false, cfg := { found := true, adjustment := 1, devFactor := some (10 ^ 18) }, oracleTs := 990, slot := 7, price := ⟨⟨995, 2⟩, ⟨1005, 2⟩⟩, ref := some ⟨1000, 2⟩ }, { token := 2, enabled := true, expectedProvider := 1, provider := 1, acct := .pyth, feedMatches := true, allowAdjust := true, cfg := { found := true, adjustment := 0, devFactor := none }, oracleTs := 994, slot := 5, price := ⟨⟨3, 0⟩, ⟨4, 0⟩⟩, ref := none }])
      (o' := { minTs := 989, maxTs := 994, minSlot := 5, cleared := false,
               prices := [(2, ⟨⟨3, 0⟩, ⟨4, 0⟩⟩), (1, ⟨⟨995, 2⟩, ⟨1005, 2⟩⟩)] }) (by rfl)).2.2.2
    { token := 1, enabled := true, expectedProvider := 0, provider := 0, feedMatches := true, allowAdjust := false, cfg := { found := true, adjustment := 1, devFactor := some (10 ^ 18) }, oracleTs := 990, slot := 7, price := ⟨⟨995, 2⟩, ⟨1005, 2⟩⟩, ref := some ⟨1000, 2⟩ } (List.mem_cons_self)).2.2.2.2.2

/-- `accepted_batch` instantiated on the same batch: the two adjusted timestamps are at most `maxRange = 5` apart -/
example : ((994 : Int) - (0 : Nat)) - (990 - (1 : Nat)) ≤ (5 : Nat) :=
  (accepted_batch (U := 10 ^ 20) (o := {}) (v := { now := 1000, maxAge := 60, maxRange := 5, maxFuture := 10 }) (feeds := [{ token := 1, enabled := true, expectedProvider := 0, provider := 0, feedMatches := true, allowAdjust := false, cfg := { found := true, adjustment := 1, devFactor := some (10 ^ 18) }, oracleTs := 990, slot := 7, price := ⟨⟨995, 2⟩, ⟨1005, 2⟩⟩, ref := some ⟨1000, 2⟩ }, { token := 2, enabled := true, expectedProvider := 1, provider := 1, acct := .pyth, feedMatches := true, allowAdjust := true, cfg := { found := true, adjustment := 0, devFactor := none }, oracleTs := 994, slot := 5, price := ⟨⟨3, 0⟩, ⟨4, 0⟩⟩, ref := none }])
      (o' := { minTs := 989, maxTs := 994, minSlot := 5, cleared := false,
               prices := [(2, ⟨⟨3, 0⟩, ⟨4, 0⟩⟩), (1, ⟨⟨995, 2⟩, ⟨1005, 2⟩⟩)] }) (by rfl)).2
    { token := 2, enabled := true, expectedProvider := 1, provider := 1, acct := .pyth, feedMatches := true, allowAdjust := true, cfg := { found := true, adjustment := 0, devFactor := none }, oracleTs := 994, slot := 5, price := ⟨⟨3, 0⟩, ⟨4, 0⟩⟩, ref := none } (List.mem_cons_of_mem _ List.mem_cons_self) { token := 1, enabled := true, expectedProvider := 0, provider := 0, feedMatches := true, allowAdjust := false, cfg := { found := true, adjustment := 1, devFactor := some (10 ^ 18) }, oracleTs := 990, slot := 7, price := ⟨⟨995, 2⟩, ⟨1005, 2⟩⟩, ref := some ⟨1000, 2⟩ } List.mem_cons_self


/-- a token without a feed config for the feed's provider never gets a price either
(`NotFound`). -/
theorem missing_feed_config_rejected {U : Nat} {o : Oracle} {v : Validator} {fd : Feed}
    (h : fd.cfg.found = false) : ∃ e, setOne U (o, v) fd = .error e := by
  cases hs : setOne U (o, v) fd with
  | error e => exact ⟨e, rfl⟩
  | ok ov =>
    obtain ⟨o', v'⟩ := ov
    obtain ⟨_, _, _, hv, _, _⟩ := setOne_ok hs
    obtain ⟨hf, _⟩ := validateOne_ok hv
    simp [h] at hf

/-! ### round 4: the full-strength batch clause (fresh ∧ in range ∧ expected provider/feed ∧ in band ∧
well formed, for EVERY accepted price), and the `getD` fallback of `maybeAdjust` -/

/-- what a passed deviation check means for the price that was checked. -/
theorem checkDeviation_ok_band {U f : Nat} {p : Price} {ref : Option Dec} {b : Bool}
    (hc : checkDeviation U f p ref = .ok b) :
    ∃ r dev, refUnit p ref = some r ∧ applyFactor 128 U r f = some dev ∧
      (0 < dev → absDiff p.max.unit r < dev + 10 ^ p.max.mult ∧ absDiff p.min.unit r < dev + 10 ^ p.max.mult) := by
  unfold checkDeviation at hc
  cases hr : refUnit p ref with
  | none => simp [hr] at hc
  | some r =>
    cases hd : applyFactor 128 U r f with
    | none => simp [hr, hd] at hc
    | some dev =>
      refine ⟨r, dev, rfl, hd, ?_⟩
      intro hpos
      simp only [hr, hd, hpos, gt_iff_lt, if_true] at hc
      cases hw : p.max.withUnit dev true with
      | none => simp [hw] at hc
      | some d =>
        obtain ⟨_, w2, w3, _⟩ := withUnit_ceil hw
        simp only [hw] at hc
        by_cases c1 : d.unit < absDiff p.max.unit r
        · simp [c1] at hc
        · by_cases c2 : d.unit < absDiff p.min.unit r
          · simp [c1, c2] at hc
          · constructor <;> omega

/-- the loop passes every feed's (possibly adjusted) price through the deviation check of its
own configured factor. -/
theorem setLoop_each_deviation {U : Nat} : ∀ (feeds : List Feed) (o o' : Oracle) (v v' : Validator),
    setLoop U (o, v) feeds = .ok (o', v') →
    ∀ fd ∈ feeds, ∀ f, fd.cfg.devFactor = some f →
      ∃ b, checkDeviation U f (maybeAdjust U fd) fd.ref = .ok b
  | [], _, _, _, _, _ => by intro fd hfd; cases hfd
  | fd :: rest, o, o', v, v', h => by
    simp only [setLoop] at h
    cases hs : setOne U (o, v) fd with
    | error e => simp [hs] at h
    | ok ov =>
      obtain ⟨o1, v1⟩ := ov
      simp only [hs] at h
      obtain ⟨_, _, _, hv, _, _⟩ := setOne_ok hs
      obtain ⟨_, _, _, hdev, _⟩ := validateOne_ok hv
      have ih := setLoop_each_deviation rest o1 o' v1 v' h
      intro x hx
      rcases List.mem_cons.1 hx with rfl | hx
      · exact hdev
      · exact ih x hx

/-- every price in the map after the loop was there before or is the validated price of a feed. -/
theorem setLoop_prices_from_feeds {U : Nat} : ∀ (feeds : List Feed) (o o' : Oracle) (v v' : Validator),
    setLoop U (o, v) feeds = .ok (o', v') →
    ∀ tp ∈ o'.prices, tp ∈ o.prices ∨ ∃ fd ∈ feeds, tp = (fd.token, maybeAdjust U fd)
  | [], o, o', v, v', h => by
    simp [setLoop] at h; obtain ⟨rfl, _⟩ := h; intro tp htp; exact Or.inl htp
  | fd :: rest, o, o', v, v', h => by
    simp only [setLoop] at h
    cases hs : setOne U (o, v) fd with
    | error e => simp [hs] at h
    | ok ov =>
      obtain ⟨o1, v1⟩ := ov
      simp only [hs] at h
      obtain ⟨_, _, _, _, _, hp⟩ := setOne_ok hs
      intro tp htp
      rcases setLoop_prices_from_feeds rest o1 o' v1 v' h tp htp with h1 | ⟨x, hx, e⟩
      · rw [hp] at h1
        simp only [List.mem_cons, List.mem_filter] at h1
        rcases h1 with rfl | ⟨hm, _⟩
        · exact Or.inr ⟨fd, List.mem_cons_self, rfl⟩
        · exact Or.inl hm
      · exact Or.inr ⟨x, List.mem_cons_of_mem _ hx, e⟩

/-- with adjustment allowed and a factor configured, `maybeAdjust` IS C29's `adjusted` (including
the `getD` fallback to the delivered price when the adjuster returns `None`). -/
theorem maybeAdjust_eq_adjusted {U f : Nat} {fd : Feed} (ha : fd.allowAdjust = true)
    (hf : fd.cfg.devFactor = some f) : maybeAdjust U fd = C29.adjusted U f fd.price fd.ref := by
  simp [maybeAdjust, C29.adjusted, ha, hf]

/-- FULL-STRENGTH batch clause. After a successful `set_prices_from_remaining_accounts`, for EVERY
token of the batch: the token was enabled, the feed came from the expected provider with the
configured feed id and a feed config; the validated price `p' = maybeAdjust fd` is well formed
(`0 < min ≤ max`, one multiplier); it is no older than `max_age` after the per-feed timestamp
adjustment and not further than `max_future` ahead; if a deviation factor is configured `p'` passed
the deviation check of that factor (reference = explicit or its own mid; `< dev + one precision
step`, skipped at `dev = 0`: F-C24a/b); and if adjustment is allowed the pair (delivered price,
reference) is `C29.Accepted`, so `C29.e2e_accepted_in_band` / `e2e_dev_zero_equals_reference`
bound it against the DELIVERED price's reference whether the adjuster rewrote it, left it alone
or failed (`getD` fallback). Any two accepted adjusted timestamps are within
`max_oracle_timestamp_range`, and the price map holds exactly validated prices of the batch. -/
theorem accepted_batch_full {U : Nat} {o o' : Oracle} {v : Validator} {feeds : List Feed}
    (h : setPrices U o v feeds = .ok o') :
    (∀ fd ∈ feeds,
      fd.enabled = true ∧ fd.prov = some fd.expectedProvider ∧ fd.feedMatches = true ∧ fd.cfg.found = true ∧
      (0 < (maybeAdjust U fd).min.unit ∧ (maybeAdjust U fd).min.unit ≤ (maybeAdjust U fd).max.unit ∧
        (maybeAdjust U fd).min.mult = (maybeAdjust U fd).max.mult) ∧
      v.now ≤ fd.oracleTs - fd.cfg.adjustment + v.maxAge ∧ fd.oracleTs ≤ v.now + v.maxFuture ∧
      (∀ f, fd.cfg.devFactor = some f →
        (∃ r dev, refUnit (maybeAdjust U fd) fd.ref = some r ∧ applyFactor 128 U r f = some dev ∧
          (0 < dev → absDiff (maybeAdjust U fd).max.unit r < dev + 10 ^ (maybeAdjust U fd).max.mult ∧
                     absDiff (maybeAdjust U fd).min.unit r < dev + 10 ^ (maybeAdjust U fd).max.mult)) ∧
        (fd.allowAdjust = true → C29.Accepted U f fd.price fd.ref))) ∧
    (∀ a ∈ feeds, ∀ b ∈ feeds,
      (a.oracleTs - a.cfg.adjustment) - (b.oracleTs - b.cfg.adjustment) ≤ v.maxRange) ∧
    (∀ tp ∈ o'.prices, ∃ fd ∈ feeds, tp = (fd.token, maybeAdjust U fd)) := by
  obtain ⟨hcl, hempty, _, hall⟩ := accepted_batch_each_fresh h
  obtain ⟨_, hrange⟩ := accepted_batch h
  -- recover the loop result
  have hloop : ∃ o1 v1, setLoop U (o, v) feeds = .ok (o1, v1) ∧ o'.prices = o1.prices := by
    unfold setPrices at h
    have he : o.prices.isEmpty = true := by simp [hempty]
    simp only [hcl, he, Bool.not_true, Bool.false_eq_true, if_false] at h
    by_cases hl : feeds.length > 512
    · simp [hl] at h
    · simp only [hl, if_false] at h
      cases hs : setLoop U (o, v) feeds with
      | error e => simp [hs] at h
      | ok ov =>
        obtain ⟨o1, v1⟩ := ov
        simp only [hs] at h
        refine ⟨o1, v1, rfl, ?_⟩
        unfold updateTsAndSlot at h
        cases hfin : finish (mergeRange v1 (if o1.cleared = true then none else some o1.minSlot) o1.minTs o1.maxTs) with
        | error e => simp [hfin] at h
        | ok res =>
          simp only [hfin] at h
          cases res with
          | none => simp at h; rw [← h]
          | some t => obtain ⟨s, mn, mx⟩ := t; simp at h; rw [← h]
  obtain ⟨o1, v1, hs, hp⟩ := hloop
  refine ⟨?_, hrange, ?_⟩
  · intro fd hfd
    obtain ⟨a1, a2, a3, a4, a5, a6, a7⟩ := hall fd hfd
    refine ⟨a1, a2, a3, a4, accepted_wellformed a5, a6, a7, ?_⟩
    intro f hf
    obtain ⟨b, hc⟩ := setLoop_each_deviation feeds o o1 v v1 hs fd hfd f hf
    refine ⟨checkDeviation_ok_band hc, ?_⟩
    intro ha
    have e := maybeAdjust_eq_adjusted (U := U) ha hf
    exact ⟨⟨b, by rw [← e]; exact hc⟩, by rw [← e]; exact a5⟩
  · intro tp htp
    rw [hp] at htp
    rcases setLoop_prices_from_feeds feeds o o1 v v1 hs tp htp with h1 | h2
    · rw [hempty] at h1; cases h1
    · exact h2

/-- the `getD` fallback inside C24, spelled out through C29: for a token with adjustment allowed in
an accepted batch, the price that was stored is in band w.r.t. the reference of the price AS
DELIVERED — exactly when the adjuster rewrote it, within one precision step when it was left
alone, and (configurable factors, `U = 10^20`) equal to the reference when the floored deviation
is 0; an adjuster failure (`None`) never lets an out-of-band price through. -/
theorem accepted_batch_adjusted_in_band {o o' : Oracle} {v : Validator} {feeds : List Feed} {fd : Feed} {f : Nat}
    (h : setPrices (10 ^ 20) o v feeds = .ok o') (hfd : fd ∈ feeds) (ha : fd.allowAdjust = true)
    (hf : fd.cfg.devFactor = some f) :
    C29.Accepted (10 ^ 20) f fd.price fd.ref ∧
    (∀ r, 10 ^ 12 ≤ f → refUnit fd.price fd.ref = some r → applyFactor 128 (10 ^ 20) r f = some 0 →
      (maybeAdjust (10 ^ 20) fd).min.unit = r ∧ (maybeAdjust (10 ^ 20) fd).max.unit = r) := by
  have hacc := ((accepted_batch_full h).1 fd hfd).2.2.2.2.2.2.2 f hf |>.2 ha
  refine ⟨hacc, ?_⟩
  intro r h12 hr hd
  rw [maybeAdjust_eq_adjusted (U := 10 ^ 20) ha hf]
  exact C29.e2e_dev_zero_equals_reference h12 hr hd hacc

/-! ### round 5: the expected-provider clause for EVERY account kind -/

/-- an accepted price comes from the token's expected provider, whatever kind of account carried
it: a store-owned custom feed must store the expected provider (and only ChainlinkDataStreams
feeds are decoded from custom accounts), an account owned by the Pyth receiver is accepted only
for a token expecting Pyth, a Switchboard-owned one only for Switchboard, and an account of any
other owner never. -/
theorem accepted_provider_is_expected {U : Nat} {o o' : Oracle} {v v' : Validator} {fd : Feed}
    (h : setOne U (o, v) fd = .ok (o', v')) :
    match fd.acct with
    | .custom => fd.provider = fd.expectedProvider ∧ fd.expectedProvider = 0
    | .pyth => fd.expectedProvider = 1
    | .switchboard => fd.expectedProvider = 3
    | .foreign => False := by
  obtain ⟨_, hp, _, _, _, _⟩ := setOne_ok h
  cases ha : fd.acct with
  | custom =>
    simp only [Feed.prov, ha, Option.some.injEq] at hp
    refine ⟨hp, ?_⟩
    -- a custom account with a non-zero provider is rejected by the last guard
    apply Classical.byContradiction
    intro hne
    unfold setOne at h
    simp only [Feed.prov, ha, hp] at h
    repeat' split at h
    all_goals simp_all
  | pyth => simp only [Feed.prov, ha, Option.some.injEq] at hp; exact hp.symm
  | switchboard => simp only [Feed.prov, ha, Option.some.injEq] at hp; exact hp.symm
  | foreign => simp [Feed.prov, ha] at hp

/-- in particular a VALID Pyth (or Switchboard) account of a token that expects another provider
is rejected although the token has a feed configured for it — the comparison in
`parse_from_feed_account` is the only one these account kinds pass through. -/
theorem foreign_provider_account_rejected {U : Nat} {o : Oracle} {v : Validator} {fd : Feed}
    (h : (fd.acct = .pyth ∧ fd.expectedProvider ≠ 1) ∨ (fd.acct = .switchboard ∧ fd.expectedProvider ≠ 3) ∨
      fd.acct = .foreign) : ∃ e, setOne U (o, v) fd = .error e := by
  cases hs : setOne U (o, v) fd with
  | error e => exact ⟨e, rfl⟩
  | ok ov =>
    obtain ⟨o', v'⟩ := ov
    have := accepted_provider_is_expected hs
    rcases h with ⟨ha, hne⟩ | ⟨ha, hne⟩ | ha <;> simp [ha] at this <;> omega

/-- batch level: every feed of an accepted batch satisfies the clause. -/
theorem accepted_batch_providers {U : Nat} {o o' : Oracle} {v : Validator} {feeds : List Feed}
    (h : setPrices U o v feeds = .ok o') : ∀ fd ∈ feeds, fd.prov = some fd.expectedProvider :=
  fun fd hfd => ((accepted_batch_full h).1 fd hfd).2.1

example : (setOne (10 ^ 20) ({}, { now := 1000, maxAge := 60, maxRange := 5, maxFuture := 10 })
    { token := 1, enabled := true, expectedProvider := 0, provider := 0, acct := .pyth, feedMatches := true, allowAdjust := false,
      cfg := { found := true, adjustment := 1, devFactor := none }, oracleTs := 990, slot := 7,
      price := ⟨⟨995, 2⟩, ⟨1005, 2⟩⟩, ref := none }).toOption.isSome = false := by rfl
example : (setOne (10 ^ 20) ({}, { now := 1000, maxAge := 60, maxRange := 5, maxFuture := 10 })
    { token := 1, enabled := true, expectedProvider := 1, provider := 0, acct := .pyth, feedMatches := true, allowAdjust := false,
      cfg := { found := true, adjustment := 1, devFactor := none }, oracleTs := 990, slot := 7,
      price := ⟨⟨995, 2⟩, ⟨1005, 2⟩⟩, ref := none }).toOption.isSome = true := by rfl

end Gmx.C24
