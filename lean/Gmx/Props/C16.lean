import Gmx.Model.ConfigAccess
/-!
# C16 — every configuration key reads and writes its own setting

Tables are REGENERATED from the Rust source on every run (`Gmx.Gen.MarketConfig`: `get`/`get_mut`;
`Gmx.Gen.Wiring`: model parameter wiring; `Gmx.Gen.StoreKeys`: store amounts/factors/addresses).
The record semantics is `Gmx.ConfigAccess`. Names are compared as ASCII code lists.
-/
namespace Gmx.C16
open Gmx.Gen.MarketConfig Gmx.Gen.Pools Gmx.Gen.Wiring Gmx.Gen.StoreKeys Gmx.ConfigAccess

/-- The reviewed, hand-maintained expectation of how every model parameter is wired
(method, variant, side, builder parameter ↦ source). `some true` = the long-side call,
`some false` = the short-side call; `long_*`/`short_*` parameters are the two sides of the kink
model. Closed-market switches are the `.helper` rows (their tables are pinned below). -/
def expectedWiring : List Row :=
  [⟨.liquidity_pool, .none_, none, .self_, .pool .Primary⟩,
   ⟨.claimable_fee_pool, .none_, none, .self_, .pool .ClaimableFee⟩,
   ⟨.swap_impact_pool, .none_, none, .self_, .pool .SwapImpact⟩,
   ⟨.open_interest_pool, .none_, some true, .self_, .pool .OpenInterestForLong⟩,
   ⟨.open_interest_pool, .none_, some false, .self_, .pool .OpenInterestForShort⟩,
   ⟨.open_interest_in_tokens_pool, .none_, some true, .self_, .pool .OpenInterestInTokensForLong⟩,
   ⟨.open_interest_in_tokens_pool, .none_, some false, .self_, .pool .OpenInterestInTokensForShort⟩,
   ⟨.collateral_sum_pool, .none_, some true, .self_, .pool .CollateralSumForLong⟩,
   ⟨.collateral_sum_pool, .none_, some false, .self_, .pool .CollateralSumForShort⟩,
   ⟨.usd_to_amount_divisor, .none_, none, .self_, .const "MARKET_USD_TO_AMOUNT_DIVISOR"⟩,
   ⟨.max_pool_amount, .none_, some true, .self_, .field .max_pool_amount_for_long_token⟩,
   ⟨.max_pool_amount, .none_, some false, .self_, .field .max_pool_amount_for_short_token⟩,
   ⟨.pnl_factor_config, .MaxAfterDeposit, some true, .self_, .field .max_pnl_factor_for_long_deposit⟩,
   ⟨.pnl_factor_config, .MaxAfterDeposit, some false, .self_, .field .max_pnl_factor_for_short_deposit⟩,
   ⟨.pnl_factor_config, .MaxAfterWithdrawal, some true, .self_, .field .max_pnl_factor_for_long_withdrawal⟩,
   ⟨.pnl_factor_config, .MaxAfterWithdrawal, some false, .self_, .field .max_pnl_factor_for_short_withdrawal⟩,
   ⟨.pnl_factor_config, .MaxForTrader, some true, .self_, .field .max_pnl_factor_for_long_trader⟩,
   ⟨.pnl_factor_config, .MaxForTrader, some false, .self_, .field .max_pnl_factor_for_short_trader⟩,
   ⟨.pnl_factor_config, .ForAdl, some true, .self_, .field .max_pnl_factor_for_long_adl⟩,
   ⟨.pnl_factor_config, .ForAdl, some false, .self_, .field .max_pnl_factor_for_short_adl⟩,
   ⟨.pnl_factor_config, .MinAfterAdl, some true, .self_, .field .min_pnl_factor_after_long_adl⟩,
   ⟨.pnl_factor_config, .MinAfterAdl, some false, .self_, .field .min_pnl_factor_after_short_adl⟩,
   ⟨.reserve_factor, .none_, none, .self_, .field .reserve_factor⟩,
   ⟨.open_interest_reserve_factor, .none_, none, .self_, .field .open_interest_reserve_factor⟩,
   ⟨.max_open_interest, .none_, some true, .self_, .field .max_open_interest_for_long⟩,
   ⟨.max_open_interest, .none_, some false, .self_, .field .max_open_interest_for_short⟩,
   ⟨.ignore_open_interest_for_usage_factor, .none_, none, .self_, .flag .IgnoreOpenInterestForUsageFactor⟩,
   ⟨.swap_impact_params, .none_, none, .exponent, .field .swap_impact_exponent⟩,
   ⟨.swap_impact_params, .none_, none, .positive_factor, .field .swap_impact_positive_factor⟩,
   ⟨.swap_impact_params, .none_, none, .negative_factor, .field .swap_impact_negative_factor⟩,
   ⟨.swap_fee_params, .none_, none, .fee_receiver_factor, .field .swap_fee_receiver_factor⟩,
   ⟨.swap_fee_params, .none_, none, .positive_impact_fee_factor, .field .swap_fee_factor_for_positive_impact⟩,
   ⟨.swap_fee_params, .none_, none, .negative_impact_fee_factor, .field .swap_fee_factor_for_negative_impact⟩,
   ⟨.position_impact_pool, .none_, none, .self_, .pool .PositionImpact⟩,
   ⟨.position_impact_params, .none_, none, .exponent, .field .position_impact_exponent⟩,
   ⟨.position_impact_params, .none_, none, .positive_factor, .field .position_impact_positive_factor⟩,
   ⟨.position_impact_params, .none_, none, .negative_factor, .field .position_impact_negative_factor⟩,
   ⟨.position_impact_distribution_params, .none_, none, .distribute_factor, .field .position_impact_distribute_factor⟩,
   ⟨.position_impact_distribution_params, .none_, none, .min_position_impact_pool_amount, .field .min_position_impact_pool_amount⟩,
   ⟨.borrowing_factor_pool, .none_, none, .self_, .pool .BorrowingFactor⟩,
   ⟨.total_borrowing_pool, .none_, none, .self_, .pool .TotalBorrowing⟩,
   ⟨.borrowing_fee_params, .none_, none, .receiver_factor, .field .borrowing_fee_receiver_factor⟩,
   ⟨.borrowing_fee_params, .none_, none, .factor_for_long, .field .borrowing_fee_factor_for_long⟩,
   ⟨.borrowing_fee_params, .none_, none, .factor_for_short, .field .borrowing_fee_factor_for_short⟩,
   ⟨.borrowing_fee_params, .none_, none, .exponent_for_long, .field .borrowing_fee_exponent_for_long⟩,
   ⟨.borrowing_fee_params, .none_, none, .exponent_for_short, .field .borrowing_fee_exponent_for_short⟩,
   ⟨.borrowing_fee_params, .none_, none, .skip_borrowing_fee_for_smaller_side, .helper .skip_borrowing_fee_for_smaller_side none⟩,
   ⟨.borrowing_fee_kink_model_params, .none_, none, .long_optimal_usage_factor, .field .borrowing_fee_optimal_usage_factor_for_long⟩,
   ⟨.borrowing_fee_kink_model_params, .none_, none, .long_base_borrowing_factor, .helper .borrowing_fee_base_factor (some true)⟩,
   ⟨.borrowing_fee_kink_model_params, .none_, none, .long_above_optimal_usage_borrowing_factor, .helper .borrowing_fee_above_optimal_usage_factor (some true)⟩,
   ⟨.borrowing_fee_kink_model_params, .none_, none, .short_optimal_usage_factor, .field .borrowing_fee_optimal_usage_factor_for_short⟩,
   ⟨.borrowing_fee_kink_model_params, .none_, none, .short_base_borrowing_factor, .helper .borrowing_fee_base_factor (some false)⟩,
   ⟨.borrowing_fee_kink_model_params, .none_, none, .short_above_optimal_usage_borrowing_factor, .helper .borrowing_fee_above_optimal_usage_factor (some false)⟩,
   ⟨.funding_amount_per_size_pool, .none_, some true, .self_, .pool .FundingAmountPerSizeForLong⟩,
   ⟨.funding_amount_per_size_pool, .none_, some false, .self_, .pool .FundingAmountPerSizeForShort⟩,
   ⟨.claimable_funding_amount_per_size_pool, .none_, some true, .self_, .pool .ClaimableFundingAmountPerSizeForLong⟩,
   ⟨.claimable_funding_amount_per_size_pool, .none_, some false, .self_, .pool .ClaimableFundingAmountPerSizeForShort⟩,
   ⟨.funding_amount_per_size_adjustment, .none_, none, .self_, .const "FUNDING_AMOUNT_PER_SIZE_ADJUSTMENT"⟩,
   ⟨.funding_fee_params, .none_, none, .exponent, .field .funding_fee_exponent⟩,
   ⟨.funding_fee_params, .none_, none, .funding_factor, .field .funding_fee_factor⟩,
   ⟨.funding_fee_params, .none_, none, .max_factor_per_second, .field .funding_fee_max_factor_per_second⟩,
   ⟨.funding_fee_params, .none_, none, .min_factor_per_second, .field .funding_fee_min_factor_per_second⟩,
   ⟨.funding_fee_params, .none_, none, .increase_factor_per_second, .field .funding_fee_increase_factor_per_second⟩,
   ⟨.funding_fee_params, .none_, none, .decrease_factor_per_second, .field .funding_fee_decrease_factor_per_second⟩,
   ⟨.funding_fee_params, .none_, none, .threshold_for_stable_funding, .field .funding_fee_threshold_for_stable_funding⟩,
   ⟨.funding_fee_params, .none_, none, .threshold_for_decrease_funding, .field .funding_fee_threshold_for_decrease_funding⟩,
   ⟨.position_params, .none_, none, .min_position_size_usd, .field .min_position_size_usd⟩,
   ⟨.position_params, .none_, none, .min_collateral_value, .field .min_collateral_value⟩,
   ⟨.position_params, .none_, none, .min_collateral_factor, .field .min_collateral_factor⟩,
   ⟨.position_params, .none_, none, .max_positive_position_impact_factor, .field .max_positive_position_impact_factor⟩,
   ⟨.position_params, .none_, none, .max_negative_position_impact_factor, .field .max_negative_position_impact_factor⟩,
   ⟨.position_params, .none_, none, .max_position_impact_factor_for_liquidations, .field .max_position_impact_factor_for_liquidations⟩,
   ⟨.position_params, .none_, none, .min_collateral_factor_for_liquidation, .helper .min_collateral_factor_for_liquidation none⟩,
   ⟨.order_fee_params, .none_, none, .fee_receiver_factor, .field .order_fee_receiver_factor⟩,
   ⟨.order_fee_params, .none_, none, .positive_impact_fee_factor, .field .order_fee_factor_for_positive_impact⟩,
   ⟨.order_fee_params, .none_, none, .negative_impact_fee_factor, .field .order_fee_factor_for_negative_impact⟩,
   ⟨.min_collateral_factor_for_open_interest_multiplier, .none_, some true, .self_, .field .min_collateral_factor_for_open_interest_multiplier_for_long⟩,
   ⟨.min_collateral_factor_for_open_interest_multiplier, .none_, some false, .self_, .field .min_collateral_factor_for_open_interest_multiplier_for_short⟩,
   ⟨.liquidation_fee_params, .none_, none, .factor, .field .liquidation_fee_factor⟩,
   ⟨.liquidation_fee_params, .none_, none, .receiver_factor, .field .liquidation_fee_receiver_factor⟩,
   ⟨.max_pool_value_for_deposit, .none_, some true, .self_, .field .max_pool_value_for_deposit_for_long_token⟩,
   ⟨.max_pool_value_for_deposit, .none_, some false, .self_, .field .max_pool_value_for_deposit_for_short_token⟩]

/-- reviewed expectation of the closed-market helper switches -/
def expectedHelper : Helper → (useClosed forLong : Bool) → Atom
  | .min_collateral_factor_for_liquidation, true, _ => .field .market_closed_min_collateral_factor_for_liquidation
  | .min_collateral_factor_for_liquidation, false, _ => .field .min_collateral_factor_for_liquidation
  | .skip_borrowing_fee_for_smaller_side, true, _ => .flag .MarketClosedSkipBorrowingFeeForSmallerSide
  | .skip_borrowing_fee_for_smaller_side, false, _ => .flag .SkipBorrowingFeeForSmallerSide
  | .borrowing_fee_base_factor, true, _ => .field .market_closed_borrowing_fee_base_factor
  | .borrowing_fee_base_factor, false, true => .field .borrowing_fee_base_factor_for_long
  | .borrowing_fee_base_factor, false, false => .field .borrowing_fee_base_factor_for_short
  | .borrowing_fee_above_optimal_usage_factor, true, _ => .field .market_closed_borrowing_fee_above_optimal_usage_factor
  | .borrowing_fee_above_optimal_usage_factor, false, true => .field .borrowing_fee_above_optimal_usage_factor_for_long
  | .borrowing_fee_above_optimal_usage_factor, false, false => .field .borrowing_fee_above_optimal_usage_factor_for_short

/-- does the code list `w` occur in `l`? -/
def containsCodes (l w : List Nat) : Bool :=
  (List.range (l.length + 1)).any fun i => (l.drop i).take w.length == w

def asc (s : String) : List Nat := s.toList.map Char.toNat

/-- name of what an atom reads -/
def Atom.codes : Atom → List Nat
  | .field f => f.codes
  | .flag x => x.snakeCodes

/-- the side a row is about: its `is_long` argument, or the `long_`/`short_` builder prefix -/
def rowSide (r : Row) : Option Bool :=
  match r.side with
  | some b => some b
  | none =>
    if (r.param.codes.take 5 == asc "long.") then some true
    else if (r.param.codes.take 6 == asc "short.") then some false
    else if containsCodes r.param.codes (asc "for_long") then some true
    else if containsCodes r.param.codes (asc "for_short") then some false
    else none

/-- every atom a source can read, over both states of the closed-market switch -/
def srcAtoms : Src → List Atom
  | .field f => [.field f]
  | .flag x => [.flag x]
  | .helper h side => [Helper.eval h true (side.getD true), Helper.eval h false (side.getD true)]
  | _ => []

/-! ## key tables of `MarketConfig` -/

theorem get_eq_getMut : ∀ k : Key, getField k = getMutField k := by
  intro k; cases k <;> rfl

theorem every_key_mapped : ∀ k : Key, (getField k).isSome = true := by
  intro k; cases k <;> rfl

theorem key_field_injective : ∀ k₁ k₂ : Key, getField k₁ = getField k₂ → k₁ = k₂ := by
  have h : ∀ k₁ ∈ Key.all, ∀ k₂ ∈ Key.all, getField k₁ = getField k₂ → k₁ = k₂ := by decide +kernel
  intro k₁ k₂; exact h k₁ (Key.mem_all k₁) k₂ (Key.mem_all k₂)

/-- field = snake_case(key), computed in Lean from the key's CamelCase spelling — independent of
both match tables and of the translator's own snake_case -/
theorem field_name_matches_key : ∀ k : Key, (getField k).map Field.codes = some (snakeOf k.codes) := by
  intro k; cases k <;> decide +kernel

/-- the translator's snake_case spelling (what `FromStr` accepts) agrees with the Lean one -/
theorem key_snake_spelling : ∀ k : Key, k.snakeCodes = snakeOf k.codes := by
  intro k; cases k <;> decide +kernel

/-- no orphan setting: every factor field is reachable through some key -/
theorem every_field_has_key : ∀ f : Field, (Key.all.any fun k => getField k == some f) = true := by
  intro f; cases f <;> decide +kernel

/-- key discriminants are the declaration positions and pairwise distinct (`u16` ↔ key) -/
theorem key_indices_distinct : ∀ k₁ ∈ Key.all, ∀ k₂ ∈ Key.all, k₁.index = k₂.index → k₁ = k₂ := by
  decide +kernel

/-! ## record semantics: a write through a key is seen by that key and by no other -/

theorem set_then_get (c c' : Cfg) (k : Key) (v : Nat) (h : c.set k v = some c') : c'.get k = some v := by
  unfold Cfg.set at h
  rw [← get_eq_getMut] at h
  unfold Cfg.get
  cases hf : getField k with
  | none => simp [hf] at h
  | some f => simp [hf] at h; subst h; simp

theorem set_other_unchanged (c c' : Cfg) (k k' : Key) (v : Nat) (h : c.set k v = some c') (hne : k' ≠ k) :
    c'.get k' = c.get k' := by
  unfold Cfg.set at h
  rw [← get_eq_getMut] at h
  unfold Cfg.get
  cases hf : getField k with
  | none => simp [hf] at h
  | some f =>
    simp [hf] at h; subst h
    cases hf' : getField k' with
    | none => rfl
    | some f' =>
      have : f' ≠ f := by
        intro e; apply hne; apply key_field_injective; rw [hf, hf', e]
      simp [this]

theorem set_succeeds : ∀ (c : Cfg) (k : Key) (v : Nat), (c.set k v).isSome = true := by
  intro c k v; unfold Cfg.set; cases k <;> rfl

theorem set_keeps_flags (c c' : Cfg) (k : Key) (v : Nat) (h : c.set k v = some c') : c'.bits = c.bits := by
  unfold Cfg.set at h
  cases hf : getMutField k with
  | none => simp [hf] at h
  | some f => simp [hf] at h; subst h; rfl

/-! ## flags -/

theorem flag_bits_distinct : ∀ x ∈ Flag.all, ∀ y ∈ Flag.all, x.bit = y.bit → x = y := by decide

theorem flag_bits_in_range : ∀ x : Flag, x.bit < 128 := by intro x; cases x <;> decide

theorem market_flag_bits_distinct : ∀ x ∈ MFlag.all, ∀ y ∈ MFlag.all, x.bit = y.bit → x = y := by decide

theorem flag_set_get (c : Cfg) (x : Flag) (b : Bool) : (c.setFlag x b).flag x = b := by
  simp [Cfg.setFlag, Cfg.flag]

theorem flags_independent (c : Cfg) (x y : Flag) (b : Bool) (h : y ≠ x) : (c.setFlag x b).flag y = c.flag y := by
  have hb : y.bit ≠ x.bit := fun e => h (flag_bits_distinct y (Flag.mem_all y) x (Flag.mem_all x) e)
  simp [Cfg.setFlag, Cfg.flag, hb]

theorem setFlag_keeps_factors (c : Cfg) (x : Flag) (b : Bool) : (c.setFlag x b).factor = c.factor := rfl

/-! ## model parameter wiring -/

/-- the wiring extracted from `model.rs` is exactly the reviewed table -/
theorem param_wiring_spec : progWiring = expectedWiring := by decide +kernel

/-- the closed-market helper switches extracted from `config.rs` are the reviewed ones, and the
switch itself is `is_closed && EnableMarketClosedParams` -/
theorem helper_switch_spec :
    (∀ h u l, Helper.eval h u l = expectedHelper h u l) ∧ useClosedFlag = .EnableMarketClosedParams := by
  constructor
  · intro h u l; cases h <;> cases u <;> cases l <;> rfl
  · rfl

/-- long-side parameters never read a `short` setting and vice versa (an oracle from NAMES only:
does not use the expected table) -/
theorem long_short_not_crossed :
    ∀ r ∈ progWiring, ∀ a ∈ srcAtoms r.src,
      (rowSide r = some true → containsCodes (Atom.codes a) (asc "short") = false) ∧
      (rowSide r = some false → containsCodes (Atom.codes a) (asc "long") = false) := by
  decide +kernel

/-- every side-specific setting is wired on its own side somewhere: for each key whose name
mentions `long`/`short`, some row of that side reads its field -/
theorem sided_keys_are_wired :
    ∀ k ∈ Key.all, ∀ f, getField k = some f →
      (containsCodes f.codes (asc "long") = true →
        (progWiring.any fun r => rowSide r == some true && (srcAtoms r.src).contains (.field f)) = true) ∧
      (containsCodes f.codes (asc "short") = true →
        (progWiring.any fun r => rowSide r == some false && (srcAtoms r.src).contains (.field f)) = true) := by
  decide +kernel

/-- every factor setting except the documented unwired ones feeds some model parameter -/
theorem every_setting_is_wired :
    ∀ f : Field, f = .min_tokens_for_first_deposit ∨
      (progWiring.any fun r => (srcAtoms r.src).contains (.field f)) = true := by
  intro f; cases f <;> decide +kernel

/-- writing through a key is observed through every model parameter wired to its field -/
theorem set_then_param (c c' : Cfg) (closed : Bool) (k : Key) (f : Field) (v : Nat) (r : Row)
    (hk : getField k = some f) (hr : r.src = .field f) (h : c.set k v = some c') :
    c'.readSrc Helper.eval Helper.optNonzero closed r.src = some (.num v) := by
  unfold Cfg.set at h
  rw [← get_eq_getMut, hk] at h
  simp at h; subst h
  simp [hr, Cfg.readSrc]

/-- the closed-market switch selects the closed parameter exactly when the market is closed AND the
enable flag is set; otherwise the side's own open-market parameter -/
theorem closed_switch_semantics (c : Cfg) (closed : Bool) (h : Helper) (side : Option Bool) :
    c.readHelper Helper.eval Helper.optNonzero closed h side =
      (match c.readAtom (expectedHelper h (closed && c.flag .EnableMarketClosedParams) (side.getD true)) with
       | .num n => if Helper.optNonzero h then .opt (if n = 0 then none else some n) else .num n
       | v => v) := by
  unfold Cfg.readHelper Cfg.useClosed
  rw [helper_switch_spec.1, helper_switch_spec.2]
  rfl

/-! ## store amounts / factors / addresses -/

theorem store_get_eq_getMut :
    (∀ k : AmountKey, amountGet k = amountGetMut k) ∧ (∀ k : FactorKey, factorGet k = factorGetMut k) ∧
    (∀ k : AddressKey, addressGet k = addressGetMut k) := by
  refine ⟨?_, ?_, ?_⟩ <;> intro k <;> cases k <;> rfl

theorem store_every_key_mapped :
    (∀ k : AmountKey, (amountGet k).isSome = true) ∧ (∀ k : FactorKey, (factorGet k).isSome = true) ∧
    (∀ k : AddressKey, (addressGet k).isSome = true) := by
  refine ⟨?_, ?_, ?_⟩ <;> intro k <;> cases k <;> rfl

theorem store_key_field_injective :
    (∀ k₁ ∈ AmountKey.all, ∀ k₂ ∈ AmountKey.all, amountGet k₁ = amountGet k₂ → k₁ = k₂) ∧
    (∀ k₁ ∈ FactorKey.all, ∀ k₂ ∈ FactorKey.all, factorGet k₁ = factorGet k₂ → k₁ = k₂) ∧
    (∀ k₁ ∈ AddressKey.all, ∀ k₂ ∈ AddressKey.all, addressGet k₁ = addressGet k₂ → k₁ = k₂) := by
  decide +kernel

theorem store_field_name_matches_key :
    (∀ k : AmountKey, (amountGet k).map AmountField.codes = some (snakeOf k.codes)) ∧
    (∀ k : FactorKey, (factorGet k).map FactorField.codes = some (snakeOf k.codes)) ∧
    (∀ k : AddressKey, (addressGet k).map AddressField.codes = some (snakeOf k.codes)) := by
  refine ⟨?_, ?_, ?_⟩ <;> intro k <;> cases k <;> decide +kernel

/-- documented exception: the claimable time window is read-only through the key interface; it is
the ONLY refused key -/
theorem claimable_time_window_readonly :
    amountWriteForbidden = [.ClaimableTimeWindow] ∧ factorWriteForbidden = [] ∧ addressWriteForbidden = [] ∧
    (∀ (s : StoreCfg) v, s.setAmount .ClaimableTimeWindow v = none) ∧
    (∀ (s : StoreCfg) k v, k ≠ .ClaimableTimeWindow → (s.setAmount k v).isSome = true) := by
  refine ⟨rfl, rfl, rfl, ?_, ?_⟩
  · intro s v; rfl
  · intro s k v hk; cases k <;> first | exact absurd rfl hk | rfl

theorem store_amount_set_then_get (s s' : StoreCfg) (k : AmountKey) (v : Nat) (h : s.setAmount k v = some s') :
    s'.getAmount k = some v ∧ ∀ k', k' ≠ k → s'.getAmount k' = s.getAmount k' := by
  cases k <;> simp [StoreCfg.setAmount, amountWriteForbidden, amountGetMut] at h <;> subst h <;>
    (constructor
     · simp [StoreCfg.getAmount, amountGet]
     · intro k' hk'; cases k' <;> first | exact absurd rfl hk' | simp [StoreCfg.getAmount, amountGet])

theorem store_factor_set_then_get (s s' : StoreCfg) (k : FactorKey) (v : Nat) (h : s.setFactor k v = some s') :
    s'.getFactor k = some v ∧ ∀ k', k' ≠ k → s'.getFactor k' = s.getFactor k' := by
  cases k <;> simp [StoreCfg.setFactor, factorWriteForbidden, factorGetMut] at h <;> subst h <;>
    (constructor
     · simp [StoreCfg.getFactor, factorGet]
     · intro k' hk'; cases k' <;> first | exact absurd rfl hk' | simp [StoreCfg.getFactor, factorGet])

theorem store_address_set_then_get (s s' : StoreCfg) (k : AddressKey) (v : Nat) (h : s.setAddress k v = some s') :
    s'.getAddress k = some v ∧ ∀ k', k' ≠ k → s'.getAddress k' = s.getAddress k' := by
  cases k <;> simp [StoreCfg.setAddress, addressWriteForbidden, addressGetMut] at h <;> subst h <;>
    (constructor
     · simp [StoreCfg.getAddress, addressGet]
     · intro k' hk'; cases k' <;> first | exact absurd rfl hk' | simp [StoreCfg.getAddress, addressGet])

/-! ## SDK copy of the key table -/
theorem sdk_get_eq : ∀ k : Key, sdkGetField k = getField k := by
  intro k; cases k <;> rfl

/-! ## non-vacuity -/
example : (Cfg.zero.set .ReserveFactor 7).bind (fun c => c.get .ReserveFactor) = some 7 := by decide +kernel
example : (Cfg.zero.set .ReserveFactor 7).bind (fun c => c.get .OpenInterestReserveFactor) = some 0 := by decide +kernel
example : ((sentinelCfg 1000).setFlag .EnableMarketClosedParams true).readParam true
    .borrowing_fee_kink_model_params .none_ none .long_base_borrowing_factor
    = some (.num (1000 + Key.index .MarketClosedBorrowingFeeBaseFactor)) := by decide +kernel
example : ((sentinelCfg 1000).setFlag .EnableMarketClosedParams true).readParam false
    .borrowing_fee_kink_model_params .none_ none .short_base_borrowing_factor
    = some (.num (1000 + Key.index .BorrowingFeeBaseFactorForShort)) := by decide +kernel
example : (sentinelCfg 1000).readParam true .max_open_interest .none_ (some false) .self_
    = some (.num (1000 + Key.index .MaxOpenInterestForShort)) := by decide +kernel
example : rowSide ⟨.max_pool_amount, .none_, some true, .self_, .field .max_pool_amount_for_long_token⟩ = some true := by decide +kernel
example : (StoreCfg.zero.setAmount .RequestExpiration 9).bind (fun s => s.getAmount .RequestExpiration) = some 9 := by decide +kernel

/-! ## audit additions: hypotheses are jointly satisfiable; strengthened statements -/

/-- `key_field_injective` / `key_indices_distinct` are not vacuous: distinct keys do read distinct
fields and have distinct discriminants -/
example : getField .ReserveFactor ≠ getField .OpenInterestReserveFactor ∧
    Key.index .ReserveFactor ≠ Key.index .OpenInterestReserveFactor := by decide +kernel

/-- `set_then_get`, `set_other_unchanged`, `set_keeps_flags` instantiated on a concrete successful
write into a non-initial config (a flag already set) -/
example : ∃ c', (Cfg.zero.setFlag .EnableMarketClosedParams true).set .ReserveFactor 7 = some c' ∧
    c'.get .ReserveFactor = some 7 ∧
    c'.get .OpenInterestReserveFactor = (Cfg.zero.setFlag .EnableMarketClosedParams true).get .OpenInterestReserveFactor ∧
    c'.bits = (Cfg.zero.setFlag .EnableMarketClosedParams true).bits :=
  ⟨_, rfl, set_then_get _ _ .ReserveFactor 7 rfl,
    set_other_unchanged _ _ .ReserveFactor .OpenInterestReserveFactor 7 rfl (by decide),
    set_keeps_flags _ _ .ReserveFactor 7 rfl⟩

/-- `flags_independent` instantiated: clearing another flag keeps a set flag set -/
example : ((Cfg.zero.setFlag .EnableMarketClosedParams true).setFlag .SkipBorrowingFeeForSmallerSide false).flag
    .EnableMarketClosedParams = true := by
  rw [flags_independent _ _ _ _ (by decide)]; exact flag_set_get _ _ _

/-- `long_short_not_crossed` ranges over a non-trivial set: several rows of EACH side (recognised by
the `is_long` argument or by the `long.`/`short.` builder prefix) read at least one config atom -/
example : (progWiring.filter fun r => rowSide r == some true && !(srcAtoms r.src).isEmpty).length ≥ 5 ∧
    (progWiring.filter fun r => rowSide r == some false && !(srcAtoms r.src).isEmpty).length ≥ 5 ∧
    (progWiring.filter fun r => r.side == none && (rowSide r).isSome && !(srcAtoms r.src).isEmpty).length ≥ 4 := by
  decide +kernel

/-- … instantiated on the long kink-model base factor (a helper row: both switch states are checked) -/
example : containsCodes (Atom.codes (.field .market_closed_borrowing_fee_base_factor)) (asc "short") = false :=
  (long_short_not_crossed
    ⟨.borrowing_fee_kink_model_params, .none_, none, .long_base_borrowing_factor, .helper .borrowing_fee_base_factor (some true)⟩
    (by decide +kernel) (.field .market_closed_borrowing_fee_base_factor) (by decide +kernel)).1 (by decide +kernel)

/-- `sided_keys_are_wired`: the premises hold for many keys (both sides) -/
example : (Key.all.filter fun k => match getField k with
      | some f => containsCodes f.codes (asc "long") | none => false).length ≥ 10 ∧
    (Key.all.filter fun k => match getField k with
      | some f => containsCodes f.codes (asc "short") | none => false).length ≥ 10 := by decide +kernel

/-- `every_setting_is_wired`: the documented exception is a real one (the disjunction is tight) -/
example : (progWiring.any fun r => (srcAtoms r.src).contains (.field .min_tokens_for_first_deposit)) = false := by
  decide +kernel

/-- Stronger form of `set_then_param`: the row is the one the PROGRAM's wiring table resolves for the
model parameter (`set_then_param` accepts any row, in the table or not), and the value is observed
through `readParam`, i.e. through the table lookup. -/
theorem set_then_readParam (c c' : Cfg) (closed : Bool) (k : Key) (f : Field) (v : Nat)
    (m : Method) (vr : Variant) (side : Option Bool) (p : Param) (r : Row)
    (hrow : findRow progWiring m vr side p = some r) (hk : getField k = some f) (hr : r.src = .field f)
    (h : c.set k v = some c') : c'.readParam closed m vr side p = some (.num v) := by
  unfold Cfg.readParam
  rw [hrow]
  exact set_then_param c c' closed k f v r hk hr h

/-- non-vacuity of `set_then_param` / `set_then_readParam`: writing `MaxOpenInterestForShort` is seen by
the short-side `max_open_interest` parameter -/
example : ∃ c', (sentinelCfg 1000).set .MaxOpenInterestForShort 7 = some c' ∧
    c'.readParam true .max_open_interest .none_ (some false) .self_ = some (.num 7) :=
  ⟨_, rfl, set_then_readParam _ _ true .MaxOpenInterestForShort .max_open_interest_for_short 7
    .max_open_interest .none_ (some false) .self_
    ⟨.max_open_interest, .none_, some false, .self_, .field .max_open_interest_for_short⟩
    (by decide +kernel) (by decide +kernel) rfl rfl⟩

/-- `side.getD true` in `readHelper` / `srcAtoms` never fires for a helper that takes a side: every
such helper row of the program names its side explicitly (so no short-side parameter silently reads
the long-side default) -/
theorem helper_rows_name_their_side :
    ∀ r ∈ progWiring, (match r.src with
      | .helper h side => !Helper.takesSide h || side.isSome
      | _ => true) = true := by
  decide +kernel

/-- `fillFrom` (the harness config) uses `getD c` on a failed write: unreachable, every write succeeds,
so the sentinel config really carries `base + index` at every key -/
theorem sentinel_reads_back : ∀ k : Key, (sentinelCfg 1000).get k = some (1000 + k.index) := by
  intro k; cases k <;> decide +kernel

/-- `store_factor_set_then_get` / `store_address_set_then_get` instantiated (a write, its read-back, and
an untouched sibling) -/
example : ∃ s', StoreCfg.zero.setFactor .MaxBuilderFeeFactor 9 = some s' ∧
    s'.getFactor .MaxBuilderFeeFactor = some 9 ∧
    s'.getFactor .OracleRefPriceDeviation = StoreCfg.zero.getFactor .OracleRefPriceDeviation :=
  ⟨_, rfl, (store_factor_set_then_get _ _ .MaxBuilderFeeFactor 9 rfl).1,
    (store_factor_set_then_get _ _ .MaxBuilderFeeFactor 9 rfl).2 .OracleRefPriceDeviation (by decide)⟩
example : ∃ s', StoreCfg.zero.setAddress .Holding 9 = some s' ∧ s'.getAddress .Holding = some 9 :=
  ⟨_, rfl, (store_address_set_then_get _ _ .Holding 9 rfl).1⟩
example : ∃ s', StoreCfg.zero.setAmount .RequestExpiration 9 = some s' ∧
    s'.getAmount .RequestExpiration = some 9 ∧ s'.getAmount .OracleMaxAge = StoreCfg.zero.getAmount .OracleMaxAge :=
  ⟨_, rfl, (store_amount_set_then_get _ _ .RequestExpiration 9 rfl).1,
    (store_amount_set_then_get _ _ .RequestExpiration 9 rfl).2 .OracleMaxAge (by decide)⟩
/-- the refused key of `claimable_time_window_readonly`, concretely -/
example : (StoreCfg.zero.setAmount .ClaimableTimeWindow 9).isNone = true := by decide +kernel

end Gmx.C16
