/-!
# Gmx.Model.Num — integer helpers of `crates/model/src/{num,utils,fixed}.rs`

Values are exact `Nat`/`Int`; a width `W` (64 or 128 on chain) says which results fit.
Every Rust `checked_*`/`try_into` is "compute exactly, `none` unless the result fits".
Rust's signed `/` truncates toward zero: `Int.tdiv`.
This file imports nothing outside core so that the driver links as an executable.
-/
namespace Gmx

/-- `n` fits the unsigned `W`-bit type. -/
def toU (W : Nat) (n : Nat) : Option Nat := if n < 2 ^ W then some n else none

/-- `z` fits the signed `W`-bit type. -/
def toI (W : Nat) (z : Int) : Option Int :=
  if -(2 ^ (W - 1) : Int) ≤ z ∧ z < (2 ^ (W - 1) : Int) then some z else none

def checkedAdd (W a b : Nat) : Option Nat := toU W (a + b)
def checkedSub (a b : Nat) : Option Nat := if b ≤ a then some (a - b) else none
def checkedMul (W a b : Nat) : Option Nat := toU W (a * b)
def checkedDiv (a b : Nat) : Option Nat := if b = 0 then none else some (a / b)

/-- ceiling division on naturals (`div_ceil`). -/
def ceilDiv (n c : Nat) : Nat := (n + c - 1) / c

/-- `MulDiv::checked_mul_div`: widen, multiply, floor-divide, narrow. -/
def mulDiv (W a b c : Nat) : Option Nat := if c = 0 then none else toU W (a * b / c)

/-- `MulDiv::checked_mul_div_ceil`. -/
def mulDivCeil (W a b c : Nat) : Option Nat := if c = 0 then none else toU W (ceilDiv (a * b) c)

/-- `Unsigned::to_signed` (`try_into`). -/
def toSigned (W n : Nat) : Option Int := if n < 2 ^ (W - 1) then some (n : Int) else none

/-- `Unsigned::to_opposite_signed`: `to_signed` then `checked_neg`. -/
def toOppositeSigned (W n : Nat) : Option Int := (toSigned W n).map (fun z => -z)

def toSignedWithSign (W n : Nat) (negative : Bool) : Option Int :=
  if negative then toOppositeSigned W n else toSigned W n

/-- `Unsigned::checked_signed_sub`: signed `a - b`. -/
def checkedSignedSub (W a b : Nat) : Option Int :=
  if a ≥ b then toSigned W (a - b) else toOppositeSigned W (b - a)

/-- `checked_add_with_signed` (`is_positive` is strict, so 0 takes the `sub` branch). -/
def checkedAddWithSigned (W a : Nat) (s : Int) : Option Nat :=
  if s > 0 then checkedAdd W a s.natAbs else checkedSub a s.natAbs

def checkedSubWithSigned (W a : Nat) (s : Int) : Option Nat :=
  if s > 0 then checkedSub a s.natAbs else checkedAdd W a s.natAbs

/-- `checked_mul_with_signed`. -/
def checkedMulWithSigned (W a : Nat) (s : Int) : Option Int :=
  match checkedMul W a s.natAbs with
  | none => none
  | some m =>
    match toSigned W m with
    | none => none
    | some t => if s < 0 then some (-t) else some t

/-- `as_divisor_to_round_up_magnitude_div`: `k` is the divisor, `d` the signed dividend. -/
def roundUpMagnitudeDiv (W k : Nat) (d : Int) : Option Int :=
  if k = 0 then none else
  match toSigned W k with
  | none => none
  | some kk =>
    if d < 0 then
      match toI W (d - kk) with
      | none => none
      | some x => match toI W (x + 1) with
        | none => none
        | some y => some (Int.tdiv y kk)
    else
      match toI W (d + kk) with
      | none => none
      | some x => match toI W (x - 1) with
        | none => none
        | some y => some (Int.tdiv y kk)

/-- `checked_round_up_div`: `(a + b - 1) / b` with a checked add. -/
def roundUpDiv (W a b : Nat) : Option Nat :=
  if b = 0 then none else
  match checkedAdd W a b with
  | none => none
  | some x => match checkedSub x 1 with
    | none => none
    | some y => some (y / b)

inductive BoundErr where
  | minGtMax | convert
  deriving Repr, DecidableEq

/-- `Unsigned::bound_magnitude`. -/
def boundMagnitude (W : Nat) (v : Int) (mn mx : Nat) : Except BoundErr Int :=
  if mn > mx then .error .minGtMax else
  let mag := v.natAbs
  let neg := decide (v < 0)
  if mag < mn then
    match toSignedWithSign W mn neg with | some r => .ok r | none => .error .convert
  else if mag > mx then
    match toSignedWithSign W mx neg with | some r => .ok r | none => .error .convert
  else .ok v

/-- `checked_mul_div_with_signed_numerator`. -/
def mulDivSigned (W a : Nat) (num : Int) (den : Nat) : Option Int :=
  match mulDiv W a num.natAbs den with
  | none => none
  | some r => match toSigned W r with
    | none => none
    | some t => if num > 0 then some t else some (-t)

/-! ### utils.rs -/

def usdToMarketTokenAmount (W usd pool supply divisor : Nat) : Option Nat :=
  if divisor = 0 then none else
  if supply = 0 ∧ pool = 0 then checkedDiv usd divisor
  else if supply = 0 ∧ pool ≠ 0 then
    match checkedAdd W pool usd with
    | none => none
    | some s => checkedDiv s divisor
  else mulDiv W supply usd pool

def marketTokenAmountToUsd (W amount pool supply : Nat) : Option Nat := mulDiv W pool amount supply

def applyFactor (W U value factor : Nat) : Option Nat := mulDiv W value factor U

def divToFactor (W U value divisor : Nat) (roundUp : Bool) : Option Nat :=
  if divisor = 0 then some 0 else
  if roundUp then mulDivCeil W value U divisor else mulDiv W value U divisor

def divToFactorSigned (W U : Nat) (value : Int) (divisor : Nat) : Option Int :=
  if divisor = 0 then some 0 else mulDivSigned W U value divisor

/-- `Fixed::checked_mul`. -/
def fixedMul (W U a b : Nat) : Option Nat := mulDiv W a b U

/-- integer-exponent `checked_pow_fixed`: `n` iterated floor-multiplications from `ONE`. -/
def powInt (W U base : Nat) : Nat → Option Nat
  | 0 => some U
  | n + 1 => match powInt W U base n with
    | none => none
    | some acc => fixedMul W U acc base

/-- `checked_pow_fixed` restricted to unit-multiple exponents (the only ones modelled). -/
def powFixed (W U base exponent : Nat) : Option Nat :=
  if U = 0 then none else
  if exponent % U = 0 then powInt W U base (exponent / U) else none

/-- `apply_exponent_factor` (unit-multiple exponents). -/
def applyExponentFactor (W U value exponent : Nat) : Option Nat :=
  if value < U then some 0
  else if value = U then some U
  else if exponent = 0 then some U
  else if exponent = U then some value
  else powFixed W U value exponent

/-- `apply_factors`: `⌊pow(value, e) · factor / UNIT⌋`. -/
def applyFactors (W U value factor exponent : Nat) : Option Nat :=
  match applyExponentFactor W U value exponent with
  | none => none
  | some p => fixedMul W U p factor

end Gmx
