/-!
# Gmx.Model.Vault — market balance validation and vault bookkeeping
`programs/store/src/states/market/utils.rs` (`ValidateMarketBalances`),
`crates/model/src/market/base.rs` (`expected_min_token_balance_…`, `total_collateral_amount_…`),
`crates/model/src/bank.rs` (`balance_excluding`), `programs/store/src/ops/market.rs`
(`MarketTransferIn/OutOperation`: SPL transfer paired with `record_transferred_*`).
-/
namespace Gmx

/-- the solvency-relevant part of one market. Pool amounts are the long/short *views*
(for a pure market the two views of a pool add up to its stored total, property C15). -/
structure VMarket where
  pure : Bool
  liqL : Nat
  liqS : Nat
  impL : Nat
  impS : Nat
  feeL : Nat
  feeS : Nat
  colLL : Nat      -- collateral sum pool of LONG positions, long-token side
  colLS : Nat      -- … short-token side
  colSL : Nat      -- collateral sum pool of SHORT positions, long-token side
  colSS : Nat
  balL : Nat       -- recorded balances (u64); a pure market only uses `balL`
  balS : Nat
  deriving Repr, DecidableEq

def u128Add (a b : Nat) : Option Nat := if a + b < 2 ^ 128 then some (a + b) else none

/-- `expected_min_token_balance_excluding_collateral_amount_for_one_token_side` -/
def VMarket.minOneSide (m : VMarket) (isLong : Bool) : Option Nat :=
  let (a, b, c) := if isLong then (m.liqL, m.impL, m.feeL) else (m.liqS, m.impS, m.feeS)
  match u128Add a b with
  | none => none
  | some x => u128Add x c

/-- `total_collateral_amount_for_one_token_side` -/
def VMarket.collateralOneSide (m : VMarket) (isLong : Bool) : Option Nat :=
  if isLong then u128Add m.colLL m.colSL else u128Add m.colLS m.colSS

def VMarket.balance (m : VMarket) (isLong : Bool) : Nat :=
  if isLong || m.pure then m.balL else m.balS

/-- `validate_market_balance_for_the_given_token(token, excluded)`; `none` = computation error. -/
def VMarket.validateToken (m : VMarket) (isLong : Bool) (excluded : Nat) : Option Bool :=
  -- balance_excluding: checked_sub unless excluded = 0
  if excluded ≠ 0 ∧ m.balance isLong < excluded then none else
  let bal := m.balance isLong - excluded
  match m.minOneSide isLong with
  | none => none
  | some mn0 =>
    let mnr : Option Nat := if m.pure then
        (match m.minOneSide (!isLong) with | none => none | some o => u128Add mn0 o)
      else some mn0
    match mnr with
    | none => none
    | some mn =>
      if bal < mn then some false else
      match m.collateralOneSide isLong with
      | none => none
      | some c0 =>
        let cr : Option Nat := if m.pure then
            (match m.collateralOneSide (!isLong) with | none => none | some o => u128Add c0 o)
          else some c0
        match cr with
        | none => none
        | some c => some (decide (c ≤ bal))

/-- `validate_market_balances(long_excluding, short_excluding)`: `some true` = Ok. -/
def VMarket.validate (m : VMarket) (exL exS : Nat) : Option Bool :=
  if m.pure then
    if exL + exS < 2 ^ 64 then m.validateToken true (exL + exS) else none
  else
    match m.validateToken true exL with
    | some true => m.validateToken false exS
    | r => r

/-! ### vault bookkeeping over several markets sharing vaults -/

structure VMkt where
  long : Nat          -- token ids
  short : Nat
  st : VMarket
  deriving Repr, DecidableEq

structure VWorld where
  markets : List VMkt
  vault : Nat → Nat     -- actual token balance of each vault

/-- what market `m` has recorded for token `t` -/
def VMkt.recorded (m : VMkt) (t : Nat) : Nat :=
  (if m.long = t then m.st.balL else 0) + (if m.short = t ∧ m.long ≠ m.short then m.st.balS else 0)

def VWorld.recordedTotal (w : VWorld) (t : Nat) : Nat := (w.markets.map (·.recorded t)).sum

inductive VOp where
  | transferIn (i : Nat) (isLong : Bool) (amt : Nat)    -- SPL transfer into the vault + record
  | transferOut (i : Nat) (isLong : Bool) (amt : Nat)   -- SPL transfer out of the vault + record
  | move (i j : Nat) (tok : Nat) (amt : Nat)            -- market-to-market hand-over (same vault)
  | donate (tok : Nat) (amt : Nat)                      -- anybody can send tokens to a vault

def VMkt.tokenOf (m : VMkt) (isLong : Bool) : Nat := if isLong then m.long else m.short

def VMkt.addBal (m : VMkt) (isLong : Bool) (amt : Nat) : VMkt :=
  if isLong || m.long = m.short then { m with st := { m.st with balL := m.st.balL + amt } }
  else { m with st := { m.st with balS := m.st.balS + amt } }

def VMkt.subBal (m : VMkt) (isLong : Bool) (amt : Nat) : Option VMkt :=
  if isLong || m.long = m.short then
    if amt ≤ m.st.balL then some { m with st := { m.st with balL := m.st.balL - amt } } else none
  else
    if amt ≤ m.st.balS then some { m with st := { m.st with balS := m.st.balS - amt } } else none

end Gmx
