import Gmx.Gen.ConfigUpdate
import Gmx.Model.ConfigAccess
import Gmx.Model.Access
/-!
# Market-config update instructions as interpreters of the generated step lists (C20)

`update_market_config`, `update_market_config_flag`, `update_market_config_with_buffer`:
attribute guard (from `Gen.Access.info`) first, then the handler's steps in source order
(`Gen.ConfigUpdate.factorHandler` / `flagHandler` / `bufferHandler`). Every function returns the
config the handler LEFT BEHIND together with the result, so "rejected ⇒ unchanged" is a statement
about the handler itself (the runtime's rollback is not needed for it).
-/
namespace Gmx.ConfigUpdate
open Gmx.Gen.MarketConfig Gmx.Gen.Access Gmx.Gen.ConfigUpdate Gmx.ConfigAccess

inductive UErr where
  | permissionDenied      -- CoreError::PermissionDenied
  | invalidKey            -- CoreError::InvalidMarketConfigKey
  | invalidArgument       -- CoreError::InvalidArgument (expired buffer)
  | unimplemented         -- CoreError::Unimplemented
  | exceedMaxFactor       -- MarketError::ExceedMaxMarketConfigFactor
  | notFound              -- CoreError::NotFound (role never enabled)
  | preconditionsNotMet   -- CoreError::PreconditionsAreNotMet (role disabled)
  deriving DecidableEq, Repr

/-- which keys / flags a MARKET_CONFIG_KEEPER may update (`MarketConfigPermissions`) -/
structure Perms where
  factor : Key → Bool
  flag : Flag → Bool

abbrev Res := Cfg × Except UErr Unit

/-- `permissions.is_factor_updatable(key)?` -/
def factorUpdatable (p : Perms) (k : Key) : Except UErr Bool :=
  if k.index > maxConfigFactors - 1 then .error .exceedMaxFactor else .ok (p.factor k)

def runFactor (has : Role → Bool) (p : Perms) (key : Option Key) (v : Nat) : List Step → Cfg → Res
  | [], c => (c, .ok ())
  | .parseKey :: rest, c =>
    match key with
    | none => (c, .error .invalidKey)
    | some _ => runFactor has p key v rest c
  | .requireUpdatableOr roles :: rest, c =>
    match key with
    | none => (c, .error .invalidKey)
    | some k =>
      match factorUpdatable p k with
      | .error e => (c, .error e)
      | .ok true => runFactor has p key v rest c
      | .ok false => if roles.any has then runFactor has p key v rest c else (c, .error .permissionDenied)
  | .writeFactor :: rest, c =>
    match key.bind (fun k => c.set k v) with
    | some c' => runFactor has p key v rest c'
    | none => (c, .error .unimplemented)
  | .writeFlag :: _, c => (c, .error .unimplemented)

def runFlag (has : Role → Bool) (p : Perms) (key : Option Flag) (b : Bool) : List Step → Cfg → Res
  | [], c => (c, .ok ())
  | .parseKey :: rest, c =>
    match key with
    | none => (c, .error .invalidKey)
    | some _ => runFlag has p key b rest c
  | .requireUpdatableOr roles :: rest, c =>
    match key with
    | none => (c, .error .invalidKey)
    | some x =>
      if p.flag x || roles.any has then runFlag has p key b rest c else (c, .error .permissionDenied)
  | .writeFlag :: rest, c =>
    match key with
    | some x => runFlag has p key b rest (c.setFlag x b)
    | none => (c, .error .invalidKey)
  | .writeFactor :: _, c => (c, .error .unimplemented)

/-- `update_market_config(key, value)`; `key = none` models a string that is not a config key -/
def updateFactor (has : Role → Bool) (p : Perms) (key : Option Key) (v : Nat) (c : Cfg) : Res :=
  if Access.guardOk (info .store_update_market_config).attr has then runFactor has p key v factorHandler c
  else (c, .error .permissionDenied)

/-- `update_market_config_flag(key, value)` -/
def updateFlag (has : Role → Bool) (p : Perms) (key : Option Flag) (b : Bool) (c : Cfg) : Res :=
  if Access.guardOk (info .store_update_market_config_flag).attr has then runFlag has p key b flagHandler c
  else (c, .error .permissionDenied)

/-- a buffer entry: raw `u16` key and value -/
abbrev Entry := Nat × Nat

/-- `Entry::key()`: `MarketConfigKey::try_from(u16)` -/
def keyOf (n : Nat) : Option Key := Key.all.find? (fun k => k.index == n)

/-- the permission loop over the entries (first failing entry decides) -/
def checkAllUpdatable (p : Perms) : List Entry → Except UErr Unit
  | [] => .ok ()
  | (n, _) :: rest =>
    match keyOf n with
    | none => .error .invalidKey
    | some k =>
      match factorUpdatable p k with
      | .error e => .error e
      | .ok true => checkAllUpdatable p rest
      | .ok false => .error .permissionDenied

/-- `Market::update_config_with_buffer`: writes in order; stops at the first undecodable key -/
def applyEntries : List Entry → Cfg → Res
  | [], c => (c, .ok ())
  | (n, v) :: rest, c =>
    match keyOf n with
    | none => (c, .error .invalidKey)
    | some k =>
      match c.set k v with
      | some c' => applyEntries rest c'
      | none => (c, .error .unimplemented)

def runBuffer (has : Role → Bool) (p : Perms) (now expiry : Int) (es : List Entry) : List BStep → Cfg → Res
  | [], c => (c, .ok ())
  | .requireExpiryGtNow :: rest, c =>
    if expiry > now then runBuffer has p now expiry es rest c else (c, .error .invalidArgument)
  | .unlessRolesAllUpdatable roles :: rest, c =>
    if roles.any has then runBuffer has p now expiry es rest c
    else match checkAllUpdatable p es with
      | .ok () => runBuffer has p now expiry es rest c
      | .error e => (c, .error e)   -- non-updatable: `return Err(err)` (the guard's PermissionDenied); `entry.key()?` keeps its own error
  | .applyInOrder :: rest, c =>
    match applyEntries es c with
    | (c', .ok ()) => runBuffer has p now expiry es rest c'
    | r => r

/-- `update_market_config_with_buffer`; `owned`: the buffer's `authority` is the caller
(`has_one = authority @ PermissionDenied`, checked during account validation) -/
def updateWithBuffer (has : Role → Bool) (p : Perms) (owned : Bool) (now expiry : Int) (es : List Entry) (c : Cfg) : Res :=
  if bufferHasOneAuthority && !owned then (c, .error .permissionDenied)
  else if Access.guardOk (info .store_update_market_config_with_buffer).attr has then runBuffer has p now expiry es bufferHandler c
  else (c, .error .permissionDenied)

/-! ## the same three instructions over the store's ROLE TABLE (order-sensitive guards) -/
open Gmx.Access in
def ofG : GErr → UErr
  | .permissionDenied => .permissionDenied
  | .notFound => .notFound
  | .preconditionsNotMet => .preconditionsNotMet

open Gmx.Access in
/-- a guard call inside a handler: `only_market_keeper(&ctx)` etc. -/
def guardRes (t : RoleTable) (roles : List Role) : Except UErr Unit :=
  match ensureAnyE t roles with
  | .ok () => .ok ()
  | .error e => .error (ofG e)

open Gmx.Access in
def runFactorE (t : RoleTable) (p : Perms) (key : Option Key) (v : Nat) : List Step → Cfg → Res
  | [], c => (c, .ok ())
  | .parseKey :: rest, c =>
    match key with
    | none => (c, .error .invalidKey)
    | some _ => runFactorE t p key v rest c
  | .requireUpdatableOr roles :: rest, c =>
    match key with
    | none => (c, .error .invalidKey)
    | some k =>
      match factorUpdatable p k with
      | .error e => (c, .error e)
      | .ok true => runFactorE t p key v rest c
      | .ok false => match guardRes t roles with
        | .ok () => runFactorE t p key v rest c
        | .error e => (c, .error e)
  | .writeFactor :: rest, c =>
    match key.bind (fun k => c.set k v) with
    | some c' => runFactorE t p key v rest c'
    | none => (c, .error .unimplemented)
  | .writeFlag :: _, c => (c, .error .unimplemented)

open Gmx.Access in
def runFlagE (t : RoleTable) (p : Perms) (key : Option Flag) (b : Bool) : List Step → Cfg → Res
  | [], c => (c, .ok ())
  | .parseKey :: rest, c =>
    match key with
    | none => (c, .error .invalidKey)
    | some _ => runFlagE t p key b rest c
  | .requireUpdatableOr roles :: rest, c =>
    match key with
    | none => (c, .error .invalidKey)
    | some x =>
      if p.flag x then runFlagE t p key b rest c
      else match guardRes t roles with
        | .ok () => runFlagE t p key b rest c
        | .error e => (c, .error e)
  | .writeFlag :: rest, c =>
    match key with
    | some x => runFlagE t p key b rest (c.setFlag x b)
    | none => (c, .error .invalidKey)
  | .writeFactor :: _, c => (c, .error .unimplemented)

open Gmx.Access in
def runBufferE (t : RoleTable) (p : Perms) (now expiry : Int) (es : List Entry) : List BStep → Cfg → Res
  | [], c => (c, .ok ())
  | .requireExpiryGtNow :: rest, c =>
    if expiry > now then runBufferE t p now expiry es rest c else (c, .error .invalidArgument)
  | .unlessRolesAllUpdatable roles :: rest, c =>
    match guardRes t roles with
    | .ok () => runBufferE t p now expiry es rest c
    | .error err =>
      -- `if let Err(err) = guard { for entry { key()?; if !updatable { return Err(err) } } }`
      match checkAllUpdatable p es with
      | .ok () => runBufferE t p now expiry es rest c
      | .error .permissionDenied => (c, .error err)
      | .error e => (c, .error e)
  | .applyInOrder :: rest, c =>
    match applyEntries es c with
    | (c', .ok ()) => runBufferE t p now expiry es rest c'
    | r => r

open Gmx.Access in
def withGuard (ix : IxId) (t : RoleTable) (c : Cfg) (k : Unit → Res) : Res :=
  match guardE (info ix).attr t with
  | .ok () => k ()
  | .error e => (c, .error (ofG e))

open Gmx.Access in
def updateFactorE (t : RoleTable) (p : Perms) (key : Option Key) (v : Nat) (c : Cfg) : Res :=
  withGuard .store_update_market_config t c fun _ => runFactorE t p key v factorHandler c

open Gmx.Access in
def updateFlagE (t : RoleTable) (p : Perms) (key : Option Flag) (b : Bool) (c : Cfg) : Res :=
  withGuard .store_update_market_config_flag t c fun _ => runFlagE t p key b flagHandler c

open Gmx.Access in
def updateWithBufferE (t : RoleTable) (p : Perms) (owned : Bool) (now expiry : Int) (es : List Entry) (c : Cfg) : Res :=
  if bufferHasOneAuthority && !owned then (c, .error .permissionDenied)
  else withGuard .store_update_market_config_with_buffer t c fun _ => runBufferE t p now expiry es bufferHandler c

end Gmx.ConfigUpdate
