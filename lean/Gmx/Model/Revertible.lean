/-!
# Gmx.Model.Revertible — the copy-on-write buffer of
`programs/store/src/states/market/revertible/buffer.rs` (`RevertibleBuffer`, `Cache`) as used by
`RevertibleMarket` (`revertible/market.rs`) (C21)

A market account holds the *storage* `State` (16 pools, `Clocks`, `OtherState`, each with its own
`rev` field) and a *buffer* with the same cells plus a revision counter `rev`.

* `RevertibleMarket::new` calls `start_revertible_operation`: `rev = rev.checked_add(1).expect(..)`
  (panics on overflow — `begin` returns `none`).
* `is_dirty(cell) = (cell.rev == buffer.rev)`.
* read (`cache_get_with`): the buffer cell when dirty, else the storage cell.
* write (`cache_get_mut_with`): when not dirty first copy the storage cell into the buffer and set
  its `rev` to the buffer's; then mutate the buffer cell in place.
* `commit_to_storage`: every dirty buffer cell is copied (whole cell, `rev` included) over the
  storage cell; dropping the `RevertibleMarket` without commit (`abandon`) does nothing.

Cells are indexed by a kind number (0–15 pools in `PoolKind` order, 16 clocks, 17 other); the
model allows any natural number as kind. `V` is the cell payload.
-/
namespace Gmx.Rev

structure Cell (V : Type) where
  rev : Nat
  val : V

structure M (V : Type) where
  rev : Nat
  cells : Nat → Cell V
  store : Nat → Cell V

variable {V : Type}

def upd {α : Type} (f : Nat → α) (k : Nat) (v : α) : Nat → α := fun j => if j = k then v else f j

/-- `start_revertible_operation` for a `W`-bit counter (`none` = the `expect("rev overflow")` panic) -/
def begin (W : Nat) (m : M V) : Option (M V) :=
  if m.rev + 1 < 2 ^ W then some { m with rev := m.rev + 1 } else none

/-- `Cache::is_dirty` -/
def dirty (m : M V) (k : Nat) : Bool := (m.cells k).rev == m.rev

/-- `cache_get_with` -/
def read (m : M V) (k : Nat) : V := if dirty m k then (m.cells k).val else (m.store k).val

/-- the copy-on-write half of `cache_get_mut_with` -/
def touch (m : M V) (k : Nat) : M V :=
  if dirty m k then m else { m with cells := upd m.cells k ⟨m.rev, (m.store k).val⟩ }

/-- `cache_get_mut_with` followed by an in-place mutation `f` of the payload -/
def write (m : M V) (k : Nat) (f : V → V) : M V :=
  let m' := touch m k
  { m' with cells := upd m'.cells k ⟨(m'.cells k).rev, f (m'.cells k).val⟩ }

/-- `commit_to_storage` -/
def commit (m : M V) : M V :=
  { m with store := fun k => if dirty m k then m.cells k else m.store k }

/-! ### operations (transactions) and histories -/

inductive Act (V : Type) where
  | read (k : Nat)
  | write (k : Nat) (f : V → V)

inductive End where
  | commit | abandon
  deriving DecidableEq, Repr

structure Tx (V : Type) where
  acts : List (Act V)
  fin : End

/-- run the reads/writes of one operation, collecting what the reads returned -/
def runActs (m : M V) : List (Act V) → M V × List V
  | [] => (m, [])
  | .read k :: as => let r := runActs m as; (r.1, read m k :: r.2)
  | .write k f :: as => runActs (write m k f) as

def finish (m : M V) : End → M V
  | .commit => commit m
  | .abandon => m

/-- one whole operation: begin, reads/writes, commit or abandon -/
def runTx (W : Nat) (m : M V) (tx : Tx V) : Option (M V × List V) :=
  match begin W m with
  | none => none
  | some m1 => let r := runActs m1 tx.acts; some (finish r.1 tx.fin, r.2)

def runHist (W : Nat) (m : M V) : List (Tx V) → Option (M V × List (List V))
  | [] => some (m, [])
  | tx :: txs =>
    match runTx W m tx with
    | none => none
    | some (m', rs) =>
      match runHist W m' txs with
      | none => none
      | some (m'', rss) => some (m'', rs :: rss)

/-! ### specification: a transactional map -/

/-- reads/writes against committed storage `S` with a private overlay `ov` -/
def specActs (S : Nat → V) (ov : Nat → Option V) : List (Act V) → (Nat → Option V) × List V
  | [] => (ov, [])
  | .read k :: as =>
    let r := specActs S ov as
    (r.1, (match ov k with | some v => v | none => S k) :: r.2)
  | .write k f :: as =>
    specActs S (upd ov k (some (f (match ov k with | some v => v | none => S k)))) as

def specTx (S : Nat → V) (tx : Tx V) : (Nat → V) × List V :=
  let r := specActs S (fun _ => none) tx.acts
  (match tx.fin with
   | .commit => fun k => match r.1 k with | some v => v | none => S k
   | .abandon => S,
   r.2)

def specHist (S : Nat → V) : List (Tx V) → (Nat → V) × List (List V)
  | [] => (S, [])
  | tx :: txs =>
    let r := specTx S tx
    let rest := specHist r.1 txs
    (rest.1, r.2 :: rest.2)

/-! ### `RevertibleVirtualInventory` / `RevertiblePoolBuffer`: the same cache on ONE cell

`VirtualInventory { pool : PoolStorage, buffer : RevertiblePoolBuffer { rev, pool : PoolStorage } }`.
`RevertibleVirtualInventory::new` = `start_revertible_operation`, `pool()` = `cache_get_with`,
`pool_mut()` = `cache_get_mut_with`, `commit` = `if dirty { *storage = *buffered }`. (A fresh account
starts with `rev = 0` and both cells at revision 0; the first `new` makes `rev = 1`.) -/

structure VI (V : Type) where
  rev : Nat
  cell : Cell V
  store : Cell V

def viBegin (W : Nat) (v : VI V) : Option (VI V) :=
  if v.rev + 1 < 2 ^ W then some { v with rev := v.rev + 1 } else none

def viDirty (v : VI V) : Bool := v.cell.rev == v.rev

def viRead (v : VI V) : V := if viDirty v then v.cell.val else v.store.val

def viWrite (v : VI V) (f : V → V) : VI V :=
  if viDirty v then { v with cell := ⟨v.cell.rev, f v.cell.val⟩ }
  else { v with cell := ⟨v.rev, f v.store.val⟩ }

def viCommit (v : VI V) : VI V := if viDirty v then { v with store := v.cell } else v

inductive VAct (V : Type) where
  | read
  | write (f : V → V)

/-- the same action on kind 0 of the multi-cell buffer -/
def VAct.lift : VAct V → Act V
  | .read => .read 0
  | .write f => .write 0 f

def viRunActs (v : VI V) : List (VAct V) → VI V × List V
  | [] => (v, [])
  | .read :: as => let r := viRunActs v as; (r.1, viRead v :: r.2)
  | .write f :: as => viRunActs (viWrite v f) as

def viFinish (v : VI V) : End → VI V
  | .commit => viCommit v
  | .abandon => v

def viRunTx (W : Nat) (v : VI V) (acts : List (VAct V)) (fin : End) : Option (VI V × List V) :=
  match viBegin W v with
  | none => none
  | some v1 => let r := viRunActs v1 acts; some (viFinish r.1 fin, r.2)

def viRunHist (W : Nat) (v : VI V) : List (List (VAct V) × End) → Option (VI V × List (List V))
  | [] => some (v, [])
  | (acts, fin) :: txs =>
    match viRunTx W v acts fin with
    | none => none
    | some (v', rs) =>
      match viRunHist W v' txs with
      | none => none
      | some (v'', rss) => some (v'', rs :: rss)

/-- the projection of the multi-cell buffer onto its cell 0 -/
def proj0 (m : M V) : VI V := ⟨m.rev, m.cells 0, m.store 0⟩

/-- a multi-cell buffer whose cell 0 is the given single-cell buffer (other cells mirror it) -/
def embed0 (v : VI V) : M V := ⟨v.rev, fun _ => v.cell, fun _ => v.store⟩

/-! ### `RevertiblePosition`: private copy, written back on commit

`RevertiblePosition::new` copies `storage.state` into `self.state`; every read/write goes to the
copy; `commit` first commits the market, then `storage.state = self.state`; dropping does nothing. -/

structure PB (P : Type) where
  stored : P
  loc : P

def pbBegin {P : Type} (b : PB P) : PB P := { b with loc := b.stored }
def pbRead {P : Type} (b : PB P) : P := b.loc
def pbWrite {P : Type} (b : PB P) (f : P → P) : PB P := { b with loc := f b.loc }
def pbCommit {P : Type} (b : PB P) : PB P := { b with stored := b.loc }

/-- position + market of one `RevertiblePosition`: commit commits both, drop neither -/
def posCommit {P : Type} (s : M V × PB P) : M V × PB P := (commit s.1, pbCommit s.2)

/-! ### `RevertibleLiquidityMarket`: mint and burn are deferred to commit

`to_mint`/`to_burn : u64` accumulate; `mint` checks `amount`, `to_mint + amount` and
`supply + to_mint'` against `u64`; `burn` checks `amount`, `to_burn + amount` and `supply ≥ to_burn'`.
`total_supply = (supply + to_mint) ⊖ to_burn` (saturating). `commit` issues the token-program
`MintTo(to_mint)` if non-zero, then `Burn(to_burn)` if non-zero, then commits the market. -/

structure LM where
  supply : Nat
  toMint : Nat
  toBurn : Nat
  deriving Repr, DecidableEq

inductive Cpi where
  | mintTo (amount : Nat)
  | burn (amount : Nat)
  deriving Repr, DecidableEq

def U64 : Nat := 2 ^ 64

def lmBegin (supply : Nat) : LM := ⟨supply, 0, 0⟩

def lmMint (l : LM) (a : Nat) : Option LM :=
  if a ≥ U64 then none else
  if l.toMint + a ≥ U64 then none else
  if l.supply + (l.toMint + a) ≥ U64 then none else
  some { l with toMint := l.toMint + a }

def lmBurn (l : LM) (a : Nat) : Option LM :=
  if a ≥ U64 then none else
  if l.toBurn + a ≥ U64 then none else
  if l.supply < l.toBurn + a then none else
  some { l with toBurn := l.toBurn + a }

def lmTotalSupply (l : LM) : Nat := l.supply + l.toMint - l.toBurn

/-- the CPIs issued by `commit`, in order -/
def lmCommitCpis (l : LM) : List Cpi :=
  (if l.toMint ≠ 0 then [Cpi.mintTo l.toMint] else []) ++ (if l.toBurn ≠ 0 then [Cpi.burn l.toBurn] else [])

/-- the token program's effect on the mint's supply -/
def applyCpi (supply : Nat) : Cpi → Nat
  | .mintTo a => supply + a
  | .burn a => supply - a

def lmCommitSupply (l : LM) : Nat := (lmCommitCpis l).foldl applyCpi l.supply

/-- successful mint/burn requests of one operation -/
inductive LAct where
  | mint (a : Nat)
  | burn (a : Nat)
  deriving Repr, DecidableEq

/-- apply requests; a rejected request leaves the counters unchanged -/
def lmRun (l : LM) : List LAct → LM
  | [] => l
  | .mint a :: as => lmRun ((lmMint l a).getD l) as
  | .burn a :: as => lmRun ((lmBurn l a).getD l) as

end Gmx.Rev
