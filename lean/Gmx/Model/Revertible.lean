/-!
# Gmx.Model.Revertible — the copy-on-write buffer of
`programs/store/src/states/market/revertible/buffer.rs` (`RevertibleBuffer`, `Cache`) as used by
`RevertibleMarket` (`revertible/market.rs`) (C21)

A market account holds the *storage* `State` (16 pools, `Clocks`, `OtherState`, each with its own
`rev` field) and a *buffer* with the same cells plus a revision counter `rev`.

* `RevertibleMarket::new` calls `start_revertible_operation`: `rev = rev.checked_add(1).expect(..)`
  (panics on overflow — `begin` returns `none`).
* `is_dirty(cell) = (cell.rev == buffer.rev)`.
* read (`cache_get_with`): the buffer cell when dirty, else the storage cell.
* write (`cache_get_mut_with`): when not dirty first copy the storage cell into the buffer and set
  its `rev` to the buffer's; then mutate the buffer cell in place.
* `commit_to_storage`: every dirty buffer cell is copied (whole cell, `rev` included) over the
  storage cell; dropping the `RevertibleMarket` without commit (`abandon`) does nothing.

Cells are indexed by a kind number (0–15 pools in `PoolKind` order, 16 clocks, 17 other); the
model allows any natural number as kind. `V` is the cell payload.
-/
namespace Gmx.Rev

structure Cell (V : Type) where
  rev : Nat
  val : V

structure M (V : Type) where
  rev : Nat
  cells : Nat → Cell V
  store : Nat → Cell V

variable {V : Type}

def upd {α : Type} (f : Nat → α) (k : Nat) (v : α) : Nat → α := fun j => if j = k then v else f j

/-- `start_revertible_operation` for a `W`-bit counter (`none` = the `expect("rev overflow")` panic) -/
def begin (W : Nat) (m : M V) : Option (M V) :=
  if m.rev + 1 < 2 ^ W then some { m with rev := m.rev + 1 } else none

/-- `Cache::is_dirty` -/
def dirty (m : M V) (k : Nat) : Bool := (m.cells k).rev == m.rev

/-- `cache_get_with` -/
def read (m : M V) (k : Nat) : V := if dirty m k then (m.cells k).val else (m.store k).val

/-- the copy-on-write half of `cache_get_mut_with` -/
def touch (m : M V) (k : Nat) : M V :=
  if dirty m k then m else { m with cells := upd m.cells k ⟨m.rev, (m.store k).val⟩ }

/-- `cache_get_mut_with` followed by an in-place mutation `f` of the payload -/
def write (m : M V) (k : Nat) (f : V → V) : M V :=
  let m' := touch m k
  { m' with cells := upd m'.cells k ⟨(m'.cells k).rev, f (m'.cells k).val⟩ }

/-- `commit_to_storage` -/
def commit (m : M V) : M V :=
  { m with store := fun k => if dirty m k then m.cells k else m.store k }

/-! ### operations (transactions) and histories -/

inductive Act (V : Type) where
  | read (k : Nat)
  | write (k : Nat) (f : V → V)

inductive End where
  | commit | abandon
  deriving DecidableEq, Repr

structure Tx (V : Type) where
  acts : List (Act V)
  fin : End

/-- run the reads/writes of one operation, collecting what the reads returned -/
def runActs (m : M V) : List (Act V) → M V × List V
  | [] => (m, [])
  | .read k :: as => let r := runActs m as; (r.1, read m k :: r.2)
  | .write k f :: as => runActs (write m k f) as

def finish (m : M V) : End → M V
  | .commit => commit m
  | .abandon => m

/-- one whole operation: begin, reads/writes, commit or abandon -/
def runTx (W : Nat) (m : M V) (tx : Tx V) : Option (M V × List V) :=
  match begin W m with
  | none => none
  | some m1 => let r := runActs m1 tx.acts; some (finish r.1 tx.fin, r.2)

def runHist (W : Nat) (m : M V) : List (Tx V) → Option (M V × List (List V))
  | [] => some (m, [])
  | tx :: txs =>
    match runTx W m tx with
    | none => none
    | some (m', rs) =>
      match runHist W m' txs with
      | none => none
      | some (m'', rss) => some (m'', rs :: rss)

/-! ### specification: a transactional map -/

/-- reads/writes against committed storage `S` with a private overlay `ov` -/
def specActs (S : Nat → V) (ov : Nat → Option V) : List (Act V) → (Nat → Option V) × List V
  | [] => (ov, [])
  | .read k :: as =>
    let r := specActs S ov as
    (r.1, (match ov k with | some v => v | none => S k) :: r.2)
  | .write k f :: as =>
    specActs S (upd ov k (some (f (match ov k with | some v => v | none => S k)))) as

def specTx (S : Nat → V) (tx : Tx V) : (Nat → V) × List V :=
  let r := specActs S (fun _ => none) tx.acts
  (match tx.fin with
   | .commit => fun k => match r.1 k with | some v => v | none => S k
   | .abandon => S,
   r.2)

def specHist (S : Nat → V) : List (Tx V) → (Nat → V) × List (List V)
  | [] => (S, [])
  | tx :: txs =>
    let r := specTx S tx
    let rest := specHist r.1 txs
    (rest.1, r.2 :: rest.2)

end Gmx.Rev
