import Gmx.Model.Impact
/-!
# Gmx.Model.Market — market state and the *base market* functions

Transcribed from `crates/model/src/market/{base,swap,position_impact,liquidity,utils}.rs`,
`price.rs`, `pool/{mod,balance}.rs` and the trait wiring of `gmsol_model::test::TestMarket`
(= `h_model::market::TestMarket`, the deterministic copy used by the harness).

* every function is parametric in the width `W` and the fixed-point unit `U` (explicit first
  arguments, as in `Gmx.Model.Num`);
* helpers whose Rust errors are all of the "computation" class (`Computation`, `Overflow`,
  `Convert`, `DividedByZero`, `PowComputation`) return `Option`; validations return
  `Except MErr`;
* perp pieces that live in `Gmx.Model.Perp` (owner: mkt-perp) are explicit inputs: the
  *borrowing factor per second* of the two sides (`PerpIn`), needed by `poolValue` through
  `total_pending_borrowing_fees`.  With no open interest both are `0` (`PerpIn.zero`).
  Everything else of `pool_value` (pnl, pnl cap, impact pool with pending distribution) is here.
-/
namespace Gmx

/-! ## pools (`TestPool`) -/

structure Pool where
  long : Nat := 0
  short : Nat := 0
  deriving Repr, DecidableEq, Inhabited

def Pool.amount (p : Pool) (isLong : Bool) : Nat := if isLong then p.long else p.short

def Pool.setAmount (p : Pool) (isLong : Bool) (v : Nat) : Pool :=
  if isLong then { p with long := v } else { p with short := v }

/-- `apply_delta_to_{long,short}_amount`: strictly positive ⇒ checked add, else checked sub. -/
def Pool.applyDelta (W : Nat) (p : Pool) (isLong : Bool) (d : Int) : Option Pool :=
  match checkedAddWithSigned W (p.amount isLong) d with
  | none => none
  | some v => some (p.setAmount isLong v)

/-- `checked_apply_delta(Delta { long, short })`: long first, then short. -/
def Pool.applyDeltas (W : Nat) (p : Pool) (dl ds : Option Int) : Option Pool :=
  let p1 := match dl with
    | none => some p
    | some d => p.applyDelta W true d
  match p1 with
  | none => none
  | some q => match ds with
    | none => some q
    | some d => q.applyDelta W false d

/-- `Delta::new_one_side`. -/
def Pool.applyOneSide (W : Nat) (p : Pool) (isLong : Bool) (d : Int) : Option Pool :=
  if isLong then p.applyDeltas W (some d) none else p.applyDeltas W none (some d)

/-- `Delta::new_both_sides(is_long_first, first, second)`. -/
def Pool.applyBothSides (W : Nat) (p : Pool) (isLongFirst : Bool) (first second : Int) : Option Pool :=
  if isLongFirst then p.applyDeltas W (some first) (some second)
  else p.applyDeltas W (some second) (some first)

/-! ## prices (`price.rs`) -/

structure Price where
  min : Nat
  max : Nat
  deriving Repr, DecidableEq, Inhabited

def Price.pick (p : Price) (maximize : Bool) : Nat := if maximize then p.max else p.min

/-- `pick_price_for_pnl`: `is_long ^ maximize ⇒ min`. -/
def Price.pickForPnl (p : Price) (isLong maximize : Bool) : Nat :=
  if isLong != maximize then p.min else p.max

def Price.hasZero (p : Price) : Bool := p.min == 0 || p.max == 0

/-- `checked_mid`: `(min + max) / 2` with a checked add. -/
def Price.mid (W : Nat) (p : Price) : Option Nat :=
  match checkedAdd W 1 1 with
  | none => none
  | some two => match checkedAdd W p.min p.max with
    | none => none
    | some s => checkedDiv s two

def Price.isValid (W : Nat) (p : Price) : Bool :=
  p.min != 0 && p.max != 0 && (p.mid W).isSome

structure Prices where
  index : Price
  long : Price
  short : Price
  deriving Repr, DecidableEq, Inhabited

def Prices.isValid (W : Nat) (p : Prices) : Bool :=
  p.index.isValid W && p.long.isValid W && p.short.isValid W

def Prices.collateral (p : Prices) (isLong : Bool) : Price := if isLong then p.long else p.short

/-! ## configuration and state -/

inductive PnlFactorKind where
  | maxAfterDeposit | maxAfterWithdrawal | maxForTrader | forAdl | minAfterAdl
  deriving Repr, DecidableEq

/-- the part of `TestMarketConfig` (+ the two constructor arguments of `TestMarket::new`) that the
base / swap / liquidity / position-impact traits read.  `TestMarket` uses the same value for both
sides wherever the trait takes an `is_long` argument. -/
structure MarketConfig where
  swapImpact : ImpactParams
  swapFee : FeeParams
  positionImpact : ImpactParams
  orderFee : FeeParams
  /-- `PositionImpactDistributionParams::distribute_factor` -/
  distributeFactor : Nat
  /-- `PositionImpactDistributionParams::min_position_impact_pool_amount` -/
  minPositionImpactPool : Nat
  /-- `BorrowingFeeParams::receiver_factor` -/
  borrowingReceiverFactor : Nat
  reserveFactor : Nat
  oiReserveFactor : Nat
  maxPnlDeposit : Nat
  maxPnlWithdrawal : Nat
  maxPnlTrader : Nat
  maxPnlAdl : Nat
  minPnlAfterAdl : Nat
  maxPoolAmount : Nat
  maxPoolValueForDeposit : Nat
  maxOpenInterest : Nat
  ignoreOiForUsage : Bool
  /-- `usd_to_amount_divisor` (`value_to_amount_divisor`) -/
  divisor : Nat
  /-- `funding_amount_per_size_adjustment` -/
  fundingAdjustment : Nat
  deriving Repr

def MarketConfig.pnlFactor (c : MarketConfig) : PnlFactorKind → Nat
  | .maxAfterDeposit => c.maxPnlDeposit
  | .maxAfterWithdrawal => c.maxPnlWithdrawal
  | .maxForTrader => c.maxPnlTrader
  | .forAdl => c.maxPnlAdl
  | .minAfterAdl => c.minPnlAfterAdl

/-- the market state: the 16 pools in `PoolKind` order, supply, funding factor, clocks. -/
structure Market where
  cfg : MarketConfig
  supply : Nat := 0
  /-- `PoolKind::Primary` (liquidity) -/
  primary : Pool := {}
  swapImpact : Pool := {}
  /-- `PoolKind::ClaimableFee` -/
  fee : Pool := {}
  oiL : Pool := {}
  oiS : Pool := {}
  /-- open interest in tokens -/
  oitL : Pool := {}
  oitS : Pool := {}
  /-- only the long amount is used -/
  positionImpact : Pool := {}
  borrowingFactor : Pool := {}
  fapsL : Pool := {}
  fapsS : Pool := {}
  cfapsL : Pool := {}
  cfapsS : Pool := {}
  collL : Pool := {}
  collS : Pool := {}
  totalBorrowing : Pool := {}
  fundingFactorPerSecond : Int := 0
  /-- deterministic clock (seconds) -/
  now : Nat := 0
  /-- `ClockKind::PriceImpactDistribution` (absent until first touched) -/
  clockImpactDist : Option Nat := none
  clockBorrowing : Option Nat := none
  clockFunding : Option Nat := none
  /-- optional virtual inventories -/
  viSwaps : Option Pool := none
  viPositions : Option Pool := none
  deriving Repr

/-- error kinds that some property distinguishes; everything else is `fail`. -/
inductive MErr where
  | fail | emptySwap | emptyDeposit | emptyWithdrawal | invalidPrices
  | poolAmount | poolValue | reserve | pnlFactor | invalidPoolValue | panic
  deriving Repr, DecidableEq

def orFail {α : Type} : Option α → Except MErr α
  | some a => .ok a
  | none => .error .fail

/-! ### clocks (`TestMarket::{just_,}passed_in_seconds`) -/

/-- `passed_in_seconds`: `now.saturating_sub(clock.unwrap_or(now))`. The subtraction SATURATES (Nat
subtraction here): a clock ahead of `now` reads as 0 seconds, exactly like an absent clock or a
clock at `now` (`passedInSeconds_eq_zero_iff`). `just_passed_in_seconds` then moves the clock to
`now` — backwards, if it was ahead. -/
def passedInSeconds (now : Nat) (clock : Option Nat) : Nat :=
  match clock with
  | none => 0
  | some c => now - c

theorem passedInSeconds_eq_zero_iff (now : Nat) (clock : Option Nat) :
    passedInSeconds now clock = 0 ↔ clock = none ∨ ∃ c, clock = some c ∧ now ≤ c := by
  cases clock with
  | none => simp [passedInSeconds]
  | some c => simp [passedInSeconds]; omega

def Market.tick (m : Market) (secs : Nat) : Market := { m with now := m.now + secs }

/-! ## base market (`market/base.rs`) -/

def Market.liquidity (m : Market) (isLong : Bool) : Nat := m.primary.amount isLong

/-- `expected_min_token_balance_excluding_collateral_amount_for_one_token_side` without the
overflow checks: liquidity + swap impact + claimable fee of a token side. -/
def Market.holdings (m : Market) (isLong : Bool) : Nat :=
  m.primary.amount isLong + m.swapImpact.amount isLong + m.fee.amount isLong

def poolValueWithoutPnlOneSide (W : Nat) (m : Market) (pr : Prices) (isLong maximize : Bool) : Option Nat :=
  if isLong then checkedMul W m.primary.long (pr.long.pick maximize)
  else checkedMul W m.primary.short (pr.short.pick maximize)

/-- `open_interest()?.amount(is_long)` (`Merged`: long + short of the side's pool). -/
def openInterest (W : Nat) (m : Market) (isLong : Bool) : Option Nat :=
  if isLong then checkedAdd W m.oiL.long m.oiL.short else checkedAdd W m.oiS.long m.oiS.short

def openInterestInTokens (W : Nat) (m : Market) (isLong : Bool) : Option Nat :=
  if isLong then checkedAdd W m.oitL.long m.oitL.short else checkedAdd W m.oitS.long m.oitS.short

/-- `BaseMarketExt::pnl`. -/
def marketPnl (W : Nat) (m : Market) (index : Price) (isLong maximize : Bool) : Option Int :=
  match openInterest W m isLong with
  | none => none
  | some oi => match openInterestInTokens W m isLong with
    | none => none
    | some oit =>
      if oi = 0 ∧ oit = 0 then some 0 else
      match checkedMul W oit (index.pickForPnl isLong maximize) with
      | none => none
      | some v => match toSigned W v with
        | none => none
        | some sv => match toSigned W oi with
          | none => none
          | some so => if isLong then toI W (sv - so) else toI W (so - sv)

/-- `pnl_factor_with_pool_value`. -/
def pnlFactorWithPoolValue (W U : Nat) (m : Market) (pr : Prices) (isLong maximize : Bool) :
    Option (Int × Nat) :=
  match poolValueWithoutPnlOneSide W m pr isLong (!maximize) with
  | none => none
  | some pv => match marketPnl W m pr.index isLong maximize with
    | none => none
    | some pnl => match divToFactorSigned W U pnl pv with
      | none => none
      | some f => some (f, pv)

/-- `pnl_factor_exceeded(..).is_some()` for a successfully computed factor. -/
def pnlExceeded (f : Int) (maxFactor : Nat) : Bool := decide (f > 0) && decide (f.natAbs > maxFactor)

/-- `validate_pnl_factor`. -/
def validatePnlFactor (W U : Nat) (m : Market) (pr : Prices) (kind : PnlFactorKind) (isLong : Bool) :
    Except MErr Unit :=
  match pnlFactorWithPoolValue W U m pr isLong true with
  | none => .error .fail
  | some (f, _) => if pnlExceeded f (m.cfg.pnlFactor kind) then .error .pnlFactor else .ok ()

/-- `validate_max_pnl`: long first, then short. -/
def validateMaxPnl (W U : Nat) (m : Market) (pr : Prices) (longKind shortKind : PnlFactorKind) :
    Except MErr Unit :=
  match validatePnlFactor W U m pr longKind true with
  | .error e => .error e
  | .ok () => validatePnlFactor W U m pr shortKind false

/-- `validate_pool_amount`. -/
def validatePoolAmount (m : Market) (isLong : Bool) : Except MErr Unit :=
  if m.primary.amount isLong > m.cfg.maxPoolAmount then .error .poolAmount else .ok ()

/-- `reserved_value`. -/
def reservedValue (W : Nat) (m : Market) (index : Price) (isLong : Bool) : Option Nat :=
  if isLong then
    match openInterestInTokens W m true with
    | none => none
    | some oit => checkedMul W oit index.max
  else openInterest W m false

/-- `validate_reserve`. -/
def validateReserve (W U : Nat) (m : Market) (pr : Prices) (isLong : Bool) : Except MErr Unit :=
  match poolValueWithoutPnlOneSide W m pr isLong false with
  | none => .error .fail
  | some pv => match applyFactor W U pv m.cfg.reserveFactor with
    | none => .error .fail
    | some maxReserved => match reservedValue W m pr.index isLong with
      | none => .error .fail
      | some rv => if rv > maxReserved then .error .reserve else .ok ()

/-- `LiquidityMarketExt::validate_pool_value_for_deposit`. -/
def validatePoolValueForDeposit (W : Nat) (m : Market) (pr : Prices) (isLong : Bool) : Except MErr Unit :=
  match poolValueWithoutPnlOneSide W m pr isLong true with
  | none => .error .fail
  | some pv => if pv > m.cfg.maxPoolValueForDeposit then .error .poolValue else .ok ()

/-- `BaseMarketMutExt::apply_delta`: the liquidity pool and (if present) the virtual inventory
for swaps receive the same one-sided delta; nothing is written if either fails. -/
def Market.applyDelta (W : Nat) (m : Market) (isLong : Bool) (d : Int) : Option Market :=
  match m.primary.applyOneSide W isLong d with
  | none => none
  | some liq =>
    match m.viSwaps with
    | none => some { m with primary := liq }
    | some v => match v.applyOneSide W isLong d with
      | none => none
      | some v' => some { m with primary := liq, viSwaps := some v' }

/-! ## swap impact (`market/swap.rs`) -/

/-- `swap_impact_value`: the impact of the liquidity-pool delta, or — when it is negative, the
caller asks for it and a virtual inventory exists — the worse (smaller) of that and the impact
of the same value delta on the virtual inventory. `dL dS pL pS` are the value deltas and prices
the `PoolDelta` `d` was built from. -/
def swapImpactValue (W U : Nat) (params : ImpactParams) (vi : Option Pool) (d : PoolDelta)
    (dL dS : Int) (pL pS : Nat) (includeVi : Bool) : Option (Int × BalanceChange) :=
  match d.priceImpact W U params with
  | none => none
  | some imp =>
    if ¬ (imp.1 < 0) ∨ includeVi = false then some imp else
    match vi with
    | none => some imp
    | some v => match PoolDelta.tryNew W v.long v.short dL dS pL pS with
      | none => none
      | some d' => match d'.priceImpact W U params with
        | none => none
        | some vimp => if vimp.1 < imp.1 then some vimp else some imp

/-- `swap_impact_amount_with_cap`: `(signed token amount, capped_diff_value)`.
Positive impact: `usd / price.max` (truncating), capped by the impact pool of that side; the
value of the capped remainder is returned. Negative impact: magnitude rounded UP at `price.min`. -/
def swapImpactAmountWithCap (W : Nat) (impactPool : Pool) (isLong : Bool) (price : Price) (usd : Int) :
    Option (Int × Nat) :=
  if price.hasZero then none
  else if usd > 0 then
    match toSigned W price.max with
    | none => none
    | some maxPrice =>
      let amount := Int.tdiv usd maxPrice
      match toSigned W (impactPool.amount isLong) with
      | none => none
      | some maxAmount =>
        if amount > maxAmount then
          match toI W (amount - maxAmount) with
          | none => none
          | some diff => match checkedMul W diff.natAbs price.max with
            | none => none
            | some cdv => some (maxAmount, cdv)
        else some (amount, 0)
  else if usd < 0 then
    match toSigned W price.min with
    | none => none
    | some p => match toI W (usd - p) with
      | none => none
      | some a => match toI W (a + 1) with
        | none => none
        | some b => some (Int.tdiv b p, 0)
  else some (0, 0)

/-- `apply_swap_impact_value_with_cap`: moves the (capped) impact amount out of / into the swap
impact pool of one side and returns the new pool and the magnitude moved. -/
def applySwapImpactValueWithCap (W : Nat) (impactPool : Pool) (isLong : Bool) (price : Price) (usd : Int) :
    Option (Pool × Nat) :=
  match swapImpactAmountWithCap W impactPool isLong price usd with
  | none => none
  | some (amount, _) => match toI W (-amount) with
    | none => none
    | some delta => match impactPool.applyDelta W isLong delta with
      | none => none
      | some p => some (p, delta.natAbs)

/-! ## position impact distribution (`market/position_impact.rs`) -/

/-- `pending_position_impact_pool_distribution_amount` on the raw numbers:
`(distribution amount, next pool amount)`. -/
def pendingDistribution (W U cur minAmount factor duration : Nat) : Option (Nat × Nat) :=
  if factor = 0 ∨ cur ≤ minAmount then some (0, cur) else
  match checkedSub cur minAmount with
  | none => none
  | some maxDist => match toU W duration with
    | none => none
    | some dv => match applyFactor W U dv factor with
      | none => none
      | some d =>
        let d' := if d > maxDist then maxDist else d
        match checkedSub cur d' with
        | none => none
        | some next => some (d', next)

def Market.pendingDistribution (W U : Nat) (m : Market) (duration : Nat) : Option (Nat × Nat) :=
  Gmx.pendingDistribution W U m.positionImpact.long m.cfg.minPositionImpactPool m.cfg.distributeFactor duration

structure DistReport where
  duration : Nat
  distributed : Nat
  next : Nat
  deriving Repr, DecidableEq

/-- `DistributePositionImpact::execute`.  NOT atomic: the clock is advanced before the amounts
are computed, so a failing distribution still resets the clock. -/
def distributePositionImpact (W U : Nat) (m : Market) : Market × Option DistReport :=
  let duration := passedInSeconds m.now m.clockImpactDist
  let m1 := { m with clockImpactDist := some m.now }
  match m1.pendingDistribution W U duration with
  | none => (m1, none)
  | some (d, next) =>
    if d = 0 then (m1, some ⟨duration, d, next⟩) else
    match toOppositeSigned W d with
    | none => (m1, none)
    | some delta => match m1.positionImpact.applyDelta W true delta with
      | none => (m1, none)
      | some p => ({ m1 with positionImpact := p }, some ⟨duration, d, next⟩)

/-! ## pool value (`market/liquidity.rs`, `market/utils.rs`) -/

/-- perp inputs of `pool_value`: `borrowing_factor_per_second(is_long, prices)` of the two sides
(computed in `Gmx.Model.Perp`; `0` when the side has no reserved value). -/
structure PerpIn where
  bfpsL : Nat := 0
  bfpsS : Nat := 0
  deriving Repr, DecidableEq

def PerpIn.zero : PerpIn := {}

/-- `next_cumulative_borrowing_factor(..).0` given the factor per second. -/
def nextCumulativeBorrowingFactor (W : Nat) (m : Market) (isLong : Bool) (bfps duration : Nat) : Option Nat :=
  match toU W duration with
  | none => none
  | some dv => match checkedMul W bfps dv with
    | none => none
    | some delta => checkedAdd W (m.borrowingFactor.amount isLong) delta

/-- `total_pending_borrowing_fees` given the factor per second. -/
def totalPendingBorrowingFees (W U : Nat) (m : Market) (isLong : Bool) (bfps : Nat) : Option Nat :=
  match openInterest W m isLong with
  | none => none
  | some oi =>
    match nextCumulativeBorrowingFactor W m isLong bfps (passedInSeconds m.now m.clockBorrowing) with
    | none => none
    | some next => match applyFactor W U oi next with
      | none => none
      | some total => checkedSub total (m.totalBorrowing.amount isLong)

/-- `MarketUtils::cap_pnl`. -/
def capPnl (W U : Nat) (pnl : Int) (poolValue maxFactor : Nat) : Option Int :=
  if pnl > 0 then
    match applyFactor W U poolValue maxFactor with
    | none => none
    | some mp => match toSigned W mp with
      | none => none
      | some maxPnl => if pnl > maxPnl then some maxPnl else some pnl
  else some pnl

/-- `LiquidityMarketExt::pool_value`. -/
def poolValue (W U : Nat) (m : Market) (pr : Prices) (kind : PnlFactorKind) (maximize : Bool)
    (pin : PerpIn) : Option Int :=
  match poolValueWithoutPnlOneSide W m pr true maximize with
  | none => none
  | some lv => match poolValueWithoutPnlOneSide W m pr false maximize with
    | none => none
    | some sv => match checkedAdd W lv sv with
      | none => none
      | some tot => match toSigned W tot with
        | none => none
        | some pv0 =>
          match totalPendingBorrowingFees W U m true pin.bfpsL with
          | none => none
          | some fl => match totalPendingBorrowingFees W U m false pin.bfpsS with
            | none => none
            | some fs => match checkedAdd W fl fs with
              | none => none
              | some tf => match checkedSub U m.cfg.borrowingReceiverFactor with
                | none => none
                | some poolFactor => match applyFactor W U tf poolFactor with
                  | none => none
                  | some tfp => match toSigned W tfp with
                    | none => none
                    | some stfp => match toI W (pv0 + stfp) with
                      | none => none
                      | some pv1 =>
                        match marketPnl W m pr.index true (!maximize) with
                        | none => none
                        | some lp0 => match capPnl W U lp0 lv (m.cfg.pnlFactor kind) with
                          | none => none
                          | some lp => match marketPnl W m pr.index false (!maximize) with
                            | none => none
                            | some sp0 => match capPnl W U sp0 sv (m.cfg.pnlFactor kind) with
                              | none => none
                              | some sp => match toI W (lp + sp) with
                                | none => none
                                | some net => match toI W (pv1 - net) with
                                  | none => none
                                  | some pv2 =>
                                    match m.pendingDistribution W U (passedInSeconds m.now m.clockImpactDist) with
                                    | none => none
                                    | some (_, nextImpact) =>
                                      match checkedMul W nextImpact (pr.index.pick (!maximize)) with
                                      | none => none
                                      | some iv => match toSigned W iv with
                                        | none => none
                                        | some siv => toI W (pv2 - siv)

/-! ## a sample configuration (for witnesses) -/

/-- `TestMarketConfig::<u64, 9>::default()` + `TestMarket::with_config` (divisor 1, funding
adjustment 10 000), restricted to the fields of `MarketConfig`. -/
def MarketConfig.test64 : MarketConfig :=
  { swapImpact := ⟨2000000000, 4, 8⟩, swapFee := ⟨500000, 700000, 370000000, 0⟩,
    positionImpact := ⟨2000000000, 1, 2⟩, orderFee := ⟨500000, 700000, 370000000, 0⟩,
    distributeFactor := 1000000000, minPositionImpactPool := 1000000000, borrowingReceiverFactor := 370000000,
    reserveFactor := 1000000000, oiReserveFactor := 1000000000, maxPnlDeposit := 600000000,
    maxPnlWithdrawal := 300000000, maxPnlTrader := 500000000, maxPnlAdl := 500000000, minPnlAfterAdl := 0,
    maxPoolAmount := 1000000000000000000, maxPoolValueForDeposit := 18446744073709551615,
    maxOpenInterest := 18446744073709551615, ignoreOiForUsage := false, divisor := 1, fundingAdjustment := 10000 }

/-- the empty market with a configuration (`TestMarket::new`). -/
def Market.ofConfig (cfg : MarketConfig) : Market := { cfg := cfg }

end Gmx
