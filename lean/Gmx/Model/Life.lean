/-!
# Gmx.Model.Life — accounting-level model of the native deposit life cycle (stage 2, C23 / C22)

What `harness/h_store/src/bin/life.rs` drives through the real `gmsol_store::entry`:
`create_deposit` → `execute_deposit` → `close_deposit`, with custom price feeds and a clock. The model
predicts acceptance, the outcome class (completed / cancelled = soft failure / rejected), every collateral
token balance (users, escrows, vaults, recorded market balances) and the execution fee paid. Market-token
amounts depend on the pool maths (C06) and are tracked only as zero / positive. Core only.
-/
namespace Gmx.Life

def MIN_EXEC_LAMPORTS : Nat := 200000
def HEARTBEAT : Int := 120
def REQUEST_EXPIRATION : Int := 3600

structure User where
  long : Nat
  short : Nat
  mt : Bool
  deriving Repr

/-- `state`: 0 pending, 1 completed, 2 cancelled. -/
structure Dep where
  state : Nat
  long : Nat
  short : Nat
  mt : Bool
  escLong : Nat
  escShort : Nat
  createdAt : Int
  execLamports : Nat
  maxSlippage : Bool
  deriving Repr

structure St where
  now : Int
  priceTs : Int
  users : Nat → User
  deps : Nat → Nat → Option Dep
  vaultLong : Nat
  vaultShort : Nat
  recLong : Nat
  recShort : Nat

inductive Who where
  | keeper | admin | user (u : Nat)
  deriving DecidableEq

def setUser (s : St) (u : Nat) (x : User) : St := { s with users := fun i => if i = u then x else s.users i }
def setDep (s : St) (u d : Nat) (x : Option Dep) : St :=
  { s with deps := fun i j => if i = u ∧ j = d then x else s.deps i j }

def init (long short : Nat) (now : Int) : St :=
  ⟨now, 0, fun _ => ⟨long, short, false⟩, fun _ _ => none, 0, 0, 0, 0⟩

def tick (s : St) (dt : Nat) : St := { s with now := s.now + dt }

/-- `PriceFeed::update` with `idempotent = true`: older prices are skipped. -/
def price (s : St) (age : Nat) : St :=
  { s with priceTs := if s.now - age > s.priceTs then s.now - age else s.priceTs }

def create (s : St) (u d long short : Nat) (maxSlippage : Bool) (execLamports : Nat) : Option St :=
  match s.deps u d with
  | some _ => none
  | none =>
    let usr := s.users u
    if long = 0 ∧ short = 0 then none else
    if usr.long < long ∨ usr.short < short then none else
    if execLamports < MIN_EXEC_LAMPORTS then none else
    some (setDep (setUser s u { usr with long := usr.long - long, short := usr.short - short }) u d
      (some ⟨0, long, short, false, long, short, s.now, execLamports, maxSlippage⟩))

inductive Outcome where
  | completed | cancelled
  deriving DecidableEq, Repr

/-- `execute_deposit`: `(new state, outcome, fee paid)`. -/
def exec (s : St) (who : Who) (u d fee : Nat) (throw : Bool) : Option (St × Outcome × Nat) :=
  if who ≠ .keeper then none else
  match s.deps u d with
  | none => none
  | some dep =>
    if dep.state ≠ 0 then none else
    if s.now - s.priceTs > HEARTBEAT then none else        -- stale feed / market closed
    if s.priceTs < dep.createdAt then none else            -- prices older than the request
    let paid := if fee ≤ dep.execLamports then fee else dep.execLamports
    let soft : Option (St × Outcome × Nat) :=
      if throw then none else some (setDep s u d (some { dep with state := 2 }), .cancelled, paid)
    if dep.createdAt + REQUEST_EXPIRATION < s.priceTs then soft   -- request expired
    else if dep.maxSlippage then soft                             -- min output not reachable
    else
      some ({ setDep s u d (some { dep with state := 1, escLong := 0, escShort := 0, mt := true }) with
              vaultLong := s.vaultLong + dep.escLong, vaultShort := s.vaultShort + dep.escShort,
              recLong := s.recLong + dep.escLong, recShort := s.recShort + dep.escShort },
            .completed, paid)

/-- `close_deposit`. -/
def close (s : St) (who : Who) (u d : Nat) : Option St :=
  match s.deps u d with
  | none => none
  | some dep =>
    let allowed := who = .user u ∨ (who = .keeper ∧ dep.state ≠ 0)
    if ¬ allowed then none else
    let usr := s.users u
    some (setDep (setUser s u { long := usr.long + dep.escLong, short := usr.short + dep.escShort, mt := usr.mt || dep.mt }) u d none)

end Gmx.Life
