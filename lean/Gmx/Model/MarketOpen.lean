/-!
# Gmx.Model.MarketOpen — `crates/utils/src/price/feed_price.rs` (`is_market_open`,
`last_update_diff_secs`, `market_status`) and `price/market_status.rs` (`openness`)

Timestamps are `Int` (i64 range stated as hypotheses), `timeout`/`last_update_diff` are `Nat`
(u32). `saturating_sub` on i64 is modelled explicitly (`satSub`). Flag containers are `u8`
bitmaps: flag `i` = bit `i`.
-/
namespace Gmx.MarketOpen

def I64_MIN : Int := -(2 ^ 63)
def I64_MAX : Int := 2 ^ 63 - 1

/-- `i64::saturating_sub` -/
def satSub (a b : Int) : Int :=
  let r := a - b
  if r < -(2 ^ 63) then -(2 ^ 63) else if r > 2 ^ 63 - 1 then 2 ^ 63 - 1 else r

/-- `Bitmap::get(i)` on a `u8` store -/
def bit (v i : Nat) : Bool := v / 2 ^ i % 2 == 1

inductive Status where
  | disabled | unknown | preMarket | regularHours | postMarket | overnight | closed
  deriving DecidableEq, Repr

inductive Openness where
  | open | closed | skip
  deriving DecidableEq, Repr

/-- `MarketStatus::try_from(v).unwrap_or(Disabled)` -/
def statusOf (v : Nat) : Status :=
  match v with
  | 1 => .unknown | 2 => .preMarket | 3 => .regularHours | 4 => .postMarket
  | 5 => .overnight | 6 => .closed | _ => .disabled

def openIf (b : Bool) : Openness := if b then .open else .closed

/-- `MarketStatus::openness(flags)`; flag indices: AllowUnknown 0, AllowPreMarket 1,
HaltRegularHours 2, AllowPostMarket 3, AllowOvernight 4, AllowClosed 5. -/
def openness (s : Status) (flags : Nat) : Openness :=
  match s with
  | .disabled => .skip
  | .unknown => openIf (bit flags 0)
  | .preMarket => openIf (bit flags 1)
  | .regularHours => openIf (!bit flags 2)
  | .postMarket => openIf (bit flags 3)
  | .overnight => openIf (bit flags 4)
  | .closed => openIf (bit flags 5)

/-- `u32::div_ceil` (no overflow: computed as quotient + (remainder > 0)) -/
def divCeil (a b : Nat) : Nat := a / b + (if a % b > 0 then 1 else 0)

/-- `last_update_diff_secs()`; price flags: Open 0, LastUpdateDiffEnabled 1, LastUpdateDiffSecs 2 -/
def lastUpdateDiffSecs (priceFlags diff : Nat) : Option Nat :=
  if !bit priceFlags 1 then none
  else if bit priceFlags 2 then some diff
  else some (divCeil diff 1000000000)

/-- `PriceFeedPrice::is_market_open(current_timestamp, market_close_timeout, flags)` -/
def isMarketOpen (statusValue priceFlags diff : Nat) (ts : Int) (now : Int) (timeout : Nat)
    (polFlags : Nat) : Bool :=
  if openness (statusOf statusValue) polFlags = .closed then false
  else if !bit priceFlags 0 then false
  else
    match lastUpdateDiffSecs priceFlags diff with
    | none => true
    | some d =>
      let currentDiff := satSub now ts
      if currentDiff > (timeout : Int) then false
      else decide ((d : Int) ≤ satSub (timeout : Int) currentDiff)

/-- the freshness part of the code, as a proposition -/
def freshCode (now ts : Int) (timeout d : Nat) : Prop :=
  ¬ (satSub now ts > (timeout : Int)) ∧ (d : Int) ≤ satSub (timeout : Int) (satSub now ts)

/-- exact-integer specification: the report is no older than the timeout, and neither is the
underlying last update (which is `d` seconds older than the report). -/
def freshSpec (now ts : Int) (timeout d : Nat) : Prop :=
  now - ts ≤ (timeout : Int) ∧ now - (ts - (d : Int)) ≤ (timeout : Int)

/-! ### The per-feed policy lives in `FeedConfig` (`crates/utils/src/token_config.rs`) -/

/-- `FeedConfig`: feed id, timestamp adjustment, max deviation ratio (0 = none), market-status flags (u8) -/
structure FeedCfg where
  feed : Nat
  tsAdj : Nat
  ratio : Nat
  flags : Nat
  deriving Repr, DecidableEq

inductive CfgOp where
  | withFeed (f : Nat)            -- `with_feed`
  | withTsAdj (t : Nat)           -- `with_timestamp_adjustment`
  | withRatio (r : Nat)           -- `with_max_deviation_factor(Some(r * RATIO_MULTIPLIER))`, `None` for 0
  | setFlag (i : Nat) (on : Bool) -- `set_market_status_flag`
  deriving Repr, DecidableEq

def setBit (x i : Nat) (on : Bool) : Nat :=
  if bit x i = on then x else if on then x + 2 ^ i else x - 2 ^ i

def FeedCfg.apply (c : FeedCfg) : CfgOp → FeedCfg
  | .withFeed f => { c with feed := f }
  | .withTsAdj t => { c with tsAdj := t }
  | .withRatio r => { c with ratio := r }
  | .setFlag i on => { c with flags := setBit c.flags i on }

def FeedCfg.run (c : FeedCfg) (ops : List CfgOp) : FeedCfg := ops.foldl FeedCfg.apply c

def CfgOp.isSetFlag : CfgOp → Bool
  | .setFlag _ _ => true
  | _ => false

end Gmx.MarketOpen
