import Gmx.Model.Num
/-!
# Gmx.Model.Gt — GT state, user GT state, exchange vault (C30)

Transcription of `programs/store/src/states/gt.rs` (`GtState::{init, next_minting_cost,
unchecked_update_rank, update_cumulative_inv_cost_factor, mint_to, unchecked_burn_from,
get_mint_amount, unchecked_request_exchange, unchecked_confirm_exchange_vault}`,
`GtExchangeVault::{init, validate_confirmable, validate_depositable, add, confirm}`,
`GtExchange::add`) and of the `UserGtState` fields of `states/user.rs`.
`U = MARKET_USD_UNIT`; amounts are `u64`, costs/values `u128`, timestamps `i64`.
The clock (`Clock::get()?.unix_timestamp`) is the parameter `now`.
-/
namespace Gmx.Gt
open Gmx

inductive GErr where
  | overflow      -- TokenAmountOverflow
  | config        -- InvalidGTConfig
  | internal      -- Internal
  | valueOverflow -- ValueOverflow
  | notEnough     -- NotEnoughTokenAmount
  | precond       -- PreconditionsAreNotMet
  | arg           -- InvalidArgument
  | initialized   -- GTStateHasBeenInitialized
  | divZero       -- Rust panic: `ts / 0` in `get_time_window_index` (uninitialised vault)
  deriving Repr, DecidableEq

structure Gt where
  lastMintedAt : Int := 0
  totalMinted : Nat := 0
  growStepAmount : Nat := 0
  growSteps : Nat := 0
  supply : Nat := 0
  gtVault : Nat := 0
  lastCumTs : Int := 0
  cumInvCost : Nat := 0
  costGrowFactor : Nat := 0
  mintingCost : Nat := 0
  ranks : List Nat := []     -- `ranks[0 .. max_rank]`
  deriving Repr, DecidableEq

structure User where
  rank : Nat := 0
  amount : Nat := 0
  totalMinted : Nat := 0
  lastMintedAt : Int := 0
  exchange : Nat := 0        -- the user's `GtExchange.amount` for the current vault
  deriving Repr, DecidableEq

structure Vault where
  initialized : Bool := false
  confirmed : Bool := false
  ts : Int := 0
  timeWindow : Int := 0
  amount : Nat := 0
  deriving Repr, DecidableEq

/-- strictly increasing (`windows(2).all(a < b)`). -/
def strictSorted : List Nat → Bool
  | [] => true
  | [_] => true
  | a :: b :: t => decide (a < b) && strictSorted (b :: t)

/-- `GtState::init` (MAX_RANK = 15). -/
def init (g : Gt) (now : Int) (cost factor step : Nat) (ranks : List Nat) : Except GErr Gt :=
  if g.growStepAmount ≠ 0 ∨ g.lastMintedAt ≠ 0 ∨ g.totalMinted ≠ 0 ∨ g.supply ≠ 0 ∨ g.gtVault ≠ 0
  then .error .initialized
  else if step = 0 then .error .config
  else
    let rs := ranks.take 15
    if strictSorted rs then
      .ok { g with lastMintedAt := now, growStepAmount := step, costGrowFactor := factor,
                   mintingCost := cost, ranks := rs }
    else .error .config

/-- `n` successive `apply_factor(cost, grow_factor)` (the `for` loop of `next_minting_cost`). -/
def iterCost (U f : Nat) : Nat → Nat → Option Nat
  | 0, c => some c
  | n + 1, c => match applyFactor 128 U c f with
    | none => none
    | some c' => iterCost U f n c'

/-- `GtState::next_minting_cost`. -/
def nextMintingCost (U : Nat) (g : Gt) (nextMinted : Nat) : Except GErr (Option (Nat × Nat)) :=
  if g.growStepAmount = 0 then .error .config else
  let newSteps := nextMinted / g.growStepAmount
  if newSteps ≠ g.growSteps then
    match iterCost U g.costGrowFactor (newSteps - g.growSteps) g.mintingCost with
    | none => .error .internal
    | some c => .ok (some (newSteps, c))
  else .ok none

/-- what `binary_search` returns on the (sorted) thresholds: number of leading thresholds
`≤ amount` (`Ok(i) ⇒ i + 1`, `Err(i) ⇒ i`). -/
def rankScan : List Nat → Nat → Nat
  | [], _ => 0
  | t :: ts, a => if t ≤ a then rankScan ts a + 1 else 0

/-- `i64::saturating_sub` then clamp at 0 (`AsClock::passed_in_seconds`). -/
def passedSeconds (now last : Int) : Nat :=
  let d := now - last
  let d := if d > 2 ^ 63 - 1 then 2 ^ 63 - 1 else d
  if d > 0 then d.toNat else 0

/-- `GtState::update_cumulative_inv_cost_factor`. -/
def updateCum (U : Nat) (now : Int) (g : Gt) : Except GErr Gt :=
  match divToFactor 128 U (passedSeconds now g.lastCumTs) g.mintingCost false with
  | none => .error .valueOverflow
  | some delta => match checkedAdd 128 g.cumInvCost delta with
    | none => .error .valueOverflow
    | some c => .ok { g with lastCumTs := now, cumInvCost := c }

/-- `GtState::mint_to`. -/
def mintTo (U : Nat) (now : Int) (g : Gt) (u : User) (amount : Nat) : Except GErr (Gt × User) :=
  if amount = 0 then .ok (g, u) else
  match checkedAdd 64 g.totalMinted amount with
  | none => .error .overflow
  | some nextTotal =>
  match nextMintingCost U g nextTotal with
  | .error e => .error e
  | .ok nmc =>
  match checkedAdd 64 u.totalMinted amount with
  | none => .error .overflow
  | some nextUserTotal =>
  match checkedAdd 64 u.amount amount with
  | none => .error .overflow
  | some nextAmount =>
  match checkedAdd 64 g.supply amount with
  | none => .error .overflow
  | some nextSupply =>
  match updateCum U now g with
  | .error e => .error e
  | .ok g1 =>
    let g2 := match nmc with
      | some (steps, cost) => { g1 with mintingCost := cost, growSteps := steps }
      | none => g1
    let g3 := { g2 with totalMinted := nextTotal, lastMintedAt := now, supply := nextSupply }
    .ok (g3, { u with totalMinted := nextUserTotal, amount := nextAmount, lastMintedAt := now,
                      rank := rankScan g.ranks nextAmount })

/-- `GtState::unchecked_burn_from`. -/
def burnFrom (g : Gt) (u : User) (amount : Nat) : Except GErr (Gt × User) :=
  if amount = 0 then .ok (g, u) else
  if u.amount < amount then .error .notEnough else
  match checkedSub g.supply amount with
  | none => .error .internal
  | some s => .ok ({ g with supply := s },
                   { u with amount := u.amount - amount, rank := rankScan g.ranks (u.amount - amount) })

/-- `GtState::get_mint_amount`: `(minted, minted_value, minting_cost)`. -/
def getMintAmount (g : Gt) (value : Nat) : Except GErr (Nat × Nat × Nat) :=
  if g.mintingCost = 0 then .error .config else
  match toU 64 (value / g.mintingCost) with
  | none => .error .overflow
  | some m => .ok (m, value - value % g.mintingCost, g.mintingCost)

/-- `get_time_window_index`: Rust `i64 /` truncates toward zero. -/
def windowIndex (ts tw : Int) : Int := Int.tdiv ts tw

/-- `GtExchangeVault::init`. -/
def vaultInit (v : Vault) (now : Int) (tw : Nat) : Except GErr Vault :=
  if v.initialized then .error .precond
  else if tw = 0 then .error .arg
  else .ok { v with initialized := true, ts := now, timeWindow := tw }

/-- `GtExchangeVault::validate_confirmable`. -/
def validateConfirmable (v : Vault) (now : Int) : Except GErr Unit :=
  if !v.initialized then .error .precond
  else if v.confirmed then .error .precond
  else if v.timeWindow = 0 then .error .divZero
  else if windowIndex now v.timeWindow > windowIndex v.ts v.timeWindow then .ok ()
  else .error .precond

/-- `GtExchangeVault::validate_depositable`. -/
def validateDepositable (v : Vault) (now : Int) : Except GErr Unit :=
  if v.confirmed then .error .precond
  else if v.timeWindow = 0 then .error .divZero
  else if windowIndex now v.timeWindow = windowIndex v.ts v.timeWindow then .ok ()
  else .error .arg

/-- `GtState::unchecked_request_exchange` (all-or-nothing: the instruction reverts on error). -/
def requestExchange (g : Gt) (u : User) (v : Vault) (now : Int) (amount : Nat) :
    Except GErr (Gt × User × Vault) :=
  if !v.initialized then .error .arg else
  match burnFrom g u amount with
  | .error e => .error e
  | .ok (g1, u1) =>
    match validateDepositable v now with
    | .error e => .error e
    | .ok () =>
      match checkedAdd 64 v.amount amount with
      | none => .error .overflow
      | some va =>
        match checkedAdd 64 u1.exchange amount with
        | none => .error .overflow
        | some xa => .ok (g1, { u1 with exchange := xa }, { v with amount := va })

/-- `GtState::unchecked_confirm_exchange_vault`: returns the confirmed amount. -/
def confirmVault (g : Gt) (v : Vault) (now : Int) : Except GErr (Gt × Vault × Nat) :=
  if !v.initialized then .error .arg else
  match validateConfirmable v now with
  | .error e => .error e
  | .ok () =>
    if v.amount = 0 then .ok (g, { v with confirmed := true }, 0)
    else match checkedAdd 64 g.gtVault v.amount with
      | none => .error .overflow
      | some gv => .ok ({ g with gtVault := gv }, { v with confirmed := true }, v.amount)

/-! ### Worlds and histories -/

structure World where
  g : Gt := {}
  users : List User := []
  vault : Vault := {}
  deriving Repr, DecidableEq

inductive Op where
  | mint (now : Int) (uid amount : Nat)
  | burn (uid amount : Nat)
  | mintValue (now : Int) (uid value : Nat)
  | vaultInit (now : Int) (tw : Nat)
  | request (now : Int) (uid amount : Nat)
  | confirm (now : Int)
  deriving Repr

def setUser (us : List User) (i : Nat) (u : User) : List User := us.set i u

/-- one instruction; `.error` leaves the world unchanged (transaction reverts). -/
def stepE (U : Nat) (w : World) : Op → Except GErr World
  | .mint now uid amount =>
    match w.users[uid]? with
    | none => .error .arg
    | some u => match mintTo U now w.g u amount with
      | .error e => .error e
      | .ok (g, u') => .ok { w with g := g, users := setUser w.users uid u' }
  | .burn uid amount =>
    match w.users[uid]? with
    | none => .error .arg
    | some u => match burnFrom w.g u amount with
      | .error e => .error e
      | .ok (g, u') => .ok { w with g := g, users := setUser w.users uid u' }
  | .mintValue now uid value =>
    match w.users[uid]? with
    | none => .error .arg
    | some u => match getMintAmount w.g value with
      | .error e => .error e
      | .ok (m, _, _) => match mintTo U now w.g u m with
        | .error e => .error e
        | .ok (g, u') => .ok { w with g := g, users := setUser w.users uid u' }
  | .vaultInit now tw =>
    match vaultInit w.vault now tw with
    | .error e => .error e
    | .ok v => .ok { w with vault := v }
  | .request now uid amount =>
    match w.users[uid]? with
    | none => .error .arg
    | some u => match requestExchange w.g u w.vault now amount with
      | .error e => .error e
      | .ok (g, u', v) => .ok { g := g, users := setUser w.users uid u', vault := v }
  | .confirm now =>
    match confirmVault w.g w.vault now with
    | .error e => .error e
    | .ok (g, v, _) => .ok { w with g := g, vault := v }

def step (U : Nat) (w : World) (op : Op) : World :=
  match stepE U w op with
  | .ok w' => w'
  | .error _ => w

def run (U : Nat) (w : World) (ops : List Op) : World := ops.foldl (step U) w

def sumAmounts (us : List User) : Nat := (us.map (·.amount)).sum
def sumExchange (us : List User) : Nat := (us.map (·.exchange)).sum

end Gmx.Gt
