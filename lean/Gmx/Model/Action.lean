/-!
# Gmx.Model.Action — action lifecycle (deposits, withdrawals, shifts, orders, GLV actions)

`crates/utils/src/action.rs` (`ActionState`), `programs/store/src/states/common/action.rs`
(`ActionHeader::{completed,cancelled}`), `programs/store/src/utils/internal/action.rs`
(`Close::preprocess`, `Close::close`), and the common shape of the `execute_*` handlers
(`instructions/exchange/execute_*.rs`: transfer escrow in → perform execution → `completed()` or
`cancelled()` + transfer escrow back → pay execution fee).
-/
namespace Gmx

inductive AState where
  | pending | completed | cancelled
  deriving Repr, DecidableEq

/-- `ActionState::completed`. -/
def AState.complete : AState → Option AState
  | .pending => some .completed
  | _ => none

/-- `ActionState::cancelled`. -/
def AState.cancel : AState → Option AState
  | .pending => some .cancelled
  | _ => none

def AState.terminal : AState → Bool
  | .pending => false
  | _ => true

inductive CloseDecision where
  | asOwner | asKeeper | denied
  deriving Repr, DecidableEq

/-- `Close::preprocess`: the owner may always close; otherwise the caller needs the keeper role
and the action must be terminal (unless the instruction skips the completion check). -/
def closePreprocess (isOwner hasRole : Bool) (s : AState) (skip : Bool) : CloseDecision :=
  if isOwner then .asOwner
  else if !hasRole then .denied
  else if skip || s.terminal then .asKeeper
  else .denied

/-- who signs a close: the action's owner, the funds receiver recorded in the header (which falls back to
the owner when none is set), or anybody else -/
inductive Caller where
  | owner | receiver | other
  deriving DecidableEq, Repr

/-- the ownership test of `Close::preprocess` compares the signer with `header.owner` — NOT with the
receiver: a distinct receiver is a stranger as far as closing is concerned -/
def callerIsOwner (who : Caller) (receiverDistinct : Bool) : Bool :=
  match who with
  | .owner => true
  | .receiver => !receiverDistinct
  | .other => false

def closePreprocessBy (who : Caller) (receiverDistinct hasRole : Bool) (s : AState) (skip : Bool) : CloseDecision :=
  closePreprocess (callerIsOwner who receiverDistinct) hasRole s skip

/-- one action together with the token/lamport holders it interacts with -/
structure ActWorld where
  state : AState
  closed : Bool
  escrow : Nat          -- tokens in the action's escrow accounts
  lamports : Nat        -- execution fee held by the action account
  ownerTokens : Nat
  ownerLamports : Nat
  keeperLamports : Nat
  vault : Nat           -- market vault
  marketWrites : Nat    -- number of committed market writes
  deriving Repr, DecidableEq

inductive Outcome where
  | success (out : Nat)   -- executed; `out` tokens are delivered to the escrow
  | soft                  -- soft failure (expired prices, slippage): cancel
  | hard                  -- hard failure: the transaction aborts
  deriving Repr, DecidableEq

inductive ActOp where
  | execute (o : Outcome) (fee : Nat)
  | close (isOwner hasRole skip : Bool)
  deriving Repr, DecidableEq

def payFee (w : ActWorld) (fee : Nat) : ActWorld :=
  let paid := if fee ≤ w.lamports then fee else w.lamports
  { w with lamports := w.lamports - paid, keeperLamports := w.keeperLamports + paid }

/-- one instruction; `none` = the transaction failed (state unchanged by runtime atomicity). -/
def actStep (w : ActWorld) : ActOp → Option ActWorld
  | .execute o fee =>
    if w.closed then none else
    -- escrow is moved into the market vault first
    let w1 := { w with vault := w.vault + w.escrow, escrow := 0 }
    match o with
    | .hard => none
    | .success out =>
      match w.state.complete with
      | none => none
      | some s => some (payFee { w1 with state := s, escrow := out, vault := w1.vault - w.escrow,
                                         marketWrites := w.marketWrites + 1 } fee)
    | .soft =>
      match w.state.cancel with
      | none => none
      | some s => some (payFee { w1 with state := s, escrow := w.escrow, vault := w.vault } fee)
  | .close isOwner hasRole skip =>
    if w.closed then none else
    match closePreprocess isOwner hasRole w.state skip with
    | .denied => none
    | _ => some { w with closed := true, escrow := 0, lamports := 0,
                         ownerTokens := w.ownerTokens + w.escrow,
                         ownerLamports := w.ownerLamports + w.lamports }

/-- failed instructions leave the world unchanged -/
def actStep' (w : ActWorld) (op : ActOp) : ActWorld := (actStep w op).getD w

def actRun (w : ActWorld) (ops : List ActOp) : ActWorld := ops.foldl actStep' w

end Gmx
