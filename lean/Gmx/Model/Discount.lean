import Gmx.Model.Num
/-!
# Gmx.Model.Discount — order-fee discount (C31)

Transcriptions of
* `GtState::set_order_fee_discount_factors` / `GtState::order_fee_discount_factor`
  (`programs/store/src/states/gt.rs`),
* `Store::order_fee_discount_factor` (`programs/store/src/states/store.rs`) — `programDiscount`,
* the SDK copy `Store::order_fee_discount_factor` (`crates/programs/src/utils/store.rs`) —
  `sdkDiscount`.

`U` is `MARKET_USD_UNIT` (10^20 on chain), all factor arithmetic is `u128`.
The factor table has `MAX_RANK + 1 = 16` slots; `factors[rank]?` returning `none` models the
(unreachable when `maxRank ≤ 15`) index panic.
-/
namespace Gmx.Discount
open Gmx

inductive DErr where
  | rank        -- rank above max rank
  | complement  -- `UNIT - referral` underflow
  | overflow    -- `apply_factor` / `checked_add` overflow
  | index       -- slice index panic
  | arg         -- setter: wrong length or a factor above 100 %
  deriving Repr, DecidableEq

/-- `GtState::set_order_fee_discount_factors`: the first `maxRank + 1` slots are overwritten. -/
def setFactors (U maxRank : Nat) (cur fs : List Nat) : Except DErr (List Nat) :=
  if fs.length ≠ maxRank + 1 then .error .arg
  else if fs.all (fun f => decide (f ≤ U)) then
    if fs.length ≤ cur.length then .ok (fs ++ cur.drop fs.length) else .error .index
  else .error .arg

/-- `GtState::order_fee_discount_factor`. -/
def rankFactor (maxRank : Nat) (factors : List Nat) (rank : Nat) : Except DErr Nat :=
  if maxRank < rank then .error .rank
  else match factors[rank]? with
    | none => .error .index
    | some a => .ok a

/-- `B + ⌊A·(U − B)/U⌋` with the code's checked steps (`A` rank discount, `B` referral). -/
def combine (U a b : Nat) : Except DErr Nat :=
  match checkedSub U b with
  | none => .error .complement
  | some c =>
    match applyFactor 128 U a c with
    | none => .error .overflow
    | some f =>
      match checkedAdd 128 b f with
      | none => .error .overflow
      | some d => .ok d

/-- program: `Store::order_fee_discount_factor`. -/
def programDiscount (U maxRank : Nat) (factors : List Nat) (referral rank : Nat)
    (isReferred : Bool) : Except DErr Nat :=
  match rankFactor maxRank factors rank with
  | .error e => .error e
  | .ok a => if isReferred then combine U a referral else .ok a

/-- SDK: `gmsol_programs::…::Store::order_fee_discount_factor` (feature `model`), transcribed
separately: explicit `rank > max_rank` test, direct indexing, then the same checked chain. -/
def sdkDiscount (U maxRank : Nat) (factors : List Nat) (referral rank : Nat)
    (isReferred : Bool) : Except DErr Nat :=
  if rank > maxRank then .error .rank
  else
    match factors[rank]? with
    | none => .error .index
    | some a =>
      if isReferred then
        if referral ≤ U then
          let c := U - referral
          match (if U = 0 then none else toU 128 (a * c / U)) with
          | none => .error .overflow
          | some f => if referral + f < 2 ^ 128 then .ok (referral + f) else .error .overflow
        else .error .complement
      else .ok a

end Gmx.Discount
