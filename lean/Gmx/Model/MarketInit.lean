import Gmx.Gen.MarketConfig
import Gmx.Gen.Pools
/-!
# Executable model of `Market::init` over the generated tables (C17)

`Market::default()` is `Zeroable::zeroed()`; `Market::init` then
  * computes `is_pure := long_token_mint == short_token_mint` (`Gen.MarketConfig.marketInitPure`),
  * runs `Pools::init(is_pure)` = the generated `initPurity` list of `set_is_pure` calls
    (`set_is_pure` writes only the `is_pure` byte),
  * runs `MarketConfig::init()` = the generated `initAssign` / `initFlags` lists.
Everything here is a function of the generated tables, so it follows the source on every run.
-/
namespace Gmx.MarketInit
open Gmx.Gen.MarketConfig Gmx.Gen.Pools

/-- value of a factor field right after `MarketConfig::init` on a zeroed config
(`none` = the constant has no numeric value; an unassigned field stays zero). -/
def fieldAfterInit (f : Field) : Option Nat :=
  match initAssign f with
  | some c => c.nat?
  | none => some 0

/-- what `get_config(key)` returns right after init (`none` = key not implemented). -/
def keyAfterInit (k : Key) : Option Nat :=
  match getField k with
  | some f => fieldAfterInit f
  | none => none

/-- flag value after init: the last `set_flag` for that flag, else `false` (zeroed). -/
def flagAfterInit (x : Flag) : Option Bool :=
  match (initFlags.reverse.find? (fun p => p.1 == x)) with
  | some (_, c) => c.bool?
  | none => some false

structure Pool where
  isPure : Bool
  long : Nat
  short : Nat
  deriving DecidableEq, Repr

def Pool.zeroed : Pool := ⟨false, 0, 0⟩

/-- `Pool::set_is_pure` -/
def Pool.setIsPure (p : Pool) (b : Bool) : Pool := { p with isPure := b }

abbrev Pools := PoolField → Pool

def purityEval (isPure : Bool) : PurityArg → Bool
  | .param => isPure
  | .const b => b

/-- run a list of `self.<field>.set_is_pure(arg)` statements -/
def runInit (isPure : Bool) : List (PoolField × PurityArg) → Pools → Pools
  | [], ps => ps
  | (f, a) :: rest, ps =>
    runInit isPure rest (fun g => if g = f then (ps g).setIsPure (purityEval isPure a) else ps g)

/-- `is_pure` as computed by `Market::init` from the two token mints. -/
def isPureOf (long short : Nat) : Bool :=
  match marketInitPure with
  | .tokensEqual => long == short

/-- the pools of `Market::default()` after `init` with the given long/short token ids -/
def poolsAfterInit (long short : Nat) : Pools :=
  runInit (isPureOf long short) initPurity (fun _ => Pool.zeroed)

/-- pool observed through `Market::pool(kind)` after init -/
def poolOfKindAfterInit (long short : Nat) (k : Kind) : Option Pool :=
  (poolGet k).map (poolsAfterInit long short)

end Gmx.MarketInit
