/-!
# The SDK's scoped swap-pricing setter (`MarketModel::with_swap_pricing`) — C40

`with_swap_pricing(kind, f)`: save the model's pricing kind, set `kind`, run `f` on the model, restore the
saved kind (an RAII guard: also when `f` fails). The program has no such state: its `RevertibleMarket`
is created per operation with the kind the operation asks for. The swap fee factors a model applies
depend on the kind in force: `Shift` zeroes them (generated table `sdkWiring`, rows
`swap_pricing_Shift`), every other kind uses the configured ones.
-/
namespace Gmx.SwapPricing

inductive PKind where
  | swap
  | deposit
  | withdrawal
  | shift
  deriving DecidableEq, Repr

/-- a long-lived SDK model: its resting pricing kind and the rest of its state -/
structure Model (σ : Type) where
  pricing : PKind
  st : σ

/-- save / set / run / restore -/
def withSwapPricing {σ α : Type} (k : PKind) (f : Model σ → Model σ × α) (m : Model σ) : Model σ × α :=
  let orig := m.pricing
  let r := f { m with pricing := k }
  ({ r.1 with pricing := orig }, r.2)

/-- swap fee factors (positive impact, negative impact) applied under a pricing kind -/
def feeFactors (pos neg : Nat) : PKind → Nat × Nat
  | .shift => (0, 0)
  | _ => (pos, neg)

/-! ## histories: what the driver replays -/

inductive Step where
  /-- `-:op` an operation under the model's resting kind -/
  | plain
  /-- `K:op` an operation inside `with_swap_pricing(K, ..)` -/
  | scoped (k : PKind)
  /-- `K>J:op` nested scopes -/
  | nested (k j : PKind)
  /-- `K!` a scope whose closure fails without running an operation -/
  | failing (k : PKind)
  deriving DecidableEq, Repr

/-- the operation itself: reports the fee factors in force (the model's other state is irrelevant here) -/
def opStep (pos neg : Nat) (m : Model Unit) : Model Unit × Option (Nat × Nat) :=
  (m, some (feeFactors pos neg m.pricing))

def runStep (pos neg : Nat) (m : Model Unit) : Step → Model Unit × Option (Nat × Nat)
  | .plain => opStep pos neg m
  | .scoped k => withSwapPricing k (opStep pos neg) m
  | .nested k j => withSwapPricing k (withSwapPricing j (opStep pos neg)) m
  | .failing k => withSwapPricing k (fun m' => (m', none)) m

/-- fee factors used by the operation steps of a history, in order -/
def runHistory (pos neg : Nat) : Model Unit → List Step → List (Nat × Nat)
  | _, [] => []
  | m, s :: rest =>
    let r := runStep pos neg m s
    match r.2 with
    | some f => f :: runHistory pos neg r.1 rest
    | none => runHistory pos neg r.1 rest

end Gmx.SwapPricing
