/-!
# Gmx.Model.Competition — `programs/competition/src/instructions/trade_callback.rs`

Transcription of `OnExecuted::invoke`, `extend_competition_time` and `update_leaderboard`
(plus the participant creation of `instructions/participant.rs`). Traders are `Nat` ids,
`u128` volumes are `Nat` with saturating addition at `2^128-1`, `i64` times are `Int` with
saturating add/sub. Core only.
-/
namespace Gmx.Comp

def U128MAX : Nat := 2 ^ 128 - 1
def I64MAX : Int := 2 ^ 63 - 1
def I64MIN : Int := -(2 ^ 63)
def MAXLEN : Nat := 5

/-- `u128::saturating_add`. -/
def satAddU (a b : Nat) : Nat := if a + b ≤ U128MAX then a + b else U128MAX

def clampI (z : Int) : Int := if z > I64MAX then I64MAX else if z < I64MIN then I64MIN else z
/-- `i64::saturating_add` / `saturating_sub`. -/
def satAddI (a b : Int) : Int := clampI (a + b)
def satSubI (a b : Int) : Int := clampI (a - b)

structure Entry where
  addr : Nat
  vol : Nat
  deriving DecidableEq, Repr

structure Part where
  vol : Nat
  last : Int
  merged : Nat
  deriving DecidableEq, Repr

structure Competition where
  start : Int
  end_ : Int
  board : List Entry
  threshold : Nat
  ext : Int
  cap : Int
  triggerer : Option Nat
  onlyInc : Bool
  window : Int

structure St where
  comp : Competition
  parts : Nat → Option Part

def isOngoing (c : Competition) (now : Int) : Bool := decide (now ≥ c.start) && decide (now ≤ c.end_)

/-- `proposed.min(max_end).max(old)` with saturating additions. -/
def extendEnd (old ext cap now : Int) : Int :=
  let proposed := satAddI old ext
  let maxEnd := satAddI now cap
  let m := if proposed ≤ maxEnd then proposed else maxEnd
  if m ≥ old then m else old

def extend (c : Competition) (now : Int) (t : Nat) : Competition :=
  { c with end_ := extendEnd c.end_ c.ext c.cap now, triggerer := some t }

/-- `leaderboard.iter().position(|e| e.address == trader)` then `remove(pos)`. -/
def removeAddr (t : Nat) : List Entry → List Entry
  | [] => []
  | e :: es => if e.addr = t then es else e :: removeAddr t es

/-- `iter().rposition(|e| e.volume >= v).map(|p| p + 1).unwrap_or(0)`. -/
def insertPos : List Entry → Nat → Nat
  | [], _ => 0
  | e :: es, v =>
    let r := insertPos es v
    if r > 0 then r + 1 else if e.vol ≥ v then 1 else 0

/-- `Vec::insert(pos, e)`; `pos ≤ len` always holds for `insertPos` (Rust would panic otherwise). -/
def insertAt (e : Entry) : Nat → List Entry → List Entry
  | 0, l => e :: l
  | _ + 1, [] => [e]
  | n + 1, x :: xs => x :: insertAt e n xs

/-- `update_leaderboard`. -/
def updateBoard (board : List Entry) (t v : Nat) : List Entry :=
  let b1 := removeAddr t board
  let pos := insertPos b1 v
  if pos < MAXLEN then (insertAt ⟨t, v⟩ pos b1).take MAXLEN else b1

/-- merge-window decision of the closure passed to `with_participant`: (extend?, new merged volume). -/
def mergeDecision (c : Competition) (p : Part) (now : Int) (volume : Nat) : Bool × Nat :=
  let timeDiff := satSubI now p.last
  if timeDiff ≤ c.window then
    let m := satAddU p.merged volume
    if m ≥ c.threshold then (true, 0) else (false, m)
  else
    if volume ≥ c.threshold then (true, 0) else (false, volume)

/-- The closure passed to `with_participant`. -/
def applyTrade (c : Competition) (p : Part) (t : Nat) (now : Int) (volume : Nat) : Competition × Part :=
  let vol' := satAddU p.vol volume
  let d := mergeDecision c p now volume
  let c1 := if d.1 then extend c now t else c
  ({ c1 with board := updateBoard c1.board t vol' }, ⟨vol', now, d.2⟩)

/-- counted volume of a trade event. -/
def tradeVolume (onlyInc : Bool) (before after : Nat) : Nat :=
  if onlyInc then after - before else if after ≥ before then after - before else before - after

def setPart (s : St) (t : Nat) (p : Part) : St :=
  { s with parts := fun u => if u = t then some p else s.parts u }

/-- `create_participant_idempotent`. -/
def create (s : St) (t : Nat) (now : Int) : St :=
  match s.parts t with
  | some _ => s
  | none => setPart s t ⟨0, now, 0⟩

def ORDER_KIND : Nat := 3

/-- `OnExecuted::invoke`. `ev = some (user, before, after)` is the trade event account.
`none` result = the instruction failed (state unchanged on chain). -/
def onExecuted (s : St) (t : Nat) (now : Int) (kind ver extra : Nat) (success : Bool)
    (ev : Option (Nat × Nat × Nat)) : Option St :=
  if ver ≠ 0 then none else
  if kind ≠ ORDER_KIND then none else
  if extra < 2 then none else
  if !success then some s else
  if !isOngoing s.comp now then some s else
  match ev with
  | none => some s
  | some (user, before, after) =>
    if user ≠ t then none else
    let volume := tradeVolume s.comp.onlyInc before after
    if volume = 0 then some s else
    match s.parts t with
    | none => none
    | some p =>
      let (c', p') := applyTrade s.comp p t now volume
      some (setPart { s with comp := c' } t p')

def volOf (s : St) (t : Nat) : Nat := match s.parts t with | some p => p.vol | none => 0

/-- Operations of a history. -/
inductive Op where
  | create (t : Nat) (now : Int)
  | trade (t : Nat) (now : Int) (kind ver extra : Nat) (success : Bool) (ev : Option (Nat × Nat × Nat))

def step (s : St) : Op → St
  | .create t now => create s t now
  | .trade t now kind ver extra success ev => (onExecuted s t now kind ver extra success ev).getD s

def run (s : St) (ops : List Op) : St := ops.foldl step s

def init (start end_ : Int) (threshold : Nat) (ext cap : Int) (onlyInc : Bool) (window : Int) : St :=
  { comp := ⟨start, end_, [], threshold, ext, cap, none, onlyInc, window⟩, parts := fun _ => none }

/-! ## closing participant accounts (`close_participant`) -/

/-- `close_participant`: the trader closes their own participant account; the guard is
`now < start_time || now > end_time` (so `end_time` itself still belongs to the competition, exactly as in
`is_ongoing`). The volume record disappears; the competition account — the board — is not touched. -/
def close (s : St) (t : Nat) (now : Int) : Option St :=
  if ¬ (now < s.comp.start ∨ now > s.comp.end_) then none else
  match s.parts t with
  | none => none
  | some _ => some { s with parts := fun u => if u = t then none else s.parts u }

/-- histories with closes. -/
inductive Op2 where
  | op (o : Op)
  | close (t : Nat) (now : Int)

def op2Now : Op2 → Int
  | .op (.create _ now) => now
  | .op (.trade _ now _ _ _ _ _) => now
  | .close _ now => now

def step2 (s : St) : Op2 → St
  | .op o => step s o
  | .close t now => (close s t now).getD s

def run2 (s : St) (ops : List Op2) : St := ops.foldl step2 s

/-- every instruction of the history runs at a clock at which the competition (with the end time as extended so far)
is ongoing. -/
def OngoingHist : St → List Op2 → Prop
  | _, [] => True
  | s, o :: rest => isOngoing s.comp (op2Now o) = true ∧ OngoingHist (step2 s o) rest

end Gmx.Comp
