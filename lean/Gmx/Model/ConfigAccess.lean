import Gmx.Gen.MarketConfig
import Gmx.Gen.Pools
import Gmx.Gen.Wiring
import Gmx.Gen.StoreKeys
/-!
# Abstract record semantics of the config accessors over the generated tables (C16, C40, C20)

`MarketConfig` is a record of factor fields plus a bitmap of flags. `get`/`get_mut` go through the
generated key→field tables; model parameters are read through the generated wiring rows, the
closed-market helper switches and `use_market_closed_params`.
-/
namespace Gmx.ConfigAccess
open Gmx.Gen.MarketConfig Gmx.Gen.Pools Gmx.Gen.Wiring

/-- the config record: factor fields and the flag bitmap (bit index ↦ value) -/
structure Cfg where
  factor : Field → Nat
  bits : Nat → Bool

def Cfg.zero : Cfg := ⟨fun _ => 0, fun _ => false⟩

/-- `MarketConfig::get(key).copied()` -/
def Cfg.get (c : Cfg) (k : Key) : Option Nat := (getField k).map c.factor

/-- `*MarketConfig::get_mut(key)? = v` -/
def Cfg.set (c : Cfg) (k : Key) (v : Nat) : Option Cfg :=
  match getMutField k with
  | some f => some { c with factor := fun g => if g = f then v else c.factor g }
  | none => none

/-- `flag(x)`: bitmap lookup at the flag's index -/
def Cfg.flag (c : Cfg) (x : Flag) : Bool := c.bits x.bit

/-- `set_flag(x, b)` -/
def Cfg.setFlag (c : Cfg) (x : Flag) (b : Bool) : Cfg :=
  { c with bits := fun i => if i = x.bit then b else c.bits i }

/-- `use_market_closed_params(is_market_closed)` -/
def Cfg.useClosed (c : Cfg) (closed : Bool) : Bool := closed && c.flag useClosedFlag

inductive Val where
  | num (n : Nat)
  | opt (o : Option Nat)
  | bool (b : Bool)
  deriving DecidableEq, Repr

def Cfg.readAtom (c : Cfg) : Atom → Val
  | .field f => .num (c.factor f)
  | .flag x => .bool (c.flag x)

/-- value of a helper switch call `self.config.h(<side>, self.is_closed())`, for either table -/
def Cfg.readHelper (c : Cfg) (eval : Helper → Bool → Bool → Atom) (optnz : Helper → Bool)
    (closed : Bool) (h : Helper) (side : Option Bool) : Val :=
  match c.readAtom (eval h (c.useClosed closed) (side.getD true)) with
  | .num n => if optnz h then .opt (if n = 0 then none else some n) else .num n
  | v => v

/-- what a wiring source evaluates to (`none`: not a config value — pools, constants, model state) -/
def Cfg.readSrc (c : Cfg) (eval : Helper → Bool → Bool → Atom) (optnz : Helper → Bool) (closed : Bool) :
    Src → Option Val
  | .field f => some (.num (c.factor f))
  | .flag x => some (.bool (c.flag x))
  | .helper h side => some (c.readHelper eval optnz closed h side)
  | .lit n => some (.num n)
  | _ => none

def findRow (rows : List Row) (m : Method) (v : Variant) (side : Option Bool) (p : Param) : Option Row :=
  rows.find? (fun r => r.method == m && r.variant == v && r.side == side && r.param == p)

/-- program side: read a model parameter -/
def Cfg.readParam (c : Cfg) (closed : Bool) (m : Method) (v : Variant) (side : Option Bool) (p : Param) : Option Val :=
  (findRow progWiring m v side p).bind fun r => c.readSrc Helper.eval Helper.optNonzero closed r.src

/-- SDK side: read a model parameter through the SDK's own tables -/
def Cfg.readParamSdk (c : Cfg) (closed : Bool) (m : Method) (v : Variant) (side : Option Bool) (p : Param) : Option Val :=
  (findRow sdkWiring m v side p).bind fun r => c.readSrc sdkHelperEval sdkHelperOptNonzero closed r.src

/-- the config the harness builds: every key (in enum order) is written with `base + index` -/
def fillFrom (base : Nat) : List Key → Cfg → Cfg
  | [], c => c
  | k :: ks, c => fillFrom base ks ((c.set k (base + k.index)).getD c)

def sentinelCfg (base : Nat) : Cfg := fillFrom base Key.all Cfg.zero

/-! ## store keys: three independent small records -/
open Gmx.Gen.StoreKeys in
structure StoreCfg where
  amount : AmountField → Nat
  factor : FactorField → Nat
  address : AddressField → Nat


section store
open Gmx.Gen.StoreKeys

def StoreCfg.zero : StoreCfg := ⟨fun _ => 0, fun _ => 0, fun _ => 0⟩

/-- `Store::get_amount` -/
def StoreCfg.getAmount (s : StoreCfg) (k : AmountKey) : Option Nat := (amountGet k).map s.amount
/-- `*Store::get_amount_mut(key)? = v` (`none`: refused by the guard or unimplemented) -/
def StoreCfg.setAmount (s : StoreCfg) (k : AmountKey) (v : Nat) : Option StoreCfg :=
  if amountWriteForbidden.contains k then none else
  match amountGetMut k with
  | some f => some { s with amount := fun g => if g = f then v else s.amount g }
  | none => none

def StoreCfg.getFactor (s : StoreCfg) (k : FactorKey) : Option Nat := (factorGet k).map s.factor
def StoreCfg.setFactor (s : StoreCfg) (k : FactorKey) (v : Nat) : Option StoreCfg :=
  if factorWriteForbidden.contains k then none else
  match factorGetMut k with
  | some f => some { s with factor := fun g => if g = f then v else s.factor g }
  | none => none

def StoreCfg.getAddress (s : StoreCfg) (k : AddressKey) : Option Nat := (addressGet k).map s.address
def StoreCfg.setAddress (s : StoreCfg) (k : AddressKey) (v : Nat) : Option StoreCfg :=
  if addressWriteForbidden.contains k then none else
  match addressGetMut k with
  | some f => some { s with address := fun g => if g = f then v else s.address g }
  | none => none

end store

/-- CamelCase → snake_case on ASCII codes (the independent naming oracle): an underscore before
every upper-case letter except the first, then lower-case. -/
def snakeOf : List Nat → List Nat
  | [] => []
  | c :: cs =>
    let low := fun n => if 65 ≤ n ∧ n ≤ 90 then n + 32 else n
    low c :: cs.flatMap (fun n => if 65 ≤ n ∧ n ≤ 90 then [95, n + 32] else [n])

end Gmx.ConfigAccess
