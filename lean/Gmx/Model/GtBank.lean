import Gmx.Model.Num
/-!
# Gmx.Model.GtBank — treasury factors and GT-bank claims

`programs/treasury/src/states/config.rs` (`set_gt_factor`, `set_buyback_factor`),
`states/gt_bank.rs` (`confirm_unchecked`, `reserve_balances`, `record_transferred_out`,
`record_claimed`) and the payout loop of `CompleteGtExchange::execute`
(`instructions/gt_bank.rs`). Balances are listed per token slot in the bank's (sorted) token order.
-/
namespace Gmx.GtBank
open Gmx

def UNIT : Nat := 10 ^ 20

inductive SetErr where
  | invalidArgument | preconditionsNotMet
  deriving DecidableEq, Repr

/-- `Config::set_gt_factor` / `set_buyback_factor`: `(new value, returned previous value)`. -/
def setFactor (cur f : Nat) : Except SetErr (Nat × Nat) :=
  if UNIT < f then .error .invalidArgument
  else if cur = f then .error .preconditionsNotMet
  else .ok (f, cur)

structure Bank where
  confirmed : Bool
  remaining : Nat
  balances : List Nat
  deriving DecidableEq, Repr

/-- `confirm_unchecked`. -/
def confirm (b : Bank) (g : Nat) : Option Bank :=
  if b.confirmed then none else some { b with confirmed := true, remaining := g }

/-- one slot of `reserve_balances`. -/
def reserveOne (num den bal : Nat) : Option Nat :=
  if bal = 0 then some 0 else
  match mulDiv 128 bal num den with
  | none => none
  | some r => if r < 2 ^ 64 then (if r ≤ bal then some r else none) else none

def reserveAll (num den : Nat) : List Nat → Option (List Nat)
  | [] => some []
  | bal :: rest =>
    match reserveOne num den bal, reserveAll num den rest with
    | some x, some xs => some (x :: xs)
    | _, _ => none

/-- `reserve_balances` (transaction-level: an error leaves the bank unchanged). -/
def reserve (b : Bank) (num den : Nat) : Option Bank :=
  if den < num then none else
  match reserveAll num den b.balances with
  | none => none
  | some bs => some { b with balances := bs }

/-- one token of the payout loop: `(amount, new balance, number of transfer CPIs)`. -/
def claimOne (g R bal : Nat) : Option (Nat × Nat × Nat) :=
  if bal = 0 then some (0, 0, 0) else
  match mulDiv 64 bal g R with
  | none => none
  | some a =>
    if a = 0 then some (0, bal, 1)          -- `record_transferred_out(_, 0)` returns early
    else if a ≤ bal then some (a, bal - a, 1) else none

def claimAll (g R : Nat) : List Nat → Option (List (Nat × Nat × Nat))
  | [] => some []
  | bal :: rest =>
    match claimOne g R bal, claimAll g R rest with
    | some x, some xs => some (x :: xs)
    | _, _ => none

/-- `CompleteGtExchange::execute` after the (modelled) `close_gt_exchange` CPI:
`(new bank, number of transfers, per-token amounts)`. -/
def claim (b : Bank) (g : Nat) : Option (Bank × Nat × List Nat) :=
  if g = 0 then some (b, 0, b.balances.map (fun _ => 0))
  else if b.remaining < g then none
  else
    match claimAll g b.remaining b.balances with
    | none => none
    | some rs =>
      some ({ b with balances := rs.map (·.2.1), remaining := b.remaining - g },
            (rs.map (·.2.2)).sum, rs.map (·.1))

/-- `CompleteGtExchange` accounts: `gt_bank` has `has_one = gt_exchange_vault`, and the store's `close_gt_exchange` CPI
requires the exchange to belong to that same vault account — so the bank that pays is the bank of the exchange's own
vault. `bankVault` = the vault recorded in the supplied bank, `exVault` = the vault of the exchange being completed. -/
def claimWith (bankVault exVault : Nat) (b : Bank) (g : Nat) : Option (Bank × Nat × List Nat) :=
  if bankVault ≠ exVault then none else claim b g

/-- a history of claim attempts; failed ones change nothing. Returns the final bank and the
trace `(gt amount, per-token payouts)` of the successful ones. -/
def runClaims (b : Bank) : List Nat → Bank × List (Nat × List Nat)
  | [] => (b, [])
  | g :: gs =>
    match claim b g with
    | none => runClaims b gs
    | some (b', _, amts) =>
      let r := runClaims b' gs
      (r.1, (g, amts) :: r.2)

end Gmx.GtBank
