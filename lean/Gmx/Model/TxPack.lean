/-!
# Gmx.Model.TxPack — transaction packing of `crates/solana-utils`

* `transaction_group.rs`: `TransactionGroupOptions::{optimizable, optimize}`,
  `TransactionGroup::{validate_one, add, optimize}`;
* `instruction_group.rs`: `AtomicGroup::{merge, instructions_with_options, transaction_size,
  transaction_size_after_merge}`, `ParallelGroup::optimize`;
* `utils/transaction_size.rs`: `transaction_size_with_luts` (`estimate`);
* a model of the Solana wire format (`wireLen`): bincode of a `VersionedTransaction` with a v0
  message compiled by `v0::Message::try_compile`, or of a legacy `Transaction`.

Public keys are `Nat`s.  A Rust `HashSet<Pubkey>` ⊆ the transaction's key universe is modelled by
its membership predicate evaluated over the duplicate-free universe `keysOf`; cardinalities are
`countP`.  Compute budgets, owned signers and blockhashes do not influence packing or sizes and
are not modelled (the two compute-budget instructions always have 5 and 9 data bytes).
Core only.
-/
namespace Gmx.TxPack

structure Meta where
  key : Nat
  signer : Bool
  writable : Bool
  deriving Repr, DecidableEq

structure Ix where
  id : Nat          -- identity tag (first four data bytes in the harness)
  prog : Nat
  metas : List Meta
  dataLen : Nat
  deriving Repr, DecidableEq

/-- reserved keys of the line protocol -/
def DEFAULT_KEY : Nat := 0
def CB_PROG : Nat := 1000001
def MEMO_PROG : Nat := 1000002

/-! ### Size estimate and wire format -/

/-- `get_size_of_compressed_u16` = length of Solana's compact-u16 (`short_vec`) encoding. -/
def compactLen (n : Nat) : Nat := if n ≤ 127 then 1 else if n ≤ 16383 then 2 else 3

def insertKey (k : Nat) (s : List Nat) : List Nat := if s.contains k then s else s ++ [k]

/-- the duplicate-free key universe: payer, then per instruction the program and its accounts. -/
def keysOf (payer : Nat) (ixs : List Ix) : List Nat :=
  ixs.foldl (fun acc ix => ix.metas.foldl (fun a m => insertKey m.key a) (insertKey ix.prog acc)) [payer]

def isSigner (payer : Nat) (ixs : List Ix) (k : Nat) : Bool :=
  k == payer || ixs.any (fun ix => ix.metas.any (fun m => m.key == k && m.signer))

def isInvoked (ixs : List Ix) (k : Nat) : Bool := ixs.any (fun ix => ix.prog == k)

def isWritable (payer : Nat) (ixs : List Ix) (k : Nat) : Bool :=
  k == payer || ixs.any (fun ix => ix.metas.any (fun m => m.key == k && m.writable))

/-- bytes of one compiled instruction: program index, account indexes, data (both with a
compact-u16 length prefix). -/
def ixLen (ix : Ix) : Nat :=
  1 + compactLen ix.metas.length + ix.metas.length + compactLen ix.dataLen + ix.dataLen

def ixsLen (ixs : List Ix) : Nat := (ixs.map ixLen).sum

/-- per lookup table, in table order: how many still-available keys it resolves, split into
(writable, readonly); `can` is the set of keys that may still be looked up. -/
def tableStats (K : List Nat) (w : Nat → Bool) : (Nat → Bool) → List (List Nat) → List (Nat × Nat)
  | _, [] => []
  | can, t :: ts =>
    (K.countP (fun k => can k && t.contains k && w k),
     K.countP (fun k => can k && t.contains k && !w k)) ::
      tableStats K w (fun k => can k && !t.contains k) ts

/-- the keys still not resolved by any table. -/
def canFinal : (Nat → Bool) → List (List Nat) → (Nat → Bool)
  | can, [] => can
  | can, t :: ts => canFinal (fun k => can k && !t.contains k) ts

def usedTables (stats : List (Nat × Nat)) : List (Nat × Nat) := stats.filter (fun s => s.1 + s.2 > 0)

def nSigners (payer : Nat) (ixs : List Ix) : Nat := (keysOf payer ixs).countP (isSigner payer ixs)

/-- `can_lookups`: keys that are neither invoked programs nor signers. -/
def can0 (payer : Nat) (ixs : List Ix) (k : Nat) : Bool := !isInvoked ixs k && !isSigner payer ixs k

/-- size of `can_lookups ∪ signers ∪ programs` after the tables have been applied. -/
def nAfter (payer : Nat) (ixs : List Ix) (ts : List (List Nat)) : Nat :=
  (keysOf payer ixs).countP
    (fun k => canFinal (can0 payer ixs) ts k || isSigner payer ixs k || isInvoked ixs k)

def lutStats (payer : Nat) (ixs : List Ix) (ts : List (List Nat)) : List (Nat × Nat) :=
  tableStats (keysOf payer ixs) (isWritable payer ixs) (can0 payer ixs) ts

/-- the part common to every format: signatures, header, static keys, blockhash, instructions. -/
def baseLen (nSig nAcc : Nat) (ixs : List Ix) : Nat :=
  compactLen nSig + nSig * 64 + 3 + compactLen nAcc + nAcc * 32 + 32 + compactLen ixs.length + ixsLen ixs

/-- `transaction_size_with_luts(payer, ixs, is_versioned, luts)`: every resolved key is booked as
one index byte, every used table as `32 + 2` bytes, the table count as `compact(0)`. -/
def estimate (payer : Nat) (ixs : List Ix) (versioned : Bool) (luts : Option (List (List Nat))) : Nat :=
  match luts with
  | some ts =>
    baseLen (nSigners payer ixs) (nAfter payer ixs ts) ixs +
      ((keysOf payer ixs).length - nAfter payer ixs ts) +
      (if versioned then 1 + compactLen 0 + (usedTables (lutStats payer ixs ts)).length * (32 + 2) else 0)
  | none =>
    baseLen (nSigners payer ixs) (keysOf payer ixs).length ixs +
      (if versioned then 1 + compactLen 0 else 0)

/-- `transaction_size(payer, ixs, is_versioned, lookup_table, lookup_table_addresses)` — the variant
used by `TransactionBuilder`: ONE merged set of lookup addresses (every account found in it is
dropped, then signers and programs are added back) and a table count supplied by the caller. -/
def estimateSet (payer : Nat) (ixs : List Ix) (versioned : Bool) (lut : Option (List Nat))
    (nTables : Nat) : Nat :=
  let K := keysOf payer ixs
  let after := match lut with
    | some t => K.countP (fun k => !t.contains k || isSigner payer ixs k || isInvoked ixs k)
    | none => K.length
  baseLen (nSigners payer ixs) after ixs + (K.length - after) +
    (if versioned then 1 + compactLen 0 + nTables * (32 + 2) else 0)

/-- bytes of the address-table-lookup section of a v0 message. -/
def lookupsLen (used : List (Nat × Nat)) : Nat :=
  compactLen used.length + (used.map (fun s => 32 + compactLen s.1 + s.1 + compactLen s.2 + s.2)).sum

/-- static keys of the compiled v0 message: every key except those moved into a lookup. -/
def nStatic (payer : Nat) (ixs : List Ix) (ts : List (List Nat)) : Nat :=
  (keysOf payer ixs).countP (fun k => !(can0 payer ixs k && !canFinal (can0 payer ixs) ts k))

/-- bincode length of the transaction: signatures, then the (v0 or legacy) message. For v0,
`try_compile` moves every key that is neither a signer nor invoked and is found in a table out of
the static keys, table by table, writable before readonly; unused tables are dropped. A legacy
transaction keeps every key static. -/
def wireLen (payer : Nat) (ixs : List Ix) (versioned : Bool) (luts : List (List Nat)) : Nat :=
  if versioned then
    baseLen (nSigners payer ixs) (nStatic payer ixs luts) ixs + 1 +
      lookupsLen (usedTables (lutStats payer ixs luts))
  else baseLen (nSigners payer ixs) (keysOf payer ixs).length ixs

/-! ### The serialized transaction itself

`serialize` produces the BYTES bincode writes for the transaction solana_sdk builds from
`(payer, instructions, lookup tables)` with default signatures and a zero blockhash:
`Transaction::new_unsigned(Message::new(ixs, Some(payer)))` for legacy and
`VersionedTransaction { signatures, message: V0(v0::Message::try_compile(..)) }` for v0.
Key order is `CompiledKeys`' order: payer, then (ascending by key bytes within each class)
writable signers, readonly signers, writable non-signers, readonly non-signers; looked-up keys
follow the static ones (all writable ones table by table, then all readonly ones).
A key `n` stands for the 32 bytes `be8(n) ++ 0^24` (the harness builds its pubkeys that way), the
`i`-th lookup table has account key `900000 + i`, instruction data is `be4(id) ++ 0…`. -/

def compactBytes (n : Nat) : List Nat :=
  if n ≤ 127 then [n]
  else if n ≤ 16383 then [n % 128 + 128, n / 128]
  else [n % 128 + 128, n / 128 % 128 + 128, n / 16384]

def keyBytes (k : Nat) : List Nat :=
  (List.range 32).map (fun i => if i < 8 then k / 256 ^ (7 - i) % 256 else 0)

def dataBytes (ix : Ix) : List Nat :=
  (List.range ix.dataLen).map (fun i => if i < 4 then ix.id / 256 ^ (3 - i) % 256 else 0)

def insertOrd (k : Nat) : List Nat → List Nat
  | [] => [k]
  | x :: xs => if k ≤ x then k :: x :: xs else x :: insertOrd k xs

def sortKeys (l : List Nat) : List Nat := l.foldr insertOrd []

def indexIn (k : Nat) : List Nat → Nat
  | [] => 0
  | x :: xs => if x = k then 0 else indexIn k xs + 1

/-- one compiled lookup: table account key, drained writable / readonly keys and their indexes. -/
structure Lookup where
  table : Nat
  wKeys : List Nat
  rKeys : List Nat
  wIdx : List Nat
  rIdx : List Nat
  deriving Repr

/-- `try_drain_keys_found_in_lookup_table` for every table in order (tables carry their number). -/
def lookupEntries (U : List Nat) (w : Nat → Bool) : (Nat → Bool) → Nat → List (List Nat) → List Lookup
  | _, _, [] => []
  | can, i, t :: ts =>
    let wk := U.filter (fun k => can k && t.contains k && w k)
    let rk := U.filter (fun k => can k && t.contains k && !w k)
    let rest := lookupEntries U w (fun k => can k && !t.contains k) (i + 1) ts
    if wk.length + rk.length > 0 then
      ⟨900000 + i, wk, rk, wk.map (fun k => indexIn k t), rk.map (fun k => indexIn k t)⟩ :: rest
    else rest

def lookupBytes (l : Lookup) : List Nat :=
  keyBytes l.table ++ compactBytes l.wIdx.length ++ l.wIdx ++ compactBytes l.rIdx.length ++ l.rIdx

/-- static account keys in `CompiledKeys` order, split as (writable signers incl. payer, readonly
signers, writable non-signers, readonly non-signers). -/
def staticClasses (payer : Nat) (ixs : List Ix) (tables : List (List Nat)) :
    List Nat × List Nat × List Nat × List Nat :=
  let rest := (sortKeys (keysOf payer ixs)).filter (fun k => k != payer)
  let sg := isSigner payer ixs
  let w := isWritable payer ixs
  let st : Nat → Bool := fun k => !(can0 payer ixs k && !canFinal (can0 payer ixs) tables k)
  (payer :: rest.filter (fun k => sg k && w k), rest.filter (fun k => sg k && !w k),
   rest.filter (fun k => !sg k && w k && st k), rest.filter (fun k => !sg k && !w k && st k))

def ixBytes (accountKeys : List Nat) (ix : Ix) : List Nat :=
  [indexIn ix.prog accountKeys] ++ compactBytes ix.metas.length ++
    ix.metas.map (fun m => indexIn m.key accountKeys) ++ compactBytes ix.dataLen ++ dataBytes ix

def serialize (payer : Nat) (ixs : List Ix) (versioned : Bool) (luts : List (List Nat)) : List Nat :=
  let tables := if versioned then luts else []
  let (ws, rs, wn, rn) := staticClasses payer ixs tables
  let static := ws ++ rs ++ wn ++ rn
  let lks := lookupEntries (sortKeys (keysOf payer ixs)) (isWritable payer ixs) (can0 payer ixs) 0 tables
  let accountKeys := static ++ (lks.map (·.wKeys)).flatten ++ (lks.map (·.rKeys)).flatten
  let nSig := ws.length + rs.length
  compactBytes nSig ++ List.replicate (nSig * 64) 0 ++
    (if versioned then [128] else []) ++
    [nSig, rs.length, rn.length] ++
    compactBytes static.length ++ (static.map keyBytes).flatten ++
    List.replicate 32 0 ++
    compactBytes ixs.length ++ (ixs.map (ixBytes accountKeys)).flatten ++
    (if versioned then compactBytes lks.length ++ (lks.map lookupBytes).flatten else [])

/-! ### Groups -/

structure AG where
  payer : Nat
  signers : List Nat      -- `BTreeMap` keys: ascending, duplicate-free; contains the payer
  ixs : List Ix
  mergeable : Bool
  deriving Repr, DecidableEq

structure PG where
  groups : List AG
  mergeable : Bool
  deriving Repr, DecidableEq

structure Opts where
  maxSize : Nat
  maxIx : Nat
  memo : Option (Nat × Option (List Nat))   -- (memo length, `memo_signers`)
  luts : List (List Nat)
  deriving Repr

def insertSorted (k : Nat) : List Nat → List Nat
  | [] => [k]
  | x :: xs => if k < x then k :: x :: xs else if k = x then x :: xs else x :: insertSorted k xs

/-- `BTreeMap::append`. -/
def unionSorted (a b : List Nat) : List Nat := b.foldl (fun acc k => insertSorted k acc) a

/-- `AtomicGroup::new(&Pubkey::default())`. -/
def emptyAG : AG := ⟨DEFAULT_KEY, [DEFAULT_KEY], [], true⟩
/-- `ParallelGroup::default()`. -/
def emptyPG : PG := ⟨[], true⟩

/-- `AtomicGroup::merge`: payer and options of `self`, instructions appended. -/
def AG.merge (x y : AG) : AG := ⟨x.payer, unionSorted x.signers y.signers, x.ixs ++ y.ixs, x.mergeable⟩

def cbIxs : List Ix := [⟨0, CB_PROG, [], 5⟩, ⟨0, CB_PROG, [], 9⟩]

def memoIx (payer : Nat) (memo : Option (Nat × Option (List Nat))) : List Ix :=
  match memo with
  | none => []
  | some (len, sg) => [⟨0, MEMO_PROG, ((sg.getD [payer]).map (fun k => ⟨k, true, false⟩)), len⟩]

/-- `instructions_with_options` with compute budget. -/
def AG.allIxs (g : AG) (memo : Option (Nat × Option (List Nat))) : List Ix :=
  cbIxs ++ memoIx g.payer memo ++ g.ixs

/-- `AtomicGroup::transaction_size(true, Some(luts), options)`. -/
def AG.size (g : AG) (memo : Option (Nat × Option (List Nat))) (luts : List (List Nat)) : Nat :=
  estimate g.payer (g.allIxs memo) true (some luts)

/-- `transaction_size_after_merge(x, y, true, Some(luts), options)`: `y` contributes neither
compute-budget nor memo instructions. -/
def sizeAfterMerge (o : Opts) (x y : AG) : Nat :=
  estimate x.payer (cbIxs ++ memoIx x.payer o.memo ++ x.ixs ++ y.ixs) true (some o.luts)

/-- `TransactionGroupOptions::optimizable`. -/
def optimizable (o : Opts) (allow : Bool) (x y : AG) : Bool :=
  if !x.mergeable || !y.mergeable then false
  else if !allow && x.payer != y.payer then false
  else if x.ixs.length + y.ixs.length > o.maxIx then false
  else if sizeAfterMerge o x y > o.maxSize then false
  else true

/-- the `windows(2)` loop of `TransactionGroupOptions::optimize`, with `cur = groups[i]` as left
by the previous iteration; returns the new slice and the `merged` flag. -/
def optLoop (o : Opts) (allow : Bool) : AG → List AG → List AG × Bool
  | cur, [] => ([cur], false)
  | cur, nxt :: rest =>
    if cur.ixs.isEmpty then
      let (out, _) := optLoop o allow nxt rest
      (cur :: out, true)
    else if optimizable o allow cur nxt then
      let (out, _) := optLoop o allow (cur.merge nxt) rest
      (emptyAG :: out, true)
    else
      let (out, m) := optLoop o allow nxt rest
      (cur :: out, m)

def optSlice (o : Opts) (allow : Bool) : List AG → List AG × Bool
  | [] => ([], false)
  | g :: gs => optLoop o allow g gs

/-- `ParallelGroup::optimize`. -/
def PG.optimize (o : Opts) (allow : Bool) (pg : PG) : PG :=
  let (gs, merged) := optSlice o allow pg.groups
  if merged then { pg with groups := gs.filter (fun g => !g.ixs.isEmpty) } else { pg with groups := gs }

def PG.single (pg : PG) : Option AG :=
  match pg.groups with
  | [g] => some g
  | _ => none

/-- both parallel groups mergeable and both consisting of a single atomic group. -/
def mergeCandidates (cur nxt : PG) : Option (AG × AG) :=
  if cur.mergeable && nxt.mergeable then
    match cur.single, nxt.single with
    | some gi, some gj => some (gi, gj)
    | _, _ => none
  else none

/-- the second loop of `TransactionGroup::optimize` (over parallel groups): the merged group
replaces `groups[j]` but lives in the parallel group taken from `groups[i]`. -/
def tgLoop (o : Opts) (allow : Bool) : PG → List PG → List PG × Bool
  | cur, [] => ([cur], false)
  | cur, nxt :: rest =>
    match mergeCandidates cur nxt with
    | some (gi, gj) =>
      if optimizable o allow gi gj then
        let (out, _) := tgLoop o allow { cur with groups := [gi.merge gj] } rest
        (emptyPG :: out, true)
      else
        let (out, m) := tgLoop o allow nxt rest
        (cur :: out, m)
    | none =>
      let (out, m) := tgLoop o allow nxt rest
      (cur :: out, m)

/-- `TransactionGroup::optimize`. -/
def tgOptimize (o : Opts) (allow : Bool) (groups : List PG) : List PG :=
  let gs := groups.map (PG.optimize o allow)
  match gs with
  | [] => []
  | g :: rest =>
    let (out, merged) := tgLoop o allow g rest
    if merged then out.filter (fun pg => !pg.groups.isEmpty) else out

inductive AddErr where
  | tooMany | tooBig
  deriving Repr, DecidableEq

/-- `validate_one`: instruction count, then the size estimate with the options (memo) that built
transactions carry — `self.options.instruction_options(&Default::default())`. -/
def validateOne (o : Opts) (g : AG) : Except AddErr Unit :=
  if g.ixs.length > o.maxIx then .error .tooMany
  else if g.size o.memo o.luts > o.maxSize then .error .tooBig
  else .ok ()

def validatePG (o : Opts) : List AG → Except AddErr Unit
  | [] => .ok ()
  | g :: gs => match validateOne o g with
    | .error e => .error e
    | .ok () => validatePG o gs

/-- `TransactionGroup::add`. -/
def tgAdd (o : Opts) (groups : List PG) (pg : PG) : List PG × Except AddErr Unit :=
  if pg.groups.isEmpty then (groups, .ok ())
  else match validatePG o pg.groups with
    | .error e => (groups, .error e)
    | .ok () => (groups ++ [pg], .ok ())

/-- numeric code of an `add` result (for decidable statements): 0 ok, 1 too many, 2 too big. -/
def addCode : Except AddErr Unit → Nat
  | .ok () => 0
  | .error .tooMany => 1
  | .error .tooBig => 2

/-- all instructions of a transaction group, in execution order. -/
def flattenAGs (gs : List AG) : List Ix := (gs.map (·.ixs)).flatten
def flattenPGs (ps : List PG) : List Ix := (ps.map (fun p => flattenAGs p.groups)).flatten

/-- the same, each instruction tagged with the payer of the transaction that carries it. -/
def taggedAGs (gs : List AG) : List (Nat × Ix) := (gs.map (fun g => g.ixs.map (fun i => (g.payer, i)))).flatten
def taggedPGs (ps : List PG) : List (Nat × Ix) := (ps.map (fun p => taggedAGs p.groups)).flatten

end Gmx.TxPack
