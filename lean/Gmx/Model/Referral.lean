/-!
# Gmx.Model.Referral — `programs/store/src/{states/user.rs, instructions/user.rs}`

Transcription of `prepare_user`, `initialize_referral_code`, `set_referrer`,
`transfer_referral_code`, `cancel_referral_code_transfer`, `accept_referral_code`: the handlers,
the `UserHeader` / `Referral` / `ReferralCodeV2` methods they call, and the constraints of their
Anchor `Accounts` structs. A user account is identified with its owner id (the account address is the
PDA of the owner), a code account with its code id. `DEFAULT_PUBKEY` ⇒ `none`. Core only.
-/
namespace Gmx.Ref

def U128MAX : Nat := 2 ^ 128 - 1

structure User where
  referrer : Option Nat
  code : Option Nat
  refereeCount : Nat
  deriving DecidableEq, Repr

structure Code where
  owner : Nat
  nextOwner : Nat
  deriving DecidableEq, Repr

structure St where
  users : Nat → Option User
  codes : Nat → Option Code

def setUser (s : St) (u : Nat) (x : User) : St := { s with users := fun i => if i = u then some x else s.users i }
def setCode (s : St) (c : Nat) (x : Code) : St := { s with codes := fun i => if i = c then some x else s.codes i }

/-- the all-zero code bytes are code id `ZERO`. -/
def ZERO : Nat := 9

/-- `prepare_user` (`init_if_needed`; idempotent). -/
def prepare (s : St) (u : Nat) : Option St :=
  match s.users u with
  | some _ => some s
  | none => some (setUser s u ⟨none, none, 0⟩)

/-- `initialize_referral_code`. -/
def initCode (s : St) (u c : Nat) : Option St :=
  match s.codes c with
  | some _ => none                         -- `init`: the code account must not exist
  | none =>
    match s.users u with
    | none => none
    | some usr =>
      if c = ZERO then none else            -- `code != ReferralCodeBytes::default()`
      match usr.code with
      | some _ => none                     -- `set_code`: ReferralCodeHasBeenSet
      | none => some (setCode (setUser s u { usr with code := some c }) c ⟨u, u⟩)

/-- `set_referrer`: signer `u`, code account `c`, `referrer_user` = user account `v`. -/
def setReferrer (s : St) (u c v : Nat) : Option St :=
  match s.users u, s.codes c, s.users v with
  | some usr, some cd, some vsr =>
    if cd.owner ≠ v then none else          -- referrer_user.owner == referral_code.owner
    if vsr.code ≠ some c then none else     -- referrer_user.referral.code == referral_code.key()
    if v = u then none else                 -- referrer_user.key() != user.key()  (SelfReferral)
    if vsr.referrer = some u then none else -- MutualReferral
    match usr.referrer with
    | some _ => none                       -- ReferrerHasBeenSet
    | none =>
      some (setUser (setUser s u { usr with referrer := some v }) v
        { vsr with refereeCount := if vsr.refereeCount + 1 ≤ U128MAX then vsr.refereeCount + 1 else U128MAX })
  | _, _, _ => none

/-- `transfer_referral_code`: signer `u`, code `c`, `receiver_user` = user account `v`. -/
def transfer (s : St) (u c v : Nat) : Option St :=
  match s.users u, s.codes c, s.users v with
  | some usr, some cd, some vsr =>
    if cd.owner ≠ u then none else
    if usr.code ≠ some c then none else
    if v = u then none else
    if c = ZERO then none else
    if vsr.code.isSome then none else       -- receiver must not hold a code
    if cd.nextOwner = v then none else      -- `set_next_owner`: must change
    some (setCode s c { cd with nextOwner := v })
  | _, _, _ => none

/-- `cancel_referral_code_transfer`. -/
def cancel (s : St) (u c : Nat) : Option St :=
  match s.users u, s.codes c with
  | some usr, some cd =>
    if cd.owner ≠ u then none else
    if usr.code ≠ some c then none else
    if cd.nextOwner = u then none else
    some (setCode s c { cd with nextOwner := u })
  | _, _ => none

/-- `accept_referral_code`: signer `n` (the proposed owner), code `c`, `user` = user account `v`. -/
def accept (s : St) (n c v : Nat) : Option St :=
  match s.users v, s.codes c, s.users n with
  | some vsr, some cd, some nsr =>
    if cd.owner ≠ v then none else
    if vsr.code ≠ some c then none else
    if n = v then none else
    if c = ZERO then none else
    if nsr.code.isSome then none else
    if cd.nextOwner ≠ n then none else
    some (setCode (setUser (setUser s n { nsr with code := vsr.code }) v { vsr with code := none }) c
      { cd with owner := n })
  | _, _, _ => none

inductive Op where
  | prepare (u : Nat)
  | initCode (u c : Nat)
  | setReferrer (u c v : Nat)
  | transfer (u c v : Nat)
  | cancel (u c : Nat)
  | accept (n c v : Nat)

def apply (s : St) : Op → Option St
  | .prepare u => prepare s u
  | .initCode u c => initCode s u c
  | .setReferrer u c v => setReferrer s u c v
  | .transfer u c v => transfer s u c v
  | .cancel u c => cancel s u c
  | .accept n c v => accept s n c v

/-- failed transactions change nothing. -/
def step (s : St) (op : Op) : St := (apply s op).getD s
def run (s : St) (ops : List Op) : St := ops.foldl step s
def init : St := ⟨fun _ => none, fun _ => none⟩

def referrerOf (s : St) (u : Nat) : Option Nat := (s.users u).bind (·.referrer)
def codeOf (s : St) (u : Nat) : Option Nat := (s.users u).bind (·.code)
def ownerOf (s : St) (c : Nat) : Option Nat := (s.codes c).map (·.owner)

end Gmx.Ref
