import Gmx.Model.Perp
import Gmx.Model.Liquidity
import Gmx.Model.Swap
/-!
# Gmx.Model.Whole — mixed whole-market histories

One step function for every kind of operation a market sees — liquidity (deposit, withdrawal,
swap), positions of several owners on both sides and both collateral tokens (increase, decrease,
liquidation = decrease with the liquidation flag), the clock, the funding / borrowing fee-state
updates and the position-impact distribution — with the on-chain semantics: a failing operation
leaves the state unchanged. These are exactly the functions the stateful `perp` driver engine runs
against the implementation (`perp dep/wdr/swap/inc/dec/tick/ufund/ubor/dist`).
-/
namespace Gmx.Perp

inductive WOp where
  | openPos (isLong collLong : Bool)
  | inc (i : Nat) (collateral size : Nat) (pr : Prices)
  | dec (i : Nat) (size withdraw : Nat) (fl : DecreaseFlags) (pr : Prices)
  | deposit (long short : Nat) (pr : Prices)
  | withdraw (amount : Nat) (pr : Prices)
  | swap (isInLong : Bool) (amount : Nat) (pr : Prices)
  | tick (secs : Nat)
  | updFunding (pr : Prices)
  | updBorrowing (pr : Prices)
  | distribute

/-- the market after a liquidity / clock / fee-state operation (`none` = the operation failed). -/
def wMarketOp (W U : Nat) (rc : RateCfg) (m : Market) : WOp → Option Market
  | .deposit l sh pr =>
    match perpInOf W U m rc pr with
    | none => none
    | some pin => match deposit W U m ⟨l, sh, pr⟩ pin with
      | (m', .ok _) => some m'
      | (_, .error _) => none
  | .withdraw a pr =>
    match perpInOf W U m rc pr with
    | none => none
    | some pin => match withdraw W U m ⟨a, pr⟩ pin with
      | (m', .ok _) => some m'
      | (_, .error _) => none
  | .swap il a pr =>
    match swap W U m ⟨il, a, pr⟩ with
    | .ok (m', _) => some m'
    | .error _ => none
  | .tick n => some (m.tick n)
  | .updFunding pr => (marketUpdateFunding W U m rc pr).toOption
  | .updBorrowing pr => (marketUpdateBorrowing W U m rc pr).toOption
  | .distribute =>
    match distributePositionImpact W U m with
    | (m', some _) => some m'
    | (_, none) => none
  | _ => none

/-- one operation of a whole-market history. -/
def PSys.wstep (W U : Nat) (c : PerpCfg) (rc : RateCfg) (s : PSys) : WOp → PSys
  | .openPos il cl => s.step W U c (.openPos il cl)
  | .inc i coll size pr => s.step W U c (.inc i coll size pr)
  | .dec i size wd fl pr => s.step W U c (.dec i size wd fl pr)
  | o => match wMarketOp W U rc s.m o with
    | some m' => { s with m := m' }
    | none => s

def PSys.wrun (W U : Nat) (c : PerpCfg) (rc : RateCfg) (s : PSys) : List WOp → PSys
  | [] => s
  | o :: os => PSys.wrun W U c rc (s.wstep W U c rc o) os

/-- Σ over the positions of side `il` of `⌊size · borrowing-factor snapshot / UNIT⌋` — what the
total-borrowing pool of that side must hold (C13). -/
def sumTB (U : Nat) (il : Bool) : List Pos → Nat
  | [] => 0
  | p :: ps => (if p.isLong = il then p.sizeUsd * p.bf / U else 0) + sumTB U il ps

/-- the ten indices that may only grow (C12 funding / claimable funding amounts per size, C13
cumulative borrowing factors). -/
def IdxLe (a b : Market) : Prop :=
  a.borrowingFactor.long ≤ b.borrowingFactor.long ∧ a.borrowingFactor.short ≤ b.borrowingFactor.short ∧
  a.fapsL.long ≤ b.fapsL.long ∧ a.fapsL.short ≤ b.fapsL.short ∧ a.fapsS.long ≤ b.fapsS.long ∧ a.fapsS.short ≤ b.fapsS.short ∧
  a.cfapsL.long ≤ b.cfapsL.long ∧ a.cfapsL.short ≤ b.cfapsL.short ∧ a.cfapsS.long ≤ b.cfapsS.long ∧ a.cfapsS.short ≤ b.cfapsS.short

/-! ### token flows of whole-market histories (C08) -/

/-- as `wMarketOp`, with the tokens that enter / leave the market: a deposit brings its two
amounts, a withdrawal pays its two outputs, a swap takes the input amount and pays the output. -/
def wMarketOpF (W U : Nat) (rc : RateCfg) (m : Market) : WOp → Option (Market × Flow)
  | .deposit l sh pr =>
    match perpInOf W U m rc pr with
    | none => none
    | some pin => match deposit W U m ⟨l, sh, pr⟩ pin with
      | (m', .ok _) => some (m', { inn := fun t => if t then l else sh })
      | (_, .error _) => none
  | .withdraw a pr =>
    match perpInOf W U m rc pr with
    | none => none
    | some pin => match withdraw W U m ⟨a, pr⟩ pin with
      | (m', .ok r) => some (m', { out := fun t => if t then r.longOut else r.shortOut })
      | (_, .error _) => none
  | .swap il a pr =>
    match swap W U m ⟨il, a, pr⟩ with
    | .ok (m', c) => some (m', { inn := fun t => tokAmt il t a, out := fun t => tokAmt (!il) t c.tokenOut })
    | .error _ => none
  | o => (wMarketOp W U rc m o).map (fun m' => (m', {}))

/-- one operation of a whole-market history with its token flows. -/
def PSys.wstepF (W U : Nat) (c : PerpCfg) (rc : RateCfg) (s : PSys) : WOp → PSys × Flow
  | .openPos il cl => s.stepF W U c (.openPos il cl)
  | .inc i coll size pr => s.stepF W U c (.inc i coll size pr)
  | .dec i size wd fl pr => s.stepF W U c (.dec i size wd fl pr)
  | o => match wMarketOpF W U rc s.m o with
    | some (m', f) => ({ s with m := m' }, f)
    | none => (s, {})

def PSys.wrunF (W U : Nat) (c : PerpCfg) (rc : RateCfg) (s : PSys) : List WOp → PSys × Flow
  | [] => (s, {})
  | o :: os =>
    let (s1, f1) := s.wstepF W U c rc o
    let (s2, f2) := PSys.wrunF W U c rc s1 os
    (s2, f1.add f2)

end Gmx.Perp
