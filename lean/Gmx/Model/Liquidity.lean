import Gmx.Model.Swap
/-!
# Gmx.Model.Liquidity — `crates/model/src/action/{deposit,withdraw}.rs`

Neither action is atomic in the model crate: they mutate the market as they go and return early
on the first error (on chain the instruction's revert restores the state; that is C21's concern).
The model therefore returns the market reached at the point of failure together with the error.

The perp inputs of `pool_value` (`PerpIn`, borrowing factor per second of the two sides) are an
explicit argument; they are `PerpIn.zero` when there is no open interest.
-/
namespace Gmx

structure DepositParams where
  long : Nat
  short : Nat
  prices : Prices
  deriving Repr, DecidableEq

structure DepositReport where
  minted : Nat
  /-- `price_impact.value` of the whole deposit -/
  priceImpact : Int
  feesL : Fees
  feesS : Fees
  deriving Repr, DecidableEq

/-- ghost record of one side of a deposit (not part of the Rust report): what was credited. -/
structure SideResult where
  minted : Nat := 0
  fees : Fees := ⟨0, 0⟩
  /-- tokens moved from the OPPOSITE swap-impact pool into the opposite liquidity pool -/
  positiveImpactAmount : Nat := 0
  /-- tokens moved from the deposited amount into the same-side swap-impact pool -/
  negativeImpactAmount : Nat := 0
  /-- net amount (after fees and negative impact) the market tokens were minted for -/
  netAmount : Nat := 0
  deriving Repr, DecidableEq

/-- `Deposit::price_impact`: impact of adding both amounts at mid prices, and the USD values of
the two amounts. `mid()` PANICS in the Rust when `min + max` overflows (deposits do not validate
prices), modelled as the `panic` error. -/
def depositImpact (W U : Nat) (m : Market) (d : DepositParams) (includeVi : Bool) :
    Except MErr ((Int × BalanceChange) × Nat × Nat) :=
  match toSigned W d.long with
  | none => .error .fail
  | some sl => match toSigned W d.short with
    | none => .error .fail
    | some ss =>
      match d.prices.long.mid W with
      | none => .error .panic
      | some midL => match d.prices.short.mid W with
        | none => .error .panic
        | some midS =>
          match checkedMulWithSigned W midL sl with
          | none => .error .fail
          | some dL => match checkedMulWithSigned W midS ss with
            | none => .error .fail
            | some dS => match PoolDelta.tryNew W m.primary.long m.primary.short dL dS midL midS with
              | none => .error .fail
              | some pd => match swapImpactValue W U m.cfg.swapImpact m.viSwaps pd dL dS midL midS includeVi with
                | none => .error .fail
                | some imp => .ok (imp, dL.natAbs, dS.natAbs)

/-- positive-impact stage of `execute_deposit`: take the (capped) impact amount out of the OPPOSITE
swap-impact pool, mint market tokens for its value at the opposite max price, add it to the
opposite liquidity pool, validate that pool's max amount. Returns `(minted, impact amount)`. -/
def depositPositive (W : Nat) (m1 : Market) (isLong : Bool) (opposite : Price) (impact : Int)
    (poolValue supply : Nat) : Market × Except MErr (Nat × Nat) :=
  match applySwapImpactValueWithCap W m1.swapImpact (!isLong) opposite impact with
  | none => (m1, .error .fail)
  | some (imp', pia) =>
    let m2 := { m1 with swapImpact := imp' }
    match checkedMul W pia opposite.max with
    | none => (m2, .error .fail)
    | some usd => match usdToMarketTokenAmount W usd poolValue supply m1.cfg.divisor with
      | none => (m2, .error .fail)
      | some mt => match toSigned W pia with
        | none => (m2, .error .fail)
        | some spia => match m2.applyDelta W (!isLong) spia with
          | none => (m2, .error .fail)
          | some m3 => match validatePoolAmount m3 (!isLong) with
            | .error e => (m3, .error e)
            | .ok () => (m3, .ok (mt, pia))

/-- negative-impact stage: move the (rounded-up) impact amount from the deposited amount into the
SAME side's swap-impact pool. Returns `(remaining amount, impact amount)`. -/
def depositNegative (W : Nat) (m1 : Market) (isLong : Bool) (price : Price) (impact : Int) (afterFees : Nat) :
    Market × Except MErr (Nat × Nat) :=
  match applySwapImpactValueWithCap W m1.swapImpact isLong price impact with
  | none => (m1, .error .fail)
  | some (imp', nia) =>
    let m2 := { m1 with swapImpact := imp' }
    match checkedSub afterFees nia with
    | none => (m2, .error .fail)
    | some a => (m2, .ok (a, nia))

/-- final stage: mint for the net amount at the min price, credit net amount + pool fee to the
liquidity pool, validate max pool amount and max pool value for deposits. -/
def depositFinish (W : Nat) (ms : Market) (d : DepositParams) (isLong : Bool) (poolValue supply mt0 amount : Nat)
    (fees : Fees) (pia nia : Nat) : Market × Except MErr SideResult :=
  let price := d.prices.collateral isLong
  match checkedMul W amount price.min with
  | none => (ms, .error .fail)
  | some usd => match usdToMarketTokenAmount W usd poolValue supply ms.cfg.divisor with
    | none => (ms, .error .fail)
    | some mt1 => match checkedAdd W mt0 mt1 with
      | none => (ms, .error .fail)
      | some mint => match checkedAdd W amount fees.pool with
        | none => (ms, .error .fail)
        | some credit => match toSigned W credit with
          | none => (ms, .error .fail)
          | some scredit => match ms.applyDelta W isLong scredit with
            | none => (ms, .error .fail)
            | some m4 => match validatePoolAmount m4 isLong with
              | .error e => (m4, .error e)
              | .ok () => match validatePoolValueForDeposit W m4 d.prices isLong with
                | .error e => (m4, .error e)
                | .ok () =>
                  (m4, .ok { minted := mint, fees := fees, positiveImpactAmount := pia,
                             negativeImpactAmount := nia, netAmount := amount })

/-- `execute_deposit` for one token side. Returns the market reached (also on failure). -/
def executeDeposit (W U : Nat) (m : Market) (d : DepositParams) (isLong : Bool) (poolValue : Nat)
    (impact : Int) (bc : BalanceChange) : Market × Except MErr SideResult :=
  let supply := m.supply
  if poolValue = 0 ∧ supply ≠ 0 then (m, .error .invalidPoolValue) else
  let amount0 := if isLong then d.long else d.short
  let price := d.prices.collateral isLong
  let opposite := d.prices.collateral (!isLong)
  match applyFees W U m.cfg.swapFee bc amount0 with
  | none => (m, .error .fail)
  | some (afterFees, fees) =>
    match toSigned W fees.receiver with
    | none => (m, .error .fail)
    | some recv => match m.fee.applyDelta W isLong recv with
      | none => (m, .error .fail)
      | some fee' =>
        let m1 := { m with fee := fee' }
        -- a positive impact is dropped for the very first deposit
        let impact := if impact > 0 ∧ supply = 0 then 0 else impact
        if impact > 0 then
          match depositPositive W m1 isLong opposite impact poolValue supply with
          | (ms, .error e) => (ms, .error e)
          | (ms, .ok (mt0, pia)) => depositFinish W ms d isLong poolValue supply mt0 afterFees fees pia 0
        else if impact < 0 then
          match depositNegative W m1 isLong price impact afterFees with
          | (ms, .error e) => (ms, .error e)
          | (ms, .ok (amount, nia)) => depositFinish W ms d isLong poolValue supply 0 amount fees 0 nia
        else depositFinish W m1 d isLong poolValue supply 0 afterFees fees 0 0

/-- ghost summary of a whole deposit. -/
structure DepositTrace where
  report : DepositReport
  poolValue : Nat
  long : SideResult
  short : SideResult
  deriving Repr, DecidableEq

/-- `Deposit::try_new` + `execute`. -/
def deposit (W U : Nat) (m : Market) (d : DepositParams) (pin : PerpIn) : Market × Except MErr DepositTrace :=
  if d.long = 0 ∧ d.short = 0 then (m, .error .emptyDeposit) else
  match validateMaxPnl W U m d.prices .maxAfterDeposit .maxAfterDeposit with
  | .error e => (m, .error e)
  | .ok () =>
    match depositImpact W U m d true with
    | .error e => (m, .error e)
    | .ok ((impact, bc), usdL, usdS) =>
      match poolValue W U m d.prices .maxAfterDeposit true pin with
      | none => (m, .error .fail)
      | some pv =>
        if pv < 0 then (m, .error .invalidPoolValue) else
        let pvN := pv.natAbs
        -- long side
        let stepL : Market × Except MErr SideResult :=
          if d.long ≠ 0 then
            match checkedAdd W usdL usdS with
            | none => (m, .error .fail)
            | some tot => match mulDivSigned W usdL impact tot with
              | none => (m, .error .fail)
              | some adj => executeDeposit W U m d true pvN adj bc
          else (m, .ok {})
        match stepL with
        | (mL, .error e) => (mL, .error e)
        | (mL, .ok rL) =>
          let stepS : Market × Except MErr SideResult :=
            if d.short ≠ 0 then
              match checkedAdd W usdL usdS with
              | none => (mL, .error .fail)
              | some tot => match mulDivSigned W usdS impact tot with
                | none => (mL, .error .fail)
                | some adj => executeDeposit W U mL d false pvN adj bc
            else (mL, .ok {})
          match stepS with
          | (mS, .error e) => (mS, .error e)
          | (mS, .ok rS) =>
            match checkedAdd W rL.minted rS.minted with
            | none => (mS, .error .fail)
            | some minted =>
              -- `mint`
              match checkedAdd W mS.supply minted with
              | none => (mS, .error .fail)
              | some supply' =>
                ({ mS with supply := supply' },
                 .ok { report := { minted := minted, priceImpact := impact, feesL := rL.fees, feesS := rS.fees },
                       poolValue := pvN, long := rL, short := rS })

/-! ## withdrawal -/

structure WithdrawParams where
  amount : Nat
  prices : Prices
  deriving Repr, DecidableEq

structure WithdrawReport where
  longOut : Nat
  shortOut : Nat
  feesL : Fees
  feesS : Fees
  /-- ghost: pool value used, and the USD value of the burnt market tokens -/
  poolValue : Nat
  value : Nat
  deriving Repr, DecidableEq

/-- `Withdrawal::output_amounts`: `(long amount, short amount, pool value, market token value)`. -/
def withdrawOutputs (W U : Nat) (m : Market) (w : WithdrawParams) (pin : PerpIn) :
    Except MErr (Nat × Nat × Nat × Nat) :=
  match poolValue W U m w.prices .maxAfterWithdrawal false pin with
  | none => .error .fail
  | some pv =>
    if pv < 0 then .error .invalidPoolValue else
    if pv = 0 then .error .invalidPoolValue else
    match checkedMul W m.primary.long w.prices.long.max with
    | none => .error .fail
    | some lv => match checkedMul W m.primary.short w.prices.short.max with
      | none => .error .fail
      | some sv => match checkedAdd W lv sv with
        | none => .error .fail
        | some tot => match marketTokenAmountToUsd W w.amount pv.natAbs m.supply with
          | none => .error .fail
          | some value =>
            match mulDiv W value lv tot with
            | none => .error .fail
            | some lusd => match checkedDiv lusd w.prices.long.max with
              | none => .error .fail
              | some la => match mulDiv W value sv tot with
                | none => .error .fail
                | some susd => match checkedDiv susd w.prices.short.max with
                  | none => .error .fail
                  | some sa => .ok (la, sa, pv.natAbs, value)

/-- `Withdrawal::try_new` + `execute`. Returns the market reached (also on failure). -/
def withdraw (W U : Nat) (m : Market) (w : WithdrawParams) (pin : PerpIn) : Market × Except MErr WithdrawReport :=
  if w.amount = 0 then (m, .error .emptyWithdrawal) else
  if ¬ w.prices.isValid W then (m, .error .invalidPrices) else
  match withdrawOutputs W U m w pin with
  | .error e => (m, .error e)
  | .ok (la0, sa0, pv, value) =>
    match applyFees W U m.cfg.swapFee .worsened la0 with
    | none => (m, .error .fail)
    | some (la, feesL) => match applyFees W U m.cfg.swapFee .worsened sa0 with
      | none => (m, .error .fail)
      | some (sa, feesS) =>
        match toSigned W feesL.receiver with
        | none => (m, .error .fail)
        | some rl => match m.fee.applyDelta W true rl with
          | none => (m, .error .fail)
          | some fee1 =>
            let m1 := { m with fee := fee1 }
            match toSigned W feesS.receiver with
            | none => (m1, .error .fail)
            | some rs => match fee1.applyDelta W false rs with
              | none => (m1, .error .fail)
              | some fee2 =>
                let m2 := { m1 with fee := fee2 }
                match checkedAdd W feesL.receiver la with
                | none => (m2, .error .fail)
                | some outL => match toOppositeSigned W outL with
                  | none => (m2, .error .fail)
                  | some dL => match m2.applyDelta W true dL with
                    | none => (m2, .error .fail)
                    | some m3 => match checkedAdd W feesS.receiver sa with
                      | none => (m3, .error .fail)
                      | some outS => match toOppositeSigned W outS with
                        | none => (m3, .error .fail)
                        | some dS => match m3.applyDelta W false dS with
                          | none => (m3, .error .fail)
                          | some m4 =>
                            match validateReserve W U m4 w.prices true with
                            | .error e => (m4, .error e)
                            | .ok () => match validateReserve W U m4 w.prices false with
                              | .error e => (m4, .error e)
                              | .ok () =>
                                match validateMaxPnl W U m4 w.prices .maxAfterWithdrawal .maxAfterWithdrawal with
                                | .error e => (m4, .error e)
                                | .ok () => match checkedSub m4.supply w.amount with
                                  | none => (m4, .error .fail)
                                  | some supply' =>
                                    ({ m4 with supply := supply' },
                                     .ok { longOut := la, shortOut := sa, feesL := feesL, feesS := feesS,
                                           poolValue := pv, value := value })

/-! ## histories of deposits, withdrawals and swaps -/

inductive LiqOp where
  | deposit (d : DepositParams)
  | withdraw (w : WithdrawParams)
  | swap (q : SwapParams)
  | tick (secs : Nat)
  deriving Repr

/-- one operation (without open interest: `PerpIn.zero`); the market moves on also when the
operation fails, exactly as the model crate leaves it. -/
def liqStep (W U : Nat) (m : Market) : LiqOp → Market
  | .deposit d => (deposit W U m d PerpIn.zero).1
  | .withdraw w => (withdraw W U m w PerpIn.zero).1
  | .swap q => (swapStep W U m q).1
  | .tick s => m.tick s

def liqRun (W U : Nat) (m : Market) (ops : List LiqOp) : Market := ops.foldl (liqStep W U) m

/-! ### committed histories (on-chain semantics: a failing instruction reverts) -/

/-- tokens that entered / left the market in a history (successful operations only). -/
structure Flow where
  inL : Nat := 0
  inS : Nat := 0
  outL : Nat := 0
  outS : Nat := 0
  deriving Repr, DecidableEq

def Flow.add (a b : Flow) : Flow := ⟨a.inL + b.inL, a.inS + b.inS, a.outL + b.outL, a.outS + b.outS⟩

/-- one COMMITTED operation: the new market and the tokens moved if it succeeds, the unchanged
market and no flow if it fails (deposits / withdrawals revert on chain — C21; swaps are atomic in
the model crate itself — C04). -/
def liqStepA (W U : Nat) (m : Market) : LiqOp → Market × Flow
  | .deposit d => match deposit W U m d PerpIn.zero with
    | (m', .ok _) => (m', { inL := d.long, inS := d.short })
    | (_, .error _) => (m, {})
  | .withdraw w => match withdraw W U m w PerpIn.zero with
    | (m', .ok r) => (m', { outL := r.longOut, outS := r.shortOut })
    | (_, .error _) => (m, {})
  | .swap q => match swap W U m q with
    | .ok (m', c) => (m', if q.isInLong then { inL := q.amount, outS := c.tokenOut } else { inS := q.amount, outL := c.tokenOut })
    | .error _ => (m, {})
  | .tick s => (m.tick s, {})

def liqRunA (W U : Nat) : Market → List LiqOp → Market × Flow
  | m, [] => (m, {})
  | m, op :: ops =>
    let (m1, f1) := liqStepA W U m op
    let (m2, f2) := liqRunA W U m1 ops
    (m2, f1.add f2)

end Gmx
