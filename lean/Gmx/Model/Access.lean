import Gmx.Gen.Access
/-!
# Abstract semantics of `#[access_control(guard)]` (C19, C20)

Anchor's `access_control` attribute rewrites `fn ix(ctx, args) -> Result<()> { body }` into
`{ guard?; body }`: the guard runs after account validation and BEFORE the handler body, and an
`Err` returns without running the body. `Authenticate::only(role)` succeeds iff the signer has the
role in the store (C18); `ensure_has_any_role` iff it has any of the listed roles.
-/
namespace Gmx.Access
open Gmx.Gen.Access

inductive Err where
  | permissionDenied
  | handler (code : Nat)
  deriving DecidableEq, Repr

/-- does the signer pass the attribute guard? (`none` = no attribute) -/
def guardOk (attr : Option (List Role)) (has : Role → Bool) : Bool :=
  match attr with
  | none => true
  | some rs => rs.any has

/-! ### the guard as the code evaluates it: an ORDERED fold over `has_role`, which can fail

`RoleStore::has_role(authority, role)`: `PermissionDenied` when the authority is not a member at all,
`NotFound` when the role was never enabled, `PreconditionsAreNotMet` when it is disabled, otherwise
the membership bit. `ensure_has_any_role` asks the roles IN THE ORDER LISTED and propagates the first
error with `?` — so the order of the role list in the source matters. -/

inductive RoleState where
  | never
  | enabled
  | disabled
  deriving DecidableEq, Repr

inductive GErr where
  | permissionDenied
  | notFound
  | preconditionsNotMet
  deriving DecidableEq, Repr

/-- the store's role table as far as one caller is concerned -/
structure RoleTable where
  state : Role → RoleState
  /-- the caller has an entry in the member table (holds or held at least one role) -/
  member : Bool
  /-- the caller's bit for the role (a bit survives the role being disabled) -/
  bit : Role → Bool

def hasRoleE (t : RoleTable) (r : Role) : Except GErr Bool :=
  if !t.member then .error .permissionDenied else
  match t.state r with
  | .never => .error .notFound
  | .disabled => .error .preconditionsNotMet
  | .enabled => .ok (t.bit r)

/-- `ensure_has_any_role(roles)` — also `only(role)` for a one-element list -/
def ensureAnyE (t : RoleTable) : List Role → Except GErr Unit
  | [] => .error .permissionDenied
  | r :: rs =>
    match hasRoleE t r with
    | .error e => .error e
    | .ok true => .ok ()
    | .ok false => ensureAnyE t rs

/-- the attribute guard with the role list in SOURCE ORDER -/
def guardE (attr : Option (List Role)) (t : RoleTable) : Except GErr Unit :=
  match attr with
  | none => .ok ()
  | some rs => ensureAnyE t rs

/-- one instruction invocation on state `σ`: returns the state the handler left and the result.
The guard is evaluated first; on failure the handler is never entered. -/
def run {σ : Type} (ix : IxId) (has : Role → Bool) (handler : σ → σ × Except Err Unit) (s : σ) : σ × Except Err Unit :=
  if guardOk (info ix).attr has then handler s else (s, .error .permissionDenied)

/-- an instruction is guarded when it carries an `access_control` attribute, or when its accounts
struct ties a writable/owned account to a signer (`has_one = <signer>`, signer-derived seeds,
address constraint) — i.e. it can only act on the signer's own accounts -/
def Guarded (ix : IxId) : Bool :=
  (info ix).attr.isSome || (decide ((info ix).signers > 0) && decide ((info ix).ownerBound > 0))

/-- tied to a signer by the accounts struct (`has_one = <signer>`, the signer's key in the seeds, address constraint) -/
def OwnerBound (ix : IxId) : Bool := decide ((info ix).signers > 0) && decide ((info ix).ownerBound > 0)

/-- outcome of presenting an owner-bound instruction's accounts: Anchor checks the tie during account
validation, so a signer other than the recorded owner is rejected before the handler runs -/
def ownerCallPasses (ix : IxId) (isRecordedOwner : Bool) : Bool := isRecordedOwner || !OwnerBound ix

/-- `Close::preprocess`: the caller may close when it owns the action, or holds the keeper role and the
action is finished (or the implementation skips that check) -/
def closeAllowed (isOwner hasKeeperRole skipsCompletionCheck completedOrCancelled : Bool) : Bool :=
  isOwner || (hasKeeperRole && (skipsCompletionCheck || completedOrCancelled))

/-- facts about the caller that the in-handler checks look at -/
structure Caller where
  has : Role → Bool
  /-- owns the action account being closed -/
  isOwner : Bool
  /-- is the store's treasury receiver -/
  isReceiver : Bool
  /-- holds `timelocked_role(role)` for the role argument of the call -/
  hasTimelockedRole : Bool

/-- does the in-handler authority check let the caller through? -/
def handlerAuthOk (c : Caller) (completedOrCancelled : Bool) : HandlerAuth → Bool
  | .none => true
  | .closeOwnerOrKeeper r skip => closeAllowed c.isOwner (c.has r) skip completedOrCancelled
  | .treasuryReceiver => c.isReceiver
  | .timelockedRole => c.hasTimelockedRole

/-- checked by the attribute, by account constraints or by the handler itself -/
def Protected (ix : IxId) : Bool := Guarded ix || decide (handlerAuth ix ≠ .none)

end Gmx.Access
