/-!
# Gmx.Model.Roles — `programs/store/src/states/roles.rs` (`RoleStore`) and
`Store::{has_role, has_admin_role}` of `states/store.rs` (C18)

The two `fixed_map!` tables are modelled abstractly as finite maps with a capacity (the fixed-map
data structure itself is property C34):

* `roles : List Role` — the `RoleMap` (capacity 32), looked up by role name.  The real map is keyed
  by `sha256(name)`; key hashing is ASSUMED injective (the code's `require_eq!(metadata.name()?,
  role)` guard rejects a colliding name with `InvalidArgument`; that branch is not modelled).
  Roles are never removed; a new role stores `index = roles.len()` at creation.
* `members : List (A × List Nat)` — the `Members` map (capacity 64): address ↦ bitmap, the bitmap
  (`Bitmap<32>` over a `u32`) being modelled as the list of set bit positions.

Role names are restricted to ≤ 31 bytes without NUL (32-byte names are the known defect C35), so
`RoleMetadata::new`/`name()` never fail.  Every Rust method performs all its checks before its
first mutation, hence `Except` (no state on failure) is a faithful transcription; the harness
additionally checks that the account bytes are unchanged after every failing call.
-/
namespace Gmx.Roles

inductive Err where
  | PermissionDenied | NotFound | Preconditions | ExceedMax | StoreOutdated
  deriving Repr, DecidableEq

structure Role (K : Type) where
  name : K
  enabled : Bool
  index : Nat
  deriving Repr

structure St (K A : Type) where
  roles : List (Role K)
  members : List (A × List Nat)

def MAX_ROLES : Nat := 32
def MAX_MEMBERS : Nat := 64

section
variable {K A : Type} [DecidableEq K] [DecidableEq A]

def St.empty : St K A := ⟨[], []⟩

/-- `RoleMap::get` -/
def findRole : List (Role K) → K → Option (Role K)
  | [], _ => none
  | m :: ms, r => if m.name = r then some m else findRole ms r

/-- `metadata.enabled = b` on the entry of `r` -/
def setEnabled : List (Role K) → K → Bool → List (Role K)
  | [], _, _ => []
  | m :: ms, r, b => if m.name = r then { m with enabled := b } :: setEnabled ms r b
                     else m :: setEnabled ms r b

/-- `Members::get` -/
def lookup : List (A × List Nat) → A → Option (List Nat)
  | [], _ => none
  | (k, v) :: ms, a => if k = a then some v else lookup ms a

/-- `*value = bitmap` on the entry of `a` -/
def setBits : List (A × List Nat) → A → List Nat → List (A × List Nat)
  | [], _, _ => []
  | (k, v) :: ms, a, b => if k = a then (k, b) :: setBits ms a b else (k, v) :: setBits ms a b

/-- `Members::remove` -/
def removeMember : List (A × List Nat) → A → List (A × List Nat)
  | [], _ => []
  | (k, v) :: ms, a => if k = a then removeMember ms a else (k, v) :: removeMember ms a

/-- `RoleStore::enable_role` -/
def enableRole (s : St K A) (r : K) : Except Err (St K A) :=
  match findRole s.roles r with
  | some m =>
    if m.enabled then .error .Preconditions
    else .ok { s with roles := setEnabled s.roles r true }
  | none =>
    if s.roles.length ≥ MAX_ROLES then .error .ExceedMax
    else .ok { s with roles := s.roles ++ [⟨r, true, s.roles.length⟩] }

/-- `RoleStore::disable_role` (an unknown role is silently accepted) -/
def disableRole (s : St K A) (r : K) : Except Err (St K A) :=
  match findRole s.roles r with
  | some m =>
    if m.enabled then .ok { s with roles := setEnabled s.roles r false }
    else .error .Preconditions
  | none => .ok s

/-- `RoleStore::has_role`: membership is checked first, then the role. -/
def hasRole (s : St K A) (a : A) (r : K) : Except Err Bool :=
  match lookup s.members a with
  | none => .error .PermissionDenied
  | some bits =>
    match findRole s.roles r with
    | none => .error .NotFound
    | some m => if m.enabled then .ok (bits.contains m.index) else .error .Preconditions

/-- `RoleStore::grant` -/
def grant (s : St K A) (a : A) (r : K) : Except Err (St K A) :=
  match findRole s.roles r with
  | none => .error .NotFound
  | some m =>
    if !m.enabled then .error .Preconditions else
    match lookup s.members a with
    | some bits =>
      if bits.contains m.index then .error .Preconditions
      else .ok { s with members := setBits s.members a (m.index :: bits) }
    | none =>
      if s.members.length ≥ MAX_MEMBERS then .error .ExceedMax
      else .ok { s with members := s.members ++ [(a, [m.index])] }

/-- `RoleStore::revoke` (the role need not be enabled) -/
def revoke (s : St K A) (a : A) (r : K) : Except Err (St K A) :=
  match findRole s.roles r with
  | none => .error .NotFound
  | some m =>
    match lookup s.members a with
    | none => .error .PermissionDenied
    | some bits =>
      if !bits.contains m.index then .error .Preconditions else
      let bits' := bits.filter (fun i => i != m.index)
      if bits'.isEmpty then .ok { s with members := removeMember s.members a }
      else .ok { s with members := setBits s.members a bits' }

inductive Op (K A : Type) where
  | enable (r : K)
  | disable (r : K)
  | grant (a : A) (r : K)
  | revoke (a : A) (r : K)
  deriving Repr

def step (s : St K A) : Op K A → Except Err (St K A)
  | .enable r => enableRole s r
  | .disable r => disableRole s r
  | .grant a r => grant s a r
  | .revoke a r => revoke s a r

/-- one on-chain call: a failing call leaves the account as it was -/
def apply (s : St K A) (o : Op K A) : St K A :=
  match step s o with
  | .ok s' => s'
  | .error _ => s

def succeeds (s : St K A) (o : Op K A) : Bool :=
  match step s o with
  | .ok _ => true
  | .error _ => false

def run (s : St K A) : List (Op K A) → St K A
  | [] => s
  | o :: os => run (apply s o) os

/-! ### `Store` -/

/-- `Store::has_role`; `restarted` = `last_restarted_slot != LastRestartSlot::get()`,
`ra` = `RoleKey::RESTART_ADMIN`. -/
def storeHasRole (ra : K) (s : St K A) (restarted : Bool) (a : A) (r : K) : Except Err Bool :=
  if restarted then
    match hasRole s a ra with
    | .ok true => .ok true
    | .ok false => .error .StoreOutdated
    | .error e => .error e
  else hasRole s a r

/-- `Store::has_admin_role` -/
def storeHasAdminRole (ra : K) (s : St K A) (authority : A) (restarted : Bool) (a : A) : Except Err Bool :=
  if a = authority then .ok true
  else if restarted then hasRole s a ra
  else .ok false

end
end Gmx.Roles
