import Gmx.Model.Borrowing
/-!
# Gmx.Model.Position — `crates/model/src/position.rs` (pnl), `price.rs`, `market/base.rs`
(`pnl`), `market/utils.rs` (`cap_pnl`)

`PositionExt::pnl_value` as a function of the few numbers it reads: the position's sizes, the
index price, the side's open interest (USD and tokens), the side's pool amount with the min
price of its token, and the trader pnl cap.
-/
namespace Gmx.Perp

/-- `Price::pick_price_for_pnl`: `if is_long ^ maximize { min } else { max }`. -/
def pickPriceForPnl (mn mx : Nat) (isLong maximize : Bool) : Nat :=
  if (isLong != maximize) then mn else mx

/-- what `pnl_value` reads from the market for the position's side. -/
structure PnlView where
  /-- open interest (USD) of the side -/
  oi : Nat
  /-- open interest in tokens of the side -/
  oit : Nat
  /-- liquidity-pool amount of the side's token -/
  poolAmount : Nat
  /-- min price of that token -/
  tokMin : Nat
  /-- `PnlFactorKind::MaxForTrader` -/
  maxPnlTrader : Nat
  deriving Repr

/-- `BaseMarketExt::pnl` of one side at the picked price. -/
def sidePnl (W : Nat) (oi oit price : Nat) (isLong : Bool) : Option Int :=
  if oi = 0 ∧ oit = 0 then some 0 else
  match checkedMul W oit price with
  | none => none
  | some v =>
    match toSigned W v, toSigned W oi with
    | some sv, some so => if isLong then toI W (sv - so) else toI W (so - sv)
    | _, _ => none

/-- `MarketUtils::cap_pnl`. -/
def capPnlP (W U : Nat) (pnl : Int) (poolValue maxFactor : Nat) : Option Int :=
  if pnl > 0 then
    match applyFactor W U poolValue maxFactor with
    | none => none
    | some mp => match toSigned W mp with
      | none => none
      | some maxPnl => if pnl > maxPnl then some maxPnl else some pnl
  else some pnl

/-- `PositionExt::size_delta_in_tokens`. -/
def sizeDeltaInTokens (W : Nat) (isLong : Bool) (sizeUsd sizeTokens delta : Nat) : Option Nat :=
  if sizeUsd = delta then some sizeTokens
  else if isLong then mulDivCeil W sizeTokens delta sizeUsd
  else mulDiv W sizeTokens delta sizeUsd

/-- total (whole-position) pnl before the trader cap: `T·p − S` for a long, `S − T·p` for a
short, at the price picked against the trader. -/
def uncappedTotalPnl (W : Nat) (isLong : Bool) (sizeUsd sizeTokens idxMin idxMax : Nat) : Option Int :=
  match checkedMul W sizeTokens (pickPriceForPnl idxMin idxMax isLong false) with
  | none => none
  | some pv =>
    match toSigned W pv, toSigned W sizeUsd with
    | some spv, some ss => if isLong then toI W (spv - ss) else toI W (ss - spv)
    | _, _ => none

/-- the trader cap: a positive total is scaled by `capped pool pnl / pool pnl` when the pool's
pnl (maximised) exceeds `factor · pool value`. -/
def cappedTotalPnl (W U : Nat) (isLong : Bool) (v : PnlView) (idxMin idxMax : Nat) (total : Int) : Option Int :=
  if total > 0 then
    match checkedMul W v.poolAmount v.tokMin with
    | none => none
    | some poolValue =>
      match sidePnl W v.oi v.oit (pickPriceForPnl idxMin idxMax isLong true) isLong with
      | none => none
      | some poolPnl =>
        match capPnlP W U poolPnl poolValue v.maxPnlTrader with
        | none => none
        | some capped =>
          if capped ≠ poolPnl ∧ ¬ capped < 0 ∧ poolPnl > 0 then
            mulDivSigned W capped.natAbs total poolPnl.natAbs
          else some total
  else some total

/-- `PositionExt::pnl_value`: `(pnl, uncapped pnl, size delta in tokens)`. -/
def pnlValue (W U : Nat) (isLong : Bool) (v : PnlView) (sizeUsd sizeTokens idxMin idxMax delta : Nat) :
    Option (Int × Int × Nat) :=
  match uncappedTotalPnl W isLong sizeUsd sizeTokens idxMin idxMax with
  | none => none
  | some uncapped =>
    match cappedTotalPnl W U isLong v idxMin idxMax uncapped with
    | none => none
    | some total =>
      match sizeDeltaInTokens W isLong sizeUsd sizeTokens delta with
      | none => none
      | some sdt =>
        match mulDivSigned W sdt total sizeTokens, mulDivSigned W sdt uncapped sizeTokens with
        | some pnl, some upnl => some (pnl, upnl, sdt)
        | _, _ => none

/-- the cap binds: the pool's maximised pnl is positive and exceeds the cap. -/
def capBinds (W U : Nat) (isLong : Bool) (v : PnlView) (idxMin idxMax : Nat) : Bool :=
  match checkedMul W v.poolAmount v.tokMin,
        sidePnl W v.oi v.oit (pickPriceForPnl idxMin idxMax isLong true) isLong with
  | some poolValue, some poolPnl =>
    match capPnlP W U poolPnl poolValue v.maxPnlTrader with
    | some capped => decide (capped ≠ poolPnl ∧ ¬ capped < 0 ∧ poolPnl > 0)
    | none => false
  | _, _ => false

end Gmx.Perp
