import Gmx.Model.ExceptEq
/-!
# Gmx.Model.FixedStr — `crates/utils/src/fixed_str.rs`

Names are byte lists (`List Nat`, every element `< 256`; a Rust `&str` is additionally valid
UTF-8, which is the hypothesis `utf8Valid n` of the round-trip theorems). `L` is the const
generic `MAX_LEN`. Transcribes the code as of /repo commit 4dfac7c (write side rejects NUL,
read side accepts a buffer without NUL).
-/
namespace Gmx.FixedStr

inductive Err where
  | tooLong   -- FixedStrError::ExceedMaxLengthLimit
  | format    -- FixedStrError::InvalidFormat
  | utf8      -- FixedStrError::Utf8
  | panic     -- slice index out of range (proved unreachable)
  deriving DecidableEq, Repr


/-- `std::str::from_utf8` acceptance as a byte-at-a-time automaton (Unicode table 3-7: no
overlong forms, no surrogates, nothing above U+10FFFF). `k` = continuation bytes still owed,
`[lo, hi]` = range allowed for the next one. -/
def utf8Go : Nat → Nat → Nat → List Nat → Bool
  | 0, _, _, [] => true
  | _ + 1, _, _, [] => false
  | 0, _, _, b :: r =>
    if b < 0x80 then utf8Go 0 0 0 r
    else if 0xC2 ≤ b ∧ b ≤ 0xDF then utf8Go 1 0x80 0xBF r
    else if b = 0xE0 then utf8Go 2 0xA0 0xBF r
    else if b = 0xED then utf8Go 2 0x80 0x9F r
    else if 0xE1 ≤ b ∧ b ≤ 0xEF then utf8Go 2 0x80 0xBF r
    else if b = 0xF0 then utf8Go 3 0x90 0xBF r
    else if b = 0xF4 then utf8Go 3 0x80 0x8F r
    else if 0xF1 ≤ b ∧ b ≤ 0xF3 then utf8Go 3 0x80 0xBF r
    else false
  | k + 1, lo, hi, b :: r => if lo ≤ b ∧ b ≤ hi then utf8Go k 0x80 0xBF r else false

def utf8Valid (l : List Nat) : Bool := utf8Go 0 0 0 l

/-- `fixed_str_to_bytes::<L>(name)` -/
def toBytes (L : Nat) (n : List Nat) : Except Err (List Nat) :=
  if n.length > L then .error .tooLong
  else if n.contains 0 then .error .format
  else .ok (n ++ List.replicate (L - n.length) 0)      -- buffer[..len].copy_from_slice

/-- `bytes.iter().position(|&x| x == 0)` -/
def position0 : List Nat → Option Nat
  | [] => none
  | x :: xs => if x = 0 then some 0 else (position0 xs).map (· + 1)

/-- `bytes_to_fixed_str::<L>(bytes)`; `bytes : [u8; L]`, i.e. `b.length = L`. -/
def fromBytes (L : Nat) (b : List Nat) : Except Err (List Nat) :=
  let e := match position0 b with
    | some i => i
    | none => L                                         -- unwrap_or(MAX_LEN)
  if e > b.length then .error .panic                    -- &bytes[..end]
  else
    let valid := b.take e
    if utf8Valid valid then .ok valid else .error .utf8

end Gmx.FixedStr

namespace Gmx.FixedStr
/-! Pre-fix behaviour (before /repo 4dfac7c), kept only to state what the fix changed
(`C35.prefix_*_witness`); not used by the driver. -/
def toBytesOld (L : Nat) (n : List Nat) : Except Err (List Nat) :=
  if n.length > L then .error .tooLong else .ok (n ++ List.replicate (L - n.length) 0)

def fromBytesOld (_L : Nat) (b : List Nat) : Except Err (List Nat) :=
  match position0 b with
  | none => .error .format
  | some e => if utf8Valid (b.take e) then .ok (b.take e) else .error .utf8
end Gmx.FixedStr
