/-!
# Gmx.Model.Timelock — `programs/timelock` instruction-buffer life cycle

Transcription of `create_instruction_buffer` (+ `load_and_init_instruction`), `approve_instruction`
(+ `InstructionHeader::approve`), `cancel_instruction`, `execute_instruction`
(+ `is_executable`, `to_instruction(false)`), `increase_delay`, with the Anchor `Accounts` constraints
(`has_one = executor`, `has_one = rent_receiver`, executor PDA of the role, `close`) and the
`access_control` role checks. Role membership is a relation changed by `grant` / `revoke`.
Keys are `Nat`: plain accounts `< 100`, executor wallet of role `r` is `100 + r`; users are `Nat`.
Role ids: `0` = TIMELOCK_KEEPER, `1` = TIMELOCK_ADMIN, `2 + r` = the timelocked role `__TLD_<r>`.
Core only.
-/
namespace Gmx.Tl

def I64MAX : Int := 2 ^ 63 - 1
def KEEPER : Nat := 0
def ADMIN : Nat := 1
def tld (r : Nat) : Nat := 2 + r
def wallet (r : Nat) : Nat := 100 + r

structure Meta where
  key : Nat
  signer : Bool
  writable : Bool
  deriving DecidableEq, Repr

/-- what `to_instruction(false)` yields. -/
structure Ix where
  prog : Nat
  data : String
  metas : List Meta
  deriving DecidableEq, Repr

structure Buf where
  role : Nat
  approved : Bool
  approvedAt : Int
  approver : Option Nat
  rentReceiver : Nat
  ix : Ix
  deriving DecidableEq, Repr

structure St where
  delay : Nat
  mem : Nat → Nat → Bool
  bufs : Nat → Option Buf

def setBuf (s : St) (id : Nat) (b : Option Buf) : St :=
  { s with bufs := fun i => if i = id then b else s.bufs i }

/-- `approved_at.saturating_add_unsigned(delay)`. -/
def executableAt (at_ : Int) (delay : Nat) : Int :=
  if at_ + delay > I64MAX then I64MAX else at_ + delay

/-- account metas stored by `load_and_init_instruction` for the first `n` remaining accounts. -/
def storeMetas (r : Nat) (signers : List Nat) : Nat → List (Nat × Bool) → Option (List Meta)
  | _, [] => some []
  | idx, (k, w) :: rest =>
    let isSigner := signers.contains idx
    if isSigner && k != wallet r then none      -- only the executor wallet may sign
    else (storeMetas r signers (idx + 1) rest).map (fun ms => ⟨k, isSigner, w⟩ :: ms)

inductive Event where
  | none
  | created (id : Nat) (ix : Ix)
  | approved (id : Nat) (by_ : Nat)
  | approvedBatch (ids : List Nat) (by_ : Nat)
  | cancelled (id : Nat)
  | cancelledBatch (ids : List Nat)
  | executed (id : Nat) (ix : Ix)
  deriving DecidableEq, Repr

inductive Op where
  | grant (u role : Nat)
  | revoke (u role : Nat)
  | create (now : Int) (caller id r prog numAcc dataLen actualLen : Nat) (data : String)
      (signers : List Nat) (accs : List (Nat × Bool))
  | approve (now : Int) (caller id r : Nat)
  | approveb (now : Int) (caller r : Nat) (ids : List Nat)
  | cancel (now : Int) (caller id r rr : Nat)
  | cancelb (now : Int) (caller r rr : Nat) (ids : List Nat)
  | exec (now : Int) (caller id r rr : Nat)
  | delay (now : Int) (caller delta : Nat)

def create (s : St) (caller id r prog numAcc dataLen actualLen : Nat) (data : String)
    (signers : List Nat) (accs : List (Nat × Bool)) : Option (St × Ix) :=
  if !s.mem caller KEEPER then none else
  if (s.bufs id).isSome then none else
  if accs.length < numAcc then none else
  if actualLen ≠ dataLen then none else
  match storeMetas r signers 0 (accs.take numAcc) with
  | none => none
  | some ms =>
    let ix : Ix := ⟨prog, data, ms⟩
    some (setBuf s id (some ⟨r, false, 0, none, caller, ix⟩), ix)

def approve (s : St) (now : Int) (caller id r : Nat) : Option St :=
  match s.bufs id with
  | none => none
  | some b =>
    if b.role ≠ r then none else
    if !s.mem caller (tld r) then none else
    if b.approved then none else
    if b.approver.isSome then none else
    some (setBuf s id (some { b with approved := true, approvedAt := now, approver := some caller }))

/-- `approve_instructions` (batch over the remaining accounts): `validate_timelocked_role` for the executor named by
`r`, then for every buffer in order: it must belong to THAT executor (`require_keys_eq!(header.executor, executor)`)
and `InstructionHeader::approve` must succeed. Any failing buffer aborts the transaction, so the batch is all or
nothing (a buffer listed twice fails at its second occurrence). All buffers get the same clock value. -/
def approveBatch (s : St) (now : Int) (caller r : Nat) : List Nat → Option St
  | [] => if s.mem caller (tld r) then some s else none
  | id :: ids => match approve s now caller id r with
    | some s' => approveBatch s' now caller r ids
    | none => none

def cancel (s : St) (caller id r rr : Nat) : Option St :=
  match s.bufs id with
  | none => none
  | some b =>
    if b.role ≠ r then none else
    if b.rentReceiver ≠ rr then none else
    if !s.mem caller ADMIN then none else
    some (setBuf s id none)

/-- `cancel_instructions` (batch over the remaining accounts; `access_control` TIMELOCK_ADMIN): for every buffer in
order `require_keys_eq!(header.executor, executor)`, `require_keys_eq!(header.rent_receiver, rent_receiver)`, then
`close` to the rent receiver. Any failing buffer (foreign executor, other rent receiver, missing, listed twice — it is
already closed at its second occurrence) aborts the transaction: all or nothing. -/
def cancelBatch (s : St) (caller r rr : Nat) : List Nat → Option St
  | [] => if s.mem caller ADMIN then some s else none
  | id :: ids => match cancel s caller id r rr with
    | some s' => cancelBatch s' caller r rr ids
    | none => none

def exec (s : St) (now : Int) (caller id r rr : Nat) : Option (St × Ix) :=
  match s.bufs id with
  | none => none
  | some b =>
    if b.role ≠ r then none else
    if b.rentReceiver ≠ rr then none else
    if !s.mem caller KEEPER then none else
    match b.approver with
    | none => none
    | some a =>
      if !s.mem a (tld b.role) then none else
      if !b.approved then none else
      if now < executableAt b.approvedAt s.delay then none else
      some (setBuf s id none, b.ix)

def increaseDelay (s : St) (caller delta : Nat) : Option St :=
  if !s.mem caller ADMIN then none else
  if delta = 0 then none else
  if s.delay + delta ≥ 2 ^ 32 then none else
  some { s with delay := s.delay + delta }

def grant (s : St) (u role : Nat) : Option St :=
  if s.mem u role then none else
  some { s with mem := fun x y => if x = u ∧ y = role then true else s.mem x y }

def revoke (s : St) (u role : Nat) : Option St :=
  if !s.mem u role then none else
  some { s with mem := fun x y => if x = u ∧ y = role then false else s.mem x y }

/-- one transaction: failed ones change nothing. -/
def step (s : St) : Op → St × Event
  | .grant u role => ((grant s u role).getD s, .none)
  | .revoke u role => ((revoke s u role).getD s, .none)
  | .create _ caller id r prog numAcc dataLen actualLen data signers accs =>
    match create s caller id r prog numAcc dataLen actualLen data signers accs with
    | some (s', ix) => (s', .created id ix)
    | none => (s, .none)
  | .approve now caller id r =>
    match approve s now caller id r with
    | some s' => (s', .approved id caller)
    | none => (s, .none)
  | .approveb now caller r ids =>
    match approveBatch s now caller r ids with
    | some s' => (s', .approvedBatch ids caller)
    | none => (s, .none)
  | .cancel _ caller id r rr =>
    match cancel s caller id r rr with
    | some s' => (s', .cancelled id)
    | none => (s, .none)
  | .cancelb _ caller r rr ids =>
    match cancelBatch s caller r rr ids with
    | some s' => (s', .cancelledBatch ids)
    | none => (s, .none)
  | .exec now caller id r rr =>
    match exec s now caller id r rr with
    | some (s', ix) => (s', .executed id ix)
    | none => (s, .none)
  | .delay _ caller delta => ((increaseDelay s caller delta).getD s, .none)

/-- a history: final state and the events in order. -/
def run (s : St) : List Op → St × List Event
  | [] => (s, [])
  | op :: ops =>
    let r := step s op
    let rest := run r.1 ops
    (rest.1, r.2 :: rest.2)

def init (delay : Nat) : St := ⟨delay, fun _ _ => false, fun _ => none⟩

/-! ## ghost: did the approver hold the buffer's OWN timelocked role when approving?

The property says "approved by a holder of the corresponding role". The program stores only the approver and the time;
the ghost `held id` records, at the moment buffer `id` is approved (singly or in a batch), whether the approver held the
timelocked role of the executor THE BUFFER BELONGS TO (`tld b.role` — read from the buffer, not from the role named in
the call). It is computed independently of the checks `approve` makes. -/

def heldNow (s : St) (a id : Nat) : Bool :=
  match s.bufs id with | some b => s.mem a (tld b.role) | none => false

structure GSt where
  s : St
  held : Nat → Bool

def gstep (g : GSt) (op : Op) : GSt × Event :=
  let r := step g.s op
  let held : Nat → Bool := match r.2 with
    | .approved id a => fun i => if i = id then heldNow g.s a id else g.held i
    | .approvedBatch ids a => fun i => if ids.contains i then heldNow g.s a i else g.held i
    | .created id _ => fun i => if i = id then false else g.held i
    | _ => g.held
  (⟨r.1, held⟩, r.2)

def grun (g : GSt) : List Op → GSt × List Event
  | [] => (g, [])
  | op :: ops =>
    let r := gstep g op
    let rest := grun r.1 ops
    (rest.1, r.2 :: rest.2)

def ginit (delay : Nat) : GSt := ⟨init delay, fun _ => false⟩

/-! ## which accounts an instruction is handed (account binding)

The handlers read the delay from the SUPPLIED `TimelockConfig` account and the role from the SUPPLIED
`Executor` account; Anchor's `has_one = store` on both ties them to the `store` account whose roles are
checked, and the buffer's `has_one = executor` ties the buffer to the executor. `Supplied` records what the
supplied accounts say; `own` is what the store's own accounts say. -/

structure Supplied where
  cfgStore : Nat      -- `timelock_config.store`
  cfgDelay : Nat      -- `timelock_config.delay`
  exeStore : Nat      -- `executor.store`
  bufExeOwn : Bool    -- the buffer's recorded executor is the store's own executor of that role
  deriving DecidableEq, Repr

def own (me : Nat) (s : St) : Supplied := ⟨me, s.delay, me, true⟩

/-- `execute_instruction` as a function of the supplied accounts: both `has_one = store` constraints, the
buffer's `has_one = executor`, then the handler with the delay OF THE SUPPLIED CONFIG. -/
def execWith (me : Nat) (s : St) (a : Supplied) (now : Int) (caller id r rr : Nat) : Option (St × Ix) :=
  if a.cfgStore ≠ me then none else
  if a.exeStore ≠ me then none else
  if !a.bufExeOwn then none else
  match exec { s with delay := a.cfgDelay } now caller id r rr with
  | some (s', ix) => some ({ s' with delay := s.delay }, ix)
  | none => none

/-- `increase_delay`: `#[account(mut, has_one = store)] timelock_config`. -/
def increaseDelayWith (me : Nat) (s : St) (a : Supplied) (caller delta : Nat) : Option St :=
  if a.cfgStore ≠ me then none else increaseDelay s caller delta

/-- `approve_instruction` / `cancel_instruction`: `executor` has `has_one = store`, buffer `has_one = executor`. -/
def approveWith (me : Nat) (s : St) (a : Supplied) (now : Int) (caller id r : Nat) : Option St :=
  if a.exeStore ≠ me then none else if !a.bufExeOwn then none else approve s now caller id r

def cancelWith (me : Nat) (s : St) (a : Supplied) (caller id r rr : Nat) : Option St :=
  if a.exeStore ≠ me then none else if !a.bufExeOwn then none else cancel s caller id r rr

end Gmx.Tl
