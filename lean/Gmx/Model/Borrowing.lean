import Gmx.Model.Funding
/-!
# Gmx.Model.Borrowing — `crates/model/src/market/borrowing.rs`,
`action/update_borrowing_state.rs`, `params/fee.rs` (kink model), `market/utils.rs`
(`usage_factor`), `position.rs` (`update_total_borrowing`, `pending_borrowing_fee_value`)
-/
namespace Gmx.Perp

/-- borrowing parameters of ONE side (the side whose factor is computed). -/
structure BorrowSide where
  exponent : Nat
  factor : Nat
  optimal : Nat
  base : Nat
  above : Nat
  maxOI : Nat
  deriving Repr

structure BorrowCommon where
  skipSmaller : Bool
  oiReserveFactor : Nat
  ignoreOI : Bool
  deriving Repr

inductive BErr where
  | comp | conv | ovf | emptyPool | prices
  deriving Repr, DecidableEq

def optB {α : Type} (e : BErr) : Option α → Except BErr α
  | some a => .ok a
  | none => .error e

/-- what `borrowing_factor_per_second(is_long)` reads from the market: `oiLong`/`oiShort` total
USD open interest per side, `oiTokens` the side's total size in tokens, `liq` the liquidity-pool
amount of the side's token, `idxMax` the max index price, `tokMin` the min price of that token. -/
structure BorrowView where
  oiLong : Nat
  oiShort : Nat
  oiTokens : Nat
  liq : Nat
  idxMax : Nat
  tokMin : Nat
  deriving Repr

/-- `MarketUtils::usage_factor`. -/
def usageFactor (W U : Nat) (c : BorrowCommon) (sp : BorrowSide) (oiSide reserved poolValue : Nat) :
    Except BErr Nat :=
  match applyFactor W U poolValue c.oiReserveFactor with
  | none => .error .comp
  | some maxReserved =>
    match divToFactor W U reserved maxReserved false with
    | none => .error .comp
    | some ru =>
      if c.ignoreOI then .ok ru else
      match divToFactor W U oiSide sp.maxOI false with
      | none => .error .comp
      | some ou => .ok (if ru > ou then ru else ou)

/-- `BorrowingFeeKinkModelParams::borrowing_factor_per_second` (`none` = model disabled). -/
def kinkFactor (W U : Nat) (c : BorrowCommon) (sp : BorrowSide) (oiSide reserved poolValue : Nat) :
    Except BErr (Option Nat) :=
  if sp.optimal = 0 then .ok none else
  match usageFactor W U c sp oiSide reserved poolValue with
  | .error e => .error e
  | .ok usage =>
    match applyFactor W U usage sp.base with
    | none => .error .comp
    | some fps =>
      if usage > sp.optimal ∧ U > sp.optimal then
        let diff := usage - sp.optimal
        let additional := if sp.above > sp.base then sp.above - sp.base else 0
        let divisor := U - sp.optimal
        match (mulDiv W additional diff divisor).bind (fun a => checkedAdd W fps a) with
        | none => .error .comp
        | some r => .ok (some r)
      else .ok (some fps)

/-- `BorrowingFeeMarketExt::borrowing_factor_per_second`. -/
def borrowingFactorPerSecond (W U : Nat) (c : BorrowCommon) (sp : BorrowSide) (isLong : Bool)
    (v : BorrowView) : Except BErr Nat :=
  match (if isLong then checkedMul W v.oiTokens v.idxMax else some v.oiShort) with
  | none => .error .ovf
  | some reserved =>
    if reserved = 0 then .ok 0 else
    if c.skipSmaller ∧ ((isLong ∧ v.oiLong < v.oiShort) ∨ (¬ isLong ∧ v.oiShort < v.oiLong)) then .ok 0 else
    match checkedMul W v.liq v.tokMin with
    | none => .error .ovf
    | some poolValue =>
      if poolValue = 0 then .error .emptyPool else
      match kinkFactor W U c sp (if isLong then v.oiLong else v.oiShort) reserved poolValue with
      | .error e => .error e
      | .ok (some f) => .ok f
      | .ok none =>
        match applyExponentFactor W U reserved sp.exponent with
        | none => .error .comp
        | some rexp =>
          match divToFactor W U rexp poolValue false with
          | none => .error .comp
          | some rfac => optB .comp (applyFactor W U rfac sp.factor)

/-- `next_cumulative_borrowing_factor`: `(next, delta)`. -/
def nextCumulativeBorrowingFactor (W U : Nat) (c : BorrowCommon) (sp : BorrowSide) (isLong : Bool)
    (v : BorrowView) (cur dur : Nat) : Except BErr (Nat × Nat) :=
  match borrowingFactorPerSecond W U c sp isLong v with
  | .error e => .error e
  | .ok fps =>
    match toU W dur with
    | none => .error .conv
    | some dv =>
      match checkedMul W fps dv with
      | none => .error .comp
      | some delta =>
        match checkedAdd W cur delta with
        | none => .error .comp
        | some nx => .ok (nx, delta)

/-- `UpdateBorrowingState::execute_one_side`: the new cumulative factor of the side. -/
def updateBorrowingSide (W U : Nat) (c : BorrowCommon) (sp : BorrowSide) (isLong : Bool)
    (v : BorrowView) (cur dur : Nat) : Except BErr Nat :=
  match nextCumulativeBorrowingFactor W U c sp isLong v cur dur with
  | .error e => .error e
  | .ok (nx, delta) =>
    match toSigned W delta with
    | none => .error .conv
    | some _ => .ok nx

def priceOk (W mn mx : Nat) : Bool := decide (mn ≠ 0 ∧ mx ≠ 0 ∧ mn + mx < 2 ^ W)

/-- `UpdateBorrowingState::{try_new, execute}`: long side first, then short. -/
def updateBorrowing (W U : Nat) (c : BorrowCommon) (spL spS : BorrowSide) (vL vS : BorrowView)
    (pricesValid : Bool) (cumL cumS dur : Nat) : Except BErr (Nat × Nat) :=
  if !pricesValid then .error .prices else
  match updateBorrowingSide W U c spL true vL cumL dur with
  | .error e => .error e
  | .ok nl =>
    match updateBorrowingSide W U c spS false vS cumS dur with
    | .error e => .error e
    | .ok ns => .ok (nl, ns)

/-- `total_pending_borrowing_fees`: `⌊OI·next/UNIT⌋ − total_borrowing` (checked). -/
def totalPendingBorrowingFees (W U : Nat) (c : BorrowCommon) (sp : BorrowSide) (isLong : Bool)
    (v : BorrowView) (cur dur total : Nat) : Except BErr Nat :=
  match nextCumulativeBorrowingFactor W U c sp isLong v cur dur with
  | .error e => .error e
  | .ok (nx, _) =>
    optB .comp ((applyFactor W U (if isLong then v.oiLong else v.oiShort) nx).bind (fun t => checkedSub t total))

/-- `PositionMutExt::update_total_borrowing`: the new total of the position's side. -/
def updateTotalBorrowing (W U size bf nextSize nextBf total : Nat) : Except BErr Nat :=
  match applyFactor W U size bf with
  | none => .error .comp
  | some prev =>
    match applyFactor W U nextSize nextBf with
    | none => .error .comp
    | some next =>
      match checkedSignedSub W next prev with
      | none => .error .conv
      | some d =>
        if d > 0 then optB .ovf (checkedAdd W total d.natAbs)
        else optB .comp (checkedSub total d.natAbs)

/-- `PositionExt::pending_borrowing_fee_value`. -/
def pendingBorrowingFeeValue (W U size posBf latest : Nat) : Except BErr Nat :=
  match checkedSub latest posBf with
  | none => .error .comp
  | some d => optB .comp (applyFactor W U size d)

/-! ### histories of one side -/

/-- borrowing bookkeeping of one side: cumulative factor, recorded total, and the open
positions' `(size_in_usd, borrowing_factor)`. -/
structure BorrowSys where
  cum : Nat
  total : Nat
  pos : List (Nat × Nat)
  deriving Repr, DecidableEq

inductive BorrowOp where
  /-- a borrowing-state update raising the cumulative factor by `delta` -/
  | update (delta : Nat)
  /-- a new (empty) position appears -/
  | add
  /-- position `i` is increased/decreased/closed to `newSize` (settles at the current factor) -/
  | settle (i : Nat) (newSize : Nat)

def sumBorrowing (U : Nat) : List (Nat × Nat) → Nat
  | [] => 0
  | (s, b) :: xs => s * b / U + sumBorrowing U xs

def sumSizes : List (Nat × Nat) → Nat
  | [] => 0
  | (s, _) :: xs => s + sumSizes xs

/-- one operation; a failing operation leaves the state unchanged (reverted). -/
def BorrowSys.step (W U : Nat) (s : BorrowSys) : BorrowOp → BorrowSys
  | .update d => match checkedAdd W s.cum d with
    | some c => { s with cum := c }
    | none => s
  | .add => { s with pos := s.pos ++ [(0, 0)] }
  | .settle i newSize =>
    match s.pos[i]? with
    | none => s
    | some (sz, bf) =>
      match updateTotalBorrowing W U sz bf newSize s.cum s.total with
      | .ok t => { s with total := t, pos := s.pos.set i (newSize, s.cum) }
      | .error _ => s

def BorrowSys.run (W U : Nat) (s : BorrowSys) : List BorrowOp → BorrowSys
  | [] => s
  | o :: os => BorrowSys.run W U (s.step W U o) os

def BorrowSys.init : BorrowSys := ⟨0, 0, []⟩

/-- the invariant: recorded total = Σ ⌊size·factor/UNIT⌋ and every position's factor ≤ the
cumulative one. -/
def BorrowSys.Inv (U : Nat) (s : BorrowSys) : Prop :=
  s.total = sumBorrowing U s.pos ∧ ∀ x ∈ s.pos, x.2 ≤ s.cum

end Gmx.Perp
