import Gmx.Model.Market
import Gmx.Model.Position
/-!
# Gmx.Model.Perp — positions over the market state

Transcription of `crates/model/src/position.rs` (fees, price impact, `check_liquidatable`,
`validate`, `will_collateral_be_sufficient`, open-interest / total-borrowing updates),
`market/perp.rs` (impact caps, open-interest update, min collateral factor for OI),
`action/increase_position.rs` and `action/decrease_position/{mod,collateral_processor,utils}.rs`
on top of `Gmx.Model.Market` (owner: mkt-liq).

Scope: `DecreasePositionSwapType::NoSwap` and `acceptable_price = None` (what `TestPositionOps`
drives by default). Errors are kept as the kinds the properties distinguish (`PErr`); every
computational failure (`Computation`, `Convert`, `Overflow`, …) is `fail`.
-/
namespace Gmx.Perp
open Gmx

inductive Step where
  | pnl | fees | funding | impact | diff
  deriving Repr, DecidableEq

inductive LiqReason where
  | minCollateral | notPositive | minCollateralForLeverage
  deriving Repr, DecidableEq

inductive PErr where
  | fail | prices | arg | invalidPosition | liquidatable (r : LiqReason) | notLiquidatable
  | insufficient (s : Step) | reserve | oiReserve | maxOI
  deriving Repr, DecidableEq

def orF {α : Type} : Option α → Except PErr α
  | some a => .ok a
  | none => .error .fail

/-- perp configuration not contained in `MarketConfig` (`TestMarketConfig` fields). -/
structure PerpCfg where
  minPositionSize : Nat
  minCollateralValue : Nat
  minCollateralFactor : Nat
  /-- `min_collateral_factor_for_liquidation()` (defaults to `minCollateralFactor`) -/
  minCollateralFactorLiq : Nat
  maxPosImpactFactor : Nat
  maxNegImpactFactor : Nat
  maxImpactFactorLiq : Nat
  minCollFactorOiMult : Nat
  liqFeeFactor : Nat
  liqFeeRecv : Nat
  deriving Repr

structure Pos where
  isLong : Bool
  collLong : Bool
  collateral : Nat := 0
  sizeUsd : Nat := 0
  sizeTokens : Nat := 0
  bf : Nat := 0
  fIdx : Nat := 0
  cIdxL : Nat := 0
  cIdxS : Nat := 0
  deriving Repr, DecidableEq

def Pos.isEmpty (p : Pos) : Bool := p.sizeUsd == 0 && p.sizeTokens == 0 && p.collateral == 0

/-! ### market accessors -/

def oiPool (m : Market) (isLong : Bool) : Pool := if isLong then m.oiL else m.oiS
def oitPool (m : Market) (isLong : Bool) : Pool := if isLong then m.oitL else m.oitS
def collPool (m : Market) (isLong : Bool) : Pool := if isLong then m.collL else m.collS
def fapsPool (m : Market) (isLong : Bool) : Pool := if isLong then m.fapsL else m.fapsS
def cfapsPool (m : Market) (isLong : Bool) : Pool := if isLong then m.cfapsL else m.cfapsS

def setOiPool (m : Market) (isLong : Bool) (p : Pool) : Market := if isLong then { m with oiL := p } else { m with oiS := p }
def setOitPool (m : Market) (isLong : Bool) (p : Pool) : Market := if isLong then { m with oitL := p } else { m with oitS := p }
def setCollPool (m : Market) (isLong : Bool) (p : Pool) : Market := if isLong then { m with collL := p } else { m with collS := p }

def pnlView (m : Market) (pr : Prices) (isLong : Bool) : PnlView :=
  { oi := (oiPool m isLong).long + (oiPool m isLong).short
    oit := (oitPool m isLong).long + (oitPool m isLong).short
    poolAmount := m.primary.amount isLong
    tokMin := (pr.collateral isLong).min
    maxPnlTrader := m.cfg.maxPnlTrader }

/-- `PositionExt::pnl_value` on the market. -/
def posPnl (W U : Nat) (m : Market) (pr : Prices) (p : Pos) (delta : Nat) : Except PErr (Int × Int × Nat) :=
  orF (pnlValue W U p.isLong (pnlView m pr p.isLong) p.sizeUsd p.sizeTokens pr.index.min pr.index.max delta)

/-! ### price impact -/

/-- `Pool::checked_cancel_amounts`. -/
def cancelAmounts (W : Nat) (p : Pool) : Option Pool :=
  let leftover := natAbsDiff p.long p.short
  let (ld, sd) := if p.long ≥ p.short then (natAbsDiff p.long leftover, p.short) else (p.long, natAbsDiff p.short leftover)
  match toOppositeSigned W ld, toOppositeSigned W sd with
  | some a, some b => p.applyBothSides W true a b
  | _, _ => none

/-- `PositionExt::position_price_impact`. -/
def positionPriceImpact (W U : Nat) (m : Market) (isLong : Bool) (sizeDelta : Int) (includeVi : Bool) :
    Option (Int × BalanceChange) :=
  let dL : Int := if isLong then sizeDelta else 0
  let dS : Int := if isLong then 0 else sizeDelta
  match openInterest W m true, openInterest W m false with
  | some ol, some os =>
    match (PoolDelta.tryNew W ol os dL dS 1 1).bind (fun d => d.priceImpact W U m.cfg.positionImpact) with
    | none => none
    | some imp =>
      if ¬ (imp.1 < 0) ∨ ¬ includeVi then some imp else
      match m.viPositions with
      | none => some imp
      | some vi =>
        match cancelAmounts W vi with
        | none => none
        | some left0 =>
          let left1 := if sizeDelta < 0 then
              (toI W (-sizeDelta)).bind (fun off => left0.applyBothSides W true off off)
            else some left0
          match left1 with
          | none => none
          | some left =>
            match (PoolDelta.tryNew W left.long left.short dL dS 1 1).bind (fun d => d.priceImpact W U m.cfg.positionImpact) with
            | none => none
            | some vimp => if vimp.1 < imp.1 then some vimp else some imp
  | _, _ => none

/-- `cap_positive_position_price_impact`. -/
def capPositiveImpact (W U : Nat) (m : Market) (c : PerpCfg) (index : Price) (sizeDelta impact : Int) : Option Int :=
  if impact < 0 then some impact else
  match (checkedMul W m.positionImpact.long index.min).bind (toSigned W) with
  | none => none
  | some max1 =>
    let i1 := if impact > max1 then max1 else impact
    match (applyFactor W U sizeDelta.natAbs c.maxPosImpactFactor).bind (toSigned W) with
    | none => none
    | some max2 => some (if i1 > max2 then max2 else i1)

/-- `cap_negative_position_price_impact`: `(capped impact, impact diff)`. -/
def capNegativeImpact (W U : Nat) (c : PerpCfg) (sizeDelta : Int) (forLiq : Bool) (impact : Int) : Option (Int × Nat) :=
  if impact < 0 then
    let f := if forLiq then c.maxImpactFactorLiq else c.maxNegImpactFactor
    match (applyFactor W U sizeDelta.natAbs f).bind (toOppositeSigned W) with
    | none => none
    | some minImpact =>
      if impact < minImpact then
        match toI W (minImpact - impact) with
        | none => none
        | some d => some (minImpact, d.natAbs)
      else some (impact, 0)
  else some (impact, 0)

/-! ### fees -/

structure PosFees where
  paidValue : Nat := 0
  orderPool : Nat := 0
  orderRecv : Nat := 0
  orderValue : Nat := 0
  borrowAmount : Nat := 0
  borrowRecv : Nat := 0
  fundAmount : Nat := 0
  claimL : Nat := 0
  claimS : Nat := 0
  liq : Option LiqFees := none
  deriving Repr, DecidableEq

def PosFees.totalCostExclFunding (W : Nat) (f : PosFees) : Option Nat :=
  match checkedAdd W f.orderPool f.orderRecv with
  | none => none
  | some a => match checkedAdd W a f.borrowAmount with
    | none => none
    | some b => match f.liq with
      | none => some b
      | some l => checkedAdd W b l.amount

def PosFees.totalCost (W : Nat) (f : PosFees) : Option Nat :=
  (f.totalCostExclFunding W).bind (fun a => checkedAdd W a f.fundAmount)

def PosFees.forReceiver (W : Nat) (f : PosFees) : Option Nat :=
  match checkedAdd W f.orderRecv f.borrowRecv with
  | none => none
  | some a => match f.liq with
    | none => some a
    | some l => checkedAdd W a l.receiver

def PosFees.forPool (W : Nat) (f : PosFees) : Option Nat :=
  match checkedSub f.borrowAmount f.borrowRecv with
  | none => none
  | some bp => match checkedAdd W f.orderPool bp with
    | none => none
    | some a => match f.liq with
      | none => some a
      | some l => match checkedSub l.amount l.receiver with
        | none => none
        | some lp => checkedAdd W a lp

def PosFees.clearExclFunding (f : PosFees) : PosFees :=
  { f with paidValue := 0, orderPool := 0, orderRecv := 0, orderValue := 0, borrowAmount := 0, borrowRecv := 0, liq := none }

/-- `PositionExt::position_fees`. -/
def positionFees (W U : Nat) (m : Market) (c : PerpCfg) (p : Pos) (collPrice : Price) (sizeDelta : Nat)
    (bc : BalanceChange) (isLiq : Bool) : Except PErr PosFees :=
  let liq : Except PErr (Option LiqFees) :=
    if isLiq then (orF (liquidationFee W U c.liqFeeFactor c.liqFeeRecv sizeDelta collPrice.min)).map some else .ok none
  match liq with
  | .error e => .error e
  | .ok liqFees =>
    match orderFees W U m.cfg.orderFee collPrice.min collPrice.max sizeDelta bc with
    | .error _ => .error .fail
    | .ok o =>
      match pendingBorrowingFeeValue W U p.sizeUsd p.bf (m.borrowingFactor.amount p.isLong) with
      | .error _ => .error .fail
      | .ok bv =>
        match checkedDiv bv collPrice.min, checkedAdd W o.feeValue bv with
        | some bamt, some paid =>
          match applyFactor W U bamt m.cfg.borrowingReceiverFactor with
          | none => .error .fail
          | some brecv =>
            let adj := m.cfg.fundingAdjustment
            match unpackFunding W U adj ((fapsPool m p.isLong).amount p.collLong) p.fIdx p.sizeUsd true,
                  unpackFunding W U adj (cfapsPool m p.isLong).long p.cIdxL p.sizeUsd false,
                  unpackFunding W U adj (cfapsPool m p.isLong).short p.cIdxS p.sizeUsd false with
            | some fa, some cl, some cs =>
              .ok { paidValue := paid, orderPool := o.pool, orderRecv := o.receiver, orderValue := o.feeValue,
                    borrowAmount := bamt, borrowRecv := brecv, fundAmount := fa, claimL := cl, claimS := cs, liq := liqFees }
            | _, _, _ => .error .fail
        | _, _ => .error .fail

/-! ### collateral checks -/

inductive CollCheck where
  | sufficient | zero | negative | minForLeverage | minCollateral
  deriving Repr, DecidableEq

/-- the tail of `check_collateral`: zero test and leverage test on a non-negative value. -/
def checkLeverage (W U size minFactor : Nat) (allowZero : Bool) (cv : Nat) : Option CollCheck :=
  if !allowZero && cv == 0 then some .zero else
  match applyFactor W U size minFactor with
  | none => none
  | some need => if cv < need then some .minForLeverage else some .sufficient

/-- `check_collateral`. -/
def checkCollateral (W U size minFactor : Nat) (minValue : Option Nat) (allowZero : Bool) (v : Int) : Option CollCheck :=
  if v < 0 then (if minValue.isSome then some .minCollateral else some .negative) else
  match minValue with
  | some mv => if v.natAbs < mv then some .minCollateral else checkLeverage W U size minFactor allowZero v.natAbs
  | none => checkLeverage W U size minFactor allowZero v.natAbs

/-- `min_collateral_factor_for_open_interest`. -/
def minCollateralFactorForOi (W U : Nat) (m : Market) (c : PerpCfg) (isLong : Bool) (delta : Int) : Option Nat :=
  match openInterest W m isLong with
  | none => none
  | some oi => (checkedAddWithSigned W oi delta).bind (fun n => applyFactor W U n c.minCollFactorOiMult)

/-- `will_collateral_be_sufficient`: `(is sufficient, remaining collateral value)`. -/
def willCollateralBeSufficient (W U : Nat) (m : Market) (c : PerpCfg) (pr : Prices) (p : Pos)
    (nextSize nextColl : Nat) (realizedPnl oiDelta : Int) : Option (Bool × Int) :=
  match (checkedMul W nextColl (pr.collateral p.collLong).min).bind (toSigned W) with
  | none => none
  | some r0 =>
    let r1 := if realizedPnl < 0 then toI W (r0 + realizedPnl) else some r0
    match r1 with
    | none => none
    | some rem =>
      if rem < 0 then some (false, rem) else
      match minCollateralFactorForOi W U m c p.isLong oiDelta with
      | none => none
      | some f0 =>
        let f := if f0 ≥ c.minCollateralFactor then f0 else c.minCollateralFactor
        match checkCollateral W U nextSize f none true rem with
        | some .sufficient => some (true, rem)
        | some .negative => some (false, rem)
        | some .minForLeverage => some (false, rem)
        | _ => none

/-- the remaining collateral value `check_liquidatable` compares with the thresholds:
collateral value + pnl + (capped negative) close impact − close costs. -/
def remainingCollateralValue (W U : Nat) (m : Market) (c : PerpCfg) (pr : Prices) (p : Pos) : Except PErr Int :=
  match posPnl W U m pr p p.sizeUsd with
  | .error e => .error e
  | .ok (pnl, _, _) =>
    let cp := pr.collateral p.collLong
    match checkedMul W p.collateral cp.min, toOppositeSigned W p.sizeUsd with
    | some cv, some sd =>
      match positionPriceImpact W U m p.isLong sd true with
      | none => .error .fail
      | some (iv, bc) =>
        let impact : Option Int := if iv < 0 then (capNegativeImpact W U c sd true iv).map (·.1) else some 0
        match impact with
        | none => .error .fail
        | some imp =>
          match positionFees W U m c p cp p.sizeUsd bc false with
          | .error e => .error e
          | .ok fees =>
            match (fees.totalCost W).bind (fun t => checkedMul W t cp.min) with
            | none => .error .fail
            | some cost =>
              match toSigned W cv, toSigned W cost with
              | some scv, some scost =>
                match toI W (scv + pnl) with
                | none => .error .fail
                | some a => match toI W (a + imp) with
                  | none => .error .fail
                  | some b => orF (toI W (b - scost))
              | _, _ => .error .fail
    | _, _ => .error .fail

/-- `PositionExt::check_liquidatable`. -/
def checkLiquidatable (W U : Nat) (m : Market) (c : PerpCfg) (pr : Prices) (p : Pos)
    (validateMinCollUsd forLiq : Bool) : Except PErr (Option LiqReason) :=
  match remainingCollateralValue W U m c pr p with
  | .error e => .error e
  | .ok rem =>
    let factor := if forLiq then c.minCollateralFactorLiq else c.minCollateralFactor
    match checkCollateral W U p.sizeUsd factor (if validateMinCollUsd then some c.minCollateralValue else none) false rem with
    | none => .error .fail
    | some .sufficient => .ok none
    | some .zero => .ok (some .notPositive)
    | some .negative => .ok (some .notPositive)
    | some .minForLeverage => .ok (some .minCollateralForLeverage)
    | some .minCollateral => .ok (some .minCollateral)

/-- `PositionExt::validate`. -/
def validatePos (W U : Nat) (m : Market) (c : PerpCfg) (pr : Prices) (p : Pos) (minSize minCollUsd : Bool) :
    Except PErr Unit :=
  if p.sizeUsd = 0 ∨ p.sizeTokens = 0 then .error .invalidPosition else
  if minSize ∧ p.sizeUsd < c.minPositionSize then .error .invalidPosition else
  match checkLiquidatable W U m c pr p minCollUsd false with
  | .error e => .error e
  | .ok (some r) => .error (.liquidatable r)
  | .ok none => .ok ()

/-! ### open interest and total borrowing -/

/-- the max-open-interest check of `apply_delta_to_open_interest` (only for positive deltas). -/
def oiExceeded (W : Nat) (oi : Pool) (maxOI : Nat) (dUsd : Int) : Bool :=
  decide (dUsd > 0) && (match checkedAdd W oi.long oi.short with
    | some t => decide (t > maxOI)
    | none => true)

/-- the virtual inventory for positions tracks the users' net open interest (`None` = failure). -/
def updateViPositions (W : Nat) (vi : Option Pool) (isLong : Bool) (dUsd : Int) : Option (Option Pool) :=
  match vi with
  | none => some none
  | some pool =>
    match toSigned W dUsd.natAbs with
    | none => none
    | some a =>
      let toLong := (isLong && decide (¬ dUsd < 0)) || (!isLong && decide (dUsd < 0))
      match pool.applyDelta W toLong a with
      | none => none
      | some q => (cancelAmounts W q).map some

/-- `apply_delta_to_open_interest` (with the max-open-interest check and the virtual inventory
for positions) followed by the token pool update: `PositionMutExt::update_open_interest`. -/
def updateOpenInterest (W : Nat) (m : Market) (isLong collLong : Bool) (dUsd dTok : Int) : Except PErr Market :=
  if dUsd = 0 then .ok m else
  match (oiPool m isLong).applyDelta W collLong dUsd with
  | none => .error .fail
  | some oi =>
    -- the pool is written before the check (the caller discards the state on error)
    if oiExceeded W oi m.cfg.maxOpenInterest dUsd then .error .maxOI else
    match updateViPositions W m.viPositions isLong dUsd with
    | none => .error .fail
    | some v =>
      match (oitPool m isLong).applyDelta W collLong dTok with
      | none => .error .fail
      | some t => .ok (setOitPool { setOiPool m isLong oi with viPositions := v } isLong t)

/-- `PositionMutExt::update_total_borrowing` on the market. -/
def updateTotalBorrowingM (W U : Nat) (m : Market) (p : Pos) (nextSize nextBf : Nat) : Except PErr Market :=
  match updateTotalBorrowing W U p.sizeUsd p.bf nextSize nextBf (m.totalBorrowing.amount p.isLong) with
  | .error _ => .error .fail
  | .ok t => .ok { m with totalBorrowing := m.totalBorrowing.setAmount p.isLong t }

/-- `validate_open_interest_reserve`. -/
def validateOiReserve (W U : Nat) (m : Market) (pr : Prices) (isLong : Bool) : Except PErr Unit :=
  match poolValueWithoutPnlOneSide W m pr isLong false with
  | none => .error .fail
  | some pv => match applyFactor W U pv m.cfg.oiReserveFactor with
    | none => .error .fail
    | some maxReserved => match reservedValue W m pr.index isLong with
      | none => .error .fail
      | some rv => if rv > maxReserved then .error .oiReserve else .ok ()

def validateReserveP (W U : Nat) (m : Market) (pr : Prices) (isLong : Bool) : Except PErr Unit :=
  match validateReserve W U m pr isLong with
  | .ok () => .ok ()
  | .error .reserve => .error .reserve
  | .error _ => .error .fail

/-- snapshot the market's funding indices and cumulative borrowing factor into the position. -/
def Pos.syncFunding (p : Pos) (m : Market) : Pos :=
  { p with fIdx := (fapsPool m p.isLong).amount p.collLong, cIdxL := (cfapsPool m p.isLong).long, cIdxS := (cfapsPool m p.isLong).short }

/-! ### increase -/

structure IncreaseReport where
  impactValue : Int
  impactAmount : Int
  sizeDeltaTokens : Nat
  collateralDelta : Int
  fees : PosFees
  deriving Repr, DecidableEq

/-- `IncreasePosition::get_execution_params`: `(impact value, balance change, impact amount, size delta in tokens)`. -/
def increaseExecution (W U : Nat) (m : Market) (c : PerpCfg) (pr : Prices) (isLong : Bool) (sizeDelta : Nat) :
    Except PErr (Int × BalanceChange × Int × Nat) :=
  if sizeDelta = 0 then .ok (0, .unchanged, 0, 0) else
  match toSigned W sizeDelta with
  | none => .error .fail
  | some sd =>
    match positionPriceImpact W U m isLong sd true with
    | none => .error .fail
    | some (iv0, bc) =>
      match capPositiveImpact W U m c pr.index sd iv0 with
      | none => .error .fail
      | some iv =>
        let amount : Option Int :=
          if iv > 0 then (toSigned W pr.index.max).bind (fun pz => if pz = 0 then none else toI W (Int.tdiv iv pz))
          else roundUpMagnitudeDiv W pr.index.min iv
        let base : Option Nat := if isLong then checkedDiv sizeDelta pr.index.max else roundUpDiv W sizeDelta pr.index.min
        match amount, base with
        | some amt, some b =>
          let sdt := if isLong then checkedAddWithSigned W b amt else checkedSubWithSigned W b amt
          match sdt with
          | none => .error .fail
          | some t =>
            -- get_execution_price_for_increase: size_delta_usd / size_delta_in_tokens must be defined
            if t = 0 then .error .fail else .ok (iv, bc, amt, t)
        | _, _ => .error .fail

/-- `initialize_position_if_empty`. -/
def initIfEmpty (p0 : Pos) (m : Market) : Pos :=
  if p0.sizeUsd = 0 then ({ p0 with sizeTokens := 0 }).syncFunding m else p0

/-- `IncreasePosition::execute` after `initialize_position_if_empty`. -/
def increaseCore (W U : Nat) (m : Market) (c : PerpCfg) (pr : Prices) (p : Pos) (collInc sizeDelta : Nat) :
    Except PErr (Market × Pos × IncreaseReport) := do
  let (iv, bc, amt, sdt) ← increaseExecution W U m c pr p.isLong sizeDelta
  -- process_collateral
  let cp := pr.collateral p.collLong
  let inc ← orF (toSigned W collInc)
  let fees ← positionFees W U m c p cp sizeDelta bc false
  let total ← orF ((fees.totalCost W).bind (toSigned W))
  let collDelta ← orF (toI W (inc - total))
  let recv ← orF ((fees.forReceiver W).bind (toSigned W))
  let feePool ← orF (m.fee.applyDelta W p.collLong recv)
  let m := { m with fee := feePool }
  let forPool ← orF ((fees.forPool W).bind (toSigned W))
  let m ← orF (m.applyDelta W p.collLong forPool)
  let cs ← orF ((collPool m p.isLong).applyDelta W p.collLong collDelta)
  let m := setCollPool m p.isLong cs
  let coll ← match checkedAddWithSigned W p.collateral collDelta with
    | some v => pure v
    | none => if collDelta > 0 then throw .fail else throw .arg
  let p := { p with collateral := coll }
  let negAmt ← orF (toI W (-amt))
  let ip ← orF (m.positionImpact.applyDelta W true negAmt)
  let m := { m with positionImpact := ip }
  let nextSize ← orF (checkedAdd W p.sizeUsd sizeDelta)
  let nextBf := m.borrowingFactor.amount p.isLong
  let m ← updateTotalBorrowingM W U m p nextSize nextBf
  let nextTokens ← orF (checkedAdd W p.sizeTokens sdt)
  let p := ({ p with sizeUsd := nextSize, sizeTokens := nextTokens, bf := nextBf }).syncFunding m
  let sdS ← orF (toSigned W sizeDelta)
  let sdtS ← orF (toSigned W sdt)
  let m ← updateOpenInterest W m p.isLong p.collLong sdS sdtS
  if sizeDelta ≠ 0 then
    validateReserveP W U m pr p.isLong
    validateOiReserve W U m pr p.isLong
    match willCollateralBeSufficient W U m c pr p p.sizeUsd p.collateral 0 0 with
    | none => throw .fail
    | some (false, _) => throw .arg
    | some (true, _) => pure ()
  validatePos W U m c pr p true true
  return (m, p, { impactValue := iv, impactAmount := amt, sizeDeltaTokens := sdt, collateralDelta := collDelta, fees := fees })

/-- `IncreasePosition::{try_new, execute}` (the caller discards the state on error). -/
def increase (W U : Nat) (m : Market) (c : PerpCfg) (pr : Prices) (p0 : Pos) (collInc sizeDelta : Nat) :
    Except PErr (Market × Pos × IncreaseReport) :=
  if !pr.isValid W then .error .prices else increaseCore W U m c pr (initIfEmpty p0 m) collInc sizeDelta

/-! ### decrease: collateral processor -/

/-- processor state (`CollateralProcessor` + the market it mutates). -/
structure PState where
  m : Market
  out : Nat := 0
  sec : Nat := 0
  rem : Nat
  holdOut : Nat := 0
  holdSec : Nat := 0
  userOut : Nat := 0
  userSec : Nat := 0
  /-- `on_insufficient_funding_fee_payment` was reported -/
  fundingShort : Bool := false
  deriving Repr

/-- the static part of the processor. -/
structure PCtx where
  pr : Prices
  outLong : Bool
  pnlLong : Bool
  same : Bool
  deriving Repr

def PCtx.outPrice (x : PCtx) : Price := x.pr.collateral x.outLong
def PCtx.pnlPrice (x : PCtx) : Price := x.pr.collateral x.pnlLong

/-- pay `need` out of `avail`: `(new avail, paid, still needed)` (each stage of `do_pay_for_cost`). -/
def takeFrom (avail need : Nat) : Nat × Nat × Nat :=
  if avail = 0 then (avail, 0, need)
  else if avail > need then (avail - need, need, 0)
  else (0, avail, need - avail)

/-- the amounts of `State::do_pay_for_cost`: pay the cost from the output amount, then the
collateral, then the secondary output: `(out', rem', sec', paid in collateral token, paid in
secondary token, remaining cost)`. -/
def payAmounts (W : Nat) (x : PCtx) (out rem sec cost : Nat) : Option (Nat × Nat × Nat × Nat × Nat × Nat) :=
  if cost = 0 then some (out, rem, sec, 0, 0, 0) else
  match roundUpDiv W cost x.outPrice.min with
  | none => none
  | some rc0 =>
    let a := takeFrom out rc0
    if a.2.2 = 0 then some (a.1, rem, sec, a.2.1, 0, 0) else
    let b := takeFrom rem a.2.2
    let paid2 := a.2.1 + b.2.1
    if paid2 ≥ 2 ^ W then none else
    if b.2.2 = 0 then some (a.1, b.1, sec, paid2, 0, 0) else
    match mulDiv W b.2.2 x.outPrice.min x.pnlPrice.min with
    | none => none
    | some rs0 =>
      let c := takeFrom sec rs0
      match checkedMul W c.2.2 x.pnlPrice.min with
      | none => none
      | some left => some (a.1, b.1, c.1, paid2, c.2.1, left)

/-- `State::do_pay_for_cost`: `(state, paid in collateral, paid in secondary, remaining cost)`. -/
def doPayForCost (W : Nat) (x : PCtx) (s : PState) (cost : Nat) : Option (PState × Nat × Nat × Nat) :=
  match payAmounts W x s.out s.rem s.sec cost with
  | none => none
  | some (o, r, sc, pc, ps, left) => some ({ s with out := o, rem := r, sec := sc }, pc, ps, left)

/-- `pay_to_primary_pool`. -/
def payToPrimaryPool (W : Nat) (x : PCtx) (m : Market) (paidColl paidSec : Nat) : Option Market :=
  match toSigned W paidColl, toSigned W paidSec with
  | some a, some b =>
    let m1 := if a = 0 then some m else m.applyDelta W x.outLong a
    match m1 with
    | none => none
    | some m1 => if b = 0 then some m1 else m1.applyDelta W x.pnlLong b
  | _, _ => none

/-- outcome of one processor step. -/
inductive PRes where
  | ok (s : PState)
  /-- the cost could not be paid in full; the receiver callback has already run -/
  | short (step : Step) (s : PState)
  | err (e : PErr)

def addPnlTokenAmount (W : Nat) (x : PCtx) (s : PState) (a : Nat) : Option PState :=
  if x.same then (checkedAdd W s.out a).map (fun v => { s with out := v })
  else (checkedAdd W s.sec a).map (fun v => { s with sec := v })

/-- `add_pnl_if_positive`. -/
def addPnlIfPositive (W : Nat) (x : PCtx) (s : PState) (pnl : Int) : Option PState :=
  if pnl > 0 then
    match checkedDiv pnl.natAbs x.pnlPrice.max with
    | none => none
    | some d =>
      match (toOppositeSigned W d).bind (fun nd => s.m.applyDelta W x.pnlLong nd) with
      | none => none
      | some m => addPnlTokenAmount W x { s with m := m } d
  else some s

/-- `add_price_impact_if_positive`. -/
def addImpactIfPositive (W : Nat) (x : PCtx) (s : PState) (impact : Int) : Option PState :=
  if impact > 0 then
    match (roundUpDiv W impact.natAbs x.pr.index.min).bind (toOppositeSigned W) with
    | none => none
    | some na =>
      match s.m.positionImpact.applyDelta W true na with
      | none => none
      | some ip =>
        match checkedDiv impact.natAbs x.pnlPrice.max with
        | none => none
        | some d =>
          match (toOppositeSigned W d).bind (fun nd => ({ s.m with positionImpact := ip } : Market).applyDelta W x.pnlLong nd) with
          | none => none
          | some m => addPnlTokenAmount W x { s with m := m } d
  else some s

/-- generic `pay_for_cost`: pay, run the receiver, report a shortfall. -/
def payForCost (W : Nat) (x : PCtx) (s : PState) (cost : Nat) (step : Step)
    (receive : PState → Nat → Nat → Nat → Option PState) : PRes :=
  match doPayForCost W x s cost with
  | none => .err .fail
  | some (s1, pc, ps, left) =>
    match receive s1 pc ps left with
    | none => .err .fail
    | some s2 => if left ≠ 0 then .short step s2 else .ok s2

/-- receiver of `pay_for_funding_fees`: the part paid in the secondary token goes to the holding
claimable; a payment in collateral tokens below the fee is reported as insufficient. -/
def recvFunding (W fundAmount : Nat) (s1 : PState) (pc ps : Nat) : Option PState :=
  match (if ps ≠ 0 then checkedAdd W s1.holdSec ps else some s1.holdSec) with
  | none => none
  | some hs => some { s1 with holdSec := hs, fundingShort := s1.fundingShort || decide (pc < fundAmount) }

/-- `pay_for_funding_fees`. -/
def payForFunding (W : Nat) (x : PCtx) (s : PState) (fundAmount : Nat) : PRes :=
  if fundAmount = 0 then .ok s else
  match checkedMul W fundAmount x.outPrice.min with
  | none => .err .fail
  | some cost => payForCost W x s cost .funding (fun s1 pc ps _ => recvFunding W fundAmount s1 pc ps)

/-- receiver of `pay_for_pnl_if_negative`. -/
def recvToPool (W : Nat) (x : PCtx) (s1 : PState) (pc ps : Nat) : Option PState :=
  (payToPrimaryPool W x s1.m pc ps).map (fun m => { s1 with m := m })

/-- `pay_for_pnl_if_negative`. -/
def payForPnl (W : Nat) (x : PCtx) (s : PState) (pnl : Int) : PRes :=
  if pnl < 0 then payForCost W x s pnl.natAbs .pnl (fun s1 pc ps _ => recvToPool W x s1 pc ps)
  else .ok s

/-- `pay_for_fees_excluding_funding`: returns the (possibly cleared) fees as well. -/
def payForFees (W : Nat) (x : PCtx) (s : PState) (fees : PosFees) : PRes × PosFees :=
  match fees.totalCostExclFunding W with
  | none => (.err .fail, fees)
  | some costAmount =>
    if costAmount = 0 then (.ok s, fees) else
    match checkedMul W costAmount x.outPrice.min with
    | none => (.err .fail, fees)
    | some cost =>
      match doPayForCost W x s cost with
      | none => (.err .fail, fees)
      | some (s1, pc, ps, left) =>
        if left = 0 ∧ ps = 0 then
          match (fees.forPool W).bind (toSigned W), (fees.forReceiver W).bind (toSigned W) with
          | some fp, some fr =>
            match s1.m.applyDelta W x.outLong fp with
            | none => (.err .fail, fees)
            | some m1 => match m1.fee.applyDelta W x.outLong fr with
              | none => (.err .fail, fees)
              | some fpool => (.ok { s1 with m := { m1 with fee := fpool } }, fees)
          | _, _ => (.err .fail, fees)
        else
          match payToPrimaryPool W x s1.m pc ps with
          | none => (.err .fail, fees)
          | some m1 =>
            let s2 := { s1 with m := m1 }
            (if left ≠ 0 then .short .fees s2 else .ok s2, fees.clearExclFunding)

/-- credit `amt` tokens priced `pa`, converted at the index price `pb`, to the position impact pool. -/
def creditImpactPool (W : Nat) (m : Market) (amt pa pb : Nat) : Option Market :=
  if amt ≠ 0 then
    ((mulDiv W amt pa pb).bind (toSigned W)).bind (fun d =>
      (m.positionImpact.applyDelta W true d).map (fun ip => { m with positionImpact := ip }))
  else some m

/-- receiver of `pay_for_price_impact_if_negative`. -/
def recvImpact (W : Nat) (x : PCtx) (s1 : PState) (pc ps : Nat) : Option PState :=
  match payToPrimaryPool W x s1.m pc ps with
  | none => none
  | some m1 =>
    match creditImpactPool W m1 pc x.outPrice.min x.pr.index.max with
    | none => none
    | some m2 =>
      match creditImpactPool W m2 ps x.pnlPrice.min x.pr.index.max with
      | none => none
      | some m3 => some { s1 with m := m3 }

/-- `pay_for_price_impact_if_negative`. -/
def payForImpact (W : Nat) (x : PCtx) (s : PState) (impact : Int) : PRes :=
  if impact < 0 then payForCost W x s impact.natAbs .impact (fun s1 pc ps _ => recvImpact W x s1 pc ps)
  else .ok s

/-- receiver of `pay_for_price_impact_diff`: claimable by the user. -/
def recvDiff (W : Nat) (s1 : PState) (pc ps : Nat) : Option PState :=
  match checkedAdd W s1.userOut pc, checkedAdd W s1.userSec ps with
  | some a, some b => some { s1 with userOut := a, userSec := b }
  | _, _ => none

/-- `pay_for_price_impact_diff`. -/
def payForDiff (W : Nat) (x : PCtx) (s : PState) (diff : Nat) : PRes :=
  if diff = 0 then .ok s else
  payForCost W x s diff .diff (fun s1 pc ps _ => recvDiff W s1 pc ps)

/-- the processing closure of `process_collateral` (NoSwap):
`(final state, fees, insolvent close step)`. -/
def processCollateral (W : Nat) (x : PCtx) (s0 : PState) (pnl impact : Int) (diff : Nat) (fees : PosFees)
    (insolventAllowed : Bool) : Except PErr (PState × PosFees × Option Step) :=
  let stop (step : Step) (s : PState) (f : PosFees) : Except PErr (PState × PosFees × Option Step) :=
    if insolventAllowed then .ok (s, f, some step) else .error (.insufficient step)
  match (addPnlIfPositive W x s0 pnl).bind (fun s => addImpactIfPositive W x s impact) with
  | none => .error .fail
  | some s1 =>
    match payForFunding W x s1 fees.fundAmount with
    | .err e => .error e
    | .short st s => stop st s fees
    | .ok s2 =>
      match payForPnl W x s2 pnl with
      | .err e => .error e
      | .short st s => stop st s fees
      | .ok s3 =>
        match payForFees W x s3 fees with
        | (.err e, _) => .error e
        | (.short st s, f) => stop st s f
        | (.ok s4, f) =>
          match payForImpact W x s4 impact with
          | .err e => .error e
          | .short st s => stop st s f
          | .ok s5 =>
            match payForDiff W x s5 diff with
            | .err e => .error e
            | .short st s => stop st s f
            | .ok s6 => .ok (s6, f, none)

/-! ### decrease -/

structure DecreaseFlags where
  insolventCloseAllowed : Bool := false
  liquidation : Bool := false
  capSizeDelta : Bool := false
  deriving Repr, DecidableEq

structure DecreaseReport where
  sizeDelta : Nat
  sizeDeltaTokens : Nat
  impactValue : Int
  impactDiff : Nat
  pnl : Int
  uncappedPnl : Int
  withdrawable : Nat
  shouldRemove : Bool
  output : Nat
  secondary : Nat
  holdOut : Nat
  holdSec : Nat
  userOut : Nat
  userSec : Nat
  fees : PosFees
  insolventStep : Option Step
  fundingShort : Bool
  deriving Repr, DecidableEq

/-- `get_execution_price_for_decrease` (only its failure conditions matter). -/
def decreaseExecutionPriceOk (W : Nat) (index : Price) (isLong : Bool) (size tokens sizeDelta : Nat) (impact : Int) : Bool :=
  if sizeDelta ≠ 0 ∧ tokens ≠ 0 then
    match (if isLong then some impact else toI W (0 - impact)) with
    | none => false
    | some adj =>
      if adj < 0 ∧ adj.natAbs > sizeDelta then false else
      match toSigned W tokens, mulDivSigned W size adj sizeDelta with
      | some st, some q =>
        match toI W (Int.tdiv q st) with
        | none => false
        | some a => (checkedAddWithSigned W (index.pick (!isLong)) a).isSome
      | _, _ => false
  else true

/-- the second half of `check_partial_close` (`is_remaining_size_too_small`): promote the decrease
to a full close when the remaining size would be below the minimum or the decrease would close
all the tokens. -/
def promoteIfSmall (W : Nat) (c : PerpCfg) (p : Pos) (sd1 : Nat) : Except PErr Nat :=
  if p.sizeUsd > sd1 then
    if p.sizeUsd - sd1 < c.minPositionSize then .ok p.sizeUsd else
    match sizeDeltaInTokens W p.isLong p.sizeUsd p.sizeTokens sd1 with
    | none => .error .fail
    | some t => .ok (if p.sizeTokens ≤ t then p.sizeUsd else sd1)
  else .ok sd1

/-- `check_partial_close` when the size will remain: `(size delta, withdrawable)`. -/
def partialClose (W U : Nat) (m : Market) (c : PerpCfg) (pr : Prices) (p : Pos) (sizeDelta withdrawable : Nat) :
    Except PErr (Nat × Nat) := do
  let (est, _, _) ← posPnl W U m pr p p.sizeUsd
  let realized ← orF (mulDivSigned W sizeDelta est p.sizeUsd)
  let remainingPnl ← orF (toI W (est - realized))
  let oid ← orF (toOppositeSigned W sizeDelta)
  let (suff, rem0) ← orF (willCollateralBeSufficient W U m c pr p (p.sizeUsd - sizeDelta) (p.collateral - withdrawable) realized oid)
  let (rem, wd) ← (if suff then pure (rem0, withdrawable) else do
      if sizeDelta = 0 then throw .arg
      let addBack ← orF ((checkedMul W withdrawable (pr.collateral p.collLong).min).bind (toSigned W))
      let r ← orF (toI W (rem0 + addBack))
      pure (r, 0) : Except PErr (Int × Nat))
  let remainingValue ← orF (toI W (rem + remainingPnl))
  let minCv ← orF (toSigned W c.minCollateralValue)
  let sd1 := if remainingValue < minCv then p.sizeUsd else sizeDelta
  let sd2 ← promoteIfSmall W c p sd1
  pure (sd2, wd)

def adjustDecrease (W U : Nat) (m : Market) (c : PerpCfg) (pr : Prices) (p : Pos) (sizeDelta withdrawable : Nat) :
    Except PErr (Nat × Nat) :=
  match (if sizeDelta < p.sizeUsd then partialClose W U m c pr p sizeDelta withdrawable else .ok (sizeDelta, withdrawable)) with
  | .error e => .error e
  | .ok (sd, wd) =>
    -- check_close
    .ok (sd, if sd = p.sizeUsd ∧ wd ≠ 0 then 0 else wd)

/-- the bookkeeping tail of `DecreasePosition::execute`: sizes, collateral, collateral sum,
open interest, total borrowing, validation. `rem` is the processor's remaining collateral,
`out` its output amount. Returns `(market, position, should_remove, output)`. -/
def settleDecrease (W U : Nat) (m : Market) (c : PerpCfg) (pr : Prices) (p : Pos) (sizeDelta sdt rem out : Nat) :
    Except PErr (Market × Pos × Bool × Nat) := do
  let nextSize ← orF (checkedSub p.sizeUsd sizeDelta)
  let nextBf := m.borrowingFactor.amount p.isLong
  let m ← updateTotalBorrowingM W U m p nextSize nextBf
  let nextTokens ← orF (checkedSub p.sizeTokens sdt)
  let remove := decide (nextSize = 0 ∨ nextTokens = 0)
  let (p1, out1) ← (if remove then do
      let o ← orF (checkedAdd W out rem)
      pure ({ p with sizeUsd := 0, sizeTokens := 0, collateral := 0 }, o)
    else pure ({ p with sizeUsd := nextSize, sizeTokens := nextTokens, collateral := rem }, out) : Except PErr (Pos × Nat))
  let cd ← orF ((checkedSub p.collateral p1.collateral).bind (toOppositeSigned W))
  let cs ← orF ((collPool m p.isLong).applyDelta W p.collLong cd)
  let m := setCollPool m p.isLong cs
  let p2 := ({ p1 with bf := nextBf }).syncFunding m
  let sdS ← orF (toOppositeSigned W sizeDelta)
  let sdtS ← orF (toOppositeSigned W sdt)
  let m ← updateOpenInterest W m p.isLong p.collLong sdS sdtS
  if !remove then validatePos W U m c pr p2 false false
  return (m, p2, remove, out1)

/-- `min` written with `if` (what the code does with a comparison). -/
def capTo (a b : Nat) : Nat := if a > b then b else a

/-- `DecreasePosition::{try_new, execute}` (NoSwap). -/
def decrease (W U : Nat) (m : Market) (c : PerpCfg) (pr : Prices) (p : Pos) (sizeDelta0 withdraw : Nat)
    (fl : DecreaseFlags) : Except PErr (Market × Pos × DecreaseReport) := do
  if !pr.isValid W then throw .prices
  if p.isEmpty then throw .invalidPosition
  let sizeDelta1 ← (if sizeDelta0 > p.sizeUsd then (if fl.capSizeDelta then pure p.sizeUsd else throw .arg) else pure sizeDelta0 : Except PErr Nat)
  let insolventAllowed := decide (p.sizeUsd = sizeDelta1) && fl.insolventCloseAllowed
  let wd0 := capTo withdraw p.collateral
  let (sizeDelta, wd1) ← adjustDecrease W U m c pr p sizeDelta1 wd0
  -- check_liquidation
  if fl.liquidation then
    match checkLiquidatable W U m c pr p true true with
    | .error e => throw e
    | .ok none => throw .notLiquidatable
    | .ok (some _) => pure ()
  -- process_collateral
  let negSd ← orF (toOppositeSigned W sizeDelta)
  let (iv, bc, diff) ← (if sizeDelta = 0 then pure (0, BalanceChange.unchanged, 0) else do
      let (i0, bc) ← orF (positionPriceImpact W U m p.isLong negSd true)
      let i1 ← orF (capPositiveImpact W U m c pr.index negSd i0)
      let (i2, d) ← orF (capNegativeImpact W U c negSd false i1)
      if !decreaseExecutionPriceOk W pr.index p.isLong p.sizeUsd p.sizeTokens sizeDelta i2 then throw .fail
      pure (i2, bc, d) : Except PErr (Int × BalanceChange × Nat))
  let (pnl, upnl, sdt) ← posPnl W U m pr p sizeDelta
  let cp := pr.collateral p.collLong
  let fees0 ← positionFees W U m c p cp sizeDelta bc fl.liquidation
  let x : PCtx := { pr := pr, outLong := p.collLong, pnlLong := p.isLong, same := (p.isLong == p.collLong) }
  let (s, fees, step) ← processCollateral W x { m := m, rem := p.collateral } pnl iv diff fees0 insolventAllowed
  -- withdrawable amount after the price impact diff, capped by the remaining collateral
  let wd2 ← (if wd1 ≠ 0 ∧ diff ≠ 0 then do
      let da ← orF (checkedDiv diff cp.min)
      pure (if wd1 > da then wd1 - da else 0)
    else pure wd1 : Except PErr Nat)
  let wd := capTo wd2 s.rem
  let out0 ← orF (checkedAdd W s.out wd)
  let rem := s.rem - wd
  let (m, p', remove, out) ← settleDecrease W U s.m c pr p sizeDelta sdt rem out0
  -- merge the secondary amount when pnl and collateral tokens coincide
  let (out, sec) ← (if x.same ∧ s.sec ≠ 0 then do
      let o ← orF (checkedAdd W out s.sec)
      pure (o, 0)
    else pure (out, s.sec) : Except PErr (Nat × Nat))
  return (m, p', { sizeDelta := sizeDelta, sizeDeltaTokens := sdt, impactValue := iv, impactDiff := diff, pnl := pnl,
                   uncappedPnl := upnl, withdrawable := wd, shouldRemove := remove, output := out, secondary := sec,
                   holdOut := s.holdOut, holdSec := s.holdSec, userOut := s.userOut, userSec := s.userSec, fees := fees,
                   insolventStep := step, fundingShort := s.fundingShort })

/-! ### histories of position operations -/

/-- market + positions (index in the list = position id). -/
structure PSys where
  m : Market
  ps : List Pos
  deriving Repr

/-- the six pools C07 is about (open interest, open interest in tokens, collateral sums). -/
def sameBookB (a b : Market) : Bool :=
  a.oiL == b.oiL && a.oiS == b.oiS && a.oitL == b.oitL && a.oitS == b.oitS && a.collL == b.collL && a.collS == b.collS

inductive POp where
  /-- a new (empty) position account -/
  | openPos (isLong collLong : Bool)
  | inc (i : Nat) (collateral size : Nat) (pr : Prices)
  | dec (i : Nat) (size withdraw : Nat) (fl : DecreaseFlags) (pr : Prices)
  /-- any other market operation (deposit, withdrawal, swap, fee-state updates, clock): it
  replaces the market by one with the same six pools -/
  | market (m' : Market)

/-- one operation with the on-chain (revertible) semantics: a failing operation, or an operation
on a non-existing position, leaves the state unchanged. -/
def PSys.step (W U : Nat) (c : PerpCfg) (s : PSys) : POp → PSys
  | .openPos il cl => { s with ps := s.ps ++ [{ isLong := il, collLong := cl }] }
  | .inc i coll size pr =>
    match s.ps[i]? with
    | none => s
    | some p => match increase W U s.m c pr p coll size with
      | .ok (m', p', _) => { m := m', ps := s.ps.set i p' }
      | .error _ => s
  | .dec i size wd fl pr =>
    match s.ps[i]? with
    | none => s
    | some p => match decrease W U s.m c pr p size wd fl with
      | .ok (m', p', _) => { m := m', ps := s.ps.set i p' }
      | .error _ => s
  | .market m' => if sameBookB s.m m' then { s with m := m' } else s

def PSys.run (W U : Nat) (c : PerpCfg) (s : PSys) : List POp → PSys
  | [] => s
  | o :: os => PSys.run W U c (s.step W U c o) os

/-- sum of `f` over the positions of side `il` with collateral token `cl`. -/
def sumKey (f : Pos → Nat) (il cl : Bool) : List Pos → Nat
  | [] => 0
  | p :: ps => (if p.isLong = il ∧ p.collLong = cl then f p else 0) + sumKey f il cl ps

/-! ### token flows of a history (C08) -/

/-- the fields the token ledger reads are unchanged. -/
def sameLedgerB (a b : Market) : Bool :=
  a.primary == b.primary && a.swapImpact == b.swapImpact && a.fee == b.fee && a.collL == b.collL && a.collS == b.collS

/-- `n` if `a = il`, else `0` (an amount of the token selected by `a`). -/
def tokAmt (a il : Bool) (n : Nat) : Nat := if a = il then n else 0

/-- token flows of one operation, per pool token: tokens paid in, tokens paid out (output,
secondary output, claimable collateral), funding fee charged, and whether an insufficient funding
payment was reported. -/
structure Flow where
  inn : Bool → Nat := fun _ => 0
  out : Bool → Nat := fun _ => 0
  fund : Bool → Nat := fun _ => 0
  short : Bool := false
  /-- a decrease with different pnl / collateral tokens happened (fee dust possible) -/
  mixed : Bool := false

/-- one operation of a position history with its token flows. Other market operations must keep
the ledger fields (fee-state updates, clock); deposits / withdrawals / swaps are C04–C06. -/
def PSys.stepF (W U : Nat) (c : PerpCfg) (s : PSys) : POp → PSys × Flow
  | .openPos il cl => ({ s with ps := s.ps ++ [{ isLong := il, collLong := cl }] }, {})
  | .inc i coll size pr =>
    match s.ps[i]? with
    | none => (s, {})
    | some p => match increase W U s.m c pr p coll size with
      | .ok (m', p', r) => ({ m := m', ps := s.ps.set i p' },
          { inn := fun t => tokAmt p.collLong t coll, fund := fun t => tokAmt p.collLong t r.fees.fundAmount })
      | .error _ => (s, {})
  | .dec i size wd fl pr =>
    match s.ps[i]? with
    | none => (s, {})
    | some p => match decrease W U s.m c pr p size wd fl with
      | .ok (m', p', r) => ({ m := m', ps := s.ps.set i p' },
          { out := fun t => tokAmt p.collLong t (r.output + r.holdOut + r.userOut) + tokAmt p.isLong t (r.secondary + r.holdSec + r.userSec),
            fund := fun t => tokAmt p.collLong t r.fees.fundAmount, short := r.fundingShort,
            mixed := p.isLong != p.collLong })
      | .error _ => (s, {})
  | .market m' => (if sameBookB s.m m' && sameLedgerB s.m m' then { s with m := m' } else s, {})

def Flow.add (a b : Flow) : Flow :=
  { inn := fun t => a.inn t + b.inn t, out := fun t => a.out t + b.out t, fund := fun t => a.fund t + b.fund t,
    short := a.short || b.short, mixed := a.mixed || b.mixed }

def PSys.runF (W U : Nat) (c : PerpCfg) (s : PSys) : List POp → PSys × Flow
  | [] => (s, {})
  | o :: os =>
    let (s1, f1) := s.stepF W U c o
    let (s2, f2) := PSys.runF W U c s1 os
    (s2, f1.add f2)

/-! ### the store's guard around a decrease order (`programs/store/src/ops/order.rs`,
`execute_decrease_position`: liquidation must be a full close; ADL must be required, must
strictly lower the pnl factor and must not push it below `MinAfterAdl`). *Modelled*: transcribed
from the program source, not driven by a correspondence harness. -/

inductive OrderTag where
  | plain | liquidation | adl
  deriving Repr, DecidableEq

inductive GErr where
  | invalidArgument | adlNotRequired | invalidAdl | model (e : PErr)
  deriving Repr, DecidableEq

/-- `pnl_factor_exceeded(prices, ForAdl, is_long).map(|e| e.pnl_factor)`. -/
def adlFactorBefore (W U : Nat) (m : Market) (pr : Prices) (isLong : Bool) : Except GErr Int :=
  match pnlFactorWithPoolValue W U m pr isLong true with
  | none => .error (.model .fail)
  | some (f, _) => if pnlExceeded f (m.cfg.pnlFactor .forAdl) then .ok f else .error .adlNotRequired

def guardedDecrease (W U : Nat) (m : Market) (c : PerpCfg) (pr : Prices) (p : Pos) (sizeDelta withdraw : Nat)
    (insolvent cap : Bool) (tag : OrderTag) : Except GErr (Market × Pos × DecreaseReport) :=
  if tag = .liquidation ∧ sizeDelta < p.sizeUsd then .error .invalidArgument else
  let before : Except GErr (Option Int) := if tag = .adl then (adlFactorBefore W U m pr p.isLong).map some else .ok none
  match before with
  | .error e => .error e
  | .ok fb =>
    match decrease W U m c pr p sizeDelta withdraw ⟨insolvent, decide (tag = .liquidation), cap⟩ with
    | .error e => .error (.model e)
    | .ok (m', p', r) =>
      match fb with
      | none => .ok (m', p', r)
      | some f0 =>
        -- (source order: factor after, `require_gt!`, then the configured minimum, `require_gte!`)
        match pnlFactorWithPoolValue W U m' pr p.isLong true with
        | none => .error (.model .fail)
        | some (f1, _) =>
          if ¬ (f0 > f1) then .error .invalidAdl else
          match toSigned W (m'.cfg.pnlFactor .minAfterAdl) with
          | none => .error (.model .fail)
          | some mn => if ¬ (f1 ≥ mn) then .error .invalidAdl else .ok (m', p', r)

/-! ### fee-state updates on the market -/

/-- funding + borrowing parameters of a market (`TestMarketConfig` fields not in `MarketConfig`). -/
structure RateCfg where
  funding : FundingParams
  common : BorrowCommon
  sideL : BorrowSide
  sideS : BorrowSide
  deriving Repr

/-- `just_passed_in_seconds`: `(duration, clock := now)`. -/
def justPassed (now : Nat) (clock : Option Nat) : Nat × Option Nat :=
  match clock with
  | none => (0, some now)
  | some c => (now - c, some now)

def fundingStateOf (m : Market) : FundingState :=
  { oi := ⟨m.oiL.long, m.oiL.short, m.oiS.long, m.oiS.short⟩
    fidx := ⟨m.fapsL.long, m.fapsL.short, m.fapsS.long, m.fapsS.short⟩
    cidx := ⟨m.cfapsL.long, m.cfapsL.short, m.cfapsS.long, m.cfapsS.short⟩
    rate := m.fundingFactorPerSecond }

/-- `UpdateFundingState::execute` on the market (state discarded on error by the caller). -/
def marketUpdateFunding (W U : Nat) (m : Market) (rc : RateCfg) (pr : Prices) : Except PErr Market :=
  if !pr.isValid W then .error .prices else
  let (dur, ck) := justPassed m.now m.clockFunding
  match updateFunding W U m.cfg.fundingAdjustment rc.funding (fundingStateOf m) dur pr.long.max pr.short.max with
  | .error .prices => .error .prices
  | .error _ => .error .fail
  | .ok (st, _) =>
    .ok { m with clockFunding := ck, fundingFactorPerSecond := st.rate,
                 fapsL := ⟨st.fidx.ll, st.fidx.ls⟩, fapsS := ⟨st.fidx.sl, st.fidx.ss⟩,
                 cfapsL := ⟨st.cidx.ll, st.cidx.ls⟩, cfapsS := ⟨st.cidx.sl, st.cidx.ss⟩ }

def borrowViewOf (m : Market) (pr : Prices) (isLong : Bool) : BorrowView :=
  { oiLong := m.oiL.long + m.oiL.short, oiShort := m.oiS.long + m.oiS.short
    oiTokens := if isLong then m.oitL.long + m.oitL.short else 0
    liq := m.primary.amount isLong, idxMax := pr.index.max, tokMin := (pr.collateral isLong).min }

/-- `UpdateBorrowingState::execute` on the market. -/
def marketUpdateBorrowing (W U : Nat) (m : Market) (rc : RateCfg) (pr : Prices) : Except PErr Market :=
  let (dur, ck) := justPassed m.now m.clockBorrowing
  match updateBorrowing W U rc.common rc.sideL rc.sideS (borrowViewOf m pr true) (borrowViewOf m pr false)
      (pr.isValid W) m.borrowingFactor.long m.borrowingFactor.short dur with
  | .error .prices => .error .prices
  | .error _ => .error .fail
  | .ok (nl, ns) => .ok { m with clockBorrowing := ck, borrowingFactor := ⟨nl, ns⟩ }

/-- the perp inputs of `pool_value` (`borrowing_factor_per_second` of the two sides at these
prices) for a market WITH open interest; an error here makes every `pool_value` call fail. -/
def perpInOf (W U : Nat) (m : Market) (rc : RateCfg) (pr : Prices) : Option PerpIn :=
  match borrowingFactorPerSecond W U rc.common rc.sideL true (borrowViewOf m pr true),
        borrowingFactorPerSecond W U rc.common rc.sideS false (borrowViewOf m pr false) with
  | .ok l, .ok s => some ⟨l, s⟩
  | _, _ => none

end Gmx.Perp
