/-!
# Gmx.Model.SwapGraph — swap path search of `crates/sdk/src/market_graph/mod.rs`

`MarketGraph::{bellman_ford, dfs, dfs_recursive, best_swap_paths}` and `BestSwapPaths::to`.

* Nodes are the collateral tokens, numbered in insertion order (`NodeIndex`); every market adds
  the edge long→short and then short→long, both labelled with the market token.
* Edge costs are `Option Int` (`Edge::cost() = −ln(exchange rate)`, a `Decimal`; `None` = no
  estimate).  The harness uses costs with two decimals, so the sums are exact and the model
  carries them as integers (hundredths).
* petgraph's `g.edges(i)` yields the outgoing edges of `i` NEWEST FIRST; `node_identifiers()`
  yields nodes in index order.  `relaxOrder` is that fixed edge order of one round.
* distance / predecessor vectors are functions `Nat → Option _` (updated pointwise).
Core only.
-/
namespace Gmx.SwapGraph

structure Edge where
  src : Nat
  dst : Nat
  market : Nat
  cost : Option Int
  deriving Repr, DecidableEq

structure Graph where
  n : Nat                -- number of collateral-token nodes
  edges : List Edge      -- in insertion order
  maxSteps : Nat
  deriving Repr

abbrev Dist := Nat → Option Int
abbrev Pred := Nat → Option (Nat × Nat)   -- (predecessor node, market)

def setD (d : Dist) (v : Nat) (x : Int) : Dist := fun y => if y = v then some x else d y
def setP (p : Pred) (v : Nat) (x : Option (Nat × Nat)) : Pred := fun y => if y = v then x else p y

/-- outgoing edges of `i` as petgraph yields them (newest first). -/
def outgoing (g : Graph) (i : Nat) : List Edge := (g.edges.filter (fun e => e.src = i)).reverse

/-- the edge order of one relaxation round: nodes ascending, each node's edges newest first. -/
def relaxOrder (g : Graph) : List Edge := ((List.range g.n).map (outgoing g)).flatten

structure BFState where
  dist : Dist
  pred : Pred
  did : Bool

/-- does relaxing `e` improve its target? (`distances[j].map(|cur| d + w < cur).unwrap_or(true)`) -/
def improves (dist : Dist) (e : Edge) : Option Int :=
  match e.cost, dist e.src with
  | some w, some d =>
    match dist e.dst with
    | some cur => if d + w < cur then some (d + w) else none
    | none => some (d + w)
  | _, _ => none

/-- one edge of the inner loop of `bellman_ford`; predecessors are frozen after `max_steps`. -/
def relaxEdge (steps maxSteps : Nat) (s : BFState) (e : Edge) : BFState :=
  match improves s.dist e with
  | some x =>
    ⟨setD s.dist e.dst x,
     if steps ≤ maxSteps then setP s.pred e.dst (some (e.src, e.market)) else s.pred, true⟩
  | none => s

def round (g : Graph) (steps : Nat) (dist : Dist) (pred : Pred) : BFState :=
  (relaxOrder g).foldl (relaxEdge steps g.maxSteps) ⟨dist, pred, false⟩

/-- `for steps in 1..node_count`: stop at the first round without an update; remember the
distances of round `max_steps`.  `fuel` = rounds left. -/
def bfLoop (g : Graph) : Nat → Nat → Dist → Pred → Option Dist → Dist × Pred × Option Dist
  | 0, _, dist, pred, cache => (dist, pred, cache)
  | fuel + 1, steps, dist, pred, cache =>
    let s := round g steps dist pred
    if !s.did then (s.dist, s.pred, cache)
    else bfLoop g fuel (steps + 1) s.dist s.pred (if steps = g.maxSteps then some s.dist else cache)

def initDist (src : Nat) : Dist := fun y => if y = src then some 0 else none
def initPred : Pred := fun _ => none

inductive SearchErr where
  | unknownSource
  | negativeCycle
  deriving Repr, DecidableEq

/-- `MarketGraph::bellman_ford`. -/
def bellmanFord (g : Graph) (src : Nat) : Except SearchErr (Dist × Pred) :=
  if src ≥ g.n then .error .unknownSource else
  let (dist, pred, cache) := bfLoop g (g.n - 1) 1 (initDist src) initPred none
  if (relaxOrder g).any (fun e => (improves dist e).isSome) then .error .negativeCycle
  else .ok (cache.getD dist, pred)

/-- `best_d.map(|best| d >= best).unwrap_or(false)`. -/
def pruned (best : Option Int) (d : Int) : Bool :=
  match best with
  | some b => decide (d ≥ b)
  | none => false

/-- `dfs_recursive`; `fuel` bounds the recursion depth (`max_steps + 2` suffices). -/
def dfsRec (g : Graph) : Nat → Nat → Option Int → Option (Nat × Nat) → Nat → List Nat →
    Dist × Pred → Dist × Pred
  | 0, _, _, _, _, _, st => st
  | fuel + 1, cur, distance, predecessor, steps, visited, st =>
    if steps > g.maxSteps then st else
    match distance with
    | none => st
    | some d =>
      if pruned (st.1 cur) d then st else
      let visited' := cur :: visited
      let st0 : Dist × Pred := (setD st.1 cur d, setP st.2 cur predecessor)
      (outgoing g cur).foldl (fun st e =>
        if visited'.contains e.dst then st
        else dfsRec g fuel e.dst (e.cost.map (fun w => w + d)) (some (cur, e.market)) (steps + 1) visited' st) st0

/-- `MarketGraph::dfs`. -/
def dfs (g : Graph) (src : Nat) : Except SearchErr (Dist × Pred) :=
  if src ≥ g.n then .error .unknownSource else
  .ok (dfsRec g (g.maxSteps + 2) src (some 0) none 0 [] (fun _ => none, fun _ => none))

/-- `best_swap_paths`: (distances, predecessors, `arbitrage_exists`). -/
def bestSwapPaths (g : Graph) (src : Nat) (skipBF : Bool) :
    Except SearchErr (Dist × Pred × Option Bool) :=
  if skipBF then
    match dfs g src with
    | .ok r => .ok (r.1, r.2, none)
    | .error e => .error e
  else
    match bellmanFord g src with
    | .ok r => .ok (r.1, r.2, some false)
    | .error .negativeCycle =>
      match dfs g src with
      | .ok r => .ok (r.1, r.2, some true)
      | .error e => .error e
    | .error e => .error e

/-- the predecessor walk of `to`: `none` = gave up after more than `max_steps` steps; otherwise
the markets from the target backwards. -/
def walk (pred : Pred) (maxSteps : Nat) : Nat → Option (Nat × Nat) → Nat → List Nat → Option (List Nat)
  | 0, _, _, _ => none
  | fuel + 1, cur, steps, acc =>
    match cur with
    | none => some acc
    | some (p, m) =>
      if steps + 1 > maxSteps then none
      else walk pred maxSteps fuel (pred p) (steps + 1) (m :: acc)

/-- `BestSwapPaths::to`: (distance whose `exp(−·)` is reported as the rate, path of markets). -/
def toPath (g : Graph) (src tgt : Nat) (dist : Dist) (pred : Pred) : Option Int × List Nat :=
  if tgt ≥ g.n then (none, []) else
  if src = tgt then (dist tgt, []) else
  match walk pred g.maxSteps (g.maxSteps + 2) (pred tgt) 0 [] with
  | none => (none, [])
  | some path => if path.isEmpty then (none, []) else (dist tgt, path)

/-! ### specification vocabulary -/

/-- a walk: consecutive edges of the graph starting at `a`; its end node and total cost. -/
def walkEnd (a : Nat) : List Edge → Nat
  | [] => a
  | e :: es => walkEnd e.dst es

def isWalk (g : Graph) (a : Nat) : List Edge → Bool
  | [] => true
  | e :: es => decide (e ∈ g.edges) && decide (e.src = a) && e.cost.isSome && isWalk g e.dst es

def walkCost : List Edge → Int
  | [] => 0
  | e :: es => e.cost.getD 0 + walkCost es

end Gmx.SwapGraph
