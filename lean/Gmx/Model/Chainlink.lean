import Gmx.Model.PriceDecimal
/-!
# Gmx.Model.Chainlink — `crates/chainlink-datastreams/src/report.rs` (`decode_full_report`, the
version dispatch facts used by the conversion) and `gmsol.rs` (`from_chainlink_report`)

Payloads are byte lists (`List Nat`). Every Rust slice expression `x[a..b]` is the
bounds-checked `slice` (`none` = panic); `usize` is 64 bits. The external decoders
(`snap`, `ReportDataV*::decode`, `num_bigint`) are NOT modelled.
-/
namespace Gmx.Chainlink
open Gmx

/-- `&l[a..b]` -/
def slice (l : List Nat) (a b : Nat) : Option (List Nat) :=
  if a ≤ b ∧ b ≤ l.length then some ((l.drop a).take (b - a)) else none

/-- big-endian value of a byte string (`usize::from_be_bytes` on 8 bytes) -/
def be (bs : List Nat) : Nat := bs.foldl (fun acc b => acc * 256 + b) 0

inductive FrErr where
  | tooShort          -- DataTooShort("Payload is too short")
  | offset            -- InvalidLength("offset"): below 128, or non-zero upper bytes
  | offsetOverflow    -- InvalidLength("offset + WORD_SIZE overflow")
  | lengthWord        -- InvalidLength("length word out of range")
  | lengthOverflow    -- InvalidLength("length_end + length overflow")
  | bytesData         -- InvalidLength("bytes data"): blob out of range, or non-zero upper length bytes
  | panic             -- slice index out of range (proved unreachable)
  deriving DecidableEq, Repr

/-- `decode_full_report(payload)` -/
def decodeFullReport (p : List Nat) : Except FrErr (List (List Nat) × List Nat) :=
  if p.length < 128 then .error .tooShort
  else
    match slice p 0 32, slice p 32 64, slice p 64 96 with
    | some c0, some c1, some c2 =>
      match slice p 96 120 with                       -- upper 24 bytes of the offset word (3d0a82d)
      | none => .error .panic
      | some uo =>
      if uo.any (· != 0) then .error .offset
      else
      match slice p 96 128 with
      | none => .error .panic
      | some w =>
        match slice w 24 32 with
        | none => .error .panic
        | some ob =>
          let offset := be ob
          if offset < 128 then .error .offset
          else
            match checkedAdd 64 offset 32 with
            | none => .error .offsetOverflow
            | some lengthEnd =>
              if lengthEnd > p.length then .error .lengthWord
              else
                match slice p offset (offset + 24) with   -- upper 24 bytes of the length word (3d0a82d)
                | none => .error .panic
                | some ul =>
                if ul.any (· != 0) then .error .bytesData
                else
                match slice p offset lengthEnd with
                | none => .error .panic
                | some lw =>
                  match slice lw 24 32 with
                  | none => .error .panic
                  | some lb =>
                    let length := be lb
                    match checkedAdd 64 lengthEnd length with
                    | none => .error .lengthOverflow
                    | some blobEnd =>
                      if blobEnd > p.length then .error .bytesData
                      else
                        match slice p lengthEnd blobEnd with
                        | none => .error .panic
                        | some blob => .ok ([c0, c1, c2], blob)
    | _, _, _ => .error .panic

/-- the same function without any partial operation (shown equal in `Lemmas/Chainlink`) -/
def decodeSpec (p : List Nat) : Except FrErr (List (List Nat) × List Nat) :=
  if p.length < 128 then .error .tooShort
  else if ((p.drop 96).take 24).any (· != 0) then .error .offset
  else
    let offset := be ((p.drop 120).take 8)
    if offset < 128 then .error .offset
    else if ¬ offset + 32 < 2 ^ 64 then .error .offsetOverflow
    else if offset + 32 > p.length then .error .lengthWord
    else if ((p.drop offset).take 24).any (· != 0) then .error .bytesData
    else
      let length := be ((p.drop (offset + 24)).take 8)
      if ¬ offset + 32 + length < 2 ^ 64 then .error .lengthOverflow
      else if offset + 32 + length > p.length then .error .bytesData
      else .ok ([p.take 32, (p.drop 32).take 32, (p.drop 64).take 32], (p.drop (offset + 32)).take length)

/-- what the ABI says: the offset / length words are 32-byte big-endian integers -/
def abiOffset (p : List Nat) : Nat := be ((p.drop 96).take 32)
def abiLength (p : List Nat) (off : Nat) : Nat := be ((p.drop off).take 32)

/-! ### the fixed-layout decoding that lives in /repo's `report::decode` (the per-schema field
decoders `ReportDataV*::decode` are an external crate and stay unmodelled) -/
inductive Head where
  | short                    -- `decode_feed_id`: DataTooShort("feed_id")
  | unsupported (v : Nat)    -- DecodeError::UnsupportedVersion(v)
  | supported (v : Nat)      -- handed to `ReportDataV{v}::decode`
  deriving DecidableEq, Repr

/-- `decode_feed_id` + `decode_version` + the `match version` of `decode`; `none` = a slice panic -/
def decodeHead (p : List Nat) : Option Head :=
  if p.length < 32 then some .short
  else
    match slice p 0 32 with                       -- data[..WORD_SIZE]
    | none => none
    | some id =>
      match slice id 0 2 with                     -- id.0[0..2]
      | none => none
      | some vb =>
        let v := be vb                            -- u16::from_be_bytes
        if v = 2 ∨ v = 3 ∨ v = 7 ∨ v = 8 ∨ v = 11 then some (.supported v) else some (.unsupported v)

/-- `decode_market_status` (v8): 0 Unknown, 1 Closed, 2 Open -/
def decodeMarketStatus (s : Nat) : Option Nat := if s ≤ 2 then some s else none
/-- `From<MarketStatus> for ExtendedMarketStatus` on the codes (extended: 0 Unknown … 5 Closed) -/
def coarseToExtended (s : Nat) : Nat := if s = 0 then 0 else if s = 1 then 5 else 2
/-- `decode_extended_market_status` (v11) -/
def decodeExtendedMarketStatus (s : Nat) : Option Nat := if s ≤ 5 then some s else none
/-- `biguint_to_u192`: more than three u64 digits ⇒ InvalidData -/
def biguintToU192 (n : Nat) : Option Nat := if n < 2 ^ 192 then some n else none
/-- `bigint_to_signed`: `(sign != Minus, magnitude)` -/
def bigintToSigned (z : Int) : Option (Bool × Nat) := (biguintToU192 z.natAbs).map fun m => (decide (0 ≤ z), m)

/-! ### `from_chainlink_report` -/
/-- the decoded report fields the conversion reads; `Signed = (non-negative?, magnitude)` -/
structure Rep where
  price : Bool × Nat
  bid : Bool × Nat
  ask : Bool × Nat
  obsTs : Nat                      -- u32
  lastUpdateNs : Option Nat        -- u64
  extStatus : Option Nat           -- 0 Unknown … 5 Closed (ExtendedMarketStatus)
  deriving Repr, DecidableEq

inductive ClErr where
  | negPrice | negBid | negAsk | askLtPrice | priceLtBid | divisorOverflow | obsOverflow
  | lastUpdateAhead | panic
  deriving DecidableEq, Repr

/-- the stored `PriceFeedPrice` -/
structure Feed where
  decimals : Nat
  ts : Nat
  price : Nat
  min : Nat
  max : Nat
  diff : Nat
  flags : Nat        -- bit0 Open, bit1 LastUpdateDiffEnabled, bit2 LastUpdateDiffSecs
  status : Nat       -- FeedMarketStatus discriminant (0 Disabled, 1 Unknown … 6 Closed)
  deriving Repr, DecidableEq

/-- `u64::div_ceil(NANOS_PER_SECOND)` -/
def divCeilNs (d : Nat) : Nat := d / 1000000000 + (if d % 1000000000 > 0 then 1 else 0)

/-- last-update difference in seconds: `(diff, is_open)`; `1000000000` = `NANOS_PER_SECOND`,
`4294967296` = `2^32` (the `u32::try_from`) -/
def lastUpdateDiff (obsTs lu : Nat) : Except ClErr (Nat × Bool) :=
  if 18446744073709551616 ≤ obsTs * 1000000000 then .error .obsOverflow     -- u64 checked_mul
  else if lu ≤ obsTs * 1000000000 then
    if divCeilNs (obsTs * 1000000000 - lu) < 4294967296 then .ok (divCeilNs (obsTs * 1000000000 - lu), true)
    else .ok (4294967295, false)
  else if lu - obsTs * 1000000000 ≥ 1000000000 then .error .lastUpdateAhead
  else .ok (0, true)                   -- div_ceil(0) = 0

def toU128 (n : Nat) : Option Nat := if n < 2 ^ 128 then some n else none    -- try_into().unwrap()

def liftLud : Except ClErr (Nat × Bool) → Except ClErr (Option Nat × Bool)
  | .error e => .error e
  | .ok (d, o) => .ok (some d, o)

/-- the `last_update_diff_secs` block -/
def ludOf (r : Rep) : Except ClErr (Option Nat × Bool) :=
  match r.lastUpdateNs with
  | none => .ok (none, true)
  | some lu => liftLud (lastUpdateDiff r.obsTs lu)

/-- `Self::new(..)` + flags + status, after the last-update block (its errors come first) and the
three `try_into().unwrap()` (`none` = panic) -/
def mkFeed (r : Rep) (dd : Nat) :
    Except ClErr (Option Nat × Bool) → Option Nat → Option Nat → Option Nat → Except ClErr Feed
  | .error e, _, _, _ => .error e
  | .ok (d?, isOpen), some p, some b, some a =>
    .ok { decimals := 18 - dd, ts := r.obsTs, price := p, min := b, max := a,
          diff := d?.getD 0,
          flags := (if isOpen then 1 else 0) + (if d?.isSome then 6 else 0),
          status := match r.extStatus with | none => 0 | some s => s + 1 }
  | .ok _, _, _, _ => .error .panic

/-- `PriceFeedPrice::from_chainlink_report(report)` -/
def fromReport (r : Rep) : Except ClErr Feed :=
  if !r.price.1 then .error .negPrice
  else if !r.bid.1 then .error .negBid
  else if !r.ask.1 then .error .negAsk
  else if r.ask.2 < r.price.2 then .error .askLtPrice
  else if r.price.2 < r.bid.2 then .error .priceLtBid
  else if 18 < PriceDecimal.findDivisorDecimals r.ask.2 then .error .divisorOverflow
  else
    mkFeed r (PriceDecimal.findDivisorDecimals r.ask.2) (ludOf r)
      (toU128 (r.price.2 / 10 ^ PriceDecimal.findDivisorDecimals r.ask.2))
      (toU128 (r.bid.2 / 10 ^ PriceDecimal.findDivisorDecimals r.ask.2))
      (toU128 (r.ask.2 / 10 ^ PriceDecimal.findDivisorDecimals r.ask.2))

/-- `report::decode` as far as the conversion is concerned: how each schema version fills
`price/bid/ask/last_update/extended status`, and which status codes it rejects (`none`). -/
def repOfVersion (ver : Nat) (price bid ask : Int) (obs : Nat) (lu status : Nat) : Option Rep :=
  let sg (z : Int) : Bool × Nat := (decide (0 ≤ z), z.natAbs)
  match ver with
  | 2 | 7 => some ⟨sg price, sg price, sg price, obs, none, none⟩
  | 3 => some ⟨sg price, sg bid, sg ask, obs, none, none⟩
  | 8 =>
    -- coarse status 0 Unknown / 1 Closed / 2 Open → extended Unknown(0) / Closed(5) / RegularHours(2)
    match status with
    | 0 => some ⟨sg price, sg price, sg price, obs, some lu, some 0⟩
    | 1 => some ⟨sg price, sg price, sg price, obs, some lu, some 5⟩
    | 2 => some ⟨sg price, sg price, sg price, obs, some lu, some 2⟩
    | _ => none
  | 11 => if status ≤ 5 then some ⟨sg price, sg bid, sg ask, obs, some lu, some status⟩ else none
  | _ => none

end Gmx.Chainlink
