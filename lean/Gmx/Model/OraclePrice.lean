import Gmx.Model.Num
import Gmx.Gen.C24Shapes
/-!
# Gmx.Model.OraclePrice — oracle price adjustment and validation (C29, C24)

Transcriptions of
* `gmsol_utils::price::Decimal::{to_unit_price, with_unit_price}` (`crates/utils/src/price/decimal.rs`),
* `try_adjust_price_with_max_deviation_factor` (`programs/store/src/states/oracle/mod.rs`),
* `SmallPrices::from_price` (`states/oracle/price_map.rs`),
* `PriceValidator::{validate_one, merge_range, finish}` (`states/oracle/validator.rs`),
* `Oracle::{update_oracle_ts_and_slot, clear_all_prices}` and the control flow of
  `set_prices_from_remaining_accounts` / `with_prices_opts` (`states/oracle/mod.rs`).

`U = MARKET_USD_UNIT`; unit prices are `u128`, decimal values `u32`, timestamps `i64`.
-/
namespace Gmx.OraclePrice
open Gmx

structure Dec where
  value : Nat
  mult : Nat            -- `decimal_multiplier` (≤ 20 on chain)
  deriving Repr, DecidableEq

structure Price where
  min : Dec
  max : Dec
  deriving Repr, DecidableEq

/-- `Decimal::to_unit_price`. -/
def Dec.unit (d : Dec) : Nat := d.value * 10 ^ d.mult

/-- `Decimal::with_unit_price` (`value.try_into::<u32>()`). -/
def Dec.withUnit (d : Dec) (price : Nat) (roundUp : Bool) : Option Dec :=
  let m := 10 ^ d.mult
  let v := if roundUp then ceilDiv price m else price / m
  if v < 2 ^ 32 then some { value := v, mult := d.mult } else none

def absDiff (a b : Nat) : Nat := if a ≤ b then b - a else a - b

/-- reference unit price: explicit, or `checked_mid` of the feed's own bounds. -/
def refUnit (p : Price) (ref : Option Dec) : Option Nat :=
  match ref with
  | some r => some r.unit
  | none => match checkedAdd 128 p.min.unit p.max.unit with
    | none => none
    | some s => some (s / 2)

/-- `try_adjust_price_with_max_deviation_factor`. -/
def adjust (U factor : Nat) (p : Price) (ref : Option Dec) : Option Price :=
  match refUnit p ref with
  | none => none
  | some r =>
    match applyFactor 128 U r factor with
    | none => none
    | some dev =>
      -- first `if`: max
      let step1 : Option (Option Price) :=
        if absDiff p.max.unit r > dev then
          match checkedAdd 128 r dev with
          | none => none
          | some hi => match p.max.withUnit hi false with
            | none => none
            | some mx => some (some { p with max := mx })
        else some none
      match step1 with
      | none => none
      | some adj1 =>
        if absDiff p.min.unit r > dev then
          match checkedSub r dev with
          | none => none
          | some lo => match p.min.withUnit lo true with
            | none => none
            | some mn => some ({ (adj1.getD p) with min := mn })
        else adj1

/-- `SmallPrices::from_price` acceptance (the stored value is the price itself). -/
def fromPriceOk (p : Price) : Bool :=
  p.min.mult == p.max.mult && p.min.value != 0 && decide (p.min.value ≤ p.max.value)

/-! ### validator (C24) -/

inductive VErr where
  | overflow        -- TokenAmountOverflow
  | maxAge          -- MaxPriceAgeExceeded
  | future          -- MaxPriceTimestampExceeded
  | arg             -- InvalidArgument
  | deviation       -- InvalidPriceFeedPrice
  | range           -- MaxOracleTimestampsRangeExceeded
  | invalidRange    -- InvalidOracleTimestampsRange
  | notFound        -- NotFound (no feed config for the provider)
  | pricesSet       -- PricesAreAlreadySet
  | disabled        -- TokenConfigDisabled
  | provider        -- provider mismatch (`require_eq!` ⇒ RequireEqViolated)
  | feed            -- InvalidPriceFeedAccount
  deriving Repr, DecidableEq

def i64Min : Int := -(2 ^ 63)
def i64Max : Int := 2 ^ 63 - 1
def fitsI64 (z : Int) : Bool := decide (i64Min ≤ z) && decide (z ≤ i64Max)

structure Validator where
  now : Int
  maxAge : Nat
  maxRange : Nat
  maxFuture : Nat
  minTs : Int := i64Max
  maxTs : Int := i64Min
  minSlot : Option Nat := none
  deriving Repr, DecidableEq

/-- per-token feed configuration seen by `validate_one`. -/
structure FeedCfg where
  found : Bool            -- `get_feed_config(provider)` succeeds
  adjustment : Nat        -- `timestamp_adjustment` (u32)
  devFactor : Option Nat  -- `max_deviation_factor()` (ratio·10^12, `None` when ratio = 0)
  deriving Repr, DecidableEq

/-- `PriceValidator::merge_range`. -/
def mergeRange (v : Validator) (slot : Option Nat) (mn mx : Int) : Validator :=
  { v with
    minSlot := match v.minSlot, slot with
      | some a, some b => some (if a ≤ b then a else b)
      | none, some s => some s
      | some s, none => some s
      | none, none => none
    minTs := if v.minTs ≤ mn then v.minTs else mn
    maxTs := if v.maxTs ≤ mx then mx else v.maxTs }

/-- the deviation check of `validate_one` (`.ok true` = checked, `.ok false` = skipped because
the allowed deviation floors to 0). -/
def checkDeviation (U f : Nat) (p : Price) (ref : Option Dec) : Except VErr Bool :=
  match refUnit p ref with
  | none => .error .arg
  | some r =>
    match applyFactor 128 U r f with
    | none => .error .arg
    | some dev =>
      if dev > 0 then
        match p.max.withUnit dev true with
        | none => .error .arg
        | some d =>
          let rounded := d.unit
          if rounded < absDiff p.max.unit r then .error .deviation
          else if rounded < absDiff p.min.unit r then .error .deviation
          else .ok true
      else .ok false

/-- `PriceValidator::validate_one`. -/
def validateOne (U : Nat) (v : Validator) (cfg : FeedCfg) (oracleTs : Int) (slot : Nat) (p : Price)
    (ref : Option Dec) : Except VErr Validator :=
  if !cfg.found then .error .notFound else
  let ts := oracleTs - cfg.adjustment
  if !fitsI64 ts then .error .overflow else
  let expiration := ts + v.maxAge
  if !fitsI64 expiration then .error .overflow else
  if expiration < v.now then .error .maxAge else
  let lim := if v.now + v.maxFuture > i64Max then i64Max else v.now + v.maxFuture
  if lim < oracleTs then .error .future else
  match cfg.devFactor with
  | some f =>
    (match checkDeviation U f p ref with
     | .error e => .error e
     | .ok _ => .ok (mergeRange v (some slot) ts ts))
  | none => .ok (mergeRange v (some slot) ts ts)

/-- `PriceValidator::finish`. -/
def finish (v : Validator) : Except VErr (Option (Nat × Int × Int)) :=
  let d := v.maxTs - v.minTs
  if !fitsI64 d then .error .overflow
  else if d < 0 then .error .invalidRange
  else if v.maxRange < d.toNat then .error .range
  else .ok (v.minSlot.map (fun s => (s, v.minTs, v.maxTs)))

/-! ### oracle account -/

structure Oracle where
  minTs : Int := i64Max
  maxTs : Int := i64Min
  minSlot : Nat := 2 ^ 64 - 1
  prices : List (Nat × Price) := []     -- token id ↦ stored price
  cleared : Bool := true
  deriving Repr, DecidableEq

/-- `Oracle::clear_all_prices`. -/
def clearAll (_o : Oracle) : Oracle := {}

/-- `Oracle::update_oracle_ts_and_slot`. -/
def updateTsAndSlot (o : Oracle) (v : Validator) : Except VErr Oracle :=
  let v' := mergeRange v (if o.cleared then none else some o.minSlot) o.minTs o.maxTs
  match finish v' with
  | .error e => .error e
  | .ok none => .ok o
  | .ok (some (s, mn, mx)) => .ok { o with minSlot := s, minTs := mn, maxTs := mx, cleared := false }

/-- what kind of account was passed as the feed (`parse_from_feed_account` looks at the OWNER):
a store-owned custom `PriceFeed` (which carries its own provider field), an account owned by the
Pyth receiver, by Switchboard, or by anybody else. -/
inductive Acct where
  | custom | pyth | switchboard | foreign
  deriving Repr, DecidableEq

/-- one token of a price batch, after feed parsing. Provider numbering = `PriceProviderKind`
(0 ChainlinkDataStreams, 1 Pyth, 2 Chainlink, 3 Switchboard). -/
structure Feed where
  token : Nat
  enabled : Bool
  expectedProvider : Nat
  provider : Nat            -- the provider field stored IN a custom feed (unused for other kinds)
  acct : Acct := .custom
  feedMatches : Bool
  allowAdjust : Bool
  cfg : FeedCfg
  oracleTs : Int
  slot : Nat
  price : Price
  ref : Option Dec
  deriving Repr, DecidableEq

/-- the provider an account stands for: `from_program_id(owner)` for Pyth / Switchboard accounts,
the stored provider field for a store-owned custom feed, none for any other owner
(`InvalidPriceFeedAccount`). -/
def Feed.prov (fd : Feed) : Option Nat :=
  match fd.acct with
  | .custom => some fd.provider
  | .pyth => some 1
  | .switchboard => some 3
  | .foreign => none

/-- the price that goes on to validation: adjusted when allowed, configured and applicable
(`parse_from_feed_account` tail). -/
def maybeAdjust (U : Nat) (fd : Feed) : Price :=
  if fd.allowAdjust then
    match fd.cfg.devFactor with
    | some f => (adjust U f fd.price fd.ref).getD fd.price
    | none => fd.price
  else fd.price

/-- one iteration of the loop of `set_prices_from_remaining_accounts`. -/
def setOne (U : Nat) (ov : Oracle × Validator) (fd : Feed) : Except VErr (Oracle × Validator) :=
  let (o, v) := ov
  if !fd.enabled then .error .disabled
  else match fd.prov with
  | none => .error .feed
  | some pv =>
  -- site A: `PriceFeed::check_and_get_price` compares the expected provider for CUSTOM feeds only
  if fd.acct = .custom ∧ fd.expectedProvider ≠ pv then .error .provider
  -- site B: `parse_from_feed_account` compares it for every account kind
  else if fd.expectedProvider ≠ pv then .error .provider
  else if !fd.cfg.found then .error .notFound
  else if !fd.feedMatches then .error .feed
  -- a custom feed is only decoded for ChainlinkDataStreams; any other provider branch re-reads
  -- the account as that provider's own format and fails on the owner
  else if fd.acct = .custom ∧ pv ≠ 0 then .error .feed
  else
    let p := maybeAdjust U fd
    match validateOne U v fd.cfg fd.oracleTs fd.slot p fd.ref with
    | .error e => .error e
    | .ok v' =>
      if fromPriceOk p then .ok ({ o with prices := (fd.token, p) :: o.prices.filter (·.1 != fd.token) }, v')
      else .error .arg

def setLoop (U : Nat) : Oracle × Validator → List Feed → Except VErr (Oracle × Validator)
  | ov, [] => .ok ov
  | ov, fd :: rest => match setOne U ov fd with
    | .error e => .error e
    | .ok ov' => setLoop U ov' rest

/-- `Oracle::set_prices_from_remaining_accounts` (MAX_TOKENS = 512). -/
def setPrices (U : Nat) (o : Oracle) (v : Validator) (feeds : List Feed) : Except VErr Oracle :=
  if !o.cleared then .error .pricesSet
  else if !o.prices.isEmpty then .error .pricesSet
  else if feeds.length > 512 then .error .arg
  else match setLoop U (o, v) feeds with
    | .error e => .error e
    | .ok (o', v') => updateTsAndSlot o' v'

/-- `Oracle::with_prices_opts`: set and validate the prices, run the wrapped operation (`fOk` =
whether it succeeded), and clear the oracle as the generated shapes say. Returns whether the whole
call succeeded, the oracle the wrapped operation saw, and the oracle left behind. -/
def withPrices (U : Nat) (o : Oracle) (v : Validator) (feeds : List Feed) (fOk : Bool) :
    Except VErr (Bool × Oracle) × Oracle :=
  match setPrices U o v feeds with
  | .error e => (.error e, if Gen.C24.clearOnErr then clearAll o else o)
  | .ok o1 => (.ok (fOk, o1), if Gen.C24.clearOnOk then clearAll o1 else o1)

end Gmx.OraclePrice
