/-!
# Gmx.Model.GlvLife — GLV deposit / withdrawal life cycles over two markets, two users (C45, C23 clauses)

The token side of `create_glv_deposit → execute_glv_deposit → close_glv_deposit` and
`create_glv_withdrawal → execute_glv_withdrawal → close_glv_withdrawal`
(`programs/store/src/instructions/glv/{deposit,withdrawal}.rs`, `ops/glv.rs`) for one GLV holding two
markets over the same long/short tokens (so both markets share the long and the short market vault).
The amounts only the pool maths decides are PARAMETERS of `exec` / `mdep` (declared by the harness from a
dry run and checked on the real program): market tokens minted by the embedded market deposit, GLV tokens
minted, market tokens redeemed by a withdrawal and its long/short pay-out. Everything else is computed:
acceptance, outcome class, every balance (users, escrows, GLV vault of each market token, market vaults),
the supplies, and the `balance` RECORDED for each market token inside the GLV account.
Tied to the real `gmsol_store::entry` by `harness/h_store/src/bin/glvlife.rs`. Core only.

Slots: `slot = u * 4 + k * 2 + i` for user `u < 2`, kind `k` (0 GLV deposit, 1 GLV withdrawal), index `i < 2`.
-/
namespace Gmx.GlvLife

def HEARTBEAT : Int := 120
def REQUEST_EXPIRATION : Int := 3600
def NUSERS : Nat := 2
def NSLOTS : Nat := 8
/-- `MIN_EXECUTION_LAMPORTS` of `GlvDeposit` / `GlvWithdrawal` -/
def MIN_EXEC_LAMPORTS : Nat := 200000

inductive Who where
  | keeper | admin | user (u : Nat)
  deriving DecidableEq, Repr

structure User where
  long : Nat
  short : Nat
  mt0 : Nat
  mt1 : Nat
  glv : Nat
  deriving Repr

def User.mt (x : User) (m : Nat) : Nat := if m = 0 then x.mt0 else x.mt1
def User.addMt (x : User) (m : Nat) (a : Nat) : User := if m = 0 then { x with mt0 := x.mt0 + a } else { x with mt1 := x.mt1 + a }
def User.subMt (x : User) (m : Nat) (a : Nat) : User := if m = 0 then { x with mt0 := x.mt0 - a } else { x with mt1 := x.mt1 - a }

/-- `state`: 0 pending, 1 completed, 2 cancelled; `kind`: 0 GLV deposit, 1 GLV withdrawal; `m`: the market. -/
structure Act where
  owner : Nat
  kind : Nat
  m : Nat
  state : Nat
  escLong : Nat
  escShort : Nat
  escMt : Nat
  escGlv : Nat
  createdAt : Int
  execLamports : Nat
  soft : Bool
  deriving Repr

/-- a GLV shift (keeper only): `amount` market tokens of market `src` are redeemed and the proceeds deposited into
market `dst`, all inside the GLV; nothing is escrowed. -/
structure Shift where
  state : Nat
  src : Nat
  dst : Nat
  amount : Nat
  createdAt : Int
  execLamports : Nat
  deriving Repr

structure St where
  now : Int
  priceTs : Int
  users : Nat → User
  acts : Nat → Option Act
  /-- the two market vaults, shared by both markets -/
  vaultLong : Nat
  vaultShort : Nat
  /-- market-token supplies -/
  mtSupply0 : Nat
  mtSupply1 : Nat
  /-- the GLV's vault of each market token, and the balance recorded for it in the GLV account -/
  glvVault0 : Nat
  glvVault1 : Nat
  glvRec0 : Nat
  glvRec1 : Nat
  glvMinted : Nat
  glvBurned : Nat
  shifts : Nat → Option Shift := fun _ => none
  /-- `shift_last_executed_at` of the GLV -/
  lastShiftAt : Int := 0

/-- `DEFAULT_GLV_MIN_SHIFT_INTERVAL_SECS` -/
def SHIFT_INTERVAL : Int := 3600

def glvSupply (s : St) : Nat := s.glvMinted - s.glvBurned
def St.glvVault (s : St) (m : Nat) : Nat := if m = 0 then s.glvVault0 else s.glvVault1
def St.glvRec (s : St) (m : Nat) : Nat := if m = 0 then s.glvRec0 else s.glvRec1
def St.mtSupply (s : St) (m : Nat) : Nat := if m = 0 then s.mtSupply0 else s.mtSupply1

def setUser (s : St) (u : Nat) (x : User) : St := { s with users := fun i => if i = u then x else s.users i }
def setAct (s : St) (k : Nat) (x : Option Act) : St := { s with acts := fun i => if i = k then x else s.acts i }

def slotOf (u k i : Nat) : Nat := u * 4 + k * 2 + i

def init (long short : Nat) (now : Int) : St :=
  { now := now, priceTs := 0, users := fun _ => ⟨long, short, 0, 0, 0⟩, acts := fun _ => none, vaultLong := 0, vaultShort := 0,
    mtSupply0 := 0, mtSupply1 := 0, glvVault0 := 0, glvVault1 := 0, glvRec0 := 0, glvRec1 := 0, glvMinted := 0, glvBurned := 0 }

def tick (s : St) (dt : Nat) : St := { s with now := s.now + dt }
def price (s : St) (age : Nat) : St :=
  { s with priceTs := if s.now - age > s.priceTs then s.now - age else s.priceTs }

/-- market tokens of market `m` enter circulation -/
def mintMt (s : St) (m a : Nat) : St := if m = 0 then { s with mtSupply0 := s.mtSupply0 + a } else { s with mtSupply1 := s.mtSupply1 + a }
def burnMt (s : St) (m a : Nat) : St := if m = 0 then { s with mtSupply0 := s.mtSupply0 - a } else { s with mtSupply1 := s.mtSupply1 - a }
/-- move `a` market tokens of market `m` into the GLV vault AND record them (`update_market_token_balance`) -/
def glvIn (s : St) (m a : Nat) : St :=
  if m = 0 then { s with glvVault0 := s.glvVault0 + a, glvRec0 := s.glvRec0 + a }
  else { s with glvVault1 := s.glvVault1 + a, glvRec1 := s.glvRec1 + a }
def glvOut (s : St) (m a : Nat) : St :=
  if m = 0 then { s with glvVault0 := s.glvVault0 - a, glvRec0 := s.glvRec0 - a }
  else { s with glvVault1 := s.glvVault1 - a, glvRec1 := s.glvRec1 - a }

/-- plain market deposit of user `u` into market `m` (create → execute → close as one step, with freshly
published prices): `fail`/`minted` declared. -/
def mdep (s : St) (u m long short : Nat) (fail : Bool) (minted : Nat) : Option St :=
  if u ≥ NUSERS ∨ m ≥ 2 then none else
  let usr := s.users u
  if (long = 0 ∧ short = 0) ∨ usr.long < long ∨ usr.short < short ∨ fail then none else
  let s1 := { s with priceTs := if s.now > s.priceTs then s.now else s.priceTs,
                     vaultLong := s.vaultLong + long, vaultShort := s.vaultShort + short }
  some (setUser (mintMt s1 m minted) u ({ usr with long := usr.long - long, short := usr.short - short }.addMt m minted))

/-- `create_glv_deposit` (`a` market tokens, `b` long, `c` short) / `create_glv_withdrawal` (`a` GLV tokens) -/
def create (s : St) (u k i m a b c : Nat) (soft : Bool) (execLamports : Nat) : Option St :=
  if u ≥ NUSERS ∨ k ≥ 2 ∨ i ≥ 2 ∨ m ≥ 2 then none else
  match s.acts (slotOf u k i) with
  | some _ => none
  | none =>
    let usr := s.users u
    if execLamports < MIN_EXEC_LAMPORTS then none else
    if k = 0 then
      if (a = 0 ∧ b = 0 ∧ c = 0) ∨ usr.mt m < a ∨ usr.long < b ∨ usr.short < c then none else
      some (setAct (setUser s u ({ usr with long := usr.long - b, short := usr.short - c }.subMt m a)) (slotOf u k i)
        (some ⟨u, 0, m, 0, b, c, a, 0, s.now, execLamports, soft⟩))
    else
      if a = 0 ∨ b ≠ 0 ∨ c ≠ 0 ∨ usr.glv < a then none else
      some (setAct (setUser s u { usr with glv := usr.glv - a }) (slotOf u k i)
        (some ⟨u, 1, m, 0, 0, 0, 0, a, s.now, execLamports, soft⟩))

inductive Outcome where
  | completed | cancelled
  deriving DecidableEq, Repr

/-- a successful execution with the declared result amounts.
Deposit: `x` market tokens minted by the embedded market deposit (straight into the GLV vault), `y` GLV tokens
minted to the escrow. Withdrawal: `x` market tokens taken from the GLV vault and burned, `y`/`z` long/short paid
to the escrow. -/
def complete (s : St) (slot : Nat) (act : Act) (x y z : Nat) : Option St :=
  if act.kind = 0 then
    let s1 := { s with vaultLong := s.vaultLong + act.escLong, vaultShort := s.vaultShort + act.escShort,
                       glvMinted := s.glvMinted + y }
    some (setAct (glvIn (mintMt s1 act.m x) act.m (act.escMt + x)) slot
      (some { act with state := 1, escLong := 0, escShort := 0, escMt := 0, escGlv := act.escGlv + y }))
  else
    if s.glvRec act.m < x ∨ s.glvVault act.m < x ∨ s.mtSupply act.m < x ∨ s.vaultLong < y ∨ s.vaultShort < z
       ∨ s.glvMinted < s.glvBurned + act.escGlv then none else
    let s1 := { s with vaultLong := s.vaultLong - y, vaultShort := s.vaultShort - z,
                       glvBurned := s.glvBurned + act.escGlv }
    some (setAct (glvOut (burnMt s1 act.m x) act.m x) slot
      (some { act with state := 1, escGlv := 0, escLong := act.escLong + y, escShort := act.escShort + z }))

/-- `execute_glv_deposit` / `execute_glv_withdrawal`: `(state, outcome, fee paid)` -/
def exec (s : St) (who : Who) (slot fee : Nat) (throw fail : Bool) (x y z : Nat) : Option (St × Outcome × Nat) :=
  if who ≠ .keeper ∨ slot ≥ NSLOTS then none else
  match s.acts slot with
  | none => none
  | some act =>
    if act.state ≠ 0 then none else
    if s.now - s.priceTs > HEARTBEAT then none else
    if s.priceTs < act.createdAt then none else
    let paid := if fee ≤ act.execLamports then fee else act.execLamports
    let soft : Option (St × Outcome × Nat) :=
      if throw then none else some (setAct s slot (some { act with state := 2 }), .cancelled, paid)
    if act.createdAt + REQUEST_EXPIRATION < s.priceTs then soft
    else if act.soft || fail then soft
    else (complete s slot act x y z).map (fun s' => (s', .completed, paid))

/-- `close_glv_deposit` / `close_glv_withdrawal`: the owner (any state) or a keeper (completed / cancelled);
everything in the escrow goes home to the owner. -/
def close (s : St) (who : Who) (slot : Nat) : Option St :=
  if slot ≥ NSLOTS then none else
  match s.acts slot with
  | none => none
  | some act =>
    let allowed := who = .user act.owner ∨ (who = .keeper ∧ act.state ≠ 0)
    if ¬ allowed ∨ act.owner ≥ NUSERS then none else
    let usr := s.users act.owner
    some (setAct (setUser s act.owner
      ({ usr with long := usr.long + act.escLong, short := usr.short + act.escShort, glv := usr.glv + act.escGlv }.addMt act.m act.escMt))
      slot none)

/-! ### GLV shifts -/

def setShift (s : St) (i : Nat) (x : Option Shift) : St := { s with shifts := fun k => if k = i then x else s.shifts k }

/-- `create_glv_shift`: ORDER_KEEPER only; the two markets differ; the amount is non-zero and in the GLV vault; the
shift interval since the last EXECUTED shift has passed. -/
def screate (s : St) (who : Who) (i src dst amount execLamports : Nat) : Option St :=
  if who ≠ .keeper ∨ i ≥ 2 ∨ src ≥ 2 ∨ dst ≥ 2 ∨ src = dst then none else
  match s.shifts i with
  | some _ => none
  | none =>
    if amount = 0 ∨ s.glvVault src < amount ∨ s.now < s.lastShiftAt + SHIFT_INTERVAL then none else
    some (setShift s i (some ⟨0, src, dst, amount, s.now, execLamports⟩))

/-- a completed shift with the declared `x` market tokens of `dst` received: market tokens only move between the GLV's
own vaults (redeemed / minted), both recorded balances follow, the shared collateral vaults and the GLV supply do
not change. -/
def scomplete (s : St) (i : Nat) (sh : Shift) (x : Nat) : Option St :=
  if s.glvRec sh.src < sh.amount ∨ s.mtSupply sh.src < sh.amount then none else
  some (setShift { (glvIn (mintMt (glvOut (burnMt s sh.src sh.amount) sh.src sh.amount) sh.dst x) sh.dst x) with lastShiftAt := s.now }
    i (some { sh with state := 1 }))

/-- `execute_glv_shift` -/
def sexec (s : St) (who : Who) (i fee : Nat) (throw fail : Bool) (x : Nat) : Option (St × Outcome × Nat) :=
  if who ≠ .keeper ∨ i ≥ 2 then none else
  match s.shifts i with
  | none => none
  | some sh =>
    if sh.state ≠ 0 then none else
    if s.now - s.priceTs > HEARTBEAT then none else
    if s.priceTs < sh.createdAt then none else
    let paid := if fee ≤ sh.execLamports then fee else sh.execLamports
    let soft : Option (St × Outcome × Nat) :=
      if throw then none else some (setShift s i (some { sh with state := 2 }), .cancelled, paid)
    if sh.createdAt + REQUEST_EXPIRATION < s.priceTs then soft
    else if fail ∨ s.now < s.lastShiftAt + SHIFT_INTERVAL ∨ s.glvVault sh.src < sh.amount then soft
    else (scomplete s i sh x).map (fun s' => (s', .completed, paid))

/-- `close_glv_shift`: ORDER_KEEPER only, in any state -/
def sclose (s : St) (who : Who) (i : Nat) : Option St :=
  if who ≠ .keeper ∨ i ≥ 2 then none else
  match s.shifts i with
  | none => none
  | some _ => some (setShift s i none)

inductive Op where
  | tick (dt : Nat)
  | price (age : Nat)
  | mdep (u m long short : Nat) (fail : Bool) (minted : Nat)
  | create (u k i m a b c : Nat) (soft : Bool) (execLamports : Nat)
  | exec (who : Who) (slot fee : Nat) (throw fail : Bool) (x y z : Nat)
  | close (who : Who) (slot : Nat)
  | screate (who : Who) (i src dst amount execLamports : Nat)
  | sexec (who : Who) (i fee : Nat) (throw fail : Bool) (x : Nat)
  | sclose (who : Who) (i : Nat)

inductive Event where
  | none
  | created (slot : Nat)
  | executed (slot : Nat) (o : Outcome)
  | closed (slot : Nat)
  deriving DecidableEq, Repr

/-- one transaction; failed ones change nothing. -/
def step (s : St) : Op → St × Event
  | .tick dt => (tick s dt, .none)
  | .price age => (price s age, .none)
  | .mdep u m l sh f x => match mdep s u m l sh f x with | some s' => (s', .none) | none => (s, .none)
  | .create u k i m a b c soft el => match create s u k i m a b c soft el with | some s' => (s', .created (slotOf u k i)) | none => (s, .none)
  | .exec who slot fee throw fail x y z => match exec s who slot fee throw fail x y z with | some (s', o, _) => (s', .executed slot o) | none => (s, .none)
  | .close who slot => match close s who slot with | some s' => (s', .closed slot) | none => (s, .none)
  | .screate who i a b c el => match screate s who i a b c el with | some s' => (s', .created (NSLOTS + i)) | none => (s, .none)
  | .sexec who i fee throw fail x => match sexec s who i fee throw fail x with | some (s', o, _) => (s', .executed (NSLOTS + i) o) | none => (s, .none)
  | .sclose who i => match sclose s who i with | some s' => (s', .closed (NSLOTS + i)) | none => (s, .none)

def run (s : St) : List Op → St × List Event
  | [] => (s, [])
  | op :: ops => let r := step s op; let rest := run r.1 ops; (rest.1, r.2 :: rest.2)

end Gmx.GlvLife
