import Gmx.Model.FixedStr
import Gmx.Model.Roles
/-!
# Gmx.Model.RoleNames — the name gate of the program-side wrappers (C35 × C18)

`programs/store/src/utils/fixed_str.rs` maps `FixedStrError` onto `CoreError`
(`ExceedMaxLengthLimit` ↦ `ExceedMaxLengthLimit`, `InvalidFormat`/`Utf8` ↦ `InvalidArgument`).
`RoleStore::enable_role` on a role that is not yet in the table evaluates `RoleMetadata::new(role,
index)?` (the name gate) BEFORE `insert_with_options` (the capacity check). Role names are byte
lists; the role table itself is the C18 model `Gmx.Roles` with `K = List Nat`.
-/
namespace Gmx.RoleNames
open Gmx.FixedStr Gmx.Roles

inductive WErr where
  | exceedMax          -- CoreError::ExceedMaxLengthLimit
  | invalidArgument    -- CoreError::InvalidArgument
  deriving DecidableEq, Repr

def mapErr : FixedStr.Err → WErr
  | .tooLong => .exceedMax
  | _ => .invalidArgument

/-- write through the store wrapper, then read through it (`Store::init`/`key`, `Market::init`/`name`,
`Executor::try_init`/`role_name`, `RoleMetadata::new`/`name`) -/
def wrappedRoundtrip (L : Nat) (n : List Nat) : Except WErr (List Nat) :=
  match toBytes L n with
  | .error e => .error (mapErr e)
  | .ok b =>
    match fromBytes L b with
    | .ok s => .ok s
    | .error e => .error (mapErr e)

inductive NErr where
  | name (e : WErr)
  | role (e : Roles.Err)
  deriving DecidableEq, Repr

def liftRole {α : Type} : Except Roles.Err α → Except NErr α
  | .ok x => .ok x
  | .error e => .error (.role e)

/-- `RoleStore::enable_role(role)` including the name gate; `32` = `MAX_ROLE_NAME_LEN` -/
def enableNamed {A : Type} [DecidableEq A] (s : St (List Nat) A) (n : List Nat) :
    Except NErr (St (List Nat) A) :=
  match findRole s.roles n with
  | some _ => liftRole (enableRole s n)
  | none =>
    match toBytes 32 n with
    | .error e => .error (.name (mapErr e))
    | .ok _ => liftRole (enableRole s n)

/-- outcome tags of the harness scenario -/
def showR {α : Type} : Except NErr α → String
  | .ok _ => "ok"
  | .error (.name .exceedMax) => "ExceedMaxLengthLimit"
  | .error (.name .invalidArgument) => "InvalidArgument"
  | .error (.role .PermissionDenied) => "PermissionDenied"
  | .error (.role .NotFound) => "NotFound"
  | .error (.role .Preconditions) => "PreconditionsAreNotMet"
  | .error (.role .ExceedMax) => "ExceedMaxLengthLimit"
  | .error (.role .StoreOutdated) => "StoreOutdated"

def showB : Except NErr Bool → String
  | .ok true => "1"
  | .ok false => "0"
  | e => showR e

/-- the scenario driven on a fresh `RoleStore`: enable → has (stranger) → grant → has → disable →
has → enable → has → revoke → has. A failing call leaves the store unchanged. -/
def scenario (n : List Nat) : List String :=
  let a : Nat := 1
  let s0 : St (List Nat) Nat := St.empty
  let r1 := enableNamed s0 n
  let s1 := match r1 with | .ok s => s | .error _ => s0
  let h0 := liftRole (hasRole s1 a n)
  let r2 := liftRole (grant s1 a n)
  let s2 := match r2 with | .ok s => s | .error _ => s1
  let h1 := liftRole (hasRole s2 a n)
  let r3 := liftRole (disableRole s2 n)
  let s3 := match r3 with | .ok s => s | .error _ => s2
  let h2 := liftRole (hasRole s3 a n)
  let r4 := enableNamed s3 n
  let s4 := match r4 with | .ok s => s | .error _ => s3
  let h3 := liftRole (hasRole s4 a n)
  let r5 := liftRole (revoke s4 a n)
  let s5 := match r5 with | .ok s => s | .error _ => s4
  let h4 := liftRole (hasRole s5 a n)
  [showR r1, showB h0, showR r2, showB h1, showR r3, showB h2, showR r4, showB h3, showR r5, showB h4]

/-! ### name UPDATES on an existing record (`TokenConfigExt::update`: `self.name = fixed_str_to_bytes(name)?`) -/

/-- one update of the stored 32-byte name field: the WHOLE field is rewritten with the encoding of the new name;
a rejected name leaves the record as it was (the transaction fails). -/
def tcStep (stored : List Nat) (n : List Nat) : List Nat :=
  match toBytes 32 n with
  | .ok b => b
  | .error _ => stored

/-- a history of updates on one record -/
def tcRun (stored : List Nat) : List (List Nat) → List Nat
  | [] => stored
  | n :: ns => tcRun (tcStep stored n) ns

/-- the encoding of the last accepted name of a history (if any) -/
def lastOk : List (List Nat) → Option (List Nat)
  | [] => none
  | n :: ns =>
    match lastOk ns with
    | some b => some b
    | none => match toBytes 32 n with | .ok b => some b | .error _ => none

def showStep (r : Except FixedStr.Err (List Nat)) : String :=
  match r with
  | .ok _ => "ok"
  | .error .tooLong => "ExceedMaxLengthLimit"
  | .error _ => "InvalidArgument"

/-- harness scenario: per update `outcome:name read back afterwards` on a record that starts zeroed -/
def tcScenario : List Nat → List (List Nat) → List (String × Except FixedStr.Err (List Nat))
  | _, [] => []
  | st, n :: ns => (showStep (toBytes 32 n), fromBytes 32 (tcStep st n)) :: tcScenario (tcStep st n) ns

end Gmx.RoleNames
