/-!
# Gmx.Model.Dec — `crates/sdk/src/utils/fixed.rs` over a model of `rust_decimal::Decimal`

A `Decimal` is `(mant : Int, scale : Nat)`: a 96-bit magnitude with a sign and a power-of-ten
scale.  Only the operations `fixed.rs` uses are modelled, transcribed from rust_decimal 1.37.2:
`try_from_i128_with_scale`, `rescale`
(`ops/array.rs::rescale::<true>`: multiply by ten while the magnitude still fits 96 bits /
divide by ten and round on the LAST dropped digit), `mantissa`, `scale`, unary minus.
The sign of a zero (`-0`) is not observable through `mantissa()` and is not modelled.
Core only (the driver links this file).
-/
namespace Gmx.Dec

/-- `MAX_REPR = 0x0000_0000_FFFF_FFFF_FFFF_FFFF_FFFF_FFFF` (also rust_decimal's `MAX_I128_REPR`). -/
def MAX_REPR : Nat := 2 ^ 96 - 1
/-- rust_decimal's `Decimal::MAX_SCALE`. -/
def MAX_SCALE : Nat := 28
/-- `TARGET_SCALE = MAX_REPR.ilog10() - 1`. -/
def TARGET_SCALE : Nat := 27
/-- `MARKET_DECIMALS` (crates/sdk/src/constants). -/
def MARKET_DECIMALS : Nat := 20

structure Dec where
  mant : Int
  scale : Nat
  deriving Repr, DecidableEq

/-- Outcome of a function that may return `None` or panic. -/
inductive Res where
  | ok (d : Dec)
  | none
  | panic
  deriving Repr, DecidableEq

/-- Errors of `rescale_to_mantissa` / `decimal_to_*`, by kind. -/
inductive Err where
  | tooBig      -- "`value` is too big" (compensation overflowed i128)
  | scale       -- "invalid scale"
  | range       -- `try_into` failed
  deriving Repr, DecidableEq

/-- `u128::ilog10` for `n ≥ 1` with at most 41 digits (fuel-bounded; u128 has ≤ 39). -/
def ilog10Aux : Nat → Nat → Nat
  | 0, _ => 0
  | f + 1, n => if n < 10 then 0 else 1 + ilog10Aux f (n / 10)

def ilog10 (n : Nat) : Nat := ilog10Aux 40 n

/-- `Decimal::try_from_i128_with_scale`. -/
def tryFromI128 (num : Int) (scale : Nat) : Option Dec :=
  if scale > MAX_SCALE then none
  else if num > (MAX_REPR : Int) then none
  else if num < -(MAX_REPR : Int) then none
  else some ⟨num, scale⟩

def neg (d : Dec) : Dec := ⟨-d.mant, d.scale⟩

/-- the scale-down loop of `rescale`: `diff` divisions by ten, remembering the last remainder;
`none` = the early exit taken when the magnitude has become zero. -/
def downLoop : Nat → Nat → Nat → Option (Nat × Nat)
  | 0, v, r => some (v, r)
  | k + 1, v, _ => if v = 0 then none else downLoop k (v / 10) (v % 10)

/-- the scale-up loop of `rescale`: multiply by ten while the product fits 96 bits; returns the
magnitude and the number of steps NOT taken. -/
def upLoop : Nat → Nat → Nat × Nat
  | 0, v => (v, 0)
  | k + 1, v => if v * 10 < 2 ^ 96 then upLoop k (v * 10) else (v, k + 1)

def withSign (neg : Bool) (v : Nat) : Int := if neg then -(v : Int) else (v : Int)

/-- `Decimal::rescale` (in place ⇒ returns the new value). -/
def rescale (d : Dec) (new : Nat) : Dec :=
  if d.scale = new then d
  else if d.mant = 0 then ⟨0, if new ≤ MAX_SCALE then new else MAX_SCALE⟩
  else
    let isNeg := decide (d.mant < 0)
    let v := d.mant.natAbs
    if d.scale > new then
      match downLoop (d.scale - new) v 0 with
      | none => ⟨0, new⟩
      | some (v', r) =>
        -- the 96-bit carry wrap cannot trigger: `v' ≤ (2^96-1)/10`
        ⟨withSign isNeg (if r ≥ 5 then v' + 1 else v'), new⟩
    else
      let (v', left) := upLoop (new - d.scale) v
      ⟨withSign isNeg v', new - left⟩

/-- `unsigned_fixed_to_decimal` (`num : u128`, `decimals : u8`). -/
def unsignedFixedToDecimal (num decimals : Nat) : Res :=
  if num > MAX_REPR then
    let digits := ilog10 num
    let scaleDiff := digits - TARGET_SCALE
    if decimals < scaleDiff then .none
    else
      match tryFromI128 ((num / 10 ^ scaleDiff : Nat) : Int) (decimals - scaleDiff) with
      | some d => .ok d
      | none => .none
  else
    match tryFromI128 (num : Int) decimals with
    | some d => .ok d
    | none => .none

def Res.map (f : Dec → Dec) : Res → Res
  | .ok d => .ok (f d)
  | .none => .none
  | .panic => .panic

/-- `signed_fixed_to_decimal` (`num : i128`). -/
def signedFixedToDecimal (num : Int) (decimals : Nat) : Res :=
  (unsignedFixedToDecimal num.natAbs decimals).map (fun d => if num < 0 then neg d else d)

/-- `.expect("must be `Some`")`. -/
def Res.expect : Res → Res
  | .ok d => .ok d
  | _ => .panic

def unsignedValueToDecimal (num : Nat) : Res := (unsignedFixedToDecimal num MARKET_DECIMALS).expect
def signedValueToDecimal (num : Int) : Res := (signedFixedToDecimal num MARKET_DECIMALS).expect

/-- `unsigned_amount_to_decimal` (`num : u64`, `decimals : u8`). -/
def unsignedAmountToDecimal (num decimals : Nat) : Res :=
  if decimals > 28 then
    let scaleDiff := decimals - 28
    if scaleDiff > 19 then .ok ⟨0, 0⟩
    else (unsignedFixedToDecimal (num / 10 ^ scaleDiff) 28).expect
  else (unsignedFixedToDecimal num decimals).expect

/-- `signed_amount_to_decimal` (`num : i64`). -/
def signedAmountToDecimal (num : Int) (decimals : Nat) : Res :=
  (unsignedAmountToDecimal num.natAbs decimals).map (fun d => if num < 0 then neg d else d)

/-- `i128` bound. -/
def I128_LIM : Nat := 2 ^ 127

def fitsI128 (z : Int) : Bool := decide (-(I128_LIM : Int) ≤ z ∧ z < (I128_LIM : Int))

/-- the `match scale.cmp(&decimals)` of `rescale_to_mantissa`, on the already rescaled value:
`10i128.checked_pow(e).and_then(|m| mantissa.checked_mul(m))` compensates a `rescale` that
stopped short.  (Both error messages format the ORIGINAL input, which is always printable.) -/
def compensate (v : Dec) (decimals : Nat) : Except Err Int :=
  if v.scale < decimals then
    if fitsI128 ((10 ^ (decimals - v.scale) : Nat) : Int) &&
        fitsI128 (v.mant * ((10 ^ (decimals - v.scale) : Nat) : Int)) then
      .ok (v.mant * ((10 ^ (decimals - v.scale) : Nat) : Int))
    else .error .tooBig
  else if v.scale = decimals then .ok v.mant
  else .error .scale

/-- `rescale_to_mantissa`. -/
def rescaleToMantissa (value : Dec) (decimals : Nat) : Except Err Int :=
  compensate (rescale value decimals) decimals

/-- `i128 → u64/u128` `try_into`. -/
def toUnsigned (bits : Nat) (z : Int) : Except Err Nat :=
  if 0 ≤ z ∧ z < ((2 ^ bits : Nat) : Int) then .ok z.toNat else .error .range

def decimalToSignedValue (d : Dec) (decimals : Nat) : Except Err Int := rescaleToMantissa d decimals

def decimalToValue (d : Dec) (decimals : Nat) : Except Err Nat :=
  match rescaleToMantissa d decimals with
  | .error e => .error e
  | .ok z => toUnsigned 128 z

def decimalToAmount (d : Dec) (decimals : Nat) : Except Err Nat :=
  match rescaleToMantissa d decimals with
  | .error e => .error e
  | .ok z => toUnsigned 64 z

/-- what a round trip produced -/
inductive RT where
  | ok (n : Int)
  | none
  | panic
  | err (e : Err)
  deriving Repr, DecidableEq

def RT.ofN : Except Err Nat → RT
  | .ok r => .ok r
  | .error e => .err e

def RT.ofI : Except Err Int → RT
  | .ok r => .ok r
  | .error e => .err e

def rtUnsignedValue (n decimals : Nat) : RT :=
  match unsignedFixedToDecimal n decimals with
  | .ok d => RT.ofN (decimalToValue d decimals)
  | .none => .none
  | .panic => .panic

def rtSignedValue (z : Int) (decimals : Nat) : RT :=
  match signedFixedToDecimal z decimals with
  | .ok d => RT.ofI (decimalToSignedValue d decimals)
  | .none => .none
  | .panic => .panic

def rtAmount (n decimals : Nat) : RT :=
  match unsignedAmountToDecimal n decimals with
  | .ok d => RT.ofN (decimalToAmount d decimals)
  | .none => .none
  | .panic => .panic

def rtSignedAmount (z : Int) (decimals : Nat) : RT :=
  match signedAmountToDecimal z decimals with
  | .ok d => RT.ofI (decimalToSignedValue d decimals)
  | .none => .none
  | .panic => .panic

end Gmx.Dec
