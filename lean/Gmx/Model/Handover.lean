/-!
# Gmx.Model.Handover — two-step handover of the store authority and of the treasury receiver (C19)

`transfer_store_authority` (ADMIN only, `Store::set_next_authority`), `accept_store_authority`
(`has_one = next_authority`, `Store::update_authority`), `transfer_receiver` (signer = receiver,
`Treasury::set_next_receiver`) and `accept_receiver` (signer = next_receiver, `Treasury::update_receiver`).
Keys are naturals. The cluster has not restarted (`validate_not_restarted` passes; otherwise every one of
the four is rejected). Core only.
-/
namespace Gmx.Handover

/-- one two-step slot: the current holder and the nominated successor (`= cur` when nobody is nominated) -/
structure Slot where
  cur : Nat
  next : Nat
  deriving DecidableEq, Repr

/-- `Store::init`: nobody is nominated -/
def Slot.init (a : Nat) : Slot := ⟨a, a⟩

/-- nomination by `signer`: only the current holder may nominate; nominating the already nominated key is
rejected (`require_keys_neq!(self.next, new)`) -/
def Slot.transfer (s : Slot) (signer nxt : Nat) : Option Slot :=
  if signer ≠ s.cur then none
  else if s.next = nxt then none
  else some { s with next := nxt }

/-- acceptance by `signer`: only the nominated key may accept, and only when somebody is nominated
(`require_keys_neq!(self.cur, self.next)`) -/
def Slot.accept (s : Slot) (signer : Nat) : Option Slot :=
  if signer ≠ s.next then none
  else if s.cur = s.next then none
  else some ⟨s.next, s.next⟩

inductive Op where
  | transfer (signer nxt : Nat)
  | accept (signer : Nat)
  deriving DecidableEq, Repr

def Op.signer : Op → Nat
  | .transfer s _ => s
  | .accept s => s

def Slot.step (s : Slot) : Op → Option Slot
  | .transfer signer nxt => s.transfer signer nxt
  | .accept signer => s.accept signer

/-- a rejected instruction changes nothing -/
def Slot.apply (s : Slot) (op : Op) : Slot := (s.step op).getD s

def Slot.run (s : Slot) (ops : List Op) : Slot := ops.foldl Slot.apply s

end Gmx.Handover
