import Gmx.Model.Num
/-!
# Gmx.Model.LpStake — `programs/liquidity-provider/src/lib.rs`

`compute_time_weighted_apy`, `calculate_gt_reward_amount`, `compute_reward_with_cpi` (the GT CPI's
return value `cumNow` and the clock are parameters), `claim_gt`, and the unstake split that is
inline in the `unstake_lp` handler (*modelled* transcription; tied through the native entrypoint).
The gradient is a function `Nat → Nat` (bucket index ↦ APY, 53 buckets used).
-/
namespace Gmx.Lp
open Gmx

def WEEK : Nat := 604800
def YEAR : Nat := 31557600
def LAST : Nat := 52
def UNIT : Nat := 10 ^ 20
def U128MAX : Nat := 2 ^ 128 - 1
def U64MAX : Nat := 2 ^ 64 - 1
def I64MAX : Int := 2 ^ 63 - 1
def I64MIN : Int := -(2 ^ 63)

def satAdd (a b : Nat) : Nat := if a + b ≤ U128MAX then a + b else U128MAX
def satMul (a b : Nat) : Nat := if a * b ≤ U128MAX then a * b else U128MAX
def clampI (z : Int) : Int := if z > I64MAX then I64MAX else if z < I64MIN then I64MIN else z

/-- the `for … take(capped_full)` loop. -/
def loopAcc (g : Nat → Nat) : Nat → Nat
  | 0 => 0
  | k + 1 => satAdd (loopAcc g k) (satMul (g k) WEEK)

/-- `compute_time_weighted_apy`; `none` = the `i64` subtraction `now - start` overflows (panic,
`overflow-checks = true`). -/
def twApy (start now : Int) (g : Nat → Nat) : Option Nat :=
  if now ≤ start then some (g 0) else
  if now - start > I64MAX then none else
  let T := (now - start).toNat
  let full := T / WEEK
  let rem := T % WEEK
  let capped := if full ≤ LAST then full else LAST
  let acc1 := loopAcc g capped
  let acc2 := if full > LAST then satAdd acc1 (satMul (g LAST) (satMul WEEK (full - LAST))) else acc1
  let acc3 := if rem > 0 then satAdd acc2 (satMul (g capped) rem) else acc2
  some (acc3 / T)

/-- `calculate_gt_reward_amount`. -/
def rewardAmount (value : Nat) (duration : Int) (perSec integral : Nat) : Option Nat :=
  if duration < 0 then none else
  match applyFactor 128 UNIT value perSec with
  | none => none
  | some a =>
    match applyFactor 128 UNIT a integral with
    | none => none
    | some b => some (if b > U64MAX then U64MAX else b)

structure Env where
  claimEnabled : Bool
  minStake : Nat
  ctrlEnabled : Bool
  disabledAt : Int
  disabledCum : Nat
  cumNow : Nat
  now : Int
  g : Nat → Nat

structure Pos where
  amount : Nat
  value : Nat
  start : Int
  cum : Nat

/-- `compute_reward_with_cpi`: `(reward, new snapshot)`. -/
def computeReward (e : Env) (p : Pos) : Option (Nat × Nat) :=
  let cumEnd := if e.ctrlEnabled then e.cumNow else e.disabledCum
  let endT := if e.ctrlEnabled then e.now else e.disabledAt
  if cumEnd < p.cum then none else
  let integral := cumEnd - p.cum
  let duration := clampI (endT - p.start)
  match twApy p.start endT e.g with
  | none => none
  | some avg =>
    match rewardAmount p.value duration (avg / YEAR) integral with
    | none => none
    | some r => some (r, cumEnd)

/-- `claim_gt`: `(minted GT, position after)`. -/
def claimGt (e : Env) (p : Pos) : Option (Nat × Pos) :=
  if !e.claimEnabled then none else
  match computeReward e p with
  | none => none
  | some (r, cumEnd) => some (r, { p with cum := cumEnd })

structure UnstakeOut where
  minted : Nat
  transfer : Nat
  fullExit : Bool
  /-- position after a partial unstake (`none` = closed) -/
  pos : Option Pos

/-- the split inline in `unstake_lp` (after the claim-like part). -/
def unstakeSplit (claimEnabled : Bool) (minStake oldAmount oldValue vault unstake : Nat) :
    Option (Nat × Bool × Nat × Nat) :=
  if oldAmount < unstake then none else
  if !claimEnabled && unstake != oldAmount then none else
  let remaining := oldAmount - unstake
  let newValue? := if remaining = 0 then some 0 else mulDiv 128 oldValue remaining oldAmount
  match newValue? with
  | none => none
  | some newValue =>
    let fullExit := remaining = 0 || decide (newValue < minStake)
    some (if fullExit then vault else unstake, fullExit, remaining, newValue)

/-- `unstake_lp`. -/
def unstakeLp (e : Env) (p : Pos) (vault unstake : Nat) : Option UnstakeOut :=
  if unstake = 0 then none else
  match computeReward e p with
  | none => none
  | some (r, cumEnd) =>
    match unstakeSplit e.claimEnabled e.minStake p.amount p.value vault unstake with
    | none => none
    | some (transfer, fullExit, remaining, newValue) =>
      some ⟨r, transfer, fullExit,
        if fullExit then none else some { p with amount := remaining, value := newValue, cum := cumEnd }⟩

/-! ## histories of one position: claims and partial unstakes over time (`lp chain`) -/

inductive ChainOp where
  | claim
  | unstake (amt : Nat)
  deriving Repr

structure ChainSt where
  e : Env
  pos : Option Pos
  vault : Nat

/-- one step: the clock advances by `dt`, the GT cost integral by `dcum`, then `claim_gt` / `unstake_lp` on the
position as the previous step left it; a failed instruction changes nothing. Returns the minted reward. -/
def chainStep (c : ChainSt) (dt dcum : Nat) (op : ChainOp) : ChainSt × Option Nat :=
  let e : Env := { c.e with now := c.e.now + dt, cumNow := c.e.cumNow + dcum }
  match c.pos with
  | none => (⟨e, none, c.vault⟩, none)
  | some p =>
    match op with
    | .claim =>
      match claimGt e p with
      | some (r, p') => (⟨e, some p', c.vault⟩, some r)
      | none => (⟨e, some p, c.vault⟩, none)
    | .unstake a =>
      match unstakeLp e p c.vault a with
      | some o => (⟨e, o.pos, c.vault - o.transfer⟩, some o.minted)
      | none => (⟨e, some p, c.vault⟩, none)

def runChain (c : ChainSt) : List (Nat × Nat × ChainOp) → ChainSt × List (Option Nat)
  | [] => (c, [])
  | (dt, dcum, op) :: rest =>
    let r := chainStep c dt dcum op
    let t := runChain r.1 rest
    (t.1, r.2 :: t.2)

end Gmx.Lp
