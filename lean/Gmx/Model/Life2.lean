import Gmx.Model.Life
/-!
# Gmx.Model.Life2 — deposits, withdrawals and swap orders of several users interleaved on one market

Extension of `Gmx.Life` (the deposit-only machine stays untouched). Every action has a kind:
`0` deposit, `1` withdrawal, `2` market swap long→short, `3` market swap short→long, `4` market-increase order
(long position, long-token collateral: the collateral joins the pool, nothing is paid out), `5` market-decrease order on
that position (nothing escrowed; outputs, claimable amounts and whether the position is closed are declared); a slot is
`(user, kind, index)`. The amounts only the pool maths decides (market tokens minted by a deposit, tokens paid
out by a withdrawal or a swap) are PARAMETERS `x y` of `exec` (the harness declares the amounts observed on the
real program and checks them); everything else — acceptance, outcome class, every balance of users, escrows,
vaults, recorded market balances, minted / burned market tokens, the fee — is computed. Tied to the real
`gmsol_store::entry` by `harness/h_store/src/bin/l2life.rs`. Core only.
-/
namespace Gmx.Life2
open Gmx.Life (Who HEARTBEAT REQUEST_EXPIRATION)

structure User where
  long : Nat
  short : Nat
  mt : Nat
  deriving Repr

/-- `state`: 0 pending, 1 completed, 2 cancelled. -/
structure Act where
  state : Nat
  escLong : Nat
  escShort : Nat
  escMt : Nat
  createdAt : Int
  execLamports : Nat
  soft : Bool
  /-- the funds receiver named at creation (may differ from the owner of the slot) -/
  receiver : Nat
  /-- position orders: size delta in cents of USD -/
  size : Nat := 0
  deriving Repr

structure St where
  now : Int
  priceTs : Int
  users : Nat → User
  acts : Nat → Nat → Nat → Option Act
  vaultLong : Nat
  vaultShort : Nat
  recLong : Nat
  recShort : Nat
  minted : Nat
  burned : Nat
  /-- per user: does the (long, long-collateral) position account exist, and its size in cents of USD -/
  posOpen : Nat → Bool := fun _ => true
  posSize : Nat → Nat := fun _ => 0
  /-- tokens parked in claimable accounts (users' and the holding's), long / short -/
  claimLong : Nat := 0
  claimShort : Nat := 0

/-- market-token supply. -/
def supply (s : St) : Nat := s.minted - s.burned

/-- `MIN_EXECUTION_LAMPORTS` as ENFORCED at creation: deposits 200_000, orders 300_000; `CreateWithdrawalOperation`
never calls `validate_balance`, so withdrawals accept any amount (reported as an observation). -/
def minExecLamports (k : Nat) : Nat := if k ≥ 2 then 300000 else if k = 1 then 0 else 200000

def setUser (s : St) (u : Nat) (x : User) : St := { s with users := fun i => if i = u then x else s.users i }
def setAct (s : St) (u k i : Nat) (x : Option Act) : St :=
  { s with acts := fun a b c => if a = u ∧ b = k ∧ c = i then x else s.acts a b c }

def init (long short : Nat) (now : Int) : St :=
  { now := now, priceTs := 0, users := fun _ => ⟨long, short, 0⟩, acts := fun _ _ _ => none, vaultLong := 0, vaultShort := 0,
    recLong := 0, recShort := 0, minted := 0, burned := 0 }

def tick (s : St) (dt : Nat) : St := { s with now := s.now + dt }
def price (s : St) (age : Nat) : St :=
  { s with priceTs := if s.now - age > s.priceTs then s.now - age else s.priceTs }

/-- what a new action of kind `k` escrows: `(long, short, market tokens)`; `none` = rejected. -/
def escrowOf (usr : User) (k a b : Nat) : Option (Nat × Nat × Nat) :=
  if k = 0 then (if (a = 0 ∧ b = 0) ∨ usr.long < a ∨ usr.short < b then none else some (a, b, 0))
  else if k = 1 then (if a = 0 ∨ usr.mt < a then none else some (0, 0, a))
  else if k = 2 then (if a = 0 ∨ usr.long < a then none else some (a, 0, 0))
  else if k = 3 then (if a = 0 ∨ usr.short < a then none else some (0, a, 0))
  else if k = 4 then (if (a = 0 ∧ b = 0) ∨ usr.long < a then none else some (a, 0, 0))   -- increase: `b` = size in USD
  else some (0, 0, 0)   -- decrease: `a` = collateral to withdraw, `b` = size in cents; nothing is escrowed

def create (s : St) (u k i a b : Nat) (soft : Bool) (execLamports : Nat) (receiver : Nat) : Option St :=
  match s.acts u k i with
  | some _ => none
  | none =>
    let usr := s.users u
    match escrowOf usr k a b with
    | none => none
    | some (l, sh, m) =>
      if execLamports < minExecLamports k then none else
      if k = 5 ∧ s.posOpen u = false then none else     -- a decrease order needs the position account
      -- (a position order of size 0 never checks the acceptable price: its `soft` flag has no effect)
      let s1 := setAct (setUser s u ⟨usr.long - l, usr.short - sh, usr.mt - m⟩) u k i
        (some ⟨0, l, sh, m, s.now, execLamports, soft && !((k = 4 || k = 5) && b = 0), receiver, if k = 4 then 100 * b else if k = 5 then b else 0⟩)
      -- the client (re-)prepares the position account before an increase order
      some (if k = 4 then { s1 with posOpen := fun v => if v = u then true else s.posOpen v } else s1)

/-- `prepare_position` (its own transaction; the client sends it before every increase order). -/
def prepPosition (s : St) (u : Nat) : St := { s with posOpen := fun v => if v = u then true else s.posOpen v }

inductive Outcome where
  | completed | cancelled
  deriving DecidableEq, Repr

/-- a successful execution of kind `k` with the declared result amounts `x y`. -/
def complete (s : St) (u k i : Nat) (act : Act) (x y : Nat) (cl cs ch : Nat := 0) (pc : Bool := false) : Option St :=
  if k = 0 then
    some { setAct s u k i (some { act with state := 1, escLong := 0, escShort := 0, escMt := act.escMt + x }) with
           vaultLong := s.vaultLong + act.escLong, vaultShort := s.vaultShort + act.escShort,
           recLong := s.recLong + act.escLong, recShort := s.recShort + act.escShort, minted := s.minted + x }
  else if k = 1 then
    if s.recLong < x ∨ s.recShort < y ∨ s.minted < s.burned + act.escMt then none else
    some { setAct s u k i (some { act with state := 1, escLong := act.escLong + x, escShort := act.escShort + y, escMt := 0 }) with
           vaultLong := s.vaultLong - x, vaultShort := s.vaultShort - y,
           recLong := s.recLong - x, recShort := s.recShort - y, burned := s.burned + act.escMt }
  else if k = 2 then
    if s.recShort < x then none else
    some { setAct s u k i (some { act with state := 1, escLong := 0, escShort := act.escShort + x }) with
           vaultLong := s.vaultLong + act.escLong, recLong := s.recLong + act.escLong,
           vaultShort := s.vaultShort - x, recShort := s.recShort - x }
  else if k = 3 then
    if s.recLong < x then none else
    some { setAct s u k i (some { act with state := 1, escShort := 0, escLong := act.escLong + x }) with
           vaultShort := s.vaultShort + act.escShort, recShort := s.recShort + act.escShort,
           vaultLong := s.vaultLong - x, recLong := s.recLong - x }
  else if k = 4 then
    some { setAct s u k i (some { act with state := 1, escLong := 0 }) with
           vaultLong := s.vaultLong + act.escLong, recLong := s.recLong + act.escLong,
           posSize := fun v => if v = u then s.posSize u + act.size else s.posSize v }
  else
    -- decrease: outputs `x y` to the escrow, `cl cs` to the owner's claimable accounts, `ch` (long) to the holding's;
    -- `pc` = the position ends closed (full close, or a remainder too small to stay open)
    if s.posOpen u = false ∨ s.posSize u = 0 then none else
    if ¬ pc ∧ s.posSize u ≤ act.size then none else
    if s.recLong < x + cl + ch ∨ s.recShort < y + cs then none else
    some { setAct s u k i (some { act with state := 1, escLong := act.escLong + x, escShort := act.escShort + y }) with
           vaultLong := s.vaultLong - (x + cl + ch), recLong := s.recLong - (x + cl + ch),
           vaultShort := s.vaultShort - (y + cs), recShort := s.recShort - (y + cs),
           claimLong := s.claimLong + cl + ch, claimShort := s.claimShort + cs,
           posSize := fun v => if v = u then (if pc then 0 else s.posSize u - act.size) else s.posSize v,
           posOpen := fun v => if v = u then !pc else s.posOpen v }

/-- a soft failure caused by an EXECUTION error: the action becomes cancelled; nothing moves — except that a position
order (increase or decrease) failing on an empty position closes the (empty) position account. (An EXPIRED order
is cancelled without touching the position account.) -/
def cancelState (s : St) (u k i : Nat) (act : Act) : St :=
  let s1 := setAct s u k i (some { act with state := 2 })
  if k ≥ 4 ∧ s.posSize u = 0 then { s1 with posOpen := fun v => if v = u then false else s.posOpen v } else s1

/-- `execute_deposit` / `execute_withdrawal` / `execute_increase_or_swap_order_v2`: `(state, outcome, fee)`.
`fail` = the pool maths rejects the action (declared, like `x y`): a soft failure unless `throw`. -/
def exec (s : St) (who : Who) (u k i fee : Nat) (throw : Bool) (fail : Bool) (x y : Nat) (hard : Bool := false)
    (cl cs ch : Nat := 0) (pc : Bool := false) : Option (St × Outcome × Nat) :=
  if hard then none else     -- position orders: a pool-maths rejection that aborts even without `throw` (declared)
  if who ≠ .keeper then none else
  match s.acts u k i with
  | none => none
  | some act =>
    if act.state ≠ 0 then none else
    if k ≥ 4 ∧ s.posOpen u = false then none else       -- position orders need the position account
    if s.now - s.priceTs > HEARTBEAT then none else
    if s.priceTs < act.createdAt then none else
    let paid := if fee ≤ act.execLamports then fee else act.execLamports
    let soft : Option (St × Outcome × Nat) :=
      if throw then none else some (cancelState s u k i act, .cancelled, paid)
    let expired : Option (St × Outcome × Nat) :=
      if throw then none else some (setAct s u k i (some { act with state := 2 }), .cancelled, paid)
    if act.createdAt + REQUEST_EXPIRATION < s.priceTs then expired
    else if act.soft || fail then soft
    else (complete s u k i act x y cl cs ch pc).map (fun s' => (s', .completed, paid))

/-- the INPUT side of an action's escrow (what the owner put in and gets refunded): deposit collateral,
withdrawal market tokens, swap input token. -/
def inSide (k : Nat) (a : Act) : Nat × Nat × Nat :=
  if k = 0 then (a.escLong, a.escShort, 0) else if k = 1 then (0, 0, a.escMt)
  else if k = 2 then (a.escLong, 0, 0) else if k = 3 then (0, a.escShort, 0)
  else if k = 4 then (a.escLong, 0, 0) else (0, 0, 0)

/-- the OUTPUT side (the proceeds of a successful execution): minted market tokens, withdrawn collateral,
swap output token. -/
def outSide (k : Nat) (a : Act) : Nat × Nat × Nat :=
  if k = 0 then (0, 0, a.escMt) else if k = 1 then (a.escLong, a.escShort, 0)
  else if k = 2 then (0, a.escShort, 0) else if k = 3 then (a.escLong, 0, 0)
  else if k = 4 then (0, 0, 0) else (a.escLong, a.escShort, 0)

def credit (s : St) (v : Nat) (t : Nat × Nat × Nat) : St :=
  setUser s v ⟨(s.users v).long + t.1, (s.users v).short + t.2.1, (s.users v).mt + t.2.2⟩

/-- `close_deposit` / `close_withdrawal` / `close_order_v2`: only the OWNER (any state) or a keeper (completed /
cancelled) may close — the receiver has no say; the input side of the escrow is refunded to the owner, the
output side is paid to the receiver. -/
def close (s : St) (who : Who) (u k i : Nat) : Option St :=
  match s.acts u k i with
  | none => none
  | some act =>
    let allowed := who = .user u ∨ (who = .keeper ∧ act.state ≠ 0)
    if ¬ allowed then none else
    some (setAct (credit (credit s u (inSide k act)) act.receiver (outSide k act)) u k i none)

inductive Op where
  | tick (dt : Nat)
  | price (age : Nat)
  | create (u k i a b : Nat) (soft : Bool) (execLamports : Nat) (receiver : Nat)
  | exec (who : Who) (u k i fee : Nat) (throw : Bool) (fail : Bool) (x y : Nat) (hard : Bool := false)
      (cl cs ch : Nat := 0) (pc : Bool := false)
  | close (who : Who) (u k i : Nat)

inductive Event where
  | none
  | created (u k i : Nat)
  | executed (u k i : Nat) (o : Outcome)
  | closed (u k i : Nat)
  deriving DecidableEq, Repr

/-- one transaction; failed ones change nothing. -/
def step (s : St) : Op → St × Event
  | .tick dt => (tick s dt, .none)
  | .price age => (price s age, .none)
  | .create u k i a b soft el rc =>
    match create s u k i a b soft el rc with
    | some s' => (s', .created u k i)
    | none => (if k = 4 then prepPosition s u else s, .none)   -- the position was prepared even if the order is rejected
  | .exec who u k i fee throw fail x y hard cl cs ch pc => match exec s who u k i fee throw fail x y hard cl cs ch pc with | some (s', o, _) => (s', .executed u k i o) | none => (s, .none)
  | .close who u k i => match close s who u k i with | some s' => (s', .closed u k i) | none => (s, .none)

def run (s : St) : List Op → St × List Event
  | [] => (s, [])
  | op :: ops => let r := step s op; let rest := run r.1 ops; (rest.1, r.2 :: rest.2)

end Gmx.Life2
