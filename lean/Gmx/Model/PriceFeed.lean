/-!
# Gmx.Model.PriceFeed — `PriceFeed::update` of `programs/store/src/states/oracle/feed.rs` (C25)

State: `last_published_at_slot : u64`, `last_published_at : i64`, and the stored `PriceFeedPrice`
(`ts : i64`, `price`, `min_price`, `max_price : u128`; decimals/flags/status travel with the price
unchanged and are not constrained by `update`, so they are left out).
`update(price, max_future_excess, idempotent)` reads `Clock::get()` = `(slot, now)`:

1. `slot ≥ last_published_at_slot` and `now ≥ last_published_at`, else `PreconditionsAreNotMet`;
2. if `idempotent` and `price.ts < stored.ts`: `Ok(false)`, nothing changes;
3. `price.ts ≥ stored.ts`, `now.saturating_add_unsigned(max_future_excess) ≥ price.ts`,
   `max ≥ min`, `max ≥ price`, `price ≥ min`, else `InvalidArgument`;
4. store `slot`, `now`, `price`; `Ok(true)`.
-/
namespace Gmx.Feed

inductive Err where
  | Preconditions | InvalidArgument
  deriving Repr, DecidableEq

structure Price where
  ts : Int
  price : Nat
  min : Nat
  max : Nat
  deriving Repr, DecidableEq

structure St where
  lastSlot : Nat
  lastTs : Int
  price : Price
  deriving Repr, DecidableEq

/-- a zero-initialised account -/
def St.zero : St := ⟨0, 0, ⟨0, 0, 0, 0⟩⟩

/-- one `update` call with everything it reads -/
structure Upd where
  slot : Nat
  now : Int
  p : Price
  maxFutureExcess : Nat
  idempotent : Bool
  deriving Repr, DecidableEq

def I64_MAX : Int := 2 ^ 63 - 1

/-- `i64::saturating_add_unsigned` (the sum cannot underflow) -/
def satAddUnsigned (a : Int) (b : Nat) : Int := if a + b > I64_MAX then I64_MAX else a + b

def update (s : St) (u : Upd) : Except Err (St × Bool) :=
  if u.slot < s.lastSlot then .error .Preconditions else
  if u.now < s.lastTs then .error .Preconditions else
  if u.idempotent ∧ u.p.ts < s.price.ts then .ok (s, false) else
  if u.p.ts < s.price.ts then .error .InvalidArgument else
  if satAddUnsigned u.now u.maxFutureExcess < u.p.ts then .error .InvalidArgument else
  if u.p.max < u.p.min then .error .InvalidArgument else
  if u.p.max < u.p.price then .error .InvalidArgument else
  if u.p.price < u.p.min then .error .InvalidArgument else
  .ok (⟨u.slot, u.now, u.p⟩, true)

/-- the account after the call: a rejected call leaves it as it was -/
def apply (s : St) (u : Upd) : St :=
  match update s u with
  | .ok (s', _) => s'
  | .error _ => s

def run (s : St) : List Upd → St
  | [] => s
  | u :: us => run (apply s u) us

/-- `min ≤ price ≤ max` -/
def Valid (s : St) : Prop := s.price.min ≤ s.price.price ∧ s.price.price ≤ s.price.max

end Gmx.Feed
