import Gmx.Model.Fee
/-!
# Gmx.Model.Impact — `crates/model/src/pool/delta.rs`, `params/price_impact.rs`
-/
namespace Gmx

structure ImpactParams where
  exponent : Nat
  pos : Nat
  neg : Nat
  deriving Repr

/-- `PriceImpactParams::adjusted_factors`: the positive factor is capped by the negative one. -/
def adjustedFactors (p : ImpactParams) : Nat × Nat :=
  if p.pos > p.neg then (p.neg, p.neg) else (p.pos, p.neg)

def absDiff (a b : Nat) : Nat := if a ≥ b then a - b else b - a

/-- `price_impact_for_same_side_rebalance` on the two imbalance values. -/
def sameSideImpact (W U : Nat) (p : ImpactParams) (initial next : Nat) : Option Int :=
  let hasPos := decide (next < initial)
  let f := if hasPos then (adjustedFactors p).1 else (adjustedFactors p).2
  match applyFactors W U initial f p.exponent with
  | none => none
  | some i => match applyFactors W U next f p.exponent with
    | none => none
    | some n => match toSigned W (absDiff i n) with
      | none => none
      | some d => if hasPos then some d else some (-d)

/-- `price_impact_for_cross_over_rebalance`. -/
def crossOverImpact (W U : Nat) (p : ImpactParams) (initial next : Nat) : Option Int :=
  match applyFactors W U initial (adjustedFactors p).1 p.exponent with
  | none => none
  | some pi => match applyFactors W U next (adjustedFactors p).2 p.exponent with
    | none => none
    | some ni => match toSigned W (absDiff pi ni) with
      | none => none
      | some d => if pi > ni then some d else some (-d)

/-- `PoolDelta`: current and next USD values of the two sides. -/
structure PoolDelta where
  curL : Nat
  curS : Nat
  nextL : Nat
  nextS : Nat
  deriving Repr, DecidableEq

/-- `PoolDelta::try_new` from pool amounts, prices and signed USD deltas. -/
def PoolDelta.tryNew (W poolL poolS : Nat) (dL dS : Int) (pL pS : Nat) : Option PoolDelta :=
  match checkedMul W poolL pL with
  | none => none
  | some cl => match checkedMul W poolS pS with
    | none => none
    | some cs => match checkedAddWithSigned W cl dL with
      | none => none
      | some nl => match checkedAddWithSigned W cs dS with
        | none => none
        | some ns => some { curL := cl, curS := cs, nextL := nl, nextS := ns }

/-- `PoolDelta::try_from_delta_amounts`. -/
def PoolDelta.tryFromAmounts (W poolL poolS : Nat) (aL aS : Int) (pL pS : Nat) : Option PoolDelta :=
  match checkedMulWithSigned W pL aL with
  | none => none
  | some dL => match checkedMulWithSigned W pS aS with
    | none => none
    | some dS => PoolDelta.tryNew W poolL poolS dL dS pL pS

def PoolDelta.initialDiff (d : PoolDelta) : Nat := absDiff d.curL d.curS
def PoolDelta.nextDiff (d : PoolDelta) : Nat := absDiff d.nextL d.nextS
def PoolDelta.isSameSide (d : PoolDelta) : Bool :=
  decide (d.curL ≤ d.curS) == decide (d.nextL ≤ d.nextS)

def balanceChangeOf (initial next : Nat) : BalanceChange :=
  if next = initial then .unchanged else if next > initial then .worsened else .improved

/-- `PoolDelta::price_impact`. -/
def PoolDelta.priceImpact (W U : Nat) (p : ImpactParams) (d : PoolDelta) : Option (Int × BalanceChange) :=
  let v := if d.isSameSide then sameSideImpact W U p d.initialDiff d.nextDiff
           else crossOverImpact W U p d.initialDiff d.nextDiff
  match v with
  | none => none
  | some x => some (x, balanceChangeOf d.initialDiff d.nextDiff)

/-- `SwapMarketExt::swap_impact_value` (and the same rule in `PositionExt::position_price_impact`): the
virtual inventory is consulted only when the impact on the real pool is NEGATIVE, with the same USD deltas
and prices applied to the virtual pool amounts, and the WORSE (smaller) of the two impacts is taken. -/
def swapImpactWithVirtual (W U : Nat) (p : ImpactParams) (poolL poolS : Nat) (virt : Option (Nat × Nat))
    (dL dS : Int) (pL pS : Nat) (includeVirtual : Bool) : Option (Int × BalanceChange) :=
  match PoolDelta.tryNew W poolL poolS dL dS pL pS with
  | none => none
  | some d =>
    match d.priceImpact W U p with
    | none => none
    | some (x, bc) =>
      if decide (0 ≤ x) || !includeVirtual then some (x, bc) else
      match virt with
      | none => some (x, bc)
      | some (vL, vS) =>
        match PoolDelta.tryNew W vL vS dL dS pL pS with
        | none => none
        | some dv =>
          match dv.priceImpact W U p with
          | none => none
          | some (y, bcv) => if y < x then some (y, bcv) else some (x, bc)

/-- the exact reverse of a balance change (next and current swapped). -/
def PoolDelta.rev (d : PoolDelta) : PoolDelta :=
  { curL := d.nextL, curS := d.nextS, nextL := d.curL, nextS := d.curS }

end Gmx
