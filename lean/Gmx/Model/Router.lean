/-!
# Gmx.Model.Router — multi-market swap routing
`programs/store/src/states/market/revertible/swap_market.rs` (`revertible_swap`,
`revertible_swap_for_one_side`, `swap_along_the_path`, `swap_with_current`),
`crates/utils/src/swap.rs` (`validated_*_swap_path`), `states/common/swap.rs` (`validate_path`).

Markets are abstract: a market has a market token, a long and a short token and recorded
balances; the per-hop swap arithmetic (property C04/C05) is a parameter: the list of hop outputs
observed on the implementation (`outs`), consumed in hop order — an exhausted list means the swap
at that hop failed. Balance validation (C22) is assumed to pass except for the one check whose
inputs the router itself produces (the current market after sending tokens out, `From` direction).
-/
namespace Gmx

structure RMarket where
  token : Nat        -- market token
  long : Nat
  short : Nat
  balL : Nat         -- recorded long-token balance (the only one used by a pure market)
  balS : Nat
  minL : Nat := 0    -- required minimum balances (only used for the current market)
  minS : Nat := 0
  colL : Nat := 0    -- total position collateral held in the long token / in the short token
  colS : Nat := 0
  deriving Repr, DecidableEq

def RMarket.isPure (m : RMarket) : Bool := m.long == m.short

/-- `MarketMeta::to_token_side` -/
def RMarket.side (m : RMarket) (tok : Nat) : Option Bool :=
  if tok = m.long then some true else if tok = m.short then some false else none

/-- `MarketMeta::opposite_token` -/
def RMarket.opposite (m : RMarket) (tok : Nat) : Option Nat :=
  if tok = m.long then some m.short else if tok = m.short then some m.long else none

/-- `record_transferred_in` (u64 checked add; pure markets use the long slot) -/
def RMarket.recordIn (m : RMarket) (tok amt : Nat) : Option RMarket :=
  match m.side tok with
  | none => none
  | some isLong =>
    if m.isPure || isLong then
      if m.balL + amt < 2 ^ 64 then some { m with balL := m.balL + amt } else none
    else
      if m.balS + amt < 2 ^ 64 then some { m with balS := m.balS + amt } else none

/-- `record_transferred_out` (checked sub) -/
def RMarket.recordOut (m : RMarket) (tok amt : Nat) : Option RMarket :=
  match m.side tok with
  | none => none
  | some isLong =>
    if m.isPure || isLong then
      if amt ≤ m.balL then some { m with balL := m.balL - amt } else none
    else
      if amt ≤ m.balS then some { m with balS := m.balS - amt } else none

/-- collateral criterion of `validate_market_balance_for_the_given_token(token, excluded)`: the recorded
balance minus `excluded` (checked) covers the total position collateral held in that token (a pure
market: in its single token) -/
def RMarket.colOk (m : RMarket) (isLong : Bool) (excluded : Nat) : Bool :=
  let bal := if m.isPure || isLong then m.balL else m.balS
  let col := if m.isPure then m.colL + m.colS else if isLong then m.colL else m.colS
  decide (excluded ≤ bal) && decide (col ≤ bal - excluded)

/-- `validate_market_balance_for_the_given_token(token, 0)` against the required minimum -/
def RMarket.validFor (m : RMarket) (tok : Nat) : Bool :=
  match m.side tok with
  | none => false
  | some isLong =>
    (if m.isPure then decide (m.minL + m.minS ≤ m.balL)
     else if isLong then decide (m.minL ≤ m.balL) else decide (m.minS ≤ m.balS)) && m.colOk isLong 0

/-- `validate_market_balances(long_excluding, short_excluding)`, collateral criterion only (the pool
criterion is property C22's and passes in generated cases: provided markets carry a surplus over their
pool amounts) -/
def RMarket.validBalances (m : RMarket) (exL exS : Nat) : Bool :=
  if m.isPure then decide (exL + exS < 2 ^ 64) && m.colOk true (exL + exS)
  else m.colOk true exL && m.colOk false exS

/-- the exclusion bookkeeping of `validate_market_balances_excluding_the_given_token_amounts` -/
def RMarket.exclSide (m : RMarket) (tok amt : Nat) (acc : Nat × Nat) : Option (Nat × Nat) :=
  if amt = 0 then some acc else
  match m.side tok with
  | none => none
  | some true => if acc.1 + amt < 2 ^ 64 then some (acc.1 + amt, acc.2) else none
  | some false => if acc.2 + amt < 2 ^ 64 then some (acc.1, acc.2 + amt) else none

/-- both exclusions accumulated (long side, short side) -/
def RMarket.excl (m : RMarket) (t1 t2 a1 a2 : Nat) : Option (Nat × Nat) :=
  (m.exclSide t1 a1 (0, 0)).bind (m.exclSide t2 a2)

def RMarket.validExcl (m : RMarket) (t1 t2 a1 a2 : Nat) : Bool :=
  match m.excl t1 t2 a1 a2 with
  | none => false
  | some e => m.validBalances e.1 e.2

structure Hop where
  market : Nat
  tokenIn : Nat
  tokenOut : Nat
  amtIn : Nat
  amtOut : Nat
  deriving Repr, DecidableEq

/-- router state: the provided markets (never containing the current one), the current market,
the remaining observed hop outputs and the trace of executed hops -/
structure RState where
  markets : List RMarket
  cur : RMarket
  outs : List Nat
  trace : List Hop
  deriving Repr

def findMarket (ms : List RMarket) (tok : Nat) : Option RMarket := ms.find? (·.token == tok)

def setMarket (ms : List RMarket) (m : RMarket) : List RMarket :=
  ms.map (fun x => if x.token == m.token then m else x)

/-- no duplicates (`validated_*_swap_path`: every market token may appear once per path) -/
def noDup : List Nat → Bool
  | [] => true
  | x :: xs => !xs.contains x && noDup xs

/-- one swap step inside market `m`: returns the updated trace/outs and the new (token, amount) -/
def swapIn (m : RMarket) (s : RState) (tok amt : Nat) : Option (RState × Nat × Nat) :=
  match m.side tok, m.opposite tok with
  | some _, some out =>
    if tok = out then none     -- "cannot include a no-op swap step"
    else match s.outs with
      | [] => none             -- the swap itself failed on the implementation
      | o :: rest =>
        if o < 2 ^ 64 then
          some ({ s with outs := rest, trace := s.trace ++ [⟨m.token, tok, out, amt, o⟩] }, out, o)
        else none              -- TokenAmountOverflow
  | _, _ => none

/-- move `amt` of `tok` from the current market to provided market `mt`
(`validate`: the `From` direction checks the current market right after sending) -/
def curToMarket (s : RState) (mt tok amt : Nat) (validate : Bool) : Option RState :=
  match findMarket s.markets mt with
  | none => none               -- MarketAccountIsNotProvided
  | some m =>
    match s.cur.recordOut tok amt with
    | none => none
    | some cur' =>
      if validate && !cur'.validFor tok then none else
      match m.recordIn tok amt with
      | none => none
      | some m' => some { s with cur := cur', markets := setMarket s.markets m' }

/-- move `amt` of `tok` from provided market `mt` to the current market -/
def marketToCur (s : RState) (mt tok amt : Nat) : Option RState :=
  match findMarket s.markets mt with
  | none => none
  | some m =>
    match m.recordOut tok amt with
    | none => none
    | some m' =>
      if !m'.validBalances 0 0 then none else     -- `last_market.validate_market_balances(0, 0)`
      match s.cur.recordIn tok amt with
      | none => none
      | some cur' => some { s with cur := cur', markets := setMarket s.markets m' }

/-- move `amt` of `tok` from provided market `a` to provided market `b` -/
def marketToMarket (s : RState) (a b tok amt : Nat) : Option RState :=
  match findMarket s.markets a with
  | none => none
  | some ma =>
    match ma.recordOut tok amt with
    | none => none
    | some ma' =>
      if !ma'.validBalances 0 0 then none else    -- `market.validate_market_balances(0, 0)` after a non-final hop
      let ms := setMarket s.markets ma'
      match findMarket ms b with
      | none => none
      | some mb =>
        match mb.recordIn tok amt with
        | none => none
        | some mb' => some { s with markets := setMarket ms mb' }

/-- `swap_along_the_path` over provided markets only: the tokens are already recorded in the
first market; after every hop but the last the output moves to the next market. -/
def swapAlong : List Nat → RState → Nat → Nat → Option (RState × Nat × Nat)
  | [], s, tok, amt => some (s, tok, amt)
  | mt :: rest, s, tok, amt =>
    match findMarket s.markets mt with
    | none => none             -- MarketAccountIsNotProvided
    | some m =>
      match swapIn m s tok amt with
      | none => none
      | some (s1, tok', amt') =>
        match rest with
        | [] => some (s1, tok', amt')
        | nxt :: _ =>
          match marketToMarket s1 mt nxt tok' amt' with
          | none => none
          | some s2 => swapAlong rest s2 tok' amt'

/-- `revertible_swap_for_one_side` -/
def swapOneSide (into : Bool) (s : RState) (path : List Nat) (expectedOut tokIn amtIn : Nat) :
    Option (RState × Nat) :=
  -- the current market must not be among the provided ones
  if (findMarket s.markets s.cur.token).isSome then none else
  let finish (r : Option (RState × Nat × Nat)) : Option (RState × Nat) :=
    match r with
    | none => none
    | some (s', tok, amt) => if tok = expectedOut then some (s', amt) else none
  match path with
  | [] => finish (some (s, tokIn, amtIn))
  | first :: _ =>
    let c := s.cur.token
    -- (1) `From`: tokens leave the current market towards the first market
    let r1 : Option RState :=
      if !into && first != c then curToMarket s first tokIn amtIn true else some s
    match r1 with
    | none => none
    | some s1 =>
      -- (2) first market is the current one
      let r2 : Option (RState × List Nat × Nat × Nat) :=
        if first == c then
          match swapIn s1.cur s1 tokIn amtIn with
          | none => none
          | some (s2, tok, amt) =>
            match path.drop 1 with
            | [] => some (s2, [], tok, amt)
            | nxt :: more =>
              match curToMarket s2 nxt tok amt false with
              | none => none
              | some s2' => some (s2', nxt :: more, tok, amt)
        else some (s1, path, tokIn, amtIn)
      match r2 with
      | none => none
      | some (s2, rest, tok, amt) =>
        if rest.isEmpty then finish (some (s2, tok, amt)) else
        let lastTok := rest.getLast?.getD c
        let withCur := lastTok == c
        let mid := if withCur then rest.dropLast else rest
        match swapAlong mid s2 tok amt with
        | none => none
        | some (s3, tok3, amt3) =>
          -- (3) last market is the current one
          let r3 : Option (RState × Nat × Nat) :=
            if withCur then
              let r := match mid.getLast? with
                | none => some s3
                | some lm => marketToCur s3 lm tok3 amt3
              match r with
              | none => none
              | some s4 => swapIn s4.cur s4 tok3 amt3
            else some (s3, tok3, amt3)
          match r3 with
          | none => none
          | some (s5, tok5, amt5) =>
            -- (4) `Into`: the output is moved into the current market
            let r4 : Option RState :=
              if into && lastTok != c then marketToCur s5 lastTok tok5 amt5 else some s5
            match r4 with
            | none => none
            | some s6 => finish (some (s6, tok5, amt5))

/-- final balance validation of `revertible_swap`: only its token-side lookups are modelled
(the amounts are property C22): an output amount can only be excluded from a market that has
the output token. -/
def finalSideCheck (into : Bool) (s : RState) (primary secondary : List Nat)
    (expectedOuts : Nat × Nat) (o1 o2 : Nat) : Bool :=
  let c := s.cur.token
  let outM (p : List Nat) : Nat := if into then c else p.getLast?.getD c
  let getM (t : Nat) : Option RMarket := if t = c then some s.cur else findMarket s.markets t
  let sideOk (mt tok amt : Nat) : Bool :=
    amt == 0 || (match getM mt with | some m => (m.side tok).isSome | none => false)
  sideOk (outM primary) expectedOuts.1 o1 && sideOk (outM secondary) expectedOuts.2 o2

/-- final balance validation of `revertible_swap`, amounts included (collateral criterion): the output
amounts remain deposited in their output markets and are paid out by the enclosing instruction, so each
output market is validated with what will leave it EXCLUDED — both amounts at once when the two sides end
in the same market. -/
def finalBalCheck (into : Bool) (s : RState) (primary secondary : List Nat)
    (expectedOuts : Nat × Nat) (o1 o2 : Nat) : Bool :=
  let c := s.cur.token
  let lm : Nat := if into then c else primary.getLast?.getD c
  let sm : Nat := if into then c else secondary.getLast?.getD c
  let getM (t : Nat) : Option RMarket := if t = c then some s.cur else findMarket s.markets t
  let chk (mt t1 t2 a1 a2 : Nat) : Bool :=
    match getM mt with | some m => m.validExcl t1 t2 a1 a2 | none => false
  if lm = sm then chk lm expectedOuts.1 expectedOuts.2 o1 o2 && (lm == c || s.cur.validBalances 0 0)
  else chk lm expectedOuts.1 expectedOuts.1 o1 0 && chk sm expectedOuts.2 expectedOuts.2 o2 0
        && (lm == c || sm == c || s.cur.validBalances 0 0)

/-- `revertible_swap`: primary then secondary side (a side with no token or a zero amount is skipped). -/
def routerSwap (into : Bool) (s : RState) (primary secondary : List Nat)
    (expectedOuts : Nat × Nat) (tokenIns : Option Nat × Option Nat) (amounts : Nat × Nat) :
    Option (RState × Nat × Nat) :=
  -- `unpack_markets_for_swap`: every path market other than the current one must be supplied
  if (primary ++ secondary).any (fun t => t != s.cur.token && (findMarket s.markets t).isNone) then none else
  if !noDup primary then none else
  let r1 : Option (RState × Nat) :=
    match tokenIns.1 with
    | some t => if amounts.1 ≠ 0 then swapOneSide into s primary expectedOuts.1 t amounts.1 else some (s, 0)
    | none => some (s, 0)
  match r1 with
  | none => none
  | some (s1, o1) =>
    if !noDup secondary then none else
    let r2 : Option (RState × Nat) :=
      match tokenIns.2 with
      | some t => if amounts.2 ≠ 0 then swapOneSide into s1 secondary expectedOuts.2 t amounts.2 else some (s1, 0)
      | none => some (s1, 0)
    match r2 with
    | none => none
    | some (s2, o2) =>
      if finalSideCheck into s2 primary secondary expectedOuts o1 o2 && finalBalCheck into s2 primary secondary expectedOuts o1 o2
      then some (s2, o1, o2) else none

end Gmx
