import Gmx.Model.Num
/-!
# Gmx.Model.Fee — `crates/model/src/params/fee.rs` (fee splitting)
-/
namespace Gmx

inductive BalanceChange where
  | improved | worsened | unchanged
  deriving Repr, DecidableEq

/-- `FeeParams` (`discount_factor: None` is `0`). -/
structure FeeParams where
  pos : Nat
  neg : Nat
  recv : Nat
  disc : Nat
  deriving Repr

def FeeParams.factor (p : FeeParams) : BalanceChange → Nat
  | .improved => p.pos
  | _ => p.neg

/-- `FeeParams::fee`: `⌊a·f/U⌋ − ⌊fee·d/U⌋` (checked). -/
def feeOf (W U : Nat) (p : FeeParams) (bc : BalanceChange) (a : Nat) : Option Nat :=
  match applyFactor W U a (p.factor bc) with
  | none => none
  | some f => match applyFactor W U f p.disc with
    | none => none
    | some d => checkedSub f d

def receiverFee (W U : Nat) (p : FeeParams) (fee : Nat) : Option Nat := applyFactor W U fee p.recv

structure Fees where
  pool : Nat
  receiver : Nat
  deriving Repr, DecidableEq

/-- `FeeParams::apply_fees`: `(amount − fee, {pool: fee − recv, receiver: recv})`. -/
def applyFees (W U : Nat) (p : FeeParams) (bc : BalanceChange) (a : Nat) : Option (Nat × Fees) :=
  match feeOf W U p bc a with
  | none => none
  | some fee => match receiverFee W U p fee with
    | none => none
    | some r => match checkedSub fee r with
      | none => none
      | some pool => match checkedSub a fee with
        | none => none
        | some net => some (net, { pool := pool, receiver := r })

inductive FeeErr where
  | invalidPrices | computation
  deriving Repr, DecidableEq

structure OrderFees where
  pool : Nat
  receiver : Nat
  feeValue : Nat
  deriving Repr, DecidableEq

/-- `FeeParams::order_fees` (via `base_position_fees`): fee value from the size, converted at
the *minimum* collateral price, rounded down. -/
def orderFees (W U : Nat) (p : FeeParams) (pmin pmax size : Nat) (bc : BalanceChange) :
    Except FeeErr OrderFees :=
  if pmin = 0 ∨ pmax = 0 then .error .invalidPrices else
  match feeOf W U p bc size with
  | none => .error .computation
  | some fv =>
    let amt := fv / pmin
    match receiverFee W U p amt with
    | none => .error .computation
    | some r => match checkedSub amt r with
      | none => .error .computation
      | some pool => .ok { pool := pool, receiver := r, feeValue := fv }

structure LiqFees where
  feeValue : Nat
  amount : Nat
  receiver : Nat
  deriving Repr, DecidableEq

/-- `LiquidationFeeParams::fee`: value from the size, amount rounded UP at the min price. -/
def liquidationFee (W U factor recvFactor size pmin : Nat) : Option LiqFees :=
  if factor = 0 then some { feeValue := 0, amount := 0, receiver := 0 } else
  match applyFactor W U size factor with
  | none => none
  | some fv => match roundUpDiv W fv pmin with
    | none => none
    | some amt => match applyFactor W U amt recvFactor with
      | none => none
      | some r => some { feeValue := fv, amount := amt, receiver := r }

/-- `PositionFees` aggregation (`crates/model/src/params/fee.rs`): order fees (already split), borrowing and
liquidation fees (total + receiver part). -/
structure FeeAgg where
  orderPool : Nat
  orderRecv : Nat
  borrow : Nat
  borrowRecv : Nat
  liq : Option (Nat × Nat)      -- liquidation fee amount, receiver part
  deriving Repr

/-- `BorrowingFees::fee_amount_for_pool` / `LiquidationFees::fee_amount_for_pool`: checked subtraction -/
def poolPart (total recv : Nat) : Option Nat := checkedSub total recv

/-- `PositionFees::for_pool` -/
def FeeAgg.forPool (W : Nat) (f : FeeAgg) : Option Nat :=
  match poolPart f.borrow f.borrowRecv with
  | none => none
  | some b =>
    match checkedAdd W f.orderPool b with
    | none => none
    | some t =>
      match f.liq with
      | none => some t
      | some (l, lr) =>
        match poolPart l lr with
        | none => none
        | some lp => checkedAdd W t lp

/-- `PositionFees::for_receiver` -/
def FeeAgg.forReceiver (W : Nat) (f : FeeAgg) : Option Nat :=
  match checkedAdd W f.orderRecv f.borrowRecv with
  | none => none
  | some t => match f.liq with | none => some t | some (_, lr) => checkedAdd W t lr

/-- `PositionFees::total_cost_excluding_funding` -/
def FeeAgg.totalCost (W : Nat) (f : FeeAgg) : Option Nat :=
  match checkedAdd W f.orderPool f.orderRecv with
  | none => none
  | some a =>
    match checkedAdd W a f.borrow with
    | none => none
    | some b => match f.liq with | none => some b | some (l, _) => checkedAdd W b l

end Gmx
