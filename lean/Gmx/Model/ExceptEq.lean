/-! `DecidableEq (Except ε α)` once, for `decide`-checked examples. -/
deriving instance DecidableEq for Except
