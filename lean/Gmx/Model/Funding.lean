import Gmx.Model.Num
/-!
# Gmx.Model.Funding — `crates/model/src/action/update_funding_state.rs`,
`params/fee.rs` (`FundingFeeParams`), `position.rs` (`pending_funding_fees`)

Transcription of the funding-rate computation, the per-size index update and the pack/unpack
helpers. Errors are kept as kinds (`FErr`).
-/
namespace Gmx

structure FundingParams where
  exponent : Nat
  factor : Nat
  inc : Nat
  dec : Nat
  maxF : Nat
  minF : Nat
  thrStable : Nat
  thrDecrease : Nat
  deriving Repr

inductive RateChange where
  | noChange | increase | decrease
  deriving Repr, DecidableEq

inductive FErr where
  | comp | conv | arg | emptyOI | ovf | prices
  deriving Repr, DecidableEq

/-- `FundingFeeParams::change`. -/
def FundingParams.change (p : FundingParams) (cur : Int) (l s diffFactor : Nat) : RateChange :=
  if (cur > 0 ∧ l > s) ∨ (cur < 0 ∧ l < s) then
    if diffFactor > p.thrStable then .increase
    else if diffFactor < p.thrDecrease then .decrease
    else .noChange
  else .increase

instance instDecEqExcept {ε α : Type} [DecidableEq ε] [DecidableEq α] : DecidableEq (Except ε α)
  | .ok a, .ok b => if h : a = b then isTrue (by rw [h]) else isFalse (by intro e; cases e; exact h rfl)
  | .error a, .error b => if h : a = b then isTrue (by rw [h]) else isFalse (by intro e; cases e; exact h rfl)
  | .ok _, .error _ => isFalse (by intro e; cases e)
  | .error _, .ok _ => isFalse (by intro e; cases e)

def natAbsDiff (a b : Nat) : Nat := if a ≥ b then a - b else b - a

def optE {α : Type} (e : FErr) : Option α → Except FErr α
  | some a => .ok a
  | none => .error e

def boundE (W : Nat) (v : Int) (mn mx : Nat) : Except FErr Int :=
  match boundMagnitude W v mn mx with
  | .ok r => .ok r
  | .error .minGtMax => .error .arg
  | .error .convert => .error .conv

/-- the two final `bound_magnitude` calls of the adaptive branch: the stored next rate is bounded
by `[0, max]`, the used rate by `[min, max]`. Returns `(used magnitude, longs pay, stored)`. -/
def finishAdaptive (W : Nat) (p : FundingParams) (v : Int) : Except FErr (Nat × Bool × Int) :=
  match boundE W v 0 p.maxF with
  | .error e => .error e
  | .ok nx => match boundE W nx p.minF p.maxF with
    | .error e => .error e
    | .ok nm => .ok (nm.natAbs, decide (nm > 0), nx)

/-- the `match change { .. }` of the adaptive branch (value before bounding). -/
def adaptiveNext (W U : Nat) (p : FundingParams) (cur : Int) (dur l s dfac : Nat) : Except FErr Int :=
  let mag := cur.natAbs
  match toU W dur with
  | none => .error .conv
  | some dv =>
    match p.change cur l s dfac with
    | .increase =>
      match (applyFactor W U dfac p.inc).bind (fun v => checkedMul W v dv) with
      | none => .error .comp
      | some iv =>
        match (if l < s then toOppositeSigned W iv else toSigned W iv) with
        | none => .error .conv
        | some sv => optE .comp (toI W (cur + sv))
    | .decrease =>
      if mag = 0 then .ok cur else
      match checkedMul W p.dec dv with
      | none => .error .comp
      | some dval =>
        if mag ≤ dval then
          match toSigned W mag with
          | none => .error .conv
          | some m => .ok (Int.tdiv cur m)
        else
          optE .conv (if cur < 0 then toOppositeSigned W (mag - dval) else toSigned W (mag - dval))
    | .noChange => .ok cur

/-- `UpdateFundingState::next_funding_factor_per_second`:
`(funding factor per second, longs pay shorts, next stored factor)`. -/
def nextFundingFactor (W U : Nat) (p : FundingParams) (cur : Int) (dur l s : Nat) :
    Except FErr (Nat × Bool × Int) :=
  let diff := natAbsDiff l s
  if diff = 0 ∧ p.inc = 0 then .ok (0, true, 0) else
  match checkedAdd W l s with
  | none => .error .comp
  | some total =>
    if total = 0 then .error .emptyOI else
    match applyExponentFactor W U diff p.exponent with
    | none => .error .comp
    | some dexp =>
      match divToFactor W U dexp total false with
      | none => .error .comp
      | some dfac =>
        if p.inc = 0 then
          match applyFactor W U dfac p.factor with
          | none => .error .comp
          | some f => .ok (if f > p.maxF then p.maxF else f, decide (l > s), 0)
        else
          match adaptiveNext W U p cur dur l s dfac with
          | .error e => .error e
          | .ok v => finishAdaptive W p v

/-- `pack_to_funding_amount_per_size`. -/
def packFunding (W U adj fv oi price : Nat) (up : Bool) : Option Nat :=
  if fv = 0 ∨ oi = 0 then some 0 else
  match checkedMul W adj U with
  | none => none
  | some num =>
    if up then
      match mulDivCeil W fv num oi with
      | none => none
      | some per => roundUpDiv W per price
    else
      match mulDiv W fv num oi with
      | none => none
      | some per => checkedDiv per price

/-- `unpack_to_funding_amount_delta`. -/
def unpackFunding (W U adj latest snap size : Nat) (up : Bool) : Option Nat :=
  match checkedSub latest snap with
  | none => none
  | some d =>
    match checkedMul W adj U with
    | none => none
    | some a => if up then mulDivCeil W size d a else mulDiv W size d a

/-- four values indexed by `(is_long, is_long_collateral)`. -/
structure Quad where
  ll : Nat
  ls : Nat
  sl : Nat
  ss : Nat
  deriving Repr, DecidableEq

def Quad.get (q : Quad) (isLong isLongCol : Bool) : Nat :=
  if isLong then (if isLongCol then q.ll else q.ls) else (if isLongCol then q.sl else q.ss)

def Quad.set (q : Quad) (isLong isLongCol : Bool) (v : Nat) : Quad :=
  if isLong then (if isLongCol then { q with ll := v } else { q with ls := v })
  else (if isLongCol then { q with sl := v } else { q with ss := v })

def Quad.zero : Quad := ⟨0, 0, 0, 0⟩

/-- the funding-relevant market state. `oi` = open interest pools (USD) per side/collateral,
`fidx`/`cidx` = funding / claimable funding amount per size, `rate` = stored factor per second. -/
structure FundingState where
  oi : Quad
  fidx : Quad
  cidx : Quad
  rate : Int
  deriving Repr, DecidableEq

structure FundingReport where
  next : Int
  dF : Quad
  dC : Quad
  deriving Repr, DecidableEq

def priceValid (W p : Nat) : Bool := decide (p ≠ 0 ∧ 2 * p < 2 ^ W)

/-- `set_deltas` for one collateral token. -/
def setDeltasOne (W U adj : Nat) (st : FundingState) (lps isLongCol : Bool) (fv price recvOI : Nat)
    (r : FundingReport) : Except FErr FundingReport :=
  match packFunding W U adj fv (st.oi.get lps isLongCol) price true with
  | none => .error .comp
  | some dp =>
    match packFunding W U adj fv recvOI price false with
    | none => .error .comp
    | some dc => .ok { r with dF := r.dF.set lps isLongCol dp, dC := r.dC.set (!lps) isLongCol dc }

/-- `UpdateFundingState::next_funding_amount_per_size` (prices: max long / short token price). -/
def nextFundingAmounts (W U adj : Nat) (p : FundingParams) (st : FundingState) (dur pl ps : Nat) :
    Except FErr FundingReport :=
  let empty : FundingReport := ⟨0, Quad.zero, Quad.zero⟩
  match checkedAdd W st.oi.ll st.oi.ls, checkedAdd W st.oi.sl st.oi.ss with
  | some lo, some so =>
    if lo = 0 ∨ so = 0 then .ok empty else
    match nextFundingFactor W U p st.rate dur lo so with
    | .error e => .error e
    | .ok (f, lps, nx) =>
      let payerOI := if lps then lo else so
      let recvOI := if lps then so else lo
      match toU W dur with
      | none => .error .conv
      | some dv =>
        match checkedMul W dv f with
        | none => .error .comp
        | some ff =>
          match applyFactor W U payerOI ff with
          | none => .error .comp
          | some fv =>
            match mulDiv W fv (st.oi.get lps true) payerOI, mulDiv W fv (st.oi.get lps false) payerOI with
            | some forL, some forS =>
              match setDeltasOne W U adj st lps true forL pl recvOI { empty with next := nx } with
              | .error e => .error e
              | .ok r1 => setDeltasOne W U adj st lps false forS ps recvOI r1
            | _, _ => .error .comp
  | _, _ => .error .ovf

/-- `apply_delta_amount` with `delta.to_signed()?` of an unsigned delta. -/
def applyUDelta (W cur d : Nat) : Except FErr Nat :=
  match toSigned W d with
  | none => .error .conv
  | some _ => if d > 0 then optE .ovf (checkedAdd W cur d) else .ok cur

def applyPair (W f c df dc : Nat) : Except FErr (Nat × Nat) :=
  match applyUDelta W f df with
  | .error e => .error e
  | .ok a => match applyUDelta W c dc with
    | .error e => .error e
    | .ok b => .ok (a, b)

/-- `UpdateFundingState::execute`: entries are applied in MATRIX order
`(long,long) (long,short) (short,long) (short,short)`, funding then claimable for each; the
first failing conversion/addition is the error returned. -/
def updateFunding (W U adj : Nat) (p : FundingParams) (st : FundingState) (dur pl ps : Nat) :
    Except FErr (FundingState × FundingReport) :=
  if !(priceValid W pl && priceValid W ps) then .error .prices else
  match nextFundingAmounts W U adj p st dur pl ps with
  | .error e => .error e
  | .ok r =>
    match applyPair W st.fidx.ll st.cidx.ll r.dF.ll r.dC.ll with
    | .error e => .error e
    | .ok (f1, c1) => match applyPair W st.fidx.ls st.cidx.ls r.dF.ls r.dC.ls with
      | .error e => .error e
      | .ok (f2, c2) => match applyPair W st.fidx.sl st.cidx.sl r.dF.sl r.dC.sl with
        | .error e => .error e
        | .ok (f3, c3) => match applyPair W st.fidx.ss st.cidx.ss r.dF.ss r.dC.ss with
          | .error e => .error e
          | .ok (f4, c4) =>
            .ok ({ st with fidx := ⟨f1, f2, f3, f4⟩, cidx := ⟨c1, c2, c3, c4⟩, rate := r.next }, r)

/-! ### histories -/

/-- pointwise order on index quadruples. -/
def QuadLe (x y : Quad) : Prop := ∀ a b, x.get a b ≤ y.get a b

/-- a step of a funding history: position operations may have changed the open interest, then
time passes and funding is updated at the given prices. A failing update is discarded (the
on-chain instruction reverts). -/
structure FundingStep where
  oi : Quad
  dur : Nat
  pl : Nat
  ps : Nat

def stepFunding (W U adj : Nat) (p : FundingParams) (st : FundingState) (x : FundingStep) : FundingState :=
  match updateFunding W U adj p { st with oi := x.oi } x.dur x.pl x.ps with
  | .ok (st', _) => st'
  | .error _ => { st with oi := x.oi }

def runFunding (W U adj : Nat) (p : FundingParams) (st : FundingState) : List FundingStep → FundingState
  | [] => st
  | x :: xs => runFunding W U adj p (stepFunding W U adj p st x) xs

/-! ### funding of ONE collateral token over histories (C08 `funding_backed`)

Positions pay funding in their own collateral token and receive claimable funding in both
tokens. For a fixed collateral token `k`: a position is `(isLong, hasCollK, size, f, c)` where `f`
snapshots the funding index of `(side, k)` (meaningful if `hasCollK`) and `c` the claimable index of
`(side, k)`. -/

structure FPos where
  isLong : Bool
  hasCollK : Bool
  size : Nat
  f : Nat
  c : Nat
  deriving Repr, DecidableEq

structure FundSys where
  /-- funding amount per size of `(side, k)` -/
  F : Bool → Nat
  /-- claimable funding amount per size of `(side, k)` -/
  C : Bool → Nat
  pos : List FPos
  collected : Nat
  claimed : Nat

inductive FundOp where
  /-- a funding update in which side `lps` pays; `fv` is the funding value attributed to
  collateral token `k`, `price` its max price -/
  | update (lps : Bool) (fv price : Nat)
  /-- position `i` is touched: its pending funding fee is paid in full, its claimable amount is
  credited, its snapshots are refreshed and its size may change (increase / decrease / close) -/
  | settle (i : Nat) (newSize : Nat)
  /-- a new position -/
  | openPos (isLong hasCollK : Bool)

def oiPayK (ps : List FPos) (side : Bool) : Nat :=
  match ps with
  | [] => 0
  | p :: rest => (if p.isLong = side ∧ p.hasCollK = true then p.size else 0) + oiPayK rest side

def oiSide (ps : List FPos) (side : Bool) : Nat :=
  match ps with
  | [] => 0
  | p :: rest => (if p.isLong = side then p.size else 0) + oiSide rest side

/-- one step; an operation that cannot be computed (overflow, zero price) or an insufficient
payment is not part of these histories: the state is left unchanged. -/
def FundSys.step (W U adj : Nat) (s : FundSys) : FundOp → FundSys
  | .update lps fv price =>
    let oiP := oiPayK s.pos lps
    if oiP = 0 then s else
    match packFunding W U adj fv oiP price true, packFunding W U adj fv (oiSide s.pos (!lps)) price false with
    | some dF, some dC =>
      { s with F := fun b => if b = lps then s.F b + dF else s.F b,
               C := fun b => if b = (!lps) then s.C b + dC else s.C b }
    | _, _ => s
  | .settle i newSize =>
    match s.pos[i]? with
    | none => s
    | some p =>
      let pay := if p.hasCollK then unpackFunding W U adj (s.F p.isLong) p.f p.size true else some 0
      match pay, unpackFunding W U adj (s.C p.isLong) p.c p.size false with
      | some a, some b =>
        { s with collected := s.collected + a, claimed := s.claimed + b,
                 pos := s.pos.set i { p with size := newSize, f := s.F p.isLong, c := s.C p.isLong } }
      | _, _ => s
  | .openPos il hk => { s with pos := s.pos ++ [{ isLong := il, hasCollK := hk, size := 0, f := s.F il, c := s.C il }] }

def FundSys.run (W U adj : Nat) (s : FundSys) : List FundOp → FundSys
  | [] => s
  | o :: os => FundSys.run W U adj (s.step W U adj o) os

/-- Σ size·(F − f) over the paying-capable positions (scaled pending payable). -/
def pendPay (F : Bool → Nat) : List FPos → Nat
  | [] => 0
  | p :: rest => (if p.hasCollK then p.size * (F p.isLong - p.f) else 0) + pendPay F rest

/-- Σ size·(C − c) over all positions (scaled pending claimable). -/
def pendClaim (C : Bool → Nat) : List FPos → Nat
  | [] => 0
  | p :: rest => p.size * (C p.isLong - p.c) + pendClaim C rest

end Gmx
