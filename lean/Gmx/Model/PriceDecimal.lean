import Gmx.Model.Num
import Gmx.Model.ExceptEq
/-!
# Gmx.Model.PriceDecimal — `crates/utils/src/price/decimal.rs`, `price/mod.rs` (u128 storage
helpers), `oracle.rs` (`pyth_price_value_to_decimal`)

`price : u128`, all decimals `u8`; `value : u32`. Branch-for-branch transcription of
`Decimal::try_from_price`; `checked_mul` ⇒ `checkedMul 128`, `try_into::<u32>` ⇒ `< 2^32`.
-/
namespace Gmx.PriceDecimal
open Gmx

def MAX_DECIMALS : Nat := 20

inductive DecErr where
  | exceedMaxDecimals
  | overflow
  deriving DecidableEq, Repr

structure Decimal where
  value : Nat          -- u32
  mult : Nat           -- decimal_multiplier : u8
  deriving DecidableEq, Repr


/-- `Decimal::to_unit_price` (u128 arithmetic; shown not to overflow for `mult ≤ 20`). -/
def toUnitPrice (d : Decimal) : Nat := d.value * 10 ^ d.mult

/-- `Decimal::with_unit_price(price, round_up)` -/
def withUnitPrice (d : Decimal) (price : Nat) (roundUp : Bool) : Option Decimal :=
  let m := 10 ^ d.mult
  let v := if roundUp then ceilDiv price m else price / m
  if v < 2 ^ 32 then some ⟨v, d.mult⟩ else none

/-- `value.try_into::<u32>().map_err(Overflow)` after a possibly failed `checked_mul` -/
def finish (dm : Nat) : Option Nat → Except DecErr Decimal
  | none => .error .overflow
  | some v => if v < 2 ^ 32 then .ok ⟨v, dm⟩ else .error .overflow

/-- `Decimal::try_from_price(price, decimals, token_decimals, precision)`; `20` = `Self::MAX_DECIMALS` -/
def tryFromPrice (p d t q : Nat) : Except DecErr Decimal :=
  if t > 20 ∨ q > 20 ∨ d > 20 then .error .exceedMaxDecimals
  else if t + q > 20 then .error .exceedMaxDecimals
  else
    -- convert `price` to decimals of `token_decimals`: (price', divisor_exp)
    let step1 : Option (Nat × Option Nat) :=
      if d = t then some (p, none)
      else if d < t then (checkedMul 128 p (10 ^ (t - d))).map fun x => (x, none)
      else some (p, some (d - t))
    match step1 with
    | none => .error .overflow
    | some (price, divisorExp) =>
      let dm := 20 - t - q                 -- decimal_multiplier_from_precision
      let m := 2 * t + dm                            -- (token_decimals << 1) + decimal_multiplier
      let value : Option Nat :=
        if 20 ≥ m then
          let exp := 20 - m
          match divisorExp with
          | some de =>
            if exp ≥ de then checkedMul 128 price (10 ^ (exp - de))
            else some (price / 10 ^ (de - exp))
          | none => checkedMul 128 price (10 ^ exp)
        else
          let ans := price / 10 ^ (m - 20)
          match divisorExp with
          | some e => some (ans / 10 ^ e)
          | none => some ans
      finish dm value

/-- the exact price at the configured precision: `⌊price · 10^precision / 10^decimals⌋` -/
def exactValue (p d q : Nat) : Nat := p * 10 ^ q / 10 ^ d

/-! ### u128 storage helpers (`price/mod.rs`) -/
def limbs (a b c : Nat) : Nat := a + b * 2 ^ 64 + c * 2 ^ 128

/-- `get_power_bounds()` — the literal table of the source. -/
def powerBounds : List Nat := [
  limbs 18446744073709551615 18446744073709551615 0,
  limbs 18446744073709551606 18446744073709551615 9,
  limbs 18446744073709551516 18446744073709551615 99,
  limbs 18446744073709550616 18446744073709551615 999,
  limbs 18446744073709541616 18446744073709551615 9999,
  limbs 18446744073709451616 18446744073709551615 99999,
  limbs 18446744073708551616 18446744073709551615 999999,
  limbs 18446744073699551616 18446744073709551615 9999999,
  limbs 18446744073609551616 18446744073709551615 99999999,
  limbs 18446744072709551616 18446744073709551615 999999999,
  limbs 18446744063709551616 18446744073709551615 9999999999,
  limbs 18446743973709551616 18446744073709551615 99999999999,
  limbs 18446743073709551616 18446744073709551615 999999999999,
  limbs 18446734073709551616 18446744073709551615 9999999999999,
  limbs 18446644073709551616 18446744073709551615 99999999999999,
  limbs 18445744073709551616 18446744073709551615 999999999999999,
  limbs 18436744073709551616 18446744073709551615 9999999999999999,
  limbs 18346744073709551616 18446744073709551615 99999999999999999,
  limbs 17446744073709551616 18446744073709551615 999999999999999999,
  limbs 8446744073709551616 18446744073709551615 9999999999999999999]

/-- `bounds.binary_search(num)` → `Ok(idx) | Err(idx) => idx`: on a strictly increasing table
both are the number of entries strictly below `num`. -/
def countBelow (num : Nat) : List Nat → Nat
  | [] => 0
  | b :: bs => if b < num then 1 + countBelow num bs else 0

def findDivisorDecimals (num : Nat) : Nat := countBelow num powerBounds

/-- `convert_to_u128_storage(num, decimals)`; the inner `try_into().unwrap()` is the `panic`
outcome `none` of the inner option. Result: `none` = `None`, `some none` = panic. -/
def convertToU128Storage (num decimals : Nat) : Option (Option (Nat × Nat)) :=
  let dd := findDivisorDecimals num
  if dd > decimals then none
  else
    let v := num / 10 ^ dd
    if v < 2 ^ 128 then some (some (v, decimals - dd)) else some none

/-! ### `pyth_price_value_to_decimal(value : u64, exponent : i32, token_decimals, precision)` -/
inductive PythErr where
  | exponentTooSmall | exponentTooBig | priceOverflow | converting
  deriving DecidableEq, Repr

/-- `10u64.checked_pow(e)`: `10^e < 2^64` iff `e ≤ 19` (stated so that huge exponents are never
evaluated; `checkedPow10_eq` shows it is the fit test). -/
def checkedPow10 (e : Nat) : Option Nat := if e ≤ 19 then some (10 ^ e) else none

/-- the `(price, decimals)` handed to `try_from_price` -/
def pythPre (value : Nat) (exponent : Int) : Except PythErr (Nat × Nat) :=
  if exponent ≤ 0 then
    -- `exponent.unsigned_abs().try_into::<u8>()` (since /repo 95e9782; no negation, no overflow)
    if (-exponent).toNat < 256 then .ok (value, (-exponent).toNat) else .error .exponentTooSmall
  else
    match checkedPow10 exponent.toNat with
    | none => .error .exponentTooBig
    | some f =>
      match checkedMul 64 value f with
      | none => .error .priceOverflow
      | some v => .ok (v, 0)

def pythValueToDecimal (value : Nat) (exponent : Int) (t q : Nat) : Except PythErr Decimal :=
  match pythPre value exponent with
  | .error e => .error e
  | .ok (v, d) =>
    match tryFromPrice v d t q with
    | .ok r => .ok r
    | .error _ => .error .converting

/-! ### `pyth_price_with_confidence_to_price(price : i64, confidence : u64, exponent, token config)` -/
inductive PythCErr where
  | midPrice      -- "mid_price": the price does not fit u64 (negative)
  | minPrice      -- "min_price": confidence > price (the exact lower bound would be negative)
  | maxPrice      -- "max_price": price + confidence overflows u64
  | value (e : PythErr)
  deriving DecidableEq, Repr

def liftPyth : Except PythErr Decimal → Except PythCErr Decimal
  | .ok d => .ok d
  | .error e => .error (.value e)

/-- `(min, max)` decimals of `price ± confidence` -/
def pythWithConfidence (price : Int) (conf : Nat) (exponent : Int) (t q : Nat) : Except PythCErr (Decimal × Decimal) :=
  if price < 0 ∨ ¬ price < 2 ^ 64 then .error .midPrice          -- i64 → u64 `try_into`
  else if conf > price.toNat then .error .minPrice               -- `checked_sub`
  else if ¬ price.toNat + conf < 2 ^ 64 then .error .maxPrice    -- `checked_add`
  else
    match liftPyth (pythValueToDecimal (price.toNat - conf) exponent t q) with
    | .error e => .error e
    | .ok mn =>
      match liftPyth (pythValueToDecimal (price.toNat + conf) exponent t q) with
      | .error e => .error e
      | .ok mx => .ok (mn, mx)

end Gmx.PriceDecimal
