import Gmx.Model.Market
/-!
# Gmx.Model.Swap — `crates/model/src/action/swap.rs`

`Swap::try_execute` computes the four new pools (liquidity, virtual inventory, swap impact,
claimable fee) into a cache, validates on the cache and only then `execute` writes them: the
model returns either the new market or an error (and no market), which is exactly that shape.

Stages (so that the proofs can take them apart):
* `swapCalc`   — all the numbers (fees, impact amounts, token-in after fees/impact, outputs);
* `swapApply`  — the four pool updates;
* `swapValidate` — the three validations on the updated pools;
* `swap`       — `try_new` checks + the above.
-/
namespace Gmx

structure SwapParams where
  isInLong : Bool
  amount : Nat
  prices : Prices
  deriving Repr, DecidableEq

def SwapParams.inPrice (q : SwapParams) : Price := if q.isInLong then q.prices.long else q.prices.short
def SwapParams.outPrice (q : SwapParams) : Price := if q.isInLong then q.prices.short else q.prices.long

/-- everything `try_execute` computes before touching the pools. The Rust `SwapResult` exposes
`impactValue`, `fees`, `tokenOut`, `impactAmount`; the other fields are the intermediate values
the pools are updated with. -/
structure SwapCalc where
  /-- `price_impact.value` (worse of real / virtual) -/
  impactValue : Int
  fees : Fees
  /-- amount after fees -/
  afterFees : Nat
  /-- `token_in_amount` credited to the pool (after fees, ± impact) -/
  tokenIn : Nat
  /-- `price_impact_amount` (magnitude) -/
  impactAmount : Nat
  /-- `capped_diff_token_in_amount`: positive impact paid from the token-IN impact pool -/
  cappedIn : Nat
  /-- `pool_amount_out` -/
  poolOut : Nat
  /-- `token_out_amount` -/
  tokenOut : Nat
  deriving Repr, DecidableEq

/-- `reassign_values`: signed USD value deltas of the long and short side at mid prices. -/
def swapDeltas (W : Nat) (q : SwapParams) : Option (Int × Int × Nat × Nat) :=
  match q.prices.long.mid W with
  | none => none
  | some midL => match q.prices.short.mid W with
    | none => none
    | some midS =>
      match checkedMul W q.amount (if q.isInLong then midL else midS) with
      | none => none
      | some v => match toSigned W v with
        | none => none
        | some sv => match toI W (-sv) with
          | none => none
          | some nsv => if q.isInLong then some (sv, nsv, midL, midS) else some (nsv, sv, midL, midS)

/-- the price impact of the swap (liquidity pool vs. virtual inventory: worse of the two). -/
def swapImpact (W U : Nat) (m : Market) (q : SwapParams) : Option (Int × BalanceChange) :=
  match swapDeltas W q with
  | none => none
  | some (dL, dS, midL, midS) =>
    match PoolDelta.tryNew W m.primary.long m.primary.short dL dS midL midS with
    | none => none
    | some d => swapImpactValue W U m.cfg.swapImpact m.viSwaps d dL dS midL midS true

/-- amounts for a positive impact: paid from the token-OUT impact pool (capped), the capped
remainder converted and paid from the token-IN impact pool (capped again). -/
def swapCalcPositive (W : Nat) (m : Market) (q : SwapParams) (impact : Int) (afterFees : Nat) (fees : Fees) :
    Option SwapCalc :=
  match swapImpactAmountWithCap W m.swapImpact (!q.isInLong) q.outPrice impact with
  | none => none
  | some (sAmt, cdv) =>
    let capped : Option (Int × Nat) :=
      if cdv = 0 then some (0, afterFees) else
      match toSigned W cdv with
      | none => none
      | some scdv => match swapImpactAmountWithCap W m.swapImpact q.isInLong q.inPrice scdv with
        | none => none
        | some (c, _) => match checkedAdd W afterFees c.natAbs with
          | none => none
          | some t => some (c, t)
    match capped with
    | none => none
    | some (c, tokenIn) =>
      match mulDiv W tokenIn q.inPrice.min q.outPrice.max with
      | none => none
      | some poolOut => match checkedAdd W poolOut sAmt.natAbs with
        | none => none
        | some tokenOut =>
          some { impactValue := impact, fees := fees, afterFees := afterFees, tokenIn := tokenIn,
                 impactAmount := sAmt.natAbs, cappedIn := c.natAbs, poolOut := poolOut, tokenOut := tokenOut }

/-- amounts for a non-positive impact: the (rounded-up) impact amount stays in the token-IN
impact pool. -/
def swapCalcNegative (W : Nat) (m : Market) (q : SwapParams) (impact : Int) (afterFees : Nat) (fees : Fees) :
    Option SwapCalc :=
  match swapImpactAmountWithCap W m.swapImpact q.isInLong q.inPrice impact with
  | none => none
  | some (sAmt, _) =>
    match checkedSub afterFees sAmt.natAbs with
    | none => none
    | some tokenIn =>
      if tokenIn = 0 then none else
      match mulDiv W tokenIn q.inPrice.min q.outPrice.max with
      | none => none
      | some tokenOut =>
        some { impactValue := impact, fees := fees, afterFees := afterFees, tokenIn := tokenIn,
               impactAmount := sAmt.natAbs, cappedIn := 0, poolOut := tokenOut, tokenOut := tokenOut }

def swapCalc (W U : Nat) (m : Market) (q : SwapParams) : Option SwapCalc :=
  match swapImpact W U m q with
  | none => none
  | some (impact, bc) =>
    match applyFees W U m.cfg.swapFee bc q.amount with
    | none => none
    | some (afterFees, fees) =>
      if impact > 0 then swapCalcPositive W m q impact afterFees fees
      else swapCalcNegative W m q impact afterFees fees

/-- the pool updates of the cache: claimable fee (+receiver fee on the token-in side), swap impact
pool (positive: −impact on the out side, −capped on the in side; else: +impact on the in side),
liquidity and virtual inventory (+tokenIn + pool fee on the in side, −poolOut on the out side). -/
def swapApply (W : Nat) (m : Market) (q : SwapParams) (c : SwapCalc) : Option Market :=
  match toSigned W c.fees.receiver with
  | none => none
  | some recv => match m.fee.applyOneSide W q.isInLong recv with
    | none => none
    | some fee' =>
      let impactPool : Option Pool :=
        if c.impactValue > 0 then
          m.swapImpact.applyBothSides W (!q.isInLong) (-(c.impactAmount : Int)) (-(c.cappedIn : Int))
        else m.swapImpact.applyOneSide W q.isInLong (c.impactAmount : Int)
      match impactPool with
      | none => none
      | some imp' =>
        match checkedAdd W c.tokenIn c.fees.pool with
        | none => none
        | some credit => match toSigned W credit with
          | none => none
          | some scredit => match toOppositeSigned W c.poolOut with
            | none => none
            | some sout => match m.primary.applyBothSides W q.isInLong scredit sout with
              | none => none
              | some liq =>
                match m.viSwaps with
                | none => some { m with primary := liq, swapImpact := imp', fee := fee' }
                | some v => match v.applyBothSides W q.isInLong scredit sout with
                  | none => none
                  | some v' => some { m with primary := liq, swapImpact := imp', fee := fee', viSwaps := some v' }

/-- validations on the cache: max pool amount (in side), reserve (out side), max pnl (the side
receiving tokens is checked against the deposit factor, the other against the withdrawal one). -/
def swapValidate (W U : Nat) (m' : Market) (q : SwapParams) : Except MErr Unit :=
  match validatePoolAmount m' q.isInLong with
  | .error e => .error e
  | .ok () => match validateReserve W U m' q.prices (!q.isInLong) with
    | .error e => .error e
    | .ok () =>
      if q.isInLong then validateMaxPnl W U m' q.prices .maxAfterDeposit .maxAfterWithdrawal
      else validateMaxPnl W U m' q.prices .maxAfterWithdrawal .maxAfterDeposit

/-- `Swap::try_new` + `execute`. -/
def swap (W U : Nat) (m : Market) (q : SwapParams) : Except MErr (Market × SwapCalc) :=
  if q.amount = 0 then .error .emptySwap else
  if ¬ q.prices.isValid W then .error .invalidPrices else
  match swapCalc W U m q with
  | none => .error .fail
  | some c => match swapApply W m q c with
    | none => .error .fail
    | some m' => match swapValidate W U m' q with
      | .error e => .error e
      | .ok () => .ok (m', c)

/-- the state transition: a failing swap leaves the market as it was. -/
def swapStep (W U : Nat) (m : Market) (q : SwapParams) : Market × Except MErr SwapCalc :=
  match swap W U m q with
  | .ok (m', c) => (m', .ok c)
  | .error e => (m, .error e)

end Gmx
