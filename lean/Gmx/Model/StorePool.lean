import Gmx.Model.Num
import Gmx.Gen.SdkPool
/-!
# Gmx.Model.StorePool — `programs/store/src/states/market/pool.rs` (`Pool`) and the SDK copy
`crates/programs/src/model/pool.rs` (C15)

A `Pool` is `{ is_pure : u8, padding, long_token_amount : u128, short_token_amount : u128 }`.
`is_pure()` is `is_pure != 0`.  When pure only the `long_token_amount` field (the *stored
total*) is used: the long view is `div_ceil(total, 2)`, the short view `total / 2`, and deltas
for either side are added to the stored total.  `u128::checked_add_signed` is "compute exactly,
fail unless the result is in `[0, 2^W)`".

The SDK copy has the same `Balance`/`apply_delta_*`/`checked_apply_delta` bodies but does NOT
override `checked_cancel_amounts`, so it inherits `gmsol_model::Pool`'s default
(`cancelDefault` below: convert the cancelled amounts with `to_opposite_signed` and apply them
as deltas).
-/
namespace Gmx.SPool
open Gmx

structure Pool where
  /-- the `is_pure` byte as stored -/
  flag : Nat
  long : Nat
  short : Nat
  deriving Repr, DecidableEq

def Pool.pure (p : Pool) : Bool := p.flag != 0

/-- `u128::checked_add_signed`. -/
def addSigned (W a : Nat) (d : Int) : Option Nat :=
  if 0 ≤ (a : Int) + d ∧ (a : Int) + d < 2 ^ W then some ((a : Int) + d).toNat else none

/-- `Balance::long_amount` (`div_ceil(2)` when pure). -/
def longAmount (p : Pool) : Nat := if p.pure then ceilDiv p.long 2 else p.long

/-- `Balance::short_amount`. -/
def shortAmount (p : Pool) : Nat := if p.pure then p.long / 2 else p.short

/-- `Pool::apply_delta_to_long_amount`. -/
def applyLong (W : Nat) (p : Pool) (d : Int) : Option Pool :=
  match addSigned W p.long d with
  | some v => some { p with long := v }
  | none => none

/-- `Pool::apply_delta_to_short_amount` (writes to the single stored amount when pure). -/
def applyShort (W : Nat) (p : Pool) (d : Int) : Option Pool :=
  if p.pure then
    match addSigned W p.long d with
    | some v => some { p with long := v }
    | none => none
  else
    match addSigned W p.short d with
    | some v => some { p with short := v }
    | none => none

/-- `Pool::checked_apply_delta`: long first, then short, each optional. -/
def applyDelta (W : Nat) (p : Pool) (dl ds : Option Int) : Option Pool :=
  let p1 := match dl with
    | some d => applyLong W p d
    | none => some p
  match p1 with
  | none => none
  | some q => match ds with
    | some d => applyShort W q d
    | none => some q

/-- `cancel_amounts(long, short)`. -/
def cancelAmounts (l s : Nat) : Nat × Nat :=
  if l ≥ s then (l - s, 0) else (0, s - l)

/-- the store's `Pool::checked_cancel_amounts` override (never fails). -/
def cancel (p : Pool) : Pool :=
  if p.pure then { p with long := p.long % 2 }
  else { p with long := (cancelAmounts p.long p.short).1, short := (cancelAmounts p.long p.short).2 }

/-- `abs_diff`. -/
def absDiff (a b : Nat) : Nat := if a ≥ b then a - b else b - a

/-- the trait's default `checked_cancel_amounts` (what the SDK copy uses). -/
def cancelDefault (W : Nat) (p : Pool) : Option Pool :=
  let la := longAmount p
  let sa := shortAmount p
  let left := absDiff la sa
  let ld := if la ≥ sa then absDiff la left else la
  let sd := if la ≥ sa then sa else absDiff sa left
  match toOppositeSigned W ld with
  | none => none
  | some a => match toOppositeSigned W sd with
    | none => none
    | some b => applyDelta W p (some a) (some b)

/-! ### histories -/

inductive Op where
  | long (d : Int)
  | short (d : Int)
  | cancel
  deriving Repr, DecidableEq

def step (W : Nat) (p : Pool) : Op → Option Pool
  | .long d => applyLong W p d
  | .short d => applyShort W p d
  | .cancel => some (cancel p)

def run (W : Nat) (p : Pool) : List Op → Option Pool
  | [] => some p
  | o :: os => match step W p o with
    | none => none
    | some q => run W q os

/-- `checked_cancel_amounts` of the SDK copy: the program's override if the copy has it (decided by
the translator from the source on every run), otherwise the inherited default. -/
def cancelSdk (W : Nat) (p : Pool) : Option Pool :=
  if Gmx.Gen.sdkOverridesCancel then some (cancel p) else cancelDefault W p

/-- the SDK copy: same steps (the bodies are textually identical, checked by the translator)
except `cancel`. -/
def stepSdk (W : Nat) (p : Pool) : Op → Option Pool
  | .long d => applyLong W p d
  | .short d => applyShort W p d
  | .cancel => cancelSdk W p

def runSdk (W : Nat) (p : Pool) : List Op → Option Pool
  | [] => some p
  | o :: os => match stepSdk W p o with
    | none => none
    | some q => runSdk W q os

/-- signed sum of the deltas of a history without cancels. -/
def Op.delta : Op → Int
  | .long d => d
  | .short d => d
  | .cancel => 0

end Gmx.SPool
