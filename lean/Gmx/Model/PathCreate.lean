/-!
# Gmx.Model.PathCreate — creation-time validation of an action's swap paths
`programs/store/src/states/common/swap.rs`: `SwapActionParamsExt::validate_and_init` and
`validate_path` (called by every `create_*` operation: deposit, withdrawal, order, GLV deposit /
withdrawal). Markets are the accounts supplied as `remaining_accounts`: an address (`key`), the
stored meta (market token, index / long / short token) and whether `validated_meta(store)`
accepts the account (same store, enabled, not closed). The token set is a `BTreeSet`: a strictly
increasing list. Account unpacking (`AccountLoader::try_from`: owner + discriminator) is not
modelled: the harness only supplies well-formed market accounts.
-/
namespace Gmx

structure CMarket where
  key : Nat
  token : Nat
  index : Nat
  long : Nat
  short : Nat
  usable : Bool := true
  deriving Repr, DecidableEq

/-- the step of `validate_path`: the current token must be one side of the market -/
def CMarket.opp (m : CMarket) (cur : Nat) : Option Nat :=
  if cur = m.long then some m.short else if cur = m.short then some m.long else none

/-- `BTreeSet::insert` on a strictly increasing list -/
def setInsert (x : Nat) : List Nat → List Nat
  | [] => [x]
  | y :: ys => if x < y then x :: y :: ys else if x = y then y :: ys else y :: setInsert x ys

/-- the three tokens of a market enter the token set -/
def CMarket.addTokens (m : CMarket) (s : List Nat) : List Nat :=
  setInsert m.short (setInsert m.long (setInsert m.index s))

/-- the loop of `validate_path`: `seen` = market accounts visited so far, `cur` = current token.
Returns the final token and the validated market tokens. -/
def validatePathGo : List CMarket → List Nat → Nat → Option (Nat × List Nat)
  | [], _, cur => some (cur, [])
  | m :: ms, seen, cur =>
    if seen.contains m.key then none
    else if !m.usable then none
    else if m.long = m.short then none
    else match m.opp cur with
      | none => none
      | some nxt =>
        match validatePathGo ms (m.key :: seen) nxt with
        | none => none
        | some (fin, mts) => some (fin, m.token :: mts)

/-- `validate_path`: returns the grown token set and the market tokens of the path -/
def validatePath (toks : List Nat) (path : List CMarket) (tin tout : Nat) :
    Option (List Nat × List Nat) :=
  match validatePathGo path [] tin with
  | none => none
  | some (fin, mts) =>
    if fin = tout then some (path.foldl (fun s m => m.addTokens s) toks, mts) else none

/-- what `validate_and_init` writes into the action's `SwapActionParams` -/
structure Created where
  primary : List Nat
  secondary : List Nat
  tokens : List Nat
  current : Nat
  deriving Repr, DecidableEq

def maxSteps : Nat := 10
def maxTokens : Nat := 2 * maxSteps + 2 + 3

/-- `validate_and_init` -/
def validateAndInit (cur : CMarket) (plen slen : Nat) (accs : List CMarket)
    (tinP tinS toutP toutS : Nat) : Option Created :=
  if maxSteps < plen + slen then none
  else if accs.length < plen + slen then none
  else
    match validatePath (cur.addTokens []) (accs.take plen) tinP toutP with
    | none => none
    | some (toks1, p) =>
      match validatePath toks1 ((accs.drop plen).take slen) tinS toutS with
      | none => none
      | some (toks2, s) =>
        if maxTokens < toks2.length then none
        else some { primary := p, secondary := s, tokens := toks2, current := cur.token }

/-- specification side: the token reached by following the path from `cur` -/
def pathChain : List CMarket → Nat → Option Nat
  | [], cur => some cur
  | m :: ms, cur => match m.opp cur with
    | none => none
    | some nxt => pathChain ms nxt

end Gmx

namespace Gmx

/-- `find_first_market` (`first = true`) / `find_last_market`: the market account the enclosing instruction
records an action's swap input into / pays its swap output out of. `supplied` = market tokens whose market
account is among the remaining accounts. `some none` = "use the current market's own account". -/
def findEndMarket (first : Bool) (path : List Nat) (cur : Nat) (supplied : List Nat) : Option (Option Nat) :=
  match (if first then path.head? else path.getLast?) with
  | none => some none
  | some t => if supplied.contains t then some (some t) else if t = cur then some none else none

end Gmx
