/-!
# `Pool` trait implementations: program (`states/market/pool.rs`) and SDK (`crates/programs/src/model/pool.rs`)

Hand transcription (u128 amounts, i128 deltas). The shared methods have token-identical bodies on
both sides (checked by the translator, `Gen.Pools.sharedPoolFnBodyEq`); whether the SDK also overrides `checked_cancel_amounts` is read from the generated table
(`Gen.Pools.sdkOverridesCancelAmounts`); without an override it inherits the trait default.
-/
namespace Gmx.PoolOps

structure RawPool where
  pure : Bool
  long : Nat
  short : Nat
  deriving DecidableEq, Repr

def U128 : Nat := 2 ^ 128
def I128MAX : Int := 2 ^ 127 - 1

/-- `Balance::long_amount` -/
def longAmount (p : RawPool) : Nat := if p.pure then (p.long + 1) / 2 else p.long
/-- `Balance::short_amount` -/
def shortAmount (p : RawPool) : Nat := if p.pure then p.long / 2 else p.short

/-- `u128::checked_add_signed` -/
def addSigned (a : Nat) (d : Int) : Option Nat :=
  let r := (a : Int) + d
  if 0 ≤ r ∧ r < (U128 : Int) then some r.toNat else none

def applyLong (p : RawPool) (d : Int) : Option RawPool :=
  (addSigned p.long d).map fun v => { p with long := v }

def applyShort (p : RawPool) (d : Int) : Option RawPool :=
  if p.pure then (addSigned p.long d).map fun v => { p with long := v }
  else (addSigned p.short d).map fun v => { p with short := v }

/-- `checked_apply_delta(Delta { long, short })` (long first, then short) -/
def checkedApplyDelta (p : RawPool) (dl ds : Option Int) : Option RawPool :=
  let p1 := match dl with | some d => applyLong p d | none => some p
  p1.bind fun q => match ds with | some d => applyShort q d | none => some q

/-- program override of `checked_cancel_amounts` (never fails) -/
def cancelProgram (p : RawPool) : Option RawPool :=
  if p.pure then some { p with long := p.long % 2 }
  else if p.long ≥ p.short then some { p with long := p.long - p.short, short := 0 }
  else some { p with long := 0, short := p.short - p.long }

/-- trait default (used by the SDK): both deltas are `-(min long short)` of the *balance* amounts,
each converted with `to_opposite_signed` (fails above `i128::MAX`) -/
def cancelDefault (p : RawPool) : Option RawPool :=
  let la := longAmount p
  let sa := shortAmount p
  let left := if la ≥ sa then la - sa else sa - la
  let ld := if la ≥ sa then la - left else la
  let sd := if la ≥ sa then sa else sa - left
  if (ld : Int) ≤ I128MAX ∧ (sd : Int) ≤ I128MAX then
    checkedApplyDelta p (some (-(ld : Int))) (some (-(sd : Int)))
  else none

/-- the SDK's `checked_cancel_amounts`: its own override when it has one (token-identical to the
program's, checked by the translator), else the trait default -/
def cancelSdk (overrides : Bool) (p : RawPool) : Option RawPool :=
  if overrides then cancelProgram p else cancelDefault p

end Gmx.PoolOps
