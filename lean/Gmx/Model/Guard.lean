import Gmx.Model.Perp
import Gmx.Gen.C09Guard
/-!
# Gmx.Model.Guard — the store's guard around a decrease order, driven by the GENERATED table

`Gmx.Gen.C09.checks` is regenerated on every run from `programs/store/src/ops/order.rs`
(`execute_decrease_position`) by `translator/c09_guard.py`, which fails closed when the block
contains anything but the recognised checks, definitions and the one model call. `runGuard`
gives the table its meaning: the `before` checks of the order's tag in source order, the model's
`decrease` with the flags of the source, then the `after` checks.
-/
namespace Gmx.Perp
open Gmx.Gen.C09

def tagOf : OrderTag → Option Tag
  | .plain => none
  | .liquidation => some .liquidation
  | .adl => some .adl

def gerrOf : Err → GErr
  | .invalidArgument => .invalidArgument
  | .adlNotRequired => .adlNotRequired
  | .invalidAdl => .invalidAdl

/-- what the operands of the checks evaluate to (`none` = `Option::None`; `error` = the `?` of the
source propagating a model error). `bound` is `pnl_factor_before_execution`. -/
structure GuardEnv where
  W : Nat
  U : Nat
  before : Market
  after : Option Market
  pr : Prices
  isLong : Bool
  sizeDelta : Nat
  posSize : Nat
  bound : Option Int

def GuardEnv.eval (e : GuardEnv) : Term → Except GErr (Option Int)
  | .sizeDeltaUsd => .ok (some e.sizeDelta)
  | .positionSizeInUsd => .ok (some e.posSize)
  | .adlFactorExceeded =>
    match adlFactorBefore e.W e.U e.before e.pr e.isLong with
    | .ok f => .ok (some f)
    | .error .adlNotRequired => .ok none
    | .error x => .error x
  | .pnlFactorBefore => .ok e.bound
  | .pnlFactorAfterMaximized =>
    match e.after with
    | none => .error (.model .fail)
    | some m' => match pnlFactorWithPoolValue e.W e.U m' e.pr e.isLong true with
      | none => .error (.model .fail)
      | some (f, _) => .ok (some f)
  | .minPnlFactorAfterAdl =>
    match e.after with
    | none => .error (.model .fail)
    | some m' => match toSigned e.W (m'.cfg.pnlFactor .minAfterAdl) with
      | none => .error (.model .fail)
      | some z => .ok (some z)

/-- run the checks of one phase for one tag, in table order; returns the value bound by an
`isSome` check (the last one), if any. -/
def runChecks (e : GuardEnv) (tag : Option Tag) (phase : Phase) : List Check → Except GErr (Option Int)
  | [] => .ok e.bound
  | c :: cs =>
    if some c.tag = tag ∧ c.phase = phase then
      match c.rel with
      | .isSome =>
        match e.eval c.lhs with
        | .error x => .error x
        | .ok none => .error (gerrOf c.err)
        | .ok (some v) => runChecks { e with bound := some v } tag phase cs
      | .gte =>
        match e.eval c.lhs with
        | .error x => .error x
        | .ok none => .error (.model .fail)
        | .ok (some a) =>
          match e.eval c.rhs with
          | .error x => .error x
          | .ok none => .error (.model .fail)
          | .ok (some b) => if a ≥ b then runChecks e tag phase cs else .error (gerrOf c.err)
      | .gt =>
        match e.eval c.lhs with
        | .error x => .error x
        | .ok none => .error (.model .fail)
        | .ok (some a) =>
          match e.eval c.rhs with
          | .error x => .error x
          | .ok none => .error (.model .fail)
          | .ok (some b) => if a > b then runChecks e tag phase cs else .error (gerrOf c.err)
    else runChecks e tag phase cs

/-- the guard as the table describes it. -/
def runGuard (table : List Check) (W U : Nat) (m : Market) (c : PerpCfg) (pr : Prices) (p : Pos) (sizeDelta withdraw : Nat)
    (insolvent cap : Bool) (tag : OrderTag) : Except GErr (Market × Pos × DecreaseReport) :=
  let e0 : GuardEnv := { W := W, U := U, before := m, after := none, pr := pr, isLong := p.isLong, sizeDelta := sizeDelta,
                         posSize := p.sizeUsd, bound := none }
  match runChecks e0 (tagOf tag) .before table with
  | .error x => .error x
  | .ok bound =>
    match decrease W U m c pr p sizeDelta withdraw ⟨insolvent, decide (tag = .liquidation), cap⟩ with
    | .error x => .error (.model x)
    | .ok (m', p', r) =>
      match runChecks { e0 with after := some m', bound := bound } (tagOf tag) .after table with
      | .error x => .error x
      | .ok _ => .ok (m', p', r)

end Gmx.Perp
