/-!
# Gmx.Model.FixedMap — `crates/utils/src/fixed_map.rs` (`fixed_map!` / `impl_fixed_map!`)

Storage = `data : List Entry` of fixed length `cap` (the `[Entry; $len]` array) plus `count`.
Keys are `Nat` (a `[u8; N]` key compared lexicographically = its big-endian number), values `Nat`
(default `0`). Every index expression of the Rust code is an explicit bounds-checked access:
an out-of-range index, an invalid slice range or a `u32` overflow of `count` makes the
operation return `none` (= the Rust panic). The theorems show `none` is unreachable.
-/
namespace Gmx.FixedMap

abbrev Entry := Nat × Nat          -- key, value

def dflt : Entry := (0, 0)         -- `Entry::default()` (zeroed)

structure FMap where
  data : List Entry                -- length = capacity
  count : Nat
  deriving Repr, DecidableEq

def FMap.cap (m : FMap) : Nat := m.data.length

/-- `Default::default()` = zeroed. -/
def empty (cap : Nat) : FMap := ⟨List.replicate cap dflt, 0⟩

/-- result of `binary_search_by` -/
inductive Search where
  | found (i : Nat)
  | missing (i : Nat)
  deriving Repr, DecidableEq

/-- binary search over `data[lo..hi)` (`fuel ≥ hi - lo`); `none` = index out of range. -/
def bsearchGo (data : List Entry) (k : Nat) : Nat → Nat → Nat → Option Search
  | 0, lo, _ => some (.missing lo)
  | fuel + 1, lo, hi =>
    if lo < hi then
      let mid := lo + (hi - lo) / 2
      match data[mid]? with
      | none => none
      | some e =>
        if e.1 = k then some (.found mid)
        else if e.1 < k then bsearchGo data k fuel (mid + 1) hi
        else bsearchGo data k fuel lo mid
    else some (.missing lo)

/-- `self.data[..self.len()].binary_search_by(|e| e.key.cmp(key))` -/
def bsearch (m : FMap) (k : Nat) : Option Search :=
  if m.count > m.data.length then none          -- `data[..len]` out of range
  else bsearchGo m.data k m.count 0 m.count

/-- `get` -/
def get (m : FMap) (k : Nat) : Option (Option Nat) :=
  match bsearch m k with
  | none => none
  | some (.missing _) => some none
  | some (.found i) =>
    match m.data[i]? with
    | none => none
    | some e => some (some e.2)

/-- `get_entry_by_index` -/
def getEntryByIndex (m : FMap) (i : Nat) : Option (Option Entry) :=
  if i < m.count then
    match m.data[i]? with
    | none => none
    | some e => some (some e)
  else some none

/-- `for i in (lo..lo+n).rev() { data[i + 1] = data[i]; }` -/
def shiftRight (data : List Entry) (lo : Nat) : Nat → Option (List Entry)
  | 0 => some data
  | n + 1 =>
    let i := lo + n
    match data[i]? with
    | none => none
    | some e => if i + 1 < data.length then shiftRight (data.set (i + 1) e) lo n else none

inductive InsResp where
  | ok (prev : Option Nat)
  | alreadyExist
  | exceedMax
  deriving Repr, DecidableEq

/-- `insert_with_options(key, value, new)` -/
def insertWithOptions (m : FMap) (k v : Nat) (new : Bool) : Option (FMap × InsResp) :=
  match bsearch m k with
  | none => none
  | some (.found i) =>
    if new then some (m, .alreadyExist)
    else
      match m.data[i]? with
      | none => none
      | some e => some ({ m with data := m.data.set i (e.1, v) }, .ok (some e.2))   -- mem::replace
  | some (.missing i) =>
    if m.count ≥ m.data.length then some (m, .exceedMax)
    else
      match shiftRight m.data i (m.count - i) with
      | none => none
      | some d =>
        if i < d.length then
          if m.count + 1 < 2 ^ 32 then some (⟨d.set i (k, v), m.count + 1⟩, .ok none)
          else none                                                              -- count += 1 (u32)
        else none

/-- `slice.copy_within(lo..hi, dest)` (memmove; panics on a bad range) -/
def copyWithin (data : List Entry) (lo hi dest : Nat) : Option (List Entry) :=
  if lo ≤ hi ∧ hi ≤ data.length ∧ dest + (hi - lo) ≤ data.length then
    some (data.take dest ++ (data.drop lo).take (hi - lo) ++ data.drop (dest + (hi - lo)))
  else none

/-- `remove` -/
def remove (m : FMap) (k : Nat) : Option (FMap × Option Nat) :=
  match bsearch m k with
  | none => none
  | some (.missing _) => some (m, none)
  | some (.found i) =>
    match m.data[i]? with
    | none => none
    | some e =>
      let d0 := m.data.set i (e.1, 0)                    -- mem::take(&mut data[i].value)
      let len := m.count
      match copyWithin d0 (i + 1) len i with
      | none => none
      | some d1 =>
        if 1 ≤ len ∧ len - 1 < d1.length then            -- data[len - 1] = default; count -= 1
          some (⟨d1.set (len - 1) dflt, len - 1⟩, some e.2)
        else none

/-- `for i in 0..n { data[i] = default }` -/
def clearGo (data : List Entry) : Nat → Option (List Entry)
  | 0 => some data
  | n + 1 =>
    match clearGo data n with
    | none => none
    | some d => if n < d.length then some (d.set n dflt) else none

/-- `clear` -/
def clear (m : FMap) : Option FMap :=
  match clearGo m.data m.count with
  | none => none
  | some d => some ⟨d, 0⟩

/-- `entries()` -/
def view (m : FMap) : List Entry := m.data.take m.count

/-- every slot at or after `count` is zeroed -/
def tailZero (m : FMap) : Bool := (m.data.drop m.count).all (· == dflt)

/-! ### operation language (for "any sequence of operations") -/
inductive Op where
  | get (k : Nat)
  | insert (k v : Nat) (new : Bool)
  | remove (k : Nat)
  | clear
  deriving Repr, DecidableEq

inductive Resp where
  | val (v : Option Nat)
  | ins (r : InsResp)
  | unit
  deriving Repr, DecidableEq

def step (m : FMap) : Op → Option (FMap × Resp)
  | .get k => (get m k).map fun r => (m, .val r)
  | .insert k v new => (insertWithOptions m k v new).map fun (m', r) => (m', .ins r)
  | .remove k => (remove m k).map fun (m', r) => (m', .val r)
  | .clear => (clear m).map fun m' => (m', .unit)

def run (m : FMap) : List Op → Option (FMap × List Resp)
  | [] => some (m, [])
  | op :: ops =>
    match step m op with
    | none => none
    | some (m', r) =>
      match run m' ops with
      | none => none
      | some (m'', rs) => some (m'', r :: rs)

/-! ### the ordinary map it must behave like: a partial function plus its size -/
structure AMap where
  f : Nat → Option Nat
  size : Nat

def AMap.empty : AMap := ⟨fun _ => none, 0⟩

def upd (f : Nat → Option Nat) (k : Nat) (v : Option Nat) : Nat → Option Nat :=
  fun x => if x = k then v else f x

def astep (cap : Nat) (a : AMap) : Op → AMap × Resp
  | .get k => (a, .val (a.f k))
  | .insert k v new =>
    match a.f k with
    | some old => if new then (a, .ins .alreadyExist) else (⟨upd a.f k (some v), a.size⟩, .ins (.ok (some old)))
    | none => if a.size ≥ cap then (a, .ins .exceedMax) else (⟨upd a.f k (some v), a.size + 1⟩, .ins (.ok none))
  | .remove k =>
    match a.f k with
    | some old => (⟨upd a.f k none, a.size - 1⟩, .val (some old))
    | none => (a, .val none)
  | .clear => (AMap.empty, .unit)

def arun (cap : Nat) (a : AMap) : List Op → AMap × List Resp
  | [] => (a, [])
  | op :: ops =>
    let (a', r) := astep cap a op
    let (a'', rs) := arun cap a' ops
    (a'', r :: rs)

/-- lookup in an association list -/
def lookup (k : Nat) : List Entry → Option Nat
  | [] => none
  | e :: es => if e.1 = k then some e.2 else lookup k es

/-- abstraction function -/
def toFun (m : FMap) : Nat → Option Nat := fun k => lookup k (view m)

end Gmx.FixedMap
