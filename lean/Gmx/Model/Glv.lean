import Gmx.Model.Num
/-!
# Gmx.Model.Glv — GLV composition, balance caps and pricing
`programs/store/src/states/glv.rs` (`insert_market`, `process_and_validate_markets_for_init`,
`GlvMarketConfig::validate_balance`), `crates/model/src/glv.rs` (`get_glv_value_for_market`,
`get_market_token_amount_for_glv_value`), `programs/store/src/ops/glv.rs` (deposit / withdrawal
pricing: GLV valued maximised on deposit, minimised on withdrawal).
Market pool values are inputs (they belong to the market model, property C06).
-/
namespace Gmx

/-- meta data of a market as far as a GLV is concerned -/
structure GMeta where
  token : Nat
  long : Nat
  short : Nat
  deriving Repr, DecidableEq

structure GEntry where
  token : Nat
  balance : Nat := 0
  maxAmount : Nat := 0
  maxValue : Nat := 0
  deriving Repr, DecidableEq

structure GlvS where
  long : Nat
  short : Nat
  markets : List GEntry      -- kept sorted by token? order is irrelevant for the properties
  deriving Repr, DecidableEq

def GLV_MAX_MARKETS : Nat := 96

/-- `process_and_validate_markets_for_init`: all markets share the first market's tokens, no
duplicates, at least one market. -/
def glvValidateInit : List GMeta → Option (Nat × Nat × List Nat)
  | [] => none
  | m :: ms =>
    let rec go (l s : Nat) (seen : List Nat) : List GMeta → Option (List Nat)
      | [] => some seen
      | x :: xs =>
        if x.long ≠ l ∨ x.short ≠ s then none
        else if seen.contains x.token then none
        else go l s (seen ++ [x.token]) xs
    match go m.long m.short [m.token] ms with
    | none => none
    | some toks => some (m.long, m.short, toks)

/-- `Glv::insert_market`: same long and short token, new key, capacity. -/
def glvInsert (g : GlvS) (m : GMeta) : Option GlvS :=
  if m.long ≠ g.long ∨ m.short ≠ g.short then none
  else if g.markets.any (·.token == m.token) then none
  else if g.markets.length ≥ GLV_MAX_MARKETS then none
  else some { g with markets := g.markets ++ [{ token := m.token }] }

/-- `GlvMarketConfig::validate_balance` -/
def glvValidateBalance (e : GEntry) (newBalance : Nat) (poolValue : Int) (supply : Nat) : Bool :=
  if e.maxAmount = 0 ∧ e.maxValue = 0 then true else
  if e.maxAmount > 0 ∧ newBalance > e.maxAmount then false else
  if e.maxValue > 0 then
    if poolValue < 0 then false else
    match marketTokenAmountToUsd 128 newBalance poolValue.natAbs supply with
    | none => false
    | some v => decide (v ≤ e.maxValue)
  else true

/-- `get_glv_value_for_market`: value of `balance` market tokens given the market's pool value
and supply; a zero balance is worth zero even for a negative pool value. -/
def glvValueForMarket (balance : Nat) (poolValue : Int) (supply : Nat) : Option Nat :=
  if balance = 0 then some 0
  else if poolValue < 0 then none
  else marketTokenAmountToUsd 128 balance poolValue.natAbs supply

/-- `unchecked_get_glv_value`: sum over the GLV's markets (u128 checked) -/
def glvValue : List (Nat × Int × Nat) → Option Nat
  | [] => some 0
  | (b, pv, s) :: rest =>
    match glvValueForMarket b pv s, glvValue rest with
    | some v, some r => toU 128 (v + r)
    | _, _ => none

/-- GLV deposit pricing: `received` is the deposited market tokens valued MINIMISED, `glvValueMax`
the GLV valued MAXIMISED; minted = `usd_to_market_token_amount(received, glvValueMax, glvSupply, divisor)`. -/
def glvMint (received glvValueMax glvSupply divisor : Nat) : Option Nat :=
  usdToMarketTokenAmount 128 received glvValueMax glvSupply divisor

/-- GLV withdrawal pricing: the GLV valued MINIMISED, the redeemed value converted to market
tokens at the MAXIMISED market pool value. -/
def glvRedeem (glvAmount glvValueMin glvSupply : Nat) (poolValueMax : Int) (marketSupply divisor : Nat) :
    Option Nat :=
  match marketTokenAmountToUsd 128 glvAmount glvValueMin glvSupply with
  | none => none
  | some v =>
    if poolValueMax < 0 then none
    else usdToMarketTokenAmount 128 v poolValueMax.natAbs marketSupply divisor

end Gmx
