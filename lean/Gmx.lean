import Gmx.Model.Num
