//! `mlp` engine: liquidity ops (deposit / withdraw / swap / pool value) on markets WITH open positions.
//! Sessions are the position engine's (`h_model::perp::{w64,w128}::Session`: market + positions);
//! position / clock / fee-state ops are delegated to it (`perp` protocol, prefix replaced by `lp`),
//! the liquidity ops run the real `deposit` / `withdraw` / `swap` / `pool_value` on the session's
//! market (NOT atomic, as in the model crate). Lean side: `Gmx/Driver/Lp.lean`.
use crate::liq::P6;
use crate::mkt::{market_op128, market_op64, market_snap128, market_snap64, split_resp, Snap};
use crate::perp::{w128, w64};
use hcommon::*;
use num_bigint::{BigInt, BigUint};
use std::collections::HashMap;

#[derive(Default)]
pub struct LpEngine {
    pub db64: HashMap<String, w64::Session>,
    pub db128: HashMap<String, w128::Session>,
}

const LIQ_OPS: [&str; 5] = ["deposit", "withdraw", "swap", "pv", "setclock"];

impl LpEngine {
    pub fn snap(&self, sid: &str) -> Option<Snap> {
        if let Some(s) = self.db64.get(sid) { return Some(market_snap64(&s.m)); }
        self.db128.get(sid).map(|s| market_snap128(&s.m))
    }

    pub fn exec(&mut self, req: &str) -> String {
        let t: Vec<&str> = req.split(' ').collect();
        if t.len() < 3 || t[0] != "mlp" { return "bad-op".into(); }
        let (op, sid) = (t[1], t[2]);
        if LIQ_OPS.contains(&op) {
            if let Some(s) = self.db64.get_mut(sid) {
                return match market_op64(&mut s.m, op, &t[3..]) { Some(r) => format!("{r} | {}", s.digest()), None => "bad-op".into() };
            }
            if let Some(s) = self.db128.get_mut(sid) {
                return match market_op128(&mut s.m, op, &t[3..]) { Some(r) => format!("{r} | {}", s.digest()), None => "bad-op".into() };
            }
            return "bad-op".into();
        }
        let r = std::panic::catch_unwind(std::panic::AssertUnwindSafe(|| {
            if op == "new" {
                match t.get(3).copied() { Some("64") => w64::exec(&mut self.db64, &t[1..]), Some("128") => w128::exec(&mut self.db128, &t[1..]), _ => None }
            } else if self.db64.contains_key(sid) { w64::exec(&mut self.db64, &t[1..]) }
            else if self.db128.contains_key(sid) { w128::exec(&mut self.db128, &t[1..]) }
            else { None }
        }));
        match r { Ok(Some(s)) => s, Ok(None) => "bad-op".into(), Err(_) => "panic".into() }
    }

    /// the implementation's own `pool_value` (on a copy of the market), as a signed big integer
    pub fn pool_value(&self, sid: &str, kind: u8, maximize: bool, p: &P6) -> Option<BigInt> {
        let a: Vec<String> = vec![kind.to_string(), (maximize as u8).to_string(), p.imin.to_string(), p.imax.to_string(), p.lmin.to_string(), p.lmax.to_string(), p.smin.to_string(), p.smax.to_string()];
        let a: Vec<&str> = a.iter().map(|x| x.as_str()).collect();
        let r = if let Some(s) = self.db64.get(sid) { let mut m = s.m.clone(); market_op64(&mut m, "pv", &a)? } else { let mut m = self.db128.get(sid)?.m.clone(); market_op128(&mut m, "pv", &a)? };
        r.strip_prefix("ok ")?.parse::<BigInt>().ok()
    }
}

enum G { A(w64::HistGen), B(w128::HistGen) }

/// "pnl band" scenario: LP liquidity by real deposits, ONE open position (either side, either
/// collateral token), then an index-price move that puts the pending trader profit of that side at a
/// chosen fraction of the side's pool value — below both max-pnl caps, between the withdrawal and the
/// deposit cap (caps in both orders, or equal), just around each cap, or above both — and then, at
/// UNCHANGED prices and after the on-chain `pre_execute` updates: a deposit→withdraw-all round trip,
/// a withdrawal by an old LP, and a second round trip. Requests in execution order.
fn band_scenario(r: &mut Rng, sid: &str, w: u32) -> Vec<String> {
    let (unit, scale): (u128, u128) = if w == 64 { (1_000_000_000, 1) } else { (100_000_000_000_000_000_000, 100_000_000_000) };
    let mut cfg: Vec<u128> = if w == 64 { w64::random_cfg(r).iter().map(|x| *x as u128).collect() } else { w128::random_cfg(r) };
    let pct = |x: u128| unit / 100 * x;
    let (cd, cw) = *r.pick(&[(60u128, 30u128), (60, 30), (30, 60), (50, 50), (80, 20), (45, 40)]);
    cfg[17] = pct(cd); cfg[18] = pct(cw);
    cfg[15] = unit * 3; cfg[16] = unit * 3;                 // reserve factors: never the binding check here
    cfg[24] = if w == 64 { u64::MAX as u128 / 4 } else { u128::MAX / 4 };
    cfg[7] = 0; cfg[8] = 0;                                 // no position price impact: the position opens at the oracle price
    if r.chance(1, 2) { cfg[1] = 0; cfg[2] = 0; }           // half of the scenarios without swap impact (no F-C06 credit)
    if r.chance(1, 2) { cfg[3] = 0; cfg[4] = 0; }           // ... and without swap fees
    cfg[30] = 0; cfg[31] = 0; cfg[37] = 0;                  // min position size / collateral value, OI collateral multiplier
    let px0: u128 = *r.pick(&[1000u128, 400, 2500]);
    let pr = |px: u128| { let a = px * scale; format!("{a} {a} {a} {a} {scale} {scale}") };
    let (liq_l, liq_s): (u128, u128) = (*r.pick(&[10_000_000_000u128, 3_000_000_000, 50_000_000_000]), 0);
    let liq_s = if liq_s == 0 { liq_l * px0 * *r.pick(&[1u128, 1, 2]) } else { liq_s };
    let is_long = r.chance(1, 2);
    let coll_long = r.chance(1, 2);
    // position size as a share of the side's pool value (in 1/100)
    let s100: u128 = *r.pick(&[80u128, 95, 120]);
    let side_value = if is_long { liq_l * px0 * scale } else { liq_s * scale };
    let size = side_value / 100 * s100;
    let coll_value = size / *r.pick(&[2u128, 5, 10]);
    let coll = if coll_long { coll_value / (px0 * scale) } else { coll_value / scale };
    // target pnl factor (in 1/1000 of the side's pool value)
    let (lo, hi) = (cd.min(cw) * 10, cd.max(cw) * 10);
    let phi: u128 = match r.below(9) { 0 => lo / 2, 1 => lo - lo / 20, 2 => lo + 15, 3 | 4 => (lo + hi) / 2, 5 => hi.saturating_sub(15).max(lo / 2), 6 => hi + 15, 7 => hi + hi / 5, _ => lo.saturating_sub(4) };
    let phi = phi.min(s100 * 10 - 10).max(1);
    // long: factor = s(1 - px0/px1)  =>  px1 = px0 / (1 - phi/s);   short: factor = s(1 - px1/px0)  =>  px1 = px0 (1 - phi/s)
    let px1: u128 = if is_long { px0 * (s100 * 10) / (s100 * 10 - phi) } else { (px0 * (s100 * 10 - phi) / (s100 * 10)).max(1) };
    let (p0, p1) = (pr(px0), pr(px1));
    let c: Vec<String> = cfg.iter().map(|x| x.to_string()).collect();
    let pre = |v: &mut Vec<String>, p: &str| { v.push(format!("mlp dist {sid}")); v.push(format!("mlp ubor {sid} {p}")); v.push(format!("mlp ufund {sid} {p}")); };
    let mut v = vec![format!("mlp new {sid} {w} {unit} {}", c.join(" "))];
    pre(&mut v, &p0);
    v.push(format!("mlp deposit {sid} {liq_l} {liq_s} {p0}"));
    v.push(format!("mlp deposit {sid} {} {} {p0}", liq_l / 10, liq_s / 10));
    v.push(format!("mlp open {sid} 0 {} {}", is_long as u8, coll_long as u8));
    v.push(format!("mlp inc {sid} 0 {coll} {size} {p0}"));
    v.push(format!("mlp tick {sid} {}", *r.pick(&[0u64, 1, 60, 3600])));
    // the price moves; fee state brought up to date as the on-chain pre_execute does
    pre(&mut v, &p1);
    v.push(format!("mlp pv {sid} 0 1 {p1}"));
    v.push(format!("mlp pv {sid} 1 0 {p1}"));
    let (a, b) = match r.below(3) { 0 => (liq_l / 50, 0), 1 => (0, liq_s / 50), _ => (liq_l / 100, liq_s / 100) };
    v.push(format!("mlp deposit {sid} {a} {b} {p1}"));
    v.push(format!("mlp withdraw {sid} @MINTED {p1}"));
    pre(&mut v, &p1);
    v.push(format!("mlp withdraw {sid} @SUPPLY/{} {p1}", *r.pick(&[3u64, 10, 50])));
    pre(&mut v, &p1);
    v.push(format!("mlp deposit {sid} {} {} {p1}", liq_l / 7, liq_s / 9));
    v.push(format!("mlp withdraw {sid} @MINTED {p1}"));
    v
}

/// `pool_value` by its documented formula, in exact arithmetic, from the pools alone. Valid when the
/// borrowing and distribution clocks are fresh (no pending accrual / distribution). `cfg` = the 56
/// numbers of `new`; `kind` = pnl factor kind index.
pub fn indep_pool_value(s: &Snap, cfg: &[u128], unit: u128, p: &P6, kind: usize, mx: bool) -> BigInt {
    let b = |x: u128| BigInt::from(BigUint::from(x));
    let (pl, ps) = if mx { (p.lmax, p.smax) } else { (p.lmin, p.smin) };
    let (lv, sv) = (b(s.pools[0].0) * b(pl), b(s.pools[0].1) * b(ps));
    let sum = |k: usize| b(s.pools[k].0) + b(s.pools[k].1);
    let (oi_l, oi_s, oit_l, oit_s) = (sum(3), sum(4), sum(5), sum(6));
    let pend = |oi: &BigInt, cum: u128, tot: u128| oi * b(cum) / b(unit) - b(tot);
    let fees = (pend(&oi_l, s.pools[8].0, s.pools[15].0) + pend(&oi_s, s.pools[8].1, s.pools[15].1)) * (b(unit) - b(cfg[14])) / b(unit);
    let zero = BigInt::from(0);
    // pool value maximised => pnl minimised: long at index.min, short at index.max (and vice versa)
    let pnl_l = if oi_l == zero && oit_l == zero { zero.clone() } else { oit_l * b(if mx { p.imin } else { p.imax }) - oi_l };
    let pnl_s = if oi_s == zero && oit_s == zero { zero.clone() } else { oi_s - oit_s * b(if mx { p.imax } else { p.imin }) };
    let f = b(cfg[17 + kind]);
    let cap = |pnl: BigInt, v: &BigInt| if pnl > zero { pnl.min(v * &f / b(unit)) } else { pnl };
    let impact = b(s.pools[7].0) * b(if mx { p.imin } else { p.imax });
    lv.clone() + sv.clone() + fees - cap(pnl_l, &lv) - cap(pnl_s, &sv) - impact
}

fn big(x: u128) -> BigInt { BigInt::from(BigUint::from(x)) }

/// C06 with open positions: histories of the position engine's generator (positions opened,
/// decreased, liquidated; clock ticks with funding / borrowing updates; prices moving) interleaved
/// with deposits, withdrawals, deposit→withdraw round trips, swaps and pool-value queries.
pub fn run_c06p() {
    let cli = cli();
    let mut out = Out::new();
    if std::env::var("H_DEBUG").is_err() { std::panic::set_hook(Box::new(|_| {})); }
    let mut eng = LpEngine::default();
    let mut r = Rng::new(cli.seed);
    let file: Vec<String> = if cli.mode == "replay" { read_requests(cli.file.as_deref().unwrap()) } else { vec![] };
    let mut fi = 0usize;
    let mut gen: Option<G> = None;
    let mut hist = 0u64;
    let mut produced = 0u64;
    let mut pending: Vec<String> = Vec::new();
    let mut last_prices: Option<P6> = None;
    // sid -> borrowing / distribution clocks are at `now` (pre_execute ran and no time passed since)
    let mut fresh: HashMap<String, (bool, bool)> = HashMap::new();
    let mut cfgs: HashMap<String, (u128, Vec<u128>)> = HashMap::new();
    // (minted, prices, snapshot before, snapshot after, pv before (deposit valuation), recv fees)
    let mut last_dep: HashMap<String, (u128, P6, Snap, Snap, BigInt, (u128, u128), (u128, u128))> = HashMap::new();
    loop {
        let mut req: String = if cli.mode == "replay" { if fi >= file.len() { break; } fi += 1; file[fi - 1].clone() } else {
            if let Some(q) = pending.pop() { q } else {
                if produced >= cli.n && gen.is_none() { break; }
                if gen.is_none() && r.chance(2, 5) {
                    hist += 1;
                    let sid = format!("b{}x{}", cli.seed, hist);
                    let w = if r.chance(1, 2) { 64 } else { 128 };
                    pending = band_scenario(&mut r, &sid, w);
                    pending.reverse();
                    continue;
                }
                if gen.is_none() {
                    hist += 1;
                    let sid = format!("p{}x{}", cli.seed, hist);
                    gen = Some(if r.chance(1, 2) { G::A(w64::HistGen::new(&mut r, sid, false)) } else { G::B(w128::HistGen::new(&mut r, sid, false)) });
                    last_prices = None;
                }
                let (sid, w) = match gen.as_ref().unwrap() { G::A(g) => (g.sid.clone(), 64u32), G::B(g) => (g.sid.clone(), 128u32) };
                let started = match gen.as_ref().unwrap() { G::A(g) => g.stage >= 4, G::B(g) => g.stage >= 4 };
                // my own ops, relative to the current state and the last prices the history used
                let mine = started && last_prices.is_some() && eng.snap(&sid).is_some() && r.chance(2, 5);
                if mine {
                    let p = last_prices.unwrap();
                    let snap = eng.snap(&sid).unwrap();
                    let max: u128 = if w == 64 { u64::MAX as u128 } else { u128::MAX };
                    let (ll, ls) = snap.pools[0];
                    let frac = |r: &mut Rng, x: u128| -> u128 { match r.below(7) { 0 => 1, 1 => x / 1000, 2 => x / 100, 3 => x / 10, 4 => x / 2, 5 => x, _ => x.saturating_mul(2).min(max / 8) } };
                    // on chain every deposit / withdrawal is preceded by `pre_execute` (distribute position
                    // impact, update borrowing, update funding): do the same, except in 1 of 8 cases
                    let pre = |r: &mut Rng, pending: &mut Vec<String>, main: String| -> String {
                        if r.chance(1, 10) {
                            // instead of updating the borrowing state: a borrowing clock AHEAD of `now` (reads as 0 s passed)
                            pending.push(main); pending.push(format!("mlp ufund {sid} {}", p.fmt())); pending.push(format!("mlp setclock {sid} 1 {}", snap.now + r.range(0, 5000))); format!("mlp dist {sid}")
                        } else if r.chance(7, 8) { pending.push(main); pending.push(format!("mlp ufund {sid} {}", p.fmt())); pending.push(format!("mlp ubor {sid} {}", p.fmt())); format!("mlp dist {sid}") } else { main }
                    };
                    match if snap.supply == 0 { 0 } else { r.below(10) } {
                        0 | 1 | 2 | 3 => {
                            let (a, b) = match r.below(4) { 0 => (frac(&mut r, ll.max(1)), 0), 1 => (0, frac(&mut r, ls.max(1))), _ => (frac(&mut r, ll.max(1)), frac(&mut r, ls.max(1))) };
                            // the first LP (supply 0) stays; later deposits are mostly withdrawn at once (round trip)
                            if snap.supply > 0 && r.chance(2, 3) { pending.push(format!("mlp withdraw {sid} @MINTED {}", p.fmt())); }
                            pre(&mut r, &mut pending, format!("mlp deposit {sid} {a} {b} {}", p.fmt()))
                        }
                        4 | 5 => { let q = format!("mlp withdraw {sid} {} {}", match r.below(8) { 0 => 0, 1 => snap.supply, 2 => snap.supply.saturating_add(1), _ => frac(&mut r, snap.supply.max(1)) / 2 }, p.fmt()); pre(&mut r, &mut pending, q) }
                        6 | 7 => {
                            let in_long = r.chance(1, 2);
                            let liq_out = if in_long { ls } else { ll };
                            let ((pin, _), (_, pout)) = (p.side(in_long), p.side(!in_long));
                            let target = frac(&mut r, liq_out.max(1)) / 4;
                            let amt: u128 = (BigUint::from(target) * BigUint::from(pout.max(1)) / BigUint::from(pin.max(1))).try_into().unwrap_or(max);
                            format!("mlp swap {sid} {} {} {}", in_long as u8, amt.max(1), p.fmt())
                        }
                        _ => format!("mlp pv {sid} {} {} {}", r.below(5), r.below(2), p.fmt()),
                    }
                } else {
                    let nxt = match gen.as_mut().unwrap() { G::A(g) => g.next(&mut r, &eng.db64), G::B(g) => g.next(&mut r, &eng.db128) };
                    match nxt { Some(q) => q.replacen("perp ", "mlp ", 1), None => { gen = None; continue; } }
                }
            }
        };
        produced += 1;
        let sid = req.split(' ').nth(2).unwrap_or("").to_string();
        if let Some(i) = req.find("@SUPPLY/") {
            let k: u128 = req[i + 8..].split(' ').next().unwrap().parse().unwrap_or(1);
            match eng.snap(&sid) { Some(sn) if sn.supply / k.max(1) > 0 => { let tok = req[i..].split(' ').next().unwrap().to_string(); req = req.replace(&tok, &(sn.supply / k.max(1)).to_string()); } _ => continue }
        }
        if req.contains("@MINTED") {
            match last_dep.get(&sid) { Some(d) if d.0 > 0 => req = req.replace("@MINTED", &d.0.to_string()), _ => continue }
        }
        let t: Vec<&str> = req.split(' ').collect();
        let op = t.get(1).copied().unwrap_or("?");
        // remember the prices the history is using (last 6 tokens of price-carrying ops)
        if t.len() >= 9 && ["inc", "dec", "ubor", "ufund", "chk", "deposit", "withdraw", "swap"].contains(&op) { if let Some(p) = P6::parse(&t[t.len() - 6..]) { last_prices = Some(p); } }
        let before = eng.snap(&sid);
        // the implementation's pool value before the op, at the op's own valuation
        let pv_before = match (op, before.as_ref()) {
            ("deposit", Some(_)) => P6::parse(&t[t.len() - 6..]).and_then(|p| eng.pool_value(&sid, 0, true, &p)),
            ("withdraw", Some(_)) => P6::parse(&t[t.len() - 6..]).and_then(|p| eng.pool_value(&sid, 1, false, &p)),
            _ => None,
        };
        if let (Some(pb), Some(b), Some((unit, cfg)), true) = (pv_before.as_ref(), before.as_ref(), cfgs.get(&sid), fresh.get(&sid).map(|f| f.0 && f.1).unwrap_or(false)) {
            if let Some(p) = P6::parse(&t[t.len() - 6..]) {
                let (kind, mx) = if op == "deposit" { (0, true) } else { (1, false) };
                out.stat("pv.formula_checked");
                if &indep_pool_value(b, cfg, *unit, &p, kind, mx) != pb { out.oracle_fail("pool_value differs from liquidity + pending borrowing fees for the pool - capped pnl - impact pool value", &req); }
            }
        }
        let resp = eng.exec(&req);
        let after = eng.snap(&sid);
        let (rr, _) = split_resp(&resp);
        out.stat(&format!("op.{op}"));
        let mut nt = rr[0] == "ok";
        if rr[0] == "bad-op" { out.stat("resp.bad-op"); nt = false; }
        if resp == "panic" { out.oracle_fail("position engine panicked", &req); }
        match op {
            "tick" if rr[0] == "ok" && t[3] != "0" => { fresh.insert(sid.clone(), (false, false)); }
            "ubor" if rr[0] == "ok" => { fresh.entry(sid.clone()).or_insert((false, false)).0 = true; }
            "dist" if rr[0] == "ok" => { fresh.entry(sid.clone()).or_insert((false, false)).1 = true; }
            "setclock" if rr[0] == "ok" => {
                // a clock at or ahead of `now` reads as "0 seconds passed" (saturating subtraction)
                let ahead = t[4].parse::<u64>().unwrap() >= before.as_ref().map(|b| b.now).unwrap_or(0);
                out.stat(if ahead { "setclock.at_or_ahead" } else { "setclock.behind" });
                let e = fresh.entry(sid.clone()).or_insert((false, false));
                match t[3] { "1" => e.0 = ahead, "0" => e.1 = ahead, _ => {} }
            }
            "new" => { fresh.insert(sid.clone(), (false, false)); if rr[0] == "ok" { cfgs.insert(sid.clone(), (t[4].parse().unwrap(), t[5..].iter().map(|x| x.parse().unwrap()).collect())); } }
            _ => {}
        }
        let is_fresh = fresh.get(&sid).map(|f| f.0 && f.1).unwrap_or(false);
        let has_oi = before.as_ref().map(|b| (3..7).any(|k| b.pools[k] != (0, 0))).unwrap_or(false);
        match op {
            "deposit" if rr[0] != "bad-op" => {
                let (b, a) = (before.as_ref().unwrap(), after.as_ref().unwrap());
                let prev = last_dep.remove(&sid); let _ = prev;
                if rr[0] != "ok" { out.stat(&format!("deposit.{}", rr.get(1).copied().unwrap_or("?"))); }
                else if let Some(p) = P6::parse(&t[5..]) {
                    if has_oi { out.stat("deposit.ok_with_open_interest"); }
                    let (dl, ds): (u128, u128) = (t[3].parse().unwrap(), t[4].parse().unwrap());
                    let minted: u128 = rr[1].parse().unwrap();
                    if big(a.holdings(true)) != big(b.holdings(true)) + big(dl) || big(a.holdings(false)) != big(b.holdings(false)) + big(ds) { out.oracle_fail("deposit: token holdings did not grow by exactly the deposited amounts", &req); }
                    if big(a.supply) != big(b.supply) + big(minted) { out.oracle_fail("deposit: supply did not grow by the minted amount", &req); }
                    // no dilution, measured with the implementation's own pool value at the deposit's valuation
                    let wellformed = p.lmin <= p.lmax && p.smin <= p.smax && p.imin <= p.imax;
                    if let (Some(pb), Some(pa), true) = (pv_before.clone(), eng.pool_value(&sid, 0, true, &p), wellformed && b.supply > 0) {
                        if pb > BigInt::from(0) {
                            out.stat("deposit.dilution_checked");
                            if pa.clone() * big(b.supply) < pb.clone() * big(a.supply) {
                                // the pnl cap may start to bind less tightly only by rounding: allow the documented slack
                                let slack = (big(a.pools[0].0) * big(p.lmax) + big(a.pools[0].1) * big(p.smax)) / big(1_000_000_000) + BigInt::from(2);
                                if !is_fresh && has_oi { out.stat("deposit.dilution_stale_borrowing_clock"); }
                                else if (pa + slack) * big(b.supply) < pb * big(a.supply) { out.oracle_fail("deposit lowered the value of one market token for the existing holders (implementation's pool value)", &req); }
                                else { out.stat("deposit.dilution_within_rounding"); }
                            }
                        }
                    }
                    let fees: Vec<u128> = rr[3..7].iter().map(|x| x.parse().unwrap()).collect();
                    if let Some(pb) = pv_before.clone() { last_dep.insert(sid.clone(), (minted, p, b.clone(), a.clone(), pb, (fees[1], fees[3]), (dl, ds))); }
                }
            }
            "withdraw" if rr[0] != "bad-op" => {
                let (b, a) = (before.as_ref().unwrap(), after.as_ref().unwrap());
                let dep = last_dep.remove(&sid);
                if rr[0] != "ok" { out.stat(&format!("withdraw.{}", rr.get(1).copied().unwrap_or("?"))); }
                else if let Some(p) = P6::parse(&t[4..]) {
                    if has_oi { out.stat("withdraw.ok_with_open_interest"); }
                    let amount: u128 = t[3].parse().unwrap();
                    let (ol, os): (u128, u128) = (rr[1].parse().unwrap(), rr[2].parse().unwrap());
                    if big(a.holdings(true)) + big(ol) != big(b.holdings(true)) || big(a.holdings(false)) + big(os) != big(b.holdings(false)) { out.oracle_fail("withdrawal: token holdings did not shrink by exactly the amounts paid out", &req); }
                    if big(a.supply) + big(amount) != big(b.supply) { out.oracle_fail("withdrawal: supply did not shrink by the burnt amount", &req); }
                    let wellformed = p.lmin <= p.lmax && p.smin <= p.smax && p.imin <= p.imax;
                    // the payout is worth at most the burnt share of the implementation's pool value
                    // no dilution of the remaining holders, measured with ONE valuation for before and after (the
                    // deposit's: maximised, deposit cap) computed independently from the pools (fresh clocks)
                    if let (true, true, Some((unit, cfg))) = (is_fresh && wellformed, a.supply > 0, cfgs.get(&sid)) {
                        let (vb, va) = (indep_pool_value(b, cfg, *unit, &p, 0, true), indep_pool_value(a, cfg, *unit, &p, 0, true));
                        if vb > BigInt::from(0) {
                            out.stat("withdraw.dilution_checked");
                            let eps = big(a.pools[0].0) * big(p.lmin) / big(*unit) + big(a.pools[0].1) * big(p.smin) / big(*unit) + BigInt::from(2);
                            if (va + eps) * big(b.supply) < vb * big(a.supply) { out.oracle_fail("withdrawal lowered the value of one market token for the remaining holders (deposit valuation)", &req); }
                        }
                    }
                    if let (Some(pb), true) = (pv_before.clone(), wellformed) {
                        out.stat("withdraw.share_checked");
                        let leaving = (big(b.pools[0].0) - big(a.pools[0].0)) * big(p.lmax) + (big(b.pools[0].1) - big(a.pools[0].1)) * big(p.smax);
                        if leaving * big(b.supply) > pb * big(amount) { out.oracle_fail("withdrawal took more than the burnt share of the pool value", &req); }
                    }
                    if let Some((minted, dp, bd, ad, pvd, recv, (dl, ds))) = dep {
                        if minted == amount && dp.fmt() == p.fmt() && &ad == b && wellformed {
                            out.stat("roundtrip.pairs");
                            if has_oi { out.stat("roundtrip.with_open_interest"); }
                            let value_in = big(dl) * big(p.lmax) + big(ds) * big(p.smax);
                            let value_out = big(ol) * big(p.lmax) + big(os) * big(p.smax);
                            let credit = big(bd.pools[1].0.saturating_sub(ad.pools[1].0)) * big(p.lmax) + big(bd.pools[1].1.saturating_sub(ad.pools[1].1)) * big(p.smax);
                            let recvv = big(recv.0) * big(p.lmax) + big(recv.1) * big(p.smax);
                            let leftover = if bd.supply == 0 { pvd.clone().max(BigInt::from(0)) } else { BigInt::from(0) };
                            // rounding slack of the pnl-factor validation (pool value in whole units of UNIT) + 2
                            // the theorem's epsilon (roundtrip_bound_open_positions): rounding of the max-pnl-factor validation
                            let unit: u128 = if a.w == 64 { 1_000_000_000 } else { 100_000_000_000_000_000_000 };
                            let slack = big(a.pools[0].0) * big(p.lmin) / big(unit) + big(a.pools[0].1) * big(p.smin) / big(unit) + BigInt::from(2);
                            if !is_fresh && has_oi { out.stat("roundtrip.stale_clocks"); }
                            else if value_out.clone() + recvv > value_in.clone() + credit.clone() + leftover.clone() + slack.clone() {
                                out.oracle_fail("round trip (open positions) returned more than deposited + positive impact credited - fees", &req);
                            }
                            if value_out > value_in {
                                let surplus = value_out - value_in;
                                if bd.supply == 0 && leftover > BigInt::from(0) && surplus <= leftover + credit.clone() + slack.clone() { out.known("F-C06b", "deposit into a pool with value but zero supply: the depositor is minted the leftover pool value and withdraws it", &req); }
                                else if bd.supply > 0 && credit > BigInt::from(0) && surplus <= credit.clone() + slack.clone() { out.known("F-C06", "deposit->withdraw round trip returned more value than deposited (surplus <= positive swap impact credited by the deposit)", &req); }
                                else if surplus <= slack { out.stat("roundtrip.surplus_within_rounding"); }
                                else if !is_fresh && has_oi { out.stat("roundtrip.surplus_stale_clocks"); }
                                else { out.oracle_fail("round trip (open positions) returned more value than deposited, beyond the credited positive impact", &req); }
                            }
                        }
                    }
                }
            }
            "pv" => { if rr[0] == "ok" {
                    // the implementation's pool value against the documented formula (fresh clocks only)
                    if let (true, Some(b), Some((unit, cfg)), Some(p)) = (is_fresh, before.as_ref(), cfgs.get(&sid), P6::parse(&t[5..])) {
                        let kind: usize = t[3].parse().unwrap();
                        out.stat("pv.formula_checked");
                        if indep_pool_value(b, cfg, *unit, &p, kind, t[4] == "1").to_string() != rr[1] { out.oracle_fail("pool_value differs from liquidity + pending borrowing fees for the pool - capped pnl - impact pool value", &req); }
                    } out.stat(if has_oi { "pv.ok_with_open_interest" } else { "pv.ok" }); if rr[1].starts_with('-') { out.stat("pv.negative"); } } else if rr[0] == "err" { out.stat("pv.err"); } }
            "swap" => { last_dep.remove(&sid); if rr[0] == "ok" && has_oi { out.stat("swap.ok_with_open_interest"); } else if rr[0] == "err" { out.stat(&format!("swap.{}", rr.get(1).copied().unwrap_or("?"))); } }
            _ => { last_dep.remove(&sid); }
        }
        out.case_nt(&req, &resp, nt);
    }
    out.finish();
}
