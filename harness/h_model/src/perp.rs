//! Shared pieces of the position/funding/borrowing harnesses (C07–C13): error tags, a config
//! palette and a random-history "world" (market + positions) over the deterministic `TestMarket`,
//! instantiated for `<u64, 9>` (module `w64`) and `<u128, 20>` (module `w128`).
use gmsol_model::Error;

/// canonical error kind of a model-crate error
pub fn err_tag(e: &Error) -> &'static str {
    match e {
        Error::Computation(_) => "comp",
        Error::Convert => "conv",
        Error::Overflow => "ovf",
        Error::InvalidArgument(m) if *m == "invalid prices" => "prices",
        Error::InvalidArgument(_) => "arg",
        Error::UnableToGetFundingFactorEmptyOpenInterest => "emptyoi",
        Error::UnableToGetBorrowingFactorEmptyPoolValue => "emptypool",
        Error::PowComputation => "pow",
        Error::InvalidPosition(_) => "invalidpos",
        Error::Liquidatable(_) => "liquidatable",
        Error::NotLiquidatable => "notliquidatable",
        Error::InsufficientFundsToPayForCosts(_) => "insufficientfunds",
        Error::InsufficientReserve(..) => "reserve",
        Error::InsufficientReserveForOpenInterest(..) => "oireserve",
        Error::MaxOpenInterestExceeded => "maxoi",
        Error::PnlFactorExceeded(..) => "pnlfactor",
        Error::MaxPoolAmountExceeded(_) => "maxpool",
        Error::MaxPoolValueExceeded(_) => "maxpoolvalue",
        Error::EmptyDeposit => "emptydeposit",
        Error::EmptyWithdrawal => "emptywithdrawal",
        Error::EmptySwap => "emptyswap",
        Error::InvalidPoolValue(_) => "poolvalue",
        Error::DividedByZero => "divzero",
        _ => "other",
    }
}


use crate::market::{TestMarket, TestMarketConfig};

pub fn default_cfg64() -> TestMarketConfig<u64, 9> { Default::default() }
pub fn new_market64(cfg: TestMarketConfig<u64, 9>) -> TestMarket<u64, 9> { TestMarket::<u64, 9>::with_config(cfg) }
pub fn default_cfg128() -> TestMarketConfig<u128, 20> { Default::default() }
pub fn new_market128(cfg: TestMarketConfig<u128, 20>) -> TestMarket<u128, 20> { TestMarket::<u128, 20>::with_config(cfg) }

macro_rules! perp_world {
    ($modname:ident, $U:ty, $I:ty, $D:expr, $W:expr, $SCALE:expr, $defcfg:path, $newm:path) => {
        pub mod $modname {
            #![allow(dead_code, unused_imports)]
            use gmsol_model::{
                action::decrease_position::{DecreasePositionFlags, DecreasePositionReport},
                action::increase_position::IncreasePositionReport,
                fixed::FixedPointOps,
                params::{
                    fee::{BorrowingFeeKinkModelParamsForOneSide, BorrowingFeeParams, FundingFeeParams, LiquidationFeeParams},
                    position::PositionImpactDistributionParams,
                    FeeParams, PositionParams, PriceImpactParams,
                },
                price::{Price, Prices},
                Balance, BalanceExt, BaseMarket, BorrowingFeeMarket, BorrowingFeeMarketMutExt, LiquidityMarket,
                LiquidityMarketMutExt, MarketAction, PerpMarket, PerpMarketMutExt, Position, PositionExt, PositionImpactMarketMutExt,
                PositionMutExt, PositionState, SwapMarketMutExt,
            };
            use hcommon::Rng;
            use $crate::market::{MaxPnlFactors, TestMarket, TestMarketConfig, TestPool, TestPosition};

            pub type Num = $U;
            pub type Sig = $I;
            pub type M = TestMarket<$U, $D>;
            pub type P = TestPosition<$U, $D>;
            pub type Cfg = TestMarketConfig<$U, $D>;
            pub const W: u32 = $W;
            pub const UNIT: $U = <$U as FixedPointOps<$D>>::UNIT;
            /// USD values / prices of the `<u64, 9>` test market are multiplied by this.
            pub const SCALE: $U = $SCALE;

            pub fn default_cfg() -> Cfg { $defcfg() }
            pub fn new_market(cfg: Cfg) -> M { $newm(cfg) }

            /// fraction of UNIT: `num / den`
            pub fn frac(num: u64, den: u64) -> $U { (UNIT / den as $U) * num as $U }

            pub fn prices(index: (u64, u64), long: (u64, u64), short: (u64, u64)) -> Prices<$U> {
                let p = |a: (u64, u64)| Price { min: a.0 as $U * SCALE, max: a.1 as $U * SCALE };
                Prices { index_token_price: p(index), long_token_price: p(long), short_token_price: p(short) }
            }

            /// a configuration palette: zero / tiny / typical / large fee, impact, funding and
            /// borrowing parameter sets (unit-multiple exponents only).
            pub fn cfg_palette(r: &mut Rng) -> Cfg {
                let mut c = default_cfg();
                let fee = *r.pick(&[0u64, 5, 70, 500, 1000]); // 1e-4 units of UNIT
                let recv = *r.pick(&[0u64, 37, 100]);
                c.swap_fee_params = FeeParams::builder().fee_receiver_factor(frac(recv, 100)).positive_impact_fee_factor(frac(fee, 20_000)).negative_impact_fee_factor(frac(fee, 10_000)).build();
                c.order_fee_params = FeeParams::builder().fee_receiver_factor(frac(recv, 100)).positive_impact_fee_factor(frac(fee, 20_000)).negative_impact_fee_factor(frac(fee, 10_000)).build();
                let (pf, nf) = *r.pick(&[(0u64, 0u64), (4, 8), (8, 8), (9, 8), (400, 800), (1, 1000)]);
                let imp_unit: $U = UNIT / 1_000_000_000;
                c.swap_impact_params = PriceImpactParams::builder().exponent(UNIT * *r.pick(&[1 as $U, 2])).positive_factor(imp_unit * pf as $U).negative_factor(imp_unit * nf as $U).build();
                c.position_impact_params = PriceImpactParams::builder().exponent(UNIT * 2).positive_factor(imp_unit * (pf / 2) as $U).negative_factor(imp_unit * nf as $U).build();
                c
            }

            pub struct World {
                pub m: M,
                pub ps: Vec<P>,
            }

            impl World {
                pub fn new(cfg: Cfg) -> Self { World { m: new_market(cfg), ps: vec![] } }

                /// run `f`; on error restore market and positions (clone-and-discard, mirrors the
                /// on-chain revertible wrapper — the model crate's actions are not atomic).
                pub fn atomic<R>(&mut self, f: impl FnOnce(&mut M, &mut Vec<P>) -> gmsol_model::Result<R>) -> gmsol_model::Result<R> {
                    let (m0, p0) = (self.m.clone(), self.ps.clone());
                    let r = f(&mut self.m, &mut self.ps);
                    if r.is_err() { self.m = m0; self.ps = p0; }
                    r
                }

                pub fn deposit(&mut self, long: $U, short: $U, pr: Prices<$U>) -> gmsol_model::Result<()> {
                    self.atomic(|m, _| m.deposit(long, short, pr).and_then(|d| d.execute()).map(|_| ()))
                }

                /// advance the clock and update all fee states (distribution, borrowing, funding)
                pub fn tick(&mut self, secs: u64, pr: &Prices<$U>) -> gmsol_model::Result<()> {
                    self.m.move_clock_forward(secs);
                    self.atomic(|m, _| {
                        m.distribute_position_impact()?.execute()?;
                        m.update_borrowing(pr)?.execute()?;
                        m.update_funding(pr)?.execute()?;
                        Ok(())
                    })
                }

                pub fn open(&mut self, is_long: bool, col_long: bool) -> usize {
                    self.ps.push(if is_long { P::long(col_long) } else { P::short(col_long) });
                    self.ps.len() - 1
                }

                pub fn increase(&mut self, idx: usize, pr: Prices<$U>, collateral: $U, size: $U) -> gmsol_model::Result<IncreasePositionReport<$U, $I>> {
                    self.atomic(|m, ps| ps[idx].ops(m).increase(pr, collateral, size, None)?.execute())
                }

                pub fn decrease(&mut self, idx: usize, pr: Prices<$U>, size: $U, withdraw: $U, flags: DecreasePositionFlags) -> gmsol_model::Result<Box<DecreasePositionReport<$U, $I>>> {
                    self.atomic(|m, ps| ps[idx].ops(m).decrease(pr, size, None, withdraw, flags)?.execute())
                }

                /// random price step: index == long token price with an occasional spread
                pub fn random_prices(r: &mut Rng, px: &mut u64) -> Prices<$U> {
                    if r.chance(1, 4) { *px = (*px as i64 + r.below(21) as i64 - 10).max(2) as u64; }
                    let spread = r.below(3);
                    prices((*px, *px + spread), (*px, *px + spread), (1, 1))
                }

                /// increase a random (or new) position; returns Some(ok?) if an attempt was made
                pub fn random_increase(&mut self, r: &mut Rng, pr: Prices<$U>, px: u64) -> (usize, bool) {
                    let idx = if self.ps.is_empty() || r.chance(1, 2) { self.open(r.chance(1, 2), r.chance(1, 2)) } else { r.below(self.ps.len() as u64) as usize };
                    let col_long = self.ps[idx].is_collateral_token_long;
                    let size = (*r.pick(&[0u64, 1_000_000_000, 20_000_000_000, 500_000_000_000, 5_000_000_000_000]) + r.below(1_000_000_000)) as $U * SCALE;
                    let cval = (size / SCALE) as u64 / (1 + r.below(30)) + r.below(2_000_000_000);
                    let c = (if col_long { cval / px.max(1) } else { cval }) as $U;
                    let ok = self.increase(idx, pr, c, size).is_ok();
                    (idx, ok)
                }

                /// decrease a random position (partial / full / tiny remainder / capped / withdraw-only)
                pub fn random_decrease(&mut self, r: &mut Rng, pr: Prices<$U>) -> Option<gmsol_model::Result<Box<DecreasePositionReport<$U, $I>>>> {
                    if self.ps.is_empty() { return None; }
                    let idx = r.below(self.ps.len() as u64) as usize;
                    let (size, coll) = (self.ps[idx].size_in_usd, self.ps[idx].collateral_token_amount);
                    let delta = match r.below(7) { 0 => size, 1 => 0, 2 => size - (r.below(2) as $U).min(size), 3 => (r.below(1_000_000) as $U).min(size), 4 => size / 2, 5 => size.saturating_add(r.below(5) as $U), _ => size / 1000 * r.below(1000) as $U };
                    let w = match r.below(3) { 0 => 0, 1 => coll / 2, _ => coll };
                    let flags = DecreasePositionFlags { is_insolvent_close_allowed: r.chance(1, 4), is_liquidation_order: false, is_cap_size_delta_usd_allowed: r.chance(1, 2) };
                    Some(self.decrease(idx, pr, delta, w, flags))
                }

                /// drop positions that are empty
                pub fn sweep(&mut self) {
                    self.ps.retain(|p| !(p.size_in_usd == 0 && p.size_in_tokens == 0 && p.collateral_token_amount == 0));
                }
            }
        }
    };
}

perp_world!(w64, u64, i64, 9, 64, 1, crate::perp::default_cfg64, crate::perp::new_market64);
perp_world!(w128, u128, i128, 20, 128, 100_000_000_000, crate::perp::default_cfg128, crate::perp::new_market128);
