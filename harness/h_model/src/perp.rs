//! Shared pieces of the position/funding/borrowing harnesses (C07–C13): error tags, a config
//! palette and a random-history "world" (market + positions) over the deterministic `TestMarket`,
//! instantiated for `<u64, 9>` (module `w64`) and `<u128, 20>` (module `w128`).
use gmsol_model::Error;

/// canonical error kind of a model-crate error
pub fn err_tag(e: &Error) -> &'static str {
    match e {
        Error::Computation(_) => "comp",
        Error::Convert => "conv",
        Error::Overflow => "ovf",
        Error::InvalidArgument(m) if *m == "invalid prices" => "prices",
        Error::InvalidArgument(_) => "arg",
        Error::UnableToGetFundingFactorEmptyOpenInterest => "emptyoi",
        Error::UnableToGetBorrowingFactorEmptyPoolValue => "emptypool",
        Error::PowComputation => "pow",
        Error::InvalidPosition(_) => "invalidpos",
        Error::Liquidatable(_) => "liquidatable",
        Error::NotLiquidatable => "notliquidatable",
        Error::InsufficientFundsToPayForCosts(_) => "insufficientfunds",
        Error::InsufficientReserve(..) => "reserve",
        Error::InsufficientReserveForOpenInterest(..) => "oireserve",
        Error::MaxOpenInterestExceeded => "maxoi",
        Error::PnlFactorExceeded(..) => "pnlfactor",
        Error::MaxPoolAmountExceeded(_) => "maxpool",
        Error::MaxPoolValueExceeded(_) => "maxpoolvalue",
        Error::EmptyDeposit => "emptydeposit",
        Error::EmptyWithdrawal => "emptywithdrawal",
        Error::EmptySwap => "emptyswap",
        Error::InvalidPoolValue(_) => "poolvalue",
        Error::DividedByZero => "divzero",
        _ => "other",
    }
}


use crate::market::{MaxPnlFactors, TestMarket, TestMarketConfig};
use gmsol_model::params::{
    fee::{BorrowingFeeKinkModelParamsForOneSide, BorrowingFeeParams, FundingFeeParams, LiquidationFeeParams},
    position::PositionImpactDistributionParams,
    FeeParams, PositionParams, PriceImpactParams,
};
const SECONDS_PER_YEAR: u64 = 365 * 24 * 3600;

pub fn default_cfg64() -> TestMarketConfig<u64, 9> { Default::default() }
pub fn new_market64(cfg: TestMarketConfig<u64, 9>) -> TestMarket<u64, 9> { TestMarket::with_config(cfg) }
/// `<u128, 20>` defaults: copy of `gmsol_model::test`'s (market.rs gates them behind a cargo
/// feature that `h_model` does not define).
pub fn default_cfg128() -> TestMarketConfig<u128, 20> {
    TestMarketConfig::<u128, 20> {
            swap_impact_params: PriceImpactParams::builder()
                .exponent(200_000_000_000_000_000_000)
                .positive_factor(400_000_000_000)
                .negative_factor(800_000_000_000)
                .build(),
            swap_fee_params: FeeParams::builder()
                .fee_receiver_factor(37_000_000_000_000_000_000)
                .positive_impact_fee_factor(50_000_000_000_000_000)
                .negative_impact_fee_factor(70_000_000_000_000_000)
                .build(),
            position_params: PositionParams::new(
                100_000_000_000_000_000_000,
                100_000_000_000_000_000_000,
                1_000_000_000_000_000_000,
                500_000_000_000_000_000,
                500_000_000_000_000_000,
                250_000_000_000_000_000,
            ),
            position_impact_params: PriceImpactParams::builder()
                .exponent(200_000_000_000_000_000_000)
                .positive_factor(100_000_000_000)
                .negative_factor(200_000_000_000)
                .build(),
            order_fee_params: FeeParams::builder()
                .fee_receiver_factor(37_000_000_000_000_000_000)
                .positive_impact_fee_factor(50_000_000_000_000_000)
                .negative_impact_fee_factor(70_000_000_000_000_000)
                .build(),
            position_impact_distribution_params: PositionImpactDistributionParams::builder()
                .distribute_factor(100_000_000_000_000_000_000)
                .min_position_impact_pool_amount(1_000_000_000)
                .build(),
            borrowing_fee_params: BorrowingFeeParams::builder()
                .receiver_factor(37_000_000_000_000_000_000)
                .factor_for_long(2_820_000_000_000)
                .factor_for_short(2_820_000_000_000)
                .exponent_for_long(100_000_000_000_000_000_000)
                .exponent_for_short(100_000_000_000_000_000_000)
                .build(),
            borrowing_fee_kink_model_params: BorrowingFeeKinkModelParamsForOneSide::builder()
                .optimal_usage_factor(75_000_000_000_000_000_000)
                .base_borrowing_factor(60_000_000_000_000_000_000 / u128::from(SECONDS_PER_YEAR))
                .above_optimal_usage_borrowing_factor(
                    150_000_000_000_000_000_000 / u128::from(SECONDS_PER_YEAR),
                )
                .build(),
            funding_fee_params: FundingFeeParams::builder()
                .exponent(100_000_000_000_000_000_000)
                .funding_factor(2_000_000_000_000)
                .max_factor_per_second(1_000_000_000_000)
                .min_factor_per_second(30_000_000_000)
                .increase_factor_per_second(790_000_000)
                .decrease_factor_per_second(0)
                .threshold_for_stable_funding(5_000_000_000_000_000_000)
                .threshold_for_decrease_funding(0)
                .build(),
            reserve_factor: 10u128.pow(20),
            open_interest_reserve_factor: 10u128.pow(20),
            max_pnl_factors: MaxPnlFactors {
                deposit: 60_000_000_000_000_000_000,
                withdrawal: 30_000_000_000_000_000_000,
                trader: 50_000_000_000_000_000_000,
                adl: 50_000_000_000_000_000_000,
            },
            min_pnl_factor_after_adl: 0,
            max_pool_amount: 1_000_000_000 * 10u128.pow(20),
            max_pool_value_for_deposit: 1_000_000_000_000_000 * 10u128.pow(20),
            max_open_interest: 1_000_000_000 * 10u128.pow(20),
            // min collateral factor of 0.005 when open interest is $83,000,000
            min_collateral_factor_for_oi: 5 * 10u128.pow(17) / 83_000_000,
            ignore_open_interest_for_usage_factor: false,
            liquidation_fee_params: LiquidationFeeParams::builder()
                .factor(200_000_000_000_000_000)
                .receiver_factor(37_000_000_000_000_000_000)
                .build(),
        }
}
pub fn new_market128(cfg: TestMarketConfig<u128, 20>) -> TestMarket<u128, 20> { TestMarket::new(10u128.pow(20 - 9), 10u128.pow(10), cfg) }

macro_rules! perp_world {
    ($modname:ident, $U:ty, $I:ty, $D:expr, $W:expr, $SCALE:expr, $defcfg:path, $newm:path) => {
        pub mod $modname {
            #![allow(dead_code, unused_imports)]
            use gmsol_model::{
                action::decrease_position::{DecreasePositionFlags, DecreasePositionReport},
                action::increase_position::IncreasePositionReport,
                fixed::FixedPointOps,
                params::{
                    fee::{BorrowingFeeKinkModelParamsForOneSide, BorrowingFeeParams, FundingFeeParams, LiquidationFeeParams},
                    position::PositionImpactDistributionParams,
                    FeeParams, PositionParams, PriceImpactParams,
                },
                price::{Price, Prices},
                Balance, BalanceExt, BaseMarket, BorrowingFeeMarket, BorrowingFeeMarketMutExt, LiquidityMarket,
                LiquidityMarketMutExt, MarketAction, PerpMarket, PerpMarketMutExt, Position, PositionExt, PositionImpactMarketMutExt,
                PositionMutExt, PositionState, SwapMarketMutExt,
            };
            use hcommon::Rng;
            use $crate::market::{MaxPnlFactors, TestMarket, TestMarketConfig, TestPool, TestPosition};

            pub type Num = $U;
            pub type Sig = $I;
            pub type M = TestMarket<$U, $D>;
            pub type P = TestPosition<$U, $D>;
            pub type Cfg = TestMarketConfig<$U, $D>;
            pub const W: u32 = $W;
            pub const UNIT: $U = <$U as FixedPointOps<$D>>::UNIT;
            /// USD values / prices of the `<u64, 9>` test market are multiplied by this.
            pub const SCALE: $U = $SCALE;

            pub fn default_cfg() -> Cfg { $defcfg() }
            pub fn new_market(cfg: Cfg) -> M { $newm(cfg) }

            /// fraction of UNIT: `num / den`
            pub fn frac(num: u64, den: u64) -> $U { (UNIT / den as $U) * num as $U }

            pub fn prices(index: (u64, u64), long: (u64, u64), short: (u64, u64)) -> Prices<$U> {
                let p = |a: (u64, u64)| Price { min: a.0 as $U * SCALE, max: a.1 as $U * SCALE };
                Prices { index_token_price: p(index), long_token_price: p(long), short_token_price: p(short) }
            }

            /// a configuration palette: zero / tiny / typical / large fee, impact, funding and
            /// borrowing parameter sets (unit-multiple exponents only).
            pub fn cfg_palette(r: &mut Rng) -> Cfg {
                let mut c = default_cfg();
                let fee = *r.pick(&[0u64, 5, 70, 500, 1000]); // 1e-4 units of UNIT
                let recv = *r.pick(&[0u64, 37, 100]);
                c.swap_fee_params = FeeParams::builder().fee_receiver_factor(frac(recv, 100)).positive_impact_fee_factor(frac(fee, 20_000)).negative_impact_fee_factor(frac(fee, 10_000)).build();
                c.order_fee_params = FeeParams::builder().fee_receiver_factor(frac(recv, 100)).positive_impact_fee_factor(frac(fee, 20_000)).negative_impact_fee_factor(frac(fee, 10_000)).build();
                let (pf, nf) = *r.pick(&[(0u64, 0u64), (4, 8), (8, 8), (9, 8), (400, 800), (1, 1000)]);
                let imp_unit: $U = UNIT / 1_000_000_000;
                c.swap_impact_params = PriceImpactParams::builder().exponent(UNIT * *r.pick(&[1 as $U, 2])).positive_factor(imp_unit * pf as $U).negative_factor(imp_unit * nf as $U).build();
                c.position_impact_params = PriceImpactParams::builder().exponent(UNIT * 2).positive_factor(imp_unit * (pf / 2) as $U).negative_factor(imp_unit * nf as $U).build();
                c
            }

            pub struct World {
                pub m: M,
                pub ps: Vec<P>,
            }

            impl World {
                pub fn new(cfg: Cfg) -> Self { World { m: new_market(cfg), ps: vec![] } }

                /// run `f`; on error restore market and positions (clone-and-discard, mirrors the
                /// on-chain revertible wrapper — the model crate's actions are not atomic).
                pub fn atomic<R>(&mut self, f: impl FnOnce(&mut M, &mut Vec<P>) -> gmsol_model::Result<R>) -> gmsol_model::Result<R> {
                    let (m0, p0) = (self.m.clone(), self.ps.clone());
                    let r = f(&mut self.m, &mut self.ps);
                    if r.is_err() { self.m = m0; self.ps = p0; }
                    r
                }

                pub fn deposit(&mut self, long: $U, short: $U, pr: Prices<$U>) -> gmsol_model::Result<()> {
                    self.atomic(|m, _| m.deposit(long, short, pr).and_then(|d| d.execute()).map(|_| ()))
                }

                /// advance the clock and update all fee states (distribution, borrowing, funding)
                pub fn tick(&mut self, secs: u64, pr: &Prices<$U>) -> gmsol_model::Result<()> {
                    self.m.move_clock_forward(secs);
                    self.atomic(|m, _| {
                        m.distribute_position_impact()?.execute()?;
                        m.update_borrowing(pr)?.execute()?;
                        m.update_funding(pr)?.execute()?;
                        Ok(())
                    })
                }

                pub fn open(&mut self, is_long: bool, col_long: bool) -> usize {
                    self.ps.push(if is_long { P::long(col_long) } else { P::short(col_long) });
                    self.ps.len() - 1
                }

                pub fn increase(&mut self, idx: usize, pr: Prices<$U>, collateral: $U, size: $U) -> gmsol_model::Result<IncreasePositionReport<$U, $I>> {
                    self.atomic(|m, ps| ps[idx].ops(m).increase(pr, collateral, size, None)?.execute())
                }

                pub fn decrease(&mut self, idx: usize, pr: Prices<$U>, size: $U, withdraw: $U, flags: DecreasePositionFlags) -> gmsol_model::Result<Box<DecreasePositionReport<$U, $I>>> {
                    self.atomic(|m, ps| ps[idx].ops(m).decrease(pr, size, None, withdraw, flags)?.execute())
                }

                /// drop positions that are empty
                pub fn sweep(&mut self) {
                    self.ps.retain(|p| !(p.size_in_usd == 0 && p.size_in_tokens == 0 && p.collateral_token_amount == 0));
                }
            }
        }
    };
}

perp_world!(w64, u64, i64, 9, 64, 1, crate::perp::default_cfg64, crate::perp::new_market64);
perp_world!(w128, u128, i128, 20, 128, 100_000_000_000, crate::perp::default_cfg128, crate::perp::new_market128);
