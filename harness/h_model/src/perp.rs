//! Shared pieces of the position/funding/borrowing harnesses (C07–C13): error tags, a config
//! palette and a random-history "world" (market + positions) over the deterministic `TestMarket`,
//! instantiated for `<u64, 9>` (module `w64`) and `<u128, 20>` (module `w128`).
use gmsol_model::Error;

/// canonical error kind of a model-crate error
pub fn err_tag(e: &Error) -> &'static str {
    match e {
        Error::Computation(_) => "comp",
        Error::Convert => "conv",
        Error::Overflow => "ovf",
        Error::InvalidArgument(m) if *m == "invalid prices" => "prices",
        Error::InvalidArgument(_) => "arg",
        Error::UnableToGetFundingFactorEmptyOpenInterest => "emptyoi",
        Error::UnableToGetBorrowingFactorEmptyPoolValue => "emptypool",
        Error::PowComputation => "pow",
        Error::InvalidPosition(_) => "invalidpos",
        Error::Liquidatable(_) => "liquidatable",
        Error::NotLiquidatable => "notliquidatable",
        Error::InsufficientFundsToPayForCosts(_) => "insufficientfunds",
        Error::InsufficientReserve(..) => "reserve",
        Error::InsufficientReserveForOpenInterest(..) => "oireserve",
        Error::MaxOpenInterestExceeded => "maxoi",
        Error::PnlFactorExceeded(..) => "pnlfactor",
        Error::MaxPoolAmountExceeded(_) => "maxpool",
        Error::MaxPoolValueExceeded(_) => "maxpoolvalue",
        Error::EmptyDeposit => "emptydeposit",
        Error::EmptyWithdrawal => "emptywithdrawal",
        Error::EmptySwap => "emptyswap",
        Error::InvalidPoolValue(_) => "poolvalue",
        Error::DividedByZero => "divzero",
        _ => "other",
    }
}


use crate::market::{TestMarket, TestMarketConfig};

pub fn default_cfg64() -> TestMarketConfig<u64, 9> { Default::default() }
pub fn new_market64(cfg: TestMarketConfig<u64, 9>) -> TestMarket<u64, 9> { TestMarket::<u64, 9>::with_config(cfg) }
pub fn default_cfg128() -> TestMarketConfig<u128, 20> { Default::default() }
pub fn new_market128(cfg: TestMarketConfig<u128, 20>) -> TestMarket<u128, 20> { TestMarket::<u128, 20>::with_config(cfg) }

/// error kind of the `perp` engine (computational failures collapse to `fail`)
pub fn perp_err(e: &Error) -> String {
    use gmsol_model::position::{InsolventCloseStep as S, LiquidatableReason as R};
    match e {
        Error::InvalidArgument(m) if *m == "invalid prices" => "err prices".into(),
        Error::InvalidArgument(_) => "err arg".into(),
        Error::InvalidPosition(_) => "err invalidpos".into(),
        Error::Liquidatable(r) => format!("err liquidatable {}", match r { R::MinCollateral => "mincollateral", R::NotPositive => "notpositive", R::MinCollateralForLeverage => "leverage" }),
        Error::NotLiquidatable => "err notliquidatable".into(),
        Error::InsufficientFundsToPayForCosts(s) => format!("err insufficient {}", step_tag(Some(*s))),
        Error::InsufficientReserve(..) => "err reserve".into(),
        Error::InsufficientReserveForOpenInterest(..) => "err oireserve".into(),
        Error::MaxOpenInterestExceeded => "err maxoi".into(),
        _ => "err fail".into(),
    }
}

pub fn step_tag(s: Option<gmsol_model::position::InsolventCloseStep>) -> &'static str {
    use gmsol_model::position::InsolventCloseStep as S;
    match s { None => "_", Some(S::Pnl) => "pnl", Some(S::Fees) => "fees", Some(S::Funding) => "funding", Some(S::Impact) => "impact", Some(S::Diff) => "diff", Some(_) => "other" }
}

macro_rules! perp_world {
    ($modname:ident, $U:ty, $I:ty, $D:expr, $W:expr, $SCALE:expr, $defcfg:path, $newm:path) => {
        pub mod $modname {
            #![allow(dead_code, unused_imports)]
            use gmsol_model::{
                action::decrease_position::{DecreasePositionFlags, DecreasePositionReport},
                action::increase_position::IncreasePositionReport,
                fixed::FixedPointOps,
                params::{
                    fee::{BorrowingFeeKinkModelParamsForOneSide, BorrowingFeeParams, FundingFeeParams, LiquidationFeeParams},
                    position::PositionImpactDistributionParams,
                    FeeParams, PositionParams, PriceImpactParams,
                },
                price::{Price, Prices},
                Balance, BalanceExt, BaseMarket, BorrowingFeeMarket, BorrowingFeeMarketMutExt, LiquidityMarket, LiquidityMarketExt,
                LiquidityMarketMutExt, PnlFactorKind, MarketAction, PerpMarket, PerpMarketMutExt, Position, PositionExt, PositionImpactMarketMutExt,
                PositionMutExt, PositionState, SwapMarketMutExt,
            };
            use hcommon::Rng;
            use $crate::market::{MaxPnlFactors, TestMarket, TestMarketConfig, TestPool, TestPosition};

            pub type Num = $U;
            pub type Sig = $I;
            pub type M = TestMarket<$U, $D>;
            pub type P = TestPosition<$U, $D>;
            pub type Cfg = TestMarketConfig<$U, $D>;
            pub const W: u32 = $W;
            pub const UNIT: $U = <$U as FixedPointOps<$D>>::UNIT;
            /// USD values / prices of the `<u64, 9>` test market are multiplied by this.
            pub const SCALE: $U = $SCALE;

            pub fn default_cfg() -> Cfg { $defcfg() }
            pub fn new_market(cfg: Cfg) -> M { $newm(cfg) }

            /// fraction of UNIT: `num / den`
            pub fn frac(num: u64, den: u64) -> $U { (UNIT / den as $U) * num as $U }

            pub fn prices(index: (u64, u64), long: (u64, u64), short: (u64, u64)) -> Prices<$U> {
                let p = |a: (u64, u64)| Price { min: a.0 as $U * SCALE, max: a.1 as $U * SCALE };
                Prices { index_token_price: p(index), long_token_price: p(long), short_token_price: p(short) }
            }

            /// a configuration palette: zero / tiny / typical / large fee, impact, funding and
            /// borrowing parameter sets (unit-multiple exponents only).
            pub fn cfg_palette(r: &mut Rng) -> Cfg {
                let mut c = default_cfg();
                let fee = *r.pick(&[0u64, 5, 70, 500, 1000]); // 1e-4 units of UNIT
                let recv = *r.pick(&[0u64, 37, 100]);
                c.swap_fee_params = FeeParams::builder().fee_receiver_factor(frac(recv, 100)).positive_impact_fee_factor(frac(fee, 20_000)).negative_impact_fee_factor(frac(fee, 10_000)).build();
                c.order_fee_params = FeeParams::builder().fee_receiver_factor(frac(recv, 100)).positive_impact_fee_factor(frac(fee, 20_000)).negative_impact_fee_factor(frac(fee, 10_000)).build();
                let (pf, nf) = *r.pick(&[(0u64, 0u64), (4, 8), (8, 8), (9, 8), (400, 800), (1, 1000)]);
                let imp_unit: $U = UNIT / 1_000_000_000;
                c.swap_impact_params = PriceImpactParams::builder().exponent(UNIT * *r.pick(&[1 as $U, 2])).positive_factor(imp_unit * pf as $U).negative_factor(imp_unit * nf as $U).build();
                c.position_impact_params = PriceImpactParams::builder().exponent(UNIT * 2).positive_factor(imp_unit * (pf / 2) as $U).negative_factor(imp_unit * nf as $U).build();
                c
            }

            pub struct World {
                pub m: M,
                pub ps: Vec<P>,
            }

            impl World {
                pub fn new(cfg: Cfg) -> Self { World { m: new_market(cfg), ps: vec![] } }

                /// run `f`; on error restore market and positions (clone-and-discard, mirrors the
                /// on-chain revertible wrapper — the model crate's actions are not atomic).
                pub fn atomic<R>(&mut self, f: impl FnOnce(&mut M, &mut Vec<P>) -> gmsol_model::Result<R>) -> gmsol_model::Result<R> {
                    let (m0, p0) = (self.m.clone(), self.ps.clone());
                    let r = f(&mut self.m, &mut self.ps);
                    if r.is_err() { self.m = m0; self.ps = p0; }
                    r
                }

                pub fn deposit(&mut self, long: $U, short: $U, pr: Prices<$U>) -> gmsol_model::Result<()> {
                    self.atomic(|m, _| m.deposit(long, short, pr).and_then(|d| d.execute()).map(|_| ()))
                }

                /// advance the clock and update all fee states (distribution, borrowing, funding)
                pub fn tick(&mut self, secs: u64, pr: &Prices<$U>) -> gmsol_model::Result<()> {
                    self.m.move_clock_forward(secs);
                    self.atomic(|m, _| {
                        m.distribute_position_impact()?.execute()?;
                        m.update_borrowing(pr)?.execute()?;
                        m.update_funding(pr)?.execute()?;
                        Ok(())
                    })
                }

                pub fn open(&mut self, is_long: bool, col_long: bool) -> usize {
                    self.ps.push(if is_long { P::long(col_long) } else { P::short(col_long) });
                    self.ps.len() - 1
                }

                pub fn increase(&mut self, idx: usize, pr: Prices<$U>, collateral: $U, size: $U) -> gmsol_model::Result<IncreasePositionReport<$U, $I>> {
                    self.atomic(|m, ps| ps[idx].ops(m).increase(pr, collateral, size, None)?.execute())
                }

                pub fn decrease(&mut self, idx: usize, pr: Prices<$U>, size: $U, withdraw: $U, flags: DecreasePositionFlags) -> gmsol_model::Result<Box<DecreasePositionReport<$U, $I>>> {
                    self.atomic(|m, ps| ps[idx].ops(m).decrease(pr, size, None, withdraw, flags)?.execute())
                }

                /// random price step: index == long token price with an occasional spread
                pub fn random_prices(r: &mut Rng, px: &mut u64) -> Prices<$U> {
                    if r.chance(1, 4) { *px = (*px as i64 + r.below(21) as i64 - 10).max(2) as u64; }
                    let spread = r.below(3);
                    prices((*px, *px + spread), (*px, *px + spread), (1, 1))
                }

                /// increase a random (or new) position; returns Some(ok?) if an attempt was made
                pub fn random_increase(&mut self, r: &mut Rng, pr: Prices<$U>, px: u64) -> (usize, bool) {
                    let idx = if self.ps.is_empty() || r.chance(1, 2) { self.open(r.chance(1, 2), r.chance(1, 2)) } else { r.below(self.ps.len() as u64) as usize };
                    let col_long = self.ps[idx].is_collateral_token_long;
                    let size = (*r.pick(&[0u64, 1_000_000_000, 20_000_000_000, 500_000_000_000, 5_000_000_000_000]) + r.below(1_000_000_000)) as $U * SCALE;
                    let cval = (size / SCALE) as u64 / (1 + r.below(30)) + r.below(2_000_000_000);
                    let c = (if col_long { cval / px.max(1) } else { cval }) as $U;
                    let ok = self.increase(idx, pr, c, size).is_ok();
                    (idx, ok)
                }

                /// decrease a random position (partial / full / tiny remainder / capped / withdraw-only)
                pub fn random_decrease(&mut self, r: &mut Rng, pr: Prices<$U>) -> Option<gmsol_model::Result<Box<DecreasePositionReport<$U, $I>>>> {
                    if self.ps.is_empty() { return None; }
                    let idx = r.below(self.ps.len() as u64) as usize;
                    let (size, coll) = (self.ps[idx].size_in_usd, self.ps[idx].collateral_token_amount);
                    let delta = match r.below(7) { 0 => size, 1 => 0, 2 => size - (r.below(2) as $U).min(size), 3 => (r.below(1_000_000) as $U).min(size), 4 => size / 2, 5 => size.saturating_add(r.below(5) as $U), _ => size / 1000 * r.below(1000) as $U };
                    let w = match r.below(3) { 0 => 0, 1 => coll / 2, _ => coll };
                    let flags = DecreasePositionFlags { is_insolvent_close_allowed: r.chance(1, 4), is_liquidation_order: false, is_cap_size_delta_usd_allowed: r.chance(1, 2) };
                    Some(self.decrease(idx, pr, delta, w, flags))
                }

                /// drop positions that are empty
                pub fn sweep(&mut self) {
                    self.ps.retain(|p| !(p.size_in_usd == 0 && p.size_in_tokens == 0 && p.collateral_token_amount == 0));
                }
            }

            // ------------------------------------------------------------------ `perp` engine
            use gmsol_model::params::fee::PositionFees;
            use std::collections::BTreeMap;

            /// one `perp` session: market + positions by id
            pub struct Session { pub m: M, pub ps: BTreeMap<u64, P> }

            pub fn market_from_cfg(v: &[$U]) -> Option<M> {
                if v.len() != 56 { return None; }
                if v[25] > 1 || v[28] > 1 || v[29] > 1 || v[48] > 1 { return None; }
                let config = Cfg {
                    swap_impact_params: PriceImpactParams::builder().exponent(v[0]).positive_factor(v[1]).negative_factor(v[2]).build(),
                    swap_fee_params: FeeParams::builder().positive_impact_fee_factor(v[3]).negative_impact_fee_factor(v[4]).fee_receiver_factor(v[5]).build(),
                    position_impact_params: PriceImpactParams::builder().exponent(v[6]).positive_factor(v[7]).negative_factor(v[8]).build(),
                    order_fee_params: FeeParams::builder().positive_impact_fee_factor(v[9]).negative_impact_fee_factor(v[10]).fee_receiver_factor(v[11]).build(),
                    position_impact_distribution_params: PositionImpactDistributionParams::builder().distribute_factor(v[12]).min_position_impact_pool_amount(v[13]).build(),
                    borrowing_fee_params: BorrowingFeeParams::builder().receiver_factor(v[14]).exponent_for_long(v[49]).factor_for_long(v[50]).exponent_for_short(v[51]).factor_for_short(v[52])
                        .skip_borrowing_fee_for_smaller_side(v[48] == 1).build(),
                    borrowing_fee_kink_model_params: BorrowingFeeKinkModelParamsForOneSide::builder().optimal_usage_factor(v[53]).base_borrowing_factor(v[54]).above_optimal_usage_borrowing_factor(v[55]).build(),
                    funding_fee_params: FundingFeeParams::builder().exponent(v[40]).funding_factor(v[41]).increase_factor_per_second(v[42]).decrease_factor_per_second(v[43])
                        .max_factor_per_second(v[44]).min_factor_per_second(v[45]).threshold_for_stable_funding(v[46]).threshold_for_decrease_funding(v[47]).build(),
                    reserve_factor: v[15],
                    open_interest_reserve_factor: v[16],
                    max_pnl_factors: MaxPnlFactors { deposit: v[17], withdrawal: v[18], trader: v[19], adl: v[20] },
                    min_pnl_factor_after_adl: v[21],
                    max_pool_amount: v[22],
                    max_pool_value_for_deposit: v[23],
                    max_open_interest: v[24],
                    ignore_open_interest_for_usage_factor: v[25] == 1,
                    position_params: PositionParams::builder().min_position_size_usd(v[30]).min_collateral_value(v[31]).min_collateral_factor(v[32])
                        .min_collateral_factor_for_liquidation(Some(v[33])).max_positive_position_impact_factor(v[34]).max_negative_position_impact_factor(v[35])
                        .max_position_impact_factor_for_liquidations(v[36]).build(),
                    min_collateral_factor_for_oi: v[37],
                    liquidation_fee_params: LiquidationFeeParams::builder().factor(v[38]).receiver_factor(v[39]).build(),
                };
                let mut m = M::new(v[26], v[27], config);
                if v[28] == 1 { m.vi_swaps = Some(TestPool::default()); }
                if v[29] == 1 { m.vi_positions = Some(TestPool::default()); }
                Some(m)
            }

            /// 56 config numbers for `perp new` drawn from parameter palettes (zero / tiny / typical /
            /// large; unit-multiple exponents only)
            pub fn random_cfg(r: &mut Rng) -> Vec<$U> {
                let iu: $U = UNIT / 1_000_000_000; // 1e-9
                let fee = *r.pick(&[0u64, 5, 70, 500, 1000]);
                let recv = *r.pick(&[0u64, 37, 100]);
                let (pf, nf) = *r.pick(&[(0u64, 0u64), (4, 8), (8, 8), (9, 8), (400, 800), (1, 1000)]);
                let per_y = |x: u64| -> $U { frac(x, 100) / (365 * 24 * 3600) };
                let adaptive = r.chance(1, 2);
                let fmx = *r.pick(&[iu * 10, iu * 300, UNIT / 10_000_000]);
                let (opt, base, above) = match r.below(4) { 0 => (0 as $U, 0 as $U, 0 as $U), 1 => (frac(75, 100), per_y(60), per_y(150)), 2 => (frac(10, 100), per_y(500), per_y(100)), _ => (frac(1, 100), per_y(30), per_y(30000)) };
                let mcf = *r.pick(&[frac(1, 100), frac(1, 100), frac(5, 100), frac(1, 1000)]);
                vec![
                    // swap impact, swap fee
                    UNIT * *r.pick(&[1 as $U, 2]), iu * pf as $U, iu * nf as $U, frac(fee, 20_000), frac(fee, 10_000), frac(recv, 100),
                    // position impact, order fee
                    UNIT * 2, iu * (pf / 2) as $U, iu * nf as $U, frac(fee, 20_000), frac(fee, 10_000), frac(recv, 100),
                    // distribution, borrowing receiver, reserve factors
                    *r.pick(&[0 as $U, UNIT, UNIT / 1000]), *r.pick(&[0 as $U, 1_000_000_000]), frac(recv, 100), *r.pick(&[UNIT, UNIT / 2, UNIT * 2]), *r.pick(&[UNIT, UNIT / 2]),
                    // pnl factors: deposit withdrawal trader adl minAfterAdl
                    frac(60, 100), frac(30, 100), *r.pick(&[frac(50, 100), frac(10, 100), frac(1, 100), UNIT]), frac(50, 100), 0,
                    // max pool amount / value / OI, ignore OI, divisor, funding adjustment, vi swaps, vi positions
                    (1_000_000_000 as $U) * (1_000_000_000 as $U) * if SCALE > 1 { 1_000_000_000 } else { 1 }, <$U>::MAX / 4, *r.pick(&[<$U>::MAX / 4, (100_000_000_000_000 as $U) * SCALE]), r.below(2) as $U,
                    if SCALE > 1 { SCALE } else { 1 }, if SCALE > 1 { 10_000_000_000 } else { 10_000 }, 0, r.below(2) as $U,
                    // position params: min size, min collateral value, min collateral factor, liq factor, max pos/neg/liq impact factors
                    *r.pick(&[UNIT, UNIT, 0, UNIT * 10]), *r.pick(&[UNIT, UNIT, 0, UNIT * 5]), mcf, *r.pick(&[mcf, mcf / 2, mcf * 2]),
                    *r.pick(&[frac(5, 1000), frac(5, 100), 0]), *r.pick(&[frac(5, 1000), frac(5, 100), UNIT]), *r.pick(&[frac(25, 10_000), 0, frac(1, 100)]),
                    // min collateral factor for OI multiplier, liquidation fee factor / receiver
                    *r.pick(&[0 as $U, (5 * (UNIT / 1000)) / 83_000_000 / SCALE.max(1)]), *r.pick(&[0 as $U, frac(2, 1000), frac(1, 100)]), frac(recv, 100),
                    // funding: exponent factor inc dec max min thrStable thrDecrease
                    UNIT * *r.pick(&[1 as $U, 1, 2]), *r.pick(&[0 as $U, iu * 20, UNIT / 100_000, UNIT / 50]), if adaptive { *r.pick(&[iu, iu * 10, iu * 200]) } else { 0 },
                    *r.pick(&[0 as $U, iu, iu * 50]), fmx, *r.pick(&[0 as $U, fmx / 30, fmx / 3]), *r.pick(&[0 as $U, UNIT / 20, UNIT / 2]), *r.pick(&[0 as $U, UNIT / 100, UNIT / 4]),
                    // borrowing: skip expL facL expS facS optimal base above
                    r.below(3).min(1) as $U, UNIT * *r.pick(&[1 as $U, 1, 2]), *r.pick(&[0 as $U, iu * 28, UNIT / 100_000_000 * 30, UNIT / 1_000_000]),
                    UNIT * *r.pick(&[1 as $U, 1, 2]), *r.pick(&[0 as $U, iu * 28, UNIT / 100_000_000 * 30, UNIT / 1_000_000]), opt, base, above,
                ]
            }

            pub fn pools(m: &M) -> Vec<TestPool<$U>> {
                vec![m.primary, m.swap_impact, m.fee, m.open_interest.0, m.open_interest.1, m.open_interest_in_tokens.0,
                     m.open_interest_in_tokens.1, m.position_impact, m.borrowing_factor, m.funding_amount_per_size.0,
                     m.funding_amount_per_size.1, m.claimable_funding_amount_per_size.0, m.claimable_funding_amount_per_size.1,
                     m.collateral_sum.0, m.collateral_sum.1, m.total_borrowing]
            }

            pub fn market_digest(m: &M) -> String {
                use gmsol_model::ClockKind;
                let ps: Vec<String> = pools(m).iter().map(|p| format!("{},{}", p.long_amount, p.short_amount)).collect();
                let ck = |k: ClockKind| m.clocks.get(&k).map(|c| c.to_string()).unwrap_or("_".into());
                let op = |p: &Option<TestPool<$U>>| p.map(|p| format!("{},{}", p.long_amount, p.short_amount)).unwrap_or("_".into());
                format!("{} s={} ff={} now={} ck={},{},{} vi={} vp={}", ps.join(";"), m.total_supply, m.funding_factor_per_second, m.now,
                    ck(ClockKind::PriceImpactDistribution), ck(ClockKind::Borrowing), ck(ClockKind::Funding), op(&m.vi_swaps), op(&m.vi_positions))
            }

            pub fn fees_str(f: &PositionFees<$U>) -> String {
                // C02 on position fees (exact split): what goes to the pool plus what goes to the fee receiver is exactly what the
                // position is charged (excluding funding) — order, borrowing and liquidation fees together
                {
                    let (pool, recv, total) = (f.for_pool::<$D>(), f.for_receiver(), f.total_cost_excluding_funding());
                    if let (Ok(pool), Ok(recv), Ok(total)) = (&pool, &recv, &total) {
                        let sum = (*pool as u128).checked_add(*recv as u128);
                        if sum != Some(*total as u128) {
                            crate::perp::FEE_SPLIT_FAILS.lock().unwrap().push(format!("position fees are not split exactly: for_pool {pool} + for_receiver {recv} != total cost excluding funding {total} (liquidation fees: {})", f.liquidation_fees().map(|l| format!("{} of which receiver {}", l.fee_amount(), l.fee_amount_for_receiver())).unwrap_or("none".into())));
                        }
                    }
                }
                let l = match f.liquidation_fees() { Some(l) => format!("{},{},{}", l.fee_value(), l.fee_amount(), l.fee_amount_for_receiver()), None => "_".into() };
                format!("{} {} {} {} {} {} {} {} {} {}", f.paid_order_and_borrowing_fee_value(), f.order_fees().fee_amounts().fee_amount_for_pool(), f.order_fees().fee_amounts().fee_amount_for_receiver(),
                    f.order_fees().fee_value(), f.borrowing_fees().fee_amount(), f.borrowing_fees().fee_amount_for_receiver(), f.funding_fees().amount(),
                    f.funding_fees().claimable_long_token_amount(), f.funding_fees().claimable_short_token_amount(), l)
            }

            impl Session {
                pub fn digest(&self) -> String {
                    let ps: Vec<String> = self.ps.iter().map(|(id, p)| format!("{id}:{}{},{},{},{},{},{},{},{}", p.is_long as u8, p.is_collateral_token_long as u8,
                        p.collateral_token_amount, p.size_in_usd, p.size_in_tokens, p.borrowing_factor, p.funding_fee_amount_per_size,
                        p.claimable_funding_fee_amount_per_size.0, p.claimable_funding_fee_amount_per_size.1)).collect();
                    format!("{} | {}", market_digest(&self.m), ps.join(";"))
                }

                /// run `f` on a copy; commit only on success (the on-chain revertible semantics)
                fn atomic<R>(&mut self, f: impl FnOnce(&mut M, &mut BTreeMap<u64, P>) -> gmsol_model::Result<R>) -> gmsol_model::Result<R> {
                    let (mut m, mut ps) = (self.m.clone(), self.ps.clone());
                    let r = f(&mut m, &mut ps);
                    if r.is_ok() { self.m = m; self.ps = ps; }
                    r
                }

                /// `None` = bad-op; otherwise the response without the digest
                pub fn op(&mut self, op: &str, a: &[&str]) -> Option<String> {
                    let n = |i: usize| -> Option<$U> { a.get(i)?.parse::<$U>().ok() };
                    let b = |i: usize| -> Option<bool> { match *a.get(i)? { "1" => Some(true), "0" => Some(false), _ => None } };
                    let prices_at = |i: usize| -> Option<Prices<$U>> {
                        if a.len() != i + 6 { return None; }
                        Some(Prices { index_token_price: Price { min: n(i)?, max: n(i + 1)? }, long_token_price: Price { min: n(i + 2)?, max: n(i + 3)? }, short_token_price: Price { min: n(i + 4)?, max: n(i + 5)? } })
                    };
                    match op {
                        "tick" => { if a.len() != 1 { return None; } let secs: u64 = a[0].parse().ok()?; self.m.now = self.m.now.checked_add(secs)?; Some("ok".into()) }
                        "setpool" => {
                            if a.len() != 3 { return None; }
                            let k: usize = a[0].parse().ok()?;
                            let p = TestPool { long_amount: n(1)?, short_amount: n(2)? };
                            let m = &mut self.m;
                            match k { 0 => m.primary = p, 1 => m.swap_impact = p, 2 => m.fee = p, 3 => m.open_interest.0 = p, 4 => m.open_interest.1 = p,
                                5 => m.open_interest_in_tokens.0 = p, 6 => m.open_interest_in_tokens.1 = p, 7 => m.position_impact = p, 8 => m.borrowing_factor = p,
                                9 => m.funding_amount_per_size.0 = p, 10 => m.funding_amount_per_size.1 = p, 11 => m.claimable_funding_amount_per_size.0 = p,
                                12 => m.claimable_funding_amount_per_size.1 = p, 13 => m.collateral_sum.0 = p, 14 => m.collateral_sum.1 = p, 15 => m.total_borrowing = p, _ => return None }
                            Some("ok".into())
                        }
                        "dist" => {
                            if !a.is_empty() { return None; }
                            Some(match self.atomic(|m, _| m.distribute_position_impact()?.execute()) { Ok(r) => format!("ok {} {}", r.distribution_amount(), r.next_position_impact_pool_amount()), Err(e) => crate::perp::perp_err(&e) })
                        }
                        "ubor" => {
                            let pr = prices_at(0)?;
                            Some(match self.atomic(|m, _| m.update_borrowing(&pr)?.execute()) { Ok(_) => format!("ok {} {}", self.m.borrowing_factor.long_amount, self.m.borrowing_factor.short_amount), Err(e) => crate::perp::perp_err(&e) })
                        }
                        "ufund" => {
                            let pr = prices_at(0)?;
                            Some(match self.atomic(|m, _| m.update_funding(&pr)?.execute()) { Ok(_) => format!("ok {}", self.m.funding_factor_per_second), Err(e) => crate::perp::perp_err(&e) })
                        }
                        "open" => {
                            if a.len() != 3 { return None; }
                            let pid: u64 = a[0].parse().ok()?;
                            if self.ps.contains_key(&pid) { return None; }
                            let (il, cl) = (b(1)?, b(2)?);
                            self.ps.insert(pid, if il { P::long(cl) } else { P::short(cl) });
                            Some("ok".into())
                        }
                        "inc" => {
                            let pid: u64 = a.first()?.parse().ok()?;
                            let (coll, size) = (n(1)?, n(2)?);
                            let pr = prices_at(3)?;
                            if !self.ps.contains_key(&pid) { return None; }
                            Some(match self.atomic(|m, ps| ps.get_mut(&pid).unwrap().ops(m).increase(pr, coll, size, None)?.execute()) {
                                Ok(r) => format!("ok {} {} {} {} {}", r.execution().price_impact_value(), r.execution().price_impact_amount(), r.execution().size_delta_in_tokens(), r.collateral_delta_amount(), fees_str(r.fees())),
                                Err(e) => crate::perp::perp_err(&e),
                            })
                        }
                        "dec" => {
                            let pid: u64 = a.first()?.parse().ok()?;
                            let (size, wd) = (n(1)?, n(2)?);
                            let flags = DecreasePositionFlags { is_insolvent_close_allowed: b(3)?, is_liquidation_order: b(4)?, is_cap_size_delta_usd_allowed: b(5)? };
                            let pr = prices_at(6)?;
                            if !self.ps.contains_key(&pid) { return None; }
                            let reports_before = self.m.insufficient_funding_log.len();
                            Some(match self.atomic(|m, ps| ps.get_mut(&pid).unwrap().ops(m).decrease(pr, size, None, wd, flags)?.execute()) {
                                // last field: was `on_insufficient_funding_fee_payment` called by this decrease
                                Ok(r) => format!("ok {} {} {} {} {} {} {} {} {} {} {} {} {} {} {} {} {}", r.size_delta_usd(), r.size_delta_in_tokens(), r.price_impact_value(), r.price_impact_diff(),
                                    r.pnl().pnl(), r.pnl().uncapped_pnl(), r.withdrawable_collateral_amount(), r.should_remove() as u8, r.output_amount(), r.secondary_output_amount(),
                                    r.claimable_collateral_for_holding().output_token_amount(), r.claimable_collateral_for_holding().secondary_output_token_amount(),
                                    r.claimable_collateral_for_user().output_token_amount(), r.claimable_collateral_for_user().secondary_output_token_amount(),
                                    crate::perp::step_tag(r.insolvent_close_step()), fees_str(r.fees()), (self.m.insufficient_funding_log.len() > reports_before) as u8),
                                Err(e) => crate::perp::perp_err(&e),
                            })
                        }
                        // mkt-liq's liquidity operations WITH the session's open interest (pool value with pending
                        // borrowing fees and capped pnl)
                        "dep" => {
                            let (l, sh) = (n(0)?, n(1)?);
                            let pr = prices_at(2)?;
                            Some(match self.atomic(|m, _| m.deposit(l, sh, pr)?.execute()) {
                                Ok(r) => format!("ok {} {} {} {} {} {}", r.minted(), r.price_impact(), r.long_token_fees().fee_amount_for_pool(), r.long_token_fees().fee_amount_for_receiver(),
                                    r.short_token_fees().fee_amount_for_pool(), r.short_token_fees().fee_amount_for_receiver()),
                                Err(e) => format!("err {}", crate::mkt::err_tag(&e)),
                            })
                        }
                        "wdr" => {
                            let amt = n(0)?;
                            let pr = prices_at(1)?;
                            Some(match self.atomic(|m, _| m.withdraw(amt, pr)?.execute()) {
                                Ok(r) => format!("ok {} {} {} {} {} {}", r.long_token_output(), r.short_token_output(), r.long_token_fees().fee_amount_for_pool(), r.long_token_fees().fee_amount_for_receiver(),
                                    r.short_token_fees().fee_amount_for_pool(), r.short_token_fees().fee_amount_for_receiver()),
                                Err(e) => format!("err {}", crate::mkt::err_tag(&e)),
                            })
                        }
                        "swap" => {
                            let il = b(0)?; let amt = n(1)?;
                            let pr = prices_at(2)?;
                            Some(match self.atomic(|m, _| m.swap(il, amt, pr)?.execute()) {
                                Ok(r) => format!("ok {} {} {} {} {}", r.token_out_amount(), r.price_impact(), r.price_impact_amount(), r.token_in_fees().fee_amount_for_pool(), r.token_in_fees().fee_amount_for_receiver()),
                                Err(e) => format!("err {}", crate::mkt::err_tag(&e)),
                            })
                        }
                        "pv" => {
                            let kind = match *a.first()? { "0" => PnlFactorKind::MaxAfterDeposit, "1" => PnlFactorKind::MaxAfterWithdrawal, "2" => PnlFactorKind::MaxForTrader, "3" => PnlFactorKind::ForAdl, "4" => PnlFactorKind::MinAfterAdl, _ => return None };
                            let mx = b(1)?;
                            let pr = prices_at(2)?;
                            Some(match self.m.pool_value(&pr, kind, mx) { Ok(v) => format!("ok {v}"), Err(_) => "err Fail".into() })
                        }
                        "chk" => {
                            let pid: u64 = a.first()?.parse().ok()?;
                            let (mc, fl) = (b(1)?, b(2)?);
                            let pr = prices_at(3)?;
                            let mut p = self.ps.get(&pid)?.clone();
                            let mut m = self.m.clone();
                            use gmsol_model::position::LiquidatableReason as R;
                            Some(match p.ops(&mut m).check_liquidatable(&pr, mc, fl) {
                                Ok(None) => "ok none".into(),
                                Ok(Some(r)) => format!("ok {}", match r { R::MinCollateral => "mincollateral", R::NotPositive => "notpositive", R::MinCollateralForLeverage => "leverage" }),
                                Err(e) => crate::perp::perp_err(&e),
                            })
                        }
                        _ => None,
                    }
                }
            }



            // ------------------------------------------------------------------ oracles (exact big-integer arithmetic)
            use num_bigint::{BigInt, BigUint};

            fn bu(x: $U) -> BigInt { BigInt::from(BigUint::from(x)) }

            /// C07: per side and collateral token, OI (USD, tokens) and collateral sums equal the sums over positions
            pub fn check_c07(s: &Session) -> Option<String> {
                for il in [true, false] { for cl in [true, false] {
                    let (mut a, mut b, mut c) = (BigInt::from(0), BigInt::from(0), BigInt::from(0));
                    for p in s.ps.values().filter(|p| p.is_long == il && p.is_collateral_token_long == cl) { a += bu(p.size_in_usd); b += bu(p.size_in_tokens); c += bu(p.collateral_token_amount); }
                    let side = |x: &(TestPool<$U>, TestPool<$U>)| { let q = if il { x.0 } else { x.1 }; if cl { q.long_amount } else { q.short_amount } };
                    if bu(side(&s.m.open_interest)) != a { return Some(format!("open interest (USD) of side long={il} collateral_long={cl} is {} but the positions sum to {a}", side(&s.m.open_interest))); }
                    if bu(side(&s.m.open_interest_in_tokens)) != b { return Some(format!("open interest in tokens of side long={il} collateral_long={cl} is {} but the positions sum to {b}", side(&s.m.open_interest_in_tokens))); }
                    if bu(side(&s.m.collateral_sum)) != c { return Some(format!("collateral sum of side long={il} collateral_long={cl} is {} but the positions sum to {c}", side(&s.m.collateral_sum))); }
                } }
                None
            }

            /// C08 ledger of accounted holdings per pool token: `[long token, short token]`
            pub fn ledger(m: &M) -> [BigInt; 2] {
                let f = |il: bool| { let g = |p: &TestPool<$U>| bu(if il { p.long_amount } else { p.short_amount }); g(&m.primary) + g(&m.swap_impact) + g(&m.fee) + g(&m.collateral_sum.0) + g(&m.collateral_sum.1) };
                [f(true), f(false)]
            }

            /// Σ pending funding fee payable / claimable per token over all positions: `(payable, claimable)`
            pub fn pending_funding(s: &Session) -> Option<([BigInt; 2], [BigInt; 2])> {
                let mut pay = [BigInt::from(0), BigInt::from(0)]; let mut cl = [BigInt::from(0), BigInt::from(0)];
                let mut m = s.m.clone();
                for p in s.ps.values() {
                    let mut q = p.clone();
                    let f = q.ops(&mut m).pending_funding_fees().ok()?;
                    pay[if p.is_collateral_token_long { 0 } else { 1 }] += bu(*f.amount());
                    cl[0] += bu(*f.claimable_long_token_amount()); cl[1] += bu(*f.claimable_short_token_amount());
                }
                Some((pay, cl))
            }

            /// C12 on the real state: for every position the funding snapshots are at most the market's indices (the invariant
            /// behind `pending_funding_defined`), `pending_funding_fees` is defined, and its three amounts are the ones recomputed
            /// here from the indices and snapshots (fee rounded up, claimable amounts rounded down; never negative)
            pub fn check_c12(s: &Session) -> Option<String> {
                let m = &s.m;
                let den = bu(m.funding_amount_per_size_adjustment) * bu(UNIT);
                if den == BigInt::from(0) { return None; }
                let mut mm = m.clone();
                for (id, p) in s.ps.iter() {
                    let (fa, cf) = if p.is_long { (m.funding_amount_per_size.0, m.claimable_funding_amount_per_size.0) } else { (m.funding_amount_per_size.1, m.claimable_funding_amount_per_size.1) };
                    let idx = [bu(if p.is_collateral_token_long { fa.long_amount } else { fa.short_amount }), bu(cf.long_amount), bu(cf.short_amount)];
                    let snap = [bu(p.funding_fee_amount_per_size), bu(p.claimable_funding_fee_amount_per_size.0), bu(p.claimable_funding_fee_amount_per_size.1)];
                    let name = ["funding fee amount per size", "claimable funding amount per size (long token)", "claimable funding amount per size (short token)"];
                    for k in 0..3 { if snap[k] > idx[k] { return Some(format!("position {id}: snapshot of the {} is {} but the market's index is {}: the pending amount would be negative", name[k], snap[k], idx[k])); } }
                    let size = bu(p.size_in_usd);
                    let exp = [(&size * (&idx[0] - &snap[0]) + &den - 1) / &den, &size * (&idx[1] - &snap[1]) / &den, &size * (&idx[2] - &snap[2]) / &den];
                    let mut q = p.clone();
                    match q.ops(&mut mm).pending_funding_fees() {
                        Err(_) => {
                            // only a result that does not fit the number type may fail here
                            let lim = BigInt::from(1) << W;
                            if exp.iter().all(|x| *x < lim) { return Some(format!("position {id}: pending_funding_fees is not defined (expected {} / {} / {})", exp[0], exp[1], exp[2])); }
                        }
                        Ok(f) => {
                            let got = [bu(*f.amount()), bu(*f.claimable_long_token_amount()), bu(*f.claimable_short_token_amount())];
                            if got != exp { return Some(format!("position {id}: pending funding amounts are {:?} but the indices and snapshots give {:?}", got, exp)); }
                        }
                    }
                }
                None
            }

            /// C09: the liquidation criterion recomputed from first principles with exact integers, reading only
            /// raw state (pools, position fields) and the configuration numbers given to `perp new`; it does not call
            /// `check_liquidatable` nor any of the functions it is composed of. Remaining collateral value =
            /// collateral value at the min price + pnl (trader-capped) of a full close + the hypothetical close price
            /// impact ONLY IF NEGATIVE (capped by the liquidation impact factor) − close costs (order, borrowing,
            /// funding fees at the min price); compared with the min collateral value (if `mc`) and
            /// `factor × size` (liquidation factor if `fl`). `None`: not computable here (empty position, non-integer
            /// exponent, state on which the implementation's computation fails). `count_positive` (coverage statistics
            /// only): the WRONG criterion that also counts a positive impact.
            pub fn health(s: &Session, cfg: &[BigInt], pid: u64, pr: &[BigInt], mc: bool, fl: bool, count_positive: bool) -> Option<&'static str> {
                if cfg.len() != 56 || pr.len() != 6 { return None; }
                let p = s.ps.get(&pid)?;
                let m = &s.m;
                let z = BigInt::from(0);
                let u = bu(UNIT);
                let (il, cl) = (p.is_long, p.is_collateral_token_long);
                let (size, tokens, coll) = (bu(p.size_in_usd), bu(p.size_in_tokens), bu(p.collateral_token_amount));
                if size == z || tokens == z { return None; }
                let (imin, imax) = (&pr[0], &pr[1]);
                let cpmin = if cl { &pr[2] } else { &pr[4] };
                if *cpmin == z || *imin == z { return None; }
                let side = |x: &(TestPool<$U>, TestPool<$U>)| if il { x.0 } else { x.1 };
                let tot = |q: TestPool<$U>| bu(q.long_amount) + bu(q.short_amount);
                // ---- pnl of a full close, with the trader cap
                let uncapped = if il { &tokens * imin - &size } else { &size - &tokens * imax };
                let total = if uncapped > z {
                    let pool_value = bu(if il { m.primary.long_amount } else { m.primary.short_amount }) * (if il { &pr[2] } else { &pr[4] });
                    let (oi, oit) = (tot(side(&m.open_interest)), tot(side(&m.open_interest_in_tokens)));
                    let pool_pnl = if oi == z && oit == z { z.clone() } else if il { &oit * imax - &oi } else { &oi - &oit * imin };
                    if pool_pnl > z {
                        let max_pnl = &pool_value * &cfg[19] / &u;
                        if pool_pnl > max_pnl { &max_pnl * &uncapped / &pool_pnl } else { uncapped.clone() }
                    } else { uncapped.clone() }
                } else { uncapped.clone() };
                let pnl = &tokens * &total / &tokens;
                // ---- hypothetical price impact of closing the whole size
                let (e, fpos, fneg) = (&cfg[6], &cfg[7], &cfg[8]);
                if e % &u != z { return None; }
                let k = (e / &u).to_string().parse::<u32>().ok()?;
                if k > 8 { return None; }
                let (apos, aneg) = if fpos > fneg { (fneg.clone(), fneg.clone()) } else { (fpos.clone(), fneg.clone()) };
                let apply = |v: &BigInt, f: &BigInt| -> BigInt {
                    let pw = if *v < u { z.clone() } else if *v == u || k == 0 { u.clone() } else if k == 1 { v.clone() } else { let mut acc = u.clone(); for _ in 0..k { acc = acc * v / &u; } acc };
                    pw * f / &u
                };
                let absd = |a: &BigInt, b: &BigInt| if a >= b { a - b } else { b - a };
                // (value, improved)
                let impact = |cl_: &BigInt, cs: &BigInt, nl: &BigInt, ns: &BigInt| -> (BigInt, bool) {
                    let (i0, i1) = (absd(cl_, cs), absd(nl, ns));
                    let v = if (cl_ <= cs) == (nl <= ns) {
                        let pos = i1 < i0; let f = if pos { &apos } else { &aneg };
                        let d = absd(&apply(&i0, f), &apply(&i1, f)); if pos { d } else { -d }
                    } else {
                        let (a, b) = (apply(&i0, &apos), apply(&i1, &aneg)); let d = absd(&a, &b); if a > b { d } else { -d }
                    };
                    (v, i1 < i0)
                };
                let (ol, os) = (tot(m.open_interest.0), tot(m.open_interest.1));
                let (dl, ds) = if il { (-&size, z.clone()) } else { (z.clone(), -&size) };
                let (nl, ns) = (&ol + &dl, &os + &ds);
                if nl < z || ns < z { return None; }
                let mut imp = impact(&ol, &os, &nl, &ns);
                if imp.0 < z { if let Some(vi) = m.vi_positions {
                    let (l, sh) = (bu(vi.long_amount), bu(vi.short_amount));
                    let (a, b) = if l >= sh { (&l - &sh, z.clone()) } else { (z.clone(), &sh - &l) };
                    let (a, b) = (a + &size, b + &size);
                    let (vl, vs) = (&a + &dl, &b + &ds);
                    if vl < z || vs < z { return None; }
                    let vimp = impact(&a, &b, &vl, &vs);
                    if vimp.0 < imp.0 { imp = vimp; }
                } }
                let counted = if imp.0 < z { let floor = -(&size * &cfg[36] / &u); if imp.0 < floor { floor } else { imp.0.clone() } } else if count_positive { imp.0.clone() } else { z.clone() };
                // ---- close costs
                let order = &size * (if imp.1 { &cfg[9] } else { &cfg[10] }) / &u / cpmin;
                let cum = bu(if il { m.borrowing_factor.long_amount } else { m.borrowing_factor.short_amount });
                let pbf = bu(p.borrowing_factor);
                if cum < pbf { return None; }
                let borrow = &size * (&cum - &pbf) / &u / cpmin;
                let faps = { let q = side(&m.funding_amount_per_size); bu(if cl { q.long_amount } else { q.short_amount }) };
                let pf = bu(p.funding_fee_amount_per_size);
                if faps < pf { return None; }
                let den = &cfg[27] * &u;
                if den == z { return None; }
                let funding = (&size * (&faps - &pf) + &den - 1) / &den;
                let cost = (order + borrow + funding) * cpmin;
                let rem = &coll * cpmin + pnl + counted - cost;
                // ---- thresholds
                let factor = if fl { &cfg[33] } else { &cfg[32] };
                Some(if rem < z { if mc { "mincollateral" } else { "notpositive" } }
                    else if mc && rem < cfg[31] { "mincollateral" }
                    else if rem == z { "notpositive" }
                    else if rem < &size * factor / &u { "leverage" } else { "none" })
            }

            /// C11: the position's total pnl from first principles (exact integers, raw state only):
            /// `(is_long, size, tokens, uncapped total, trader-capped total)` at the prices `pr` (index min,max, long min,max, short min,max)
            pub fn pnl_totals(s: &Session, cfg: &[BigInt], pid: u64, pr: &[BigInt]) -> Option<(bool, BigInt, BigInt, BigInt, BigInt)> {
                if cfg.len() != 56 || pr.len() != 6 { return None; }
                let p = s.ps.get(&pid)?;
                let m = &s.m;
                let z = BigInt::from(0);
                let il = p.is_long;
                let (size, tokens) = (bu(p.size_in_usd), bu(p.size_in_tokens));
                if size == z || tokens == z { return None; }
                let (imin, imax) = (&pr[0], &pr[1]);
                let side = |x: &(TestPool<$U>, TestPool<$U>)| if il { x.0 } else { x.1 };
                let tot = |q: TestPool<$U>| bu(q.long_amount) + bu(q.short_amount);
                let uncapped = if il { &tokens * imin - &size } else { &size - &tokens * imax };
                let total = if uncapped > z {
                    let pool_value = bu(if il { m.primary.long_amount } else { m.primary.short_amount }) * (if il { &pr[2] } else { &pr[4] });
                    let (oi, oit) = (tot(side(&m.open_interest)), tot(side(&m.open_interest_in_tokens)));
                    let pool_pnl = if oi == z && oit == z { z.clone() } else if il { &oit * imax - &oi } else { &oi - &oit * imin };
                    if pool_pnl > z {
                        let max_pnl = &pool_value * &cfg[19] / bu(UNIT);
                        if pool_pnl > max_pnl { &max_pnl * &uncapped / &pool_pnl } else { uncapped.clone() }
                    } else { uncapped.clone() }
                } else { uncapped.clone() };
                Some((il, size, tokens, uncapped, total))
            }

            /// whole-market oracle (C13 on the market): the total-borrowing pool of each side equals
            /// Σ ⌊size · borrowing-factor snapshot / UNIT⌋ over that side's positions, recomputed here from the positions
            pub fn check_total_borrowing(s: &Session) -> Option<String> {
                for il in [true, false] {
                    let mut sum = BigInt::from(0);
                    for p in s.ps.values().filter(|p| p.is_long == il) { sum += bu(p.size_in_usd) * bu(p.borrowing_factor) / bu(UNIT); }
                    let tb = if il { s.m.total_borrowing.long_amount } else { s.m.total_borrowing.short_amount };
                    if bu(tb) != sum { return Some(format!("total borrowing of side long={il} is {tb} but the positions sum to {sum}")); }
                }
                None
            }

            /// the ten indices that may only grow: cumulative borrowing factors, funding and claimable funding amounts per size
            pub fn indices(s: &Session) -> Vec<BigInt> {
                let m = &s.m;
                [m.borrowing_factor, m.funding_amount_per_size.0, m.funding_amount_per_size.1, m.claimable_funding_amount_per_size.0, m.claimable_funding_amount_per_size.1]
                    .iter().flat_map(|q| [bu(q.long_amount), bu(q.short_amount)]).collect()
            }

            // ------------------------------------------------------------------ history generator
            /// produces the next request of a random history relative to the current session state
            /// bisection on the collateral of a fresh position towards the smallest amount an increase accepts
            pub struct Bisect { pub pid: u64, pub il: bool, pub cl: bool, pub size: $U, pub lo: $U, pub hi: $U, pub cur: $U, pub steps: u32, pub pr: String, pub first: bool }
            pub struct HistGen { pub long_hist: bool, pub sid: String, pub left: u32, pub px: u64, pub next_pid: u64, pub stage: u32, pub pending: Vec<String>, pub roundtrip: bool, pub mcf: $U, pub bisect: Option<Bisect> }

            impl HistGen {
                pub fn new(r: &mut Rng, sid: String, roundtrip: bool) -> Self {
                    HistGen { long_hist: false, sid, left: 10 + r.below(40) as u32, px: 50 + r.below(200), next_pid: 0, stage: 0, pending: vec![], roundtrip, mcf: 0, bisect: None }
                }

                pub fn price_str(&self, r: &mut Rng) -> String {
                    let spread = if self.roundtrip { 0 } else { r.below(3) };
                    let (a, b) = (self.px as $U * SCALE, (self.px + spread) as $U * SCALE);
                    format!("{a} {b} {a} {b} {} {}", SCALE, SCALE)
                }

                pub fn next(&mut self, r: &mut Rng, db: &std::collections::HashMap<String, Session>) -> Option<String> {
                    if let Some(q) = self.pending.pop() { return Some(q); }
                    let sid = self.sid.clone();
                    match self.stage {
                        0 => { self.stage = 1; let cv = random_cfg(r); self.mcf = cv[32]; let c: Vec<String> = cv.iter().map(|x| x.to_string()).collect(); return Some(format!("perp new {sid} {W} {UNIT} {}", c.join(" "))); }
                        1 => { self.stage = 2; return Some(format!("perp setpool {sid} 0 {} {}", 1_000_000_000 + r.below(1_000_000_000_000), r.below(100_000_000_000_000))); }
                        2 => { self.stage = 3; return Some(format!("perp setpool {sid} 7 {} 0", *r.pick(&[0u64, 1_000_000, 50_000_000_000]))); }
                        3 => { self.stage = 4; let p = self.price_str(r); self.pending = vec![format!("perp ufund {sid} {p}"), format!("perp ubor {sid} {p}")];
                            // half of the histories: liquidity provided by a real deposit too (market token supply > 0)
                            if r.chance(1, 2) { self.pending.push(format!("perp dep {sid} {} {} {p}", 1_000_000_000 + r.below(1_000_000_000_000), r.below(100_000_000_000_000))); }
                            return Some(format!("perp dist {sid}")); }
                        _ => {}
                    }
                    let s = db.get(&sid)?;
                    // bisection in progress: look at the outcome of the last attempt and halve the interval
                    if let Some(mut b) = self.bisect.take() {
                        let accepted = s.ps.get(&b.pid).map(|p| p.size_in_usd != 0).unwrap_or(false);
                        // (a rejected first attempt ends the bisection)
                        if accepted || !b.first {
                            if accepted { b.hi = b.cur; } else { b.lo = b.cur; }
                            b.first = false;
                            b.steps -= 1;
                            if b.steps > 0 && b.hi > b.lo + 1 {
                                b.cur = b.lo + (b.hi - b.lo) / 2;
                                let pr = b.pr.clone();
                                if accepted {
                                    // close the accepted position and try a smaller collateral on a fresh one
                                    let old = b.pid; b.pid = self.next_pid; self.next_pid += 1;
                                    self.pending = vec![format!("perp chk {sid} {} 1 0 {pr}", b.pid), format!("perp inc {sid} {} {} {} {pr}", b.pid, b.cur, b.size), format!("perp open {sid} {} {} {}", b.pid, b.il as u8, b.cl as u8)];
                                    let q = format!("perp dec {sid} {old} {} 0 0 0 1 {pr}", b.size);
                                    self.bisect = Some(b);
                                    return Some(q);
                                }
                                let q = format!("perp inc {sid} {} {} {} {pr}", b.pid, b.cur, b.size);
                                self.pending = vec![format!("perp chk {sid} {} 1 0 {pr}", b.pid)];
                                self.bisect = Some(b);
                                return Some(q);
                            }
                        }
                    }
                    if self.left == 0 { return None; }
                    self.left -= 1;
                    if r.chance(1, 4) { self.px = (self.px as i64 + r.below(21) as i64 - 10).max(2) as u64; }
                    let pr = self.price_str(r);
                    let open: Vec<(u64, &P)> = s.ps.iter().filter(|(_, p)| p.size_in_usd != 0 || p.collateral_token_amount != 0).map(|(k, p)| (*k, p)).collect();
                    let pick = r.below(12);
                    if self.roundtrip && (r.chance(1, 2) || self.left == 0) {
                        // open a fresh position and close it at once at unchanged prices, no time in between (C10); the other
                        // half of the operations of a round-trip history is the ordinary mix below, so that the pairs run on
                        // market states reached by real histories: other positions open on both sides and both collateral
                        // tokens, clock advanced, funding / borrowing / impact distribution updated, deposits and withdrawals
                        let pid = self.next_pid; self.next_pid += 1;
                        let (il, cl) = (r.chance(1, 2), r.chance(1, 2));
                        let size = (*r.pick(&[1_000_000_000u64, 20_000_000_000, 500_000_000_000, 5_000_000_000_000]) + r.below(1_000_000_000)) as $U * SCALE;
                        let cval = (size / SCALE) as u64 / (1 + r.below(30)) + r.below(2_000_000_000);
                        let c = (if cl { cval / self.px.max(1) } else { cval }) as $U;
                        // the close: exactly the size / requested far above the size with the cap flag (capped) / slightly below the
                        // size (promoted to a full close when the remainder is under the minimum position size)
                        let mode = r.below(4);
                        let requested = match mode { 2 => size.saturating_mul(r.range(2, 9) as $U), 3 => size - (UNIT / 2).min(size), _ => size };
                        self.pending = vec![format!("perp dec {sid} {pid} {requested} 0 0 0 1 {pr}"), format!("perp inc {sid} {pid} {c} {size} {pr}")];
                        if mode == 2 {
                            // another trader holds at least the requested size on the same side, so a decrease of the REQUESTED size
                            // would be computable and would improve the balance
                            let o = self.next_pid; self.next_pid += 1; let os = requested.saturating_add(size); let oc = (os / SCALE / 4) as $U;
                            self.pending.push(format!("perp inc {sid} {o} {} {os} {pr}", if cl { oc / self.px.max(1) as $U } else { oc }));
                            self.pending.push(format!("perp open {sid} {o} {} {}", il as u8, cl as u8));
                        } else if r.chance(1, 3) { let o = self.next_pid; self.next_pid += 1; let os = size / 2 * r.range(1, 6) as $U; let oc = (os / SCALE / 5) as $U;
                            // someone else moves the open interest first
                            self.pending.push(format!("perp inc {sid} {o} {} {os} {pr}", if cl { oc / self.px.max(1) as $U } else { oc }));
                            self.pending.push(format!("perp open {sid} {o} {} {}", r.below(2), cl as u8)); }
                        return Some(format!("perp open {sid} {pid} {} {}", il as u8, cl as u8));
                    }
                    match pick {
                        0 | 1 | 2 => {
                            // increase a new or existing position, then check its health
                            let new = open.is_empty() || r.chance(1, 2);
                            let (pid, cl) = if new { let pid = self.next_pid; self.next_pid += 1; (pid, r.chance(1, 2)) } else { let (k, p) = open[r.below(open.len() as u64) as usize]; (k, p.is_collateral_token_long) };
                            let size = (*r.pick(&[0u64, 1_000_000_000, 20_000_000_000, 500_000_000_000, 5_000_000_000_000]) + r.below(1_000_000_000)) as $U * SCALE;
                            // a third of the new positions: on the heavier side (closing it would improve the balance, so the
                            // hypothetical close impact is positive) with collateral within a few percent of the leverage threshold
                            let near = new && size != 0 && r.chance(1, 3);
                            let cval = if near { let need = ((size / SCALE) / 1_000_000 * (self.mcf / (UNIT / 1_000_000))) as u64; need / 100 * (90 + r.below(80)) + r.below(3) }
                                else { (size / SCALE) as u64 / (1 + r.below(30)) + r.below(2_000_000_000) };
                            // a third of the increases of EXISTING positions add size without adding collateral (fees are then taken
                            // from the position's collateral: the collateral delta is negative)
                            let c = if !new && size != 0 && r.chance(1, 3) { 0 } else { (if cl { cval / self.px.max(1) } else { cval }) as $U };
                            self.pending = vec![format!("perp chk {sid} {pid} 1 1 {pr}"), format!("perp chk {sid} {pid} 1 0 {pr}"), format!("perp inc {sid} {pid} {c} {size} {pr}")];
                            if near && r.chance(1, 2) {
                                // bisect the collateral towards the acceptance threshold, starting from 3x leverage
                                let tot = |q: TestPool<$U>| q.long_amount.saturating_add(q.short_amount);
                                let il = tot(s.m.open_interest.0) >= tot(s.m.open_interest.1);
                                let hv = (size / SCALE) as u64 / 3;
                                let hi = (if cl { hv / self.px.max(1) } else { hv }) as $U;
                                self.pending = vec![format!("perp chk {sid} {pid} 1 0 {pr}"), format!("perp inc {sid} {pid} {hi} {size} {pr}")];
                                self.bisect = Some(Bisect { pid, il, cl, size, lo: 0, hi, cur: hi, steps: 16, pr: pr.clone(), first: true });
                                return Some(format!("perp open {sid} {pid} {} {}", il as u8, cl as u8));
                            }
                            if new {
                                let tot = |q: TestPool<$U>| q.long_amount.saturating_add(q.short_amount);
                                let il = if near { (tot(s.m.open_interest.0) >= tot(s.m.open_interest.1)) as u64 } else { r.below(2) };
                                return Some(format!("perp open {sid} {pid} {il} {}", cl as u8)); }
                            self.pending.pop()
                        }
                        3 | 4 | 5 => {
                            if open.is_empty() { return Some(format!("perp tick {sid} {}", r.below(100))); }
                            let (pid, p) = open[r.below(open.len() as u64) as usize];
                            let (size, coll) = (p.size_in_usd, p.collateral_token_amount);
                            let delta = match r.below(11) { 0 => size, 1 => 0, 2 => size - (r.below(2) as $U).min(size), 3 => (r.below(1_000_000) as $U).min(size), 4 => size / 2, 5 => size.saturating_add(r.below(5) as $U),
                                // promoted to a full close: the remainder is below the minimum position size
                                8 => size - (UNIT / 2).min(size), 9 => size - (UNIT * 3).min(size),
                                // requested far above the position (closes only with the cap flag)
                                10 => size.saturating_mul(r.range(2, 9) as $U),
                                6 => { // crafted to round the remaining size in tokens to zero
                                    let t = p.size_in_tokens.max(1); size - size / t / 2 }
                                _ => size / 1000 * r.below(1000) as $U };
                            let wd = match r.below(4) { 0 => 0, 1 => coll / 2, 2 => coll, _ => coll - coll / 10 };
                            self.pending = vec![format!("perp chk {sid} {pid} 1 1 {pr}"), format!("perp chk {sid} {pid} 0 0 {pr}")];
                            Some(format!("perp dec {sid} {pid} {delta} {wd} {} 0 {} {pr}", r.chance(1, 4) as u8, if delta > size { r.chance(3, 4) as u64 } else { r.below(2) }))
                        }
                        6 => {
                            // liquidation attempt (the store guard passes size_delta >= size): check first, then liquidate
                            if open.is_empty() { return Some(format!("perp tick {sid} 1")); }
                            // move the price against a random position to make it unhealthy sometimes
                            let (pid, p) = open[r.below(open.len() as u64) as usize];
                            if r.chance(1, 2) { let k = r.range(5, 60); self.px = if p.is_long { (self.px * (100 - k.min(95)) / 100).max(1) } else { self.px * (100 + k) / 100 }; }
                            let pr = self.price_str(r);
                            self.pending = vec![format!("perp dec {sid} {pid} {} 0 1 1 0 {pr}", p.size_in_usd)];
                            Some(format!("perp chk {sid} {pid} 1 1 {pr}"))
                        }
                        7 => {
                            // liquidity operations with open interest: pool value, deposit, withdrawal
                            let supply = s.m.total_supply;
                            let kind = r.below(5); let mx = r.below(2);
                            self.pending = vec![format!("perp pv {sid} {kind} {mx} {pr}")];
                            Some(match r.below(3) {
                                0 => { let v = (*r.pick(&[0u64, 1_000, 50_000_000, 3_000_000_000_000]) + r.below(1000)) as $U;
                                    let (l, sh) = match r.below(3) { 0 => (v / self.px.max(1) as $U, 0), 1 => (0, v), _ => (v / self.px.max(1) as $U, v / 3) };
                                    format!("perp dep {sid} {l} {sh} {pr}") }
                                1 => { let amt = match r.below(4) { 0 => supply, 1 => supply / 2, 2 => supply / 1000 * r.below(1000) as $U, _ => r.below(1_000_000) as $U };
                                    format!("perp wdr {sid} {amt} {pr}") }
                                _ => { let v = (*r.pick(&[0u64, 1_000, 50_000_000, 30_000_000_000]) + r.below(1000)) as $U; let il = r.chance(1, 2);
                                    format!("perp swap {sid} {} {} {pr}", il as u8, if il { v / self.px.max(1) as $U } else { v }) }
                            })
                        }
                        9 => {
                            // funding squeeze: a position of the PAYING (heavier) side whose collateral token is NOT its pnl token,
                            // funding accrues beyond its collateral, the price moves in its favour, it is closed (the profit tokens
                            // cover the funding shortfall: reported as an insufficient payment), then a receiver claims
                            let tot = |q: TestPool<$U>| q.long_amount.saturating_add(q.short_amount);
                            let (ol, os) = (tot(s.m.open_interest.0), tot(s.m.open_interest.1));
                            let pay_long = ol >= os;
                            let pid = self.next_pid; self.next_pid += 1;
                            let size = (*r.pick(&[20_000_000_000u64, 500_000_000_000]) + r.below(1_000_000_000)) as $U * SCALE;
                            let cval = (size / SCALE) as u64 / r.range(6, 12);
                            let cl = !pay_long;
                            let c = (if cl { cval / self.px.max(1) } else { cval }) as $U;
                            let recv: Option<u64> = open.iter().find(|(_, p)| p.is_long != pay_long && p.size_in_usd != 0).map(|(k, _)| *k);
                            let days = *r.pick(&[30u64, 90, 180, 365]);
                            let px0 = self.price_str(r);
                            self.px = if pay_long { self.px * r.range(130, 220) / 100 } else { (self.px * r.range(35, 75) / 100).max(1) };
                            let px1 = self.price_str(r);
                            let rpid = recv.unwrap_or(self.next_pid);
                            self.pending = vec![format!("perp inc {sid} {rpid} 0 0 {px1}"), format!("perp dec {sid} {pid} {size} 0 1 0 1 {px1}"),
                                format!("perp ufund {sid} {px0}"), format!("perp ubor {sid} {px0}"), format!("perp tick {sid} {}", days * 86400),
                                format!("perp inc {sid} {pid} {c} {size} {px0}")];
                            if recv.is_none() {
                                // nobody on the receiving side yet: someone opens there first
                                self.next_pid += 1;
                                let rs = size / 2; let rc = ((rs / SCALE) as u64 / 4) as $U;
                                self.pending.push(format!("perp inc {sid} {rpid} {rc} {rs} {px0}"));
                                self.pending.push(format!("perp open {sid} {rpid} {} 0", (!pay_long) as u8));
                            }
                            Some(format!("perp open {sid} {pid} {} {}", pay_long as u8, cl as u8))
                        }
                        8 if !open.is_empty() => {
                            // collateral-only operations (size delta 0) in a row on ONE position, preferably of the side that
                            // receives funding (the lighter side) once claimable funding has accrued: every one of them settles
                            // the pending funding and must refresh the snapshots, so the next one pays / claims nothing
                            let tot = |q: TestPool<$U>| q.long_amount.saturating_add(q.short_amount);
                            let recv_long = tot(s.m.open_interest.0) < tot(s.m.open_interest.1);
                            let pref: Vec<&(u64, &P)> = open.iter().filter(|(_, p)| p.is_long == recv_long && p.size_in_usd != 0).collect();
                            let (pid, p) = if !pref.is_empty() && r.chance(3, 4) { **r.pick(&pref) } else { open[r.below(open.len() as u64) as usize] };
                            let unit = (if p.is_collateral_token_long { 1_000_000u64 / self.px.max(1) } else { 1_000_000 }).max(1);
                            let (c1, c2, wd) = ((unit * r.range(1, 50)) as $U, (unit * r.below(50)) as $U, (unit * r.below(20)) as $U);
                            self.pending = vec![format!("perp dec {sid} {pid} 0 {wd} 0 0 0 {pr}"), format!("perp inc {sid} {pid} {c2} 0 {pr}")];
                            if r.chance(1, 2) { self.pending.push(format!("perp dec {sid} {pid} 0 {wd} 0 0 0 {pr}")); }
                            // half of the time the position is first PARTIALLY decreased (a third / a half of its size) and then touched again
                            if r.chance(1, 2) { self.pending.push(format!("perp dec {sid} {pid} {} 0 0 0 0 {pr}", p.size_in_usd / r.range(2, 4) as $U)); }
                            Some(format!("perp inc {sid} {pid} {c1} 0 {pr}"))
                        }
                        _ => {
                            let secs = *r.pick(&[0u64, 1, 60, 3600, 3600, 86400, 86400, 30 * 86400]);
                            self.pending = vec![format!("perp ufund {sid} {pr}"), format!("perp ubor {sid} {pr}"), format!("perp dist {sid}"), format!("perp tick {sid} {secs}")];
                            // funding only flows when BOTH sides have open interest: if one side is empty, someone opens a position
                            // there before the time passes (3 of 4 times)
                            let tot = |q: TestPool<$U>| q.long_amount.saturating_add(q.short_amount);
                            let (ol, os) = (tot(s.m.open_interest.0), tot(s.m.open_interest.1));
                            if (ol == 0 || os == 0) && r.chance(3, 4) {
                                let il = ol == 0 && (os != 0 || r.chance(1, 2));
                                let pid = self.next_pid; self.next_pid += 1;
                                let cl = r.chance(1, 2);
                                let size = (*r.pick(&[1_000_000_000u64, 20_000_000_000, 500_000_000_000]) + r.below(1_000_000_000)) as $U * SCALE;
                                let cval = (size / SCALE) as u64 / (2 + r.below(6));
                                let c = (if cl { cval / self.px.max(1) } else { cval }) as $U;
                                self.pending.push(format!("perp inc {sid} {pid} {c} {size} {pr}"));
                                return Some(format!("perp open {sid} {pid} {} {}", il as u8, cl as u8));
                            }
                            self.pending.pop()
                        }
                    }
                }
            }

            /// request → response for sessions of this width (`t` = tokens after the engine prefix)
            pub fn exec(db: &mut std::collections::HashMap<String, Session>, t: &[&str]) -> Option<String> {
                if t.len() < 2 { return None; }
                if t[0] == "new" {
                    let mut v: Vec<$U> = Vec::new();
                    for x in &t[4..] { v.push(x.parse::<$U>().ok()?); }
                    if t[3].parse::<$U>().ok()? != UNIT { return None; }
                    let m = market_from_cfg(&v)?;
                    let s = Session { m, ps: BTreeMap::new() };
                    let d = s.digest();
                    db.insert(t[1].to_string(), s);
                    return Some(format!("ok | {d}"));
                }
                let s = db.get_mut(t[1])?;
                let r = s.op(t[0], &t[2..])?;
                Some(format!("{r} | {}", s.digest()))
            }
        }
    };
}

perp_world!(w64, u64, i64, 9, 64, 1, crate::perp::default_cfg64, crate::perp::new_market64);
perp_world!(w128, u128, i128, 20, 128, 100_000_000_000, crate::perp::default_cfg128, crate::perp::new_market128);

// ---------------------------------------------------------------------- bins C07–C10
use hcommon::{cli, read_requests, Out, Rng};
use num_bigint::BigInt;
use std::collections::HashMap;

enum AnyGen { A(w64::HistGen), B(w128::HistGen) }

#[derive(Default)]
struct Track {
    /// funding collected / claimed per token, and whether a shortfall was reported (C08)
    collected: [BigInt; 2],
    claimed: [BigInt; 2],
    /// Σ reported shortfalls of funding fee payments per token (fee charged − collected in the market, with a report)
    short: [BigInt; 2],
    /// an unreported shortfall was already flagged (do not repeat it on every later step)
    unreported: bool,
    cfg: Vec<String>,
}

fn bi(s: &str) -> BigInt { s.parse::<BigInt>().unwrap_or_default() }

/// C09: the independent health computation for a session of either width.
#[allow(clippy::too_many_arguments)]
fn health_any(db64: &HashMap<String, w64::Session>, db128: &HashMap<String, w128::Session>, track: &HashMap<String, Track>, is64: bool,
    sid: &str, pid: &str, pr: &[&str], mc: bool, fl: bool) -> Option<&'static str> {
    let cfg: Vec<BigInt> = track.get(sid)?.cfg.iter().map(|x| bi(x)).collect();
    let pid: u64 = pid.parse().ok()?;
    let pr: Vec<BigInt> = pr.iter().map(|x| bi(x)).collect();
    let h = |cp: bool| if is64 { w64::health(db64.get(sid)?, &cfg, pid, &pr, mc, fl, cp) } else { w128::health(db128.get(sid)?, &cfg, pid, &pr, mc, fl, cp) };
    let r = h(false);
    // coverage: would counting a positive hypothetical close impact change the verdict here?
    if r.is_some() && h(true) != r { POS_MATTERS.fetch_add(1, std::sync::atomic::Ordering::Relaxed); }
    r
}

static POS_MATTERS: std::sync::atomic::AtomicU64 = std::sync::atomic::AtomicU64::new(0);

/// shared main of the `perp` bins: `prop` ∈ {"C07","C08","C09","C10"} selects the oracle.
/// failures of the position-fee split oracle (filled by `fees_str`, drained by `run_bin` under C02)
pub static FEE_SPLIT_FAILS: std::sync::Mutex<Vec<String>> = std::sync::Mutex::new(Vec::new());

fn resp_has_liq(rt: &[&str]) -> bool { rt.iter().any(|x| x.matches(',').count() == 2 && x.split(',').all(|y| y.parse::<u128>().is_ok()) && *x != "0,0,0") }

pub fn run_bin(prop: &str) {
    let cli = cli();
    let mut out = Out::new();
    if std::env::var("H_DEBUG").is_err() { std::panic::set_hook(Box::new(|_| {})); }
    let mut db64: HashMap<String, w64::Session> = HashMap::new();
    let mut db128: HashMap<String, w128::Session> = HashMap::new();
    let mut track: HashMap<String, Track> = HashMap::new();
    let mut r = Rng::new(cli.seed);
    let file_reqs: Vec<String> = if cli.mode == "replay" { read_requests(cli.file.as_deref().unwrap()) } else { vec![] };
    let mut fi = 0usize;
    let mut gen: Option<AnyGen> = None;
    let mut hist_no = 0u64;
    let mut produced = 0u64;
    // context for C09 / C10
    let mut after_inc: Option<(String, String, String)> = None; // (sid, pid, prices)
    let mut after_dec: Option<(String, String, String)> = None;
    let whole = prop == "WHOLE";
    let mut c12_flagged: std::collections::HashSet<String> = std::collections::HashSet::new();
    let mut prev_idx: HashMap<String, Vec<BigInt>> = HashMap::new();
    let mut last_chk_liq: HashMap<(String, String, String), String> = HashMap::new();
    let mut last_inc: HashMap<(String, String), (String, BigInt, BigInt)> = HashMap::new(); // (sid,pid) -> (prices, collateral in, claimable funding value credited by the increase)
    loop {
        let req: String = if cli.mode == "replay" { if fi >= file_reqs.len() { break; } fi += 1; file_reqs[fi - 1].clone() } else {
            if produced >= cli.n && gen.is_none() { break; }
            if gen.is_none() {
                hist_no += 1;
                let sid = format!("h{}x{}", cli.seed, hist_no);
                let rt = prop == "C10";
                gen = Some(if r.chance(2, 3) { AnyGen::A(w64::HistGen::new(&mut r, sid, rt)) } else { AnyGen::B(w128::HistGen::new(&mut r, sid, rt)) });
                // whole-market histories: up to 200 operations
                if prop == "WHOLE" { let n = 20 + r.below(181) as u32; match gen.as_mut().unwrap() { AnyGen::A(g) => { g.left = n; g.long_hist = true; } AnyGen::B(g) => { g.left = n; g.long_hist = true; } } }
            }
            let nx = match gen.as_mut().unwrap() { AnyGen::A(g) => g.next(&mut r, &db64), AnyGen::B(g) => g.next(&mut r, &db128) };
            match nx { Some(q) => { produced += 1; q } None => {
                // drop the finished session to bound memory
                match gen.take().unwrap() { AnyGen::A(g) => { db64.remove(&g.sid); track.remove(&g.sid); } AnyGen::B(g) => { db128.remove(&g.sid); track.remove(&g.sid); } }
                continue; } }
        };
        let t: Vec<&str> = req.split(' ').collect();
        if t.len() < 3 || t[0] != "perp" { out.case(&req, "bad-op"); continue; }
        let (op, sid) = (t[1], t[2].to_string());
        let is64 = if op == "new" { t.get(3) == Some(&"64") } else { db64.contains_key(&sid) };
        // state before
        let (l0, pos_before): ([BigInt; 2], Option<(bool, bool, BigInt)>) = {
            let pid = t.get(3).and_then(|x| x.parse::<u64>().ok());
            if is64 { match db64.get(&sid) { Some(s) => (w64::ledger(&s.m), pid.and_then(|k| s.ps.get(&k)).map(|p| (p.is_long, p.is_collateral_token_long, BigInt::from(p.size_in_usd)))), None => (Default::default(), None) } }
            else { match db128.get(&sid) { Some(s) => (w128::ledger(&s.m), pid.and_then(|k| s.ps.get(&k)).map(|p| (p.is_long, p.is_collateral_token_long, BigInt::from(p.size_in_usd)))), None => (Default::default(), None) } }
        };
        // C03 on positions: merged open interest (USD) of both sides before the operation
        let oi_before: Option<(BigInt, BigInt)> = if prop == "C03" {
            macro_rules! oi { ($db:expr) => { $db.get(&sid).map(|s| { let o = &s.m.open_interest; (BigInt::from(o.0.long_amount) + BigInt::from(o.0.short_amount), BigInt::from(o.1.long_amount) + BigInt::from(o.1.short_amount)) }) } }
            if is64 { oi!(db64) } else { oi!(db128) } } else { None };
        // C09: health of the position before a liquidation order, by the independent computation
        let pre_liq: Option<&'static str> = if prop == "C09" && op == "dec" && t.len() == 15 && t[7] == "1" {
            health_any(&db64, &db128, &track, is64, &sid, t[3], &t[9..], true, true) } else { None };
        // C11: the position's pnl totals before a decrease, recomputed from the raw state
        let pre_pnl = if (prop == "C11" || whole) && op == "dec" && t.len() == 15 {
            (|| { let cfg: Vec<BigInt> = track.get(&sid)?.cfg.iter().map(|x| bi(x)).collect(); let pid: u64 = t[3].parse().ok()?;
                  let pr: Vec<BigInt> = t[9..].iter().map(|x| bi(x)).collect();
                  if is64 { w64::pnl_totals(db64.get(&sid)?, &cfg, pid, &pr) } else { w128::pnl_totals(db128.get(&sid)?, &cfg, pid, &pr) } })() } else { None };
        // C10: was the position empty, is there other open interest, has claimable funding accrued in this market
        let (empty_before, oi_other, funding_hist) = {
            let pid = t.get(3).and_then(|x| x.parse::<u64>().ok());
            macro_rules! look { ($db:expr) => { match $db.get(&sid) { Some(s) => (
                pid.and_then(|k| s.ps.get(&k)).map(|p| p.size_in_usd == 0 && p.size_in_tokens == 0 && p.collateral_token_amount == 0).unwrap_or(false),
                s.ps.iter().any(|(k, p)| Some(*k) != pid && p.size_in_usd != 0),
                { let c = &s.m.claimable_funding_amount_per_size; c.0.long_amount != 0 || c.0.short_amount != 0 || c.1.long_amount != 0 || c.1.short_amount != 0 }), None => (false, false, false) } } }
            if is64 { look!(db64) } else { look!(db128) }
        };
        let resp = match std::panic::catch_unwind(std::panic::AssertUnwindSafe(|| if is64 { w64::exec(&mut db64, &t[1..]) } else { w128::exec(&mut db128, &t[1..]) })) {
            Ok(Some(x)) => x, Ok(None) => "bad-op".into(), Err(_) => "panic".into() };
        if resp == "panic" { out.oracle_fail("panicked", &req); }
        let head = resp.split(" | ").next().unwrap_or("").to_string();
        let rt: Vec<&str> = head.split(' ').collect();
        let ok = rt[0] == "ok";
        out.stat(&format!("{op}.{}", if ok { "ok".to_string() } else { head.replace(' ', "_") }));
        if op == "new" && ok { track.insert(sid.clone(), Track { cfg: t[5..].iter().map(|x| x.to_string()).collect(), ..Default::default() }); }
        let mut nt = ok && matches!(op, "inc" | "dec" | "ubor" | "ufund" | "dep" | "wdr" | "pv" | "swap");
        if resp != "bad-op" && resp != "panic" {
            // ---------------- C07: after EVERY operation (successful or failed)
            if prop == "C07" || whole {
                let f = if is64 { db64.get(&sid).and_then(w64::check_c07) } else { db128.get(&sid).and_then(w128::check_c07) };
                if let Some(w) = f { out.oracle_fail(&w, &req); }
                if op == "dec" && ok {
                    if rt[8] == "1" {
                        out.stat("dec.removed");
                        let pid: u64 = t[3].parse().unwrap();
                        let z = if is64 { db64[&sid].ps.get(&pid).map(|p| p.size_in_usd == 0 && p.size_in_tokens == 0 && p.collateral_token_amount == 0) } else { db128[&sid].ps.get(&pid).map(|p| p.size_in_usd == 0 && p.size_in_tokens == 0 && p.collateral_token_amount == 0) };
                        if z != Some(true) { out.oracle_fail("a position reported as removed does not have zero size and zero collateral", &req); }
                    } else {
                        let pid: u64 = t[3].parse().unwrap();
                        let z = if is64 { db64[&sid].ps.get(&pid).map(|p| p.size_in_usd != 0 && p.size_in_tokens != 0) } else { db128[&sid].ps.get(&pid).map(|p| p.size_in_usd != 0 && p.size_in_tokens != 0) };
                        if z != Some(true) { out.oracle_fail("a position left open has zero size in USD or in tokens", &req); }
                        if bi(rt[1]) != bi(t[4]) { out.stat("dec.promoted_or_capped"); }
                    }
                }
            }
            // ---------------- C08: token ledger + funding residual
            if prop == "C08" || whole {
                let l1 = if is64 { db64.get(&sid).map(|s| w64::ledger(&s.m)) } else { db128.get(&sid).map(|s| w128::ledger(&s.m)) }.unwrap_or_default();
                let tr = track.entry(sid.clone()).or_default();
                match op {
                    "inc" if ok => {
                        let (_, cl, _) = pos_before.clone().unwrap();
                        let k = if cl { 0 } else { 1 };
                        let fund = bi(rt[11]);
                        let mut exp = l0.clone(); exp[k] += bi(t[4]) - &fund;
                        if l1 != exp { out.oracle_fail(&format!("increase: accounted holdings changed by {:?} instead of tokens in {} minus funding fee {}", [&l1[0] - &l0[0], &l1[1] - &l0[1]], t[4], fund), &req); }
                        tr.collected[k] += &fund; tr.claimed[0] += bi(rt[12]); tr.claimed[1] += bi(rt[13]);
                        if fund != BigInt::from(0) { out.stat("funding.paid"); }
                        if bi(rt[12]) + bi(rt[13]) != BigInt::from(0) { out.stat("funding.claimed"); }
                    }
                    "dec" if ok => {
                        let (il, cl, _) = pos_before.clone().unwrap();
                        let (kc, kp) = (if cl { 0 } else { 1 }, if il { 0 } else { 1 });
                        let mut outs = [BigInt::from(0), BigInt::from(0)];
                        outs[kc] += bi(rt[9]) + bi(rt[11]) + bi(rt[13]);
                        outs[kp] += bi(rt[10]) + bi(rt[12]) + bi(rt[14]);
                        let fund = bi(rt[22]);
                        let resid = [&l0[0] - &outs[0] - &l1[0], &l0[1] - &outs[1] - &l1[1]];
                        let other = 1 - kc;
                        // F-C08b: fee dust — the fees count as paid although the last collateral units are missing because the
                        // remainder converts to zero secondary (pnl) tokens; only possible when the two tokens differ
                        let (pcm, ppm) = (bi(if cl { t[11] } else { t[13] }), bi(if il { t[11] } else { t[13] }));
                        let dust = if resid[kc] < BigInt::from(0) && kc != kp && resid[other] == BigInt::from(0) && (-&resid[kc]) * &pcm < ppm { -&resid[kc] } else { BigInt::from(0) };
                        if dust > BigInt::from(0) { out.known("F-C08b", "fee dust: fees credited in full although the last collateral units were not paid (remainder worth less than one pnl token)", &req); out.stat("fee.dust"); }
                        let resid_c = &resid[kc] + &dust;
                        if resid[other] != BigInt::from(0) || resid_c < BigInt::from(0) || resid_c > fund {
                            out.oracle_fail(&format!("decrease: accounted holdings minus outputs left residual {:?} (collateral token index {kc}); funding fee {fund}", resid), &req);
                        }
                        // the funding fee is collected in collateral tokens; whatever is missing must have been REPORTED through
                        // `on_insufficient_funding_fee_payment` (recorded by the harness market; flag at the end of the response)
                        let reported = rt.get(26) == Some(&"1");
                        if resid_c < fund {
                            if reported { tr.short[kc] += &fund - &resid_c; out.stat("funding.short_reported"); if kc != kp && bi(rt[12]) > BigInt::from(0) { out.stat("funding.short_covered_by_profit_tokens"); } }
                            else { out.oracle_fail(&format!("funding fee {fund} was charged but only {resid_c} stayed in the market and NO insufficient funding fee payment was reported (tokens paid to the holding account: {} / {})", rt[11], rt[12]), &req); tr.unreported = true; }
                        } else if reported { out.oracle_fail("an insufficient funding fee payment was reported although the fee was collected in full", &req); }
                        tr.collected[kc] += &resid_c; tr.claimed[0] += bi(rt[23]); tr.claimed[1] += bi(rt[24]);
                        if rt[15] != "_" { out.stat(&format!("insolvent.{}", rt[15])); }
                        if bi(rt[23]) + bi(rt[24]) != BigInt::from(0) { out.stat("funding.claimed"); }
                    }
                    "new" | "setpool" => {}
                    "dep" if ok => {
                        // liquidity in: the accounted holdings grow by exactly the tokens deposited (fees and impact stay inside)
                        let exp = [&l0[0] + bi(t[3]), &l0[1] + bi(t[4])];
                        if l1 != exp { out.oracle_fail(&format!("deposit: accounted holdings changed by {:?} instead of the tokens in", [&l1[0] - &l0[0], &l1[1] - &l0[1]]), &req); }
                    }
                    "swap" if ok => {
                        // token in arrives, token out leaves; fees and impact stay inside
                        let k = if t[3] == "1" { 0 } else { 1 };
                        let mut exp = l0.clone(); exp[k] += bi(t[4]); exp[1 - k] -= bi(rt[1]);
                        if l1 != exp { out.oracle_fail(&format!("swap: accounted holdings changed by {:?} instead of +in / -out", [&l1[0] - &l0[0], &l1[1] - &l0[1]]), &req); }
                    }
                    "wdr" if ok => {
                        let exp = [&l0[0] - bi(rt[1]), &l0[1] - bi(rt[2])];
                        if l1 != exp { out.oracle_fail(&format!("withdrawal: accounted holdings changed by {:?} instead of the tokens out", [&l1[0] - &l0[0], &l1[1] - &l0[1]]), &req); }
                    }
                    _ => { if l1 != l0 { out.oracle_fail("an operation without token flows changed the accounted holdings", &req); } }
                }
                // funding residual: literal clause and refined invariant
                if matches!(op, "inc" | "dec" | "ufund") && !tr.unreported {
                    let pend = if is64 { db64.get(&sid).and_then(w64::pending_funding) } else { db128.get(&sid).and_then(w128::pending_funding) };
                    if pend.is_none() { out.stat("funding.pending_undefined"); }
                    if let Some((pay, clm)) = pend {
                        for k in 0..2 {
                            // reported shortfalls count as collected: the invariant is tied to the reports, per token
                            let resid = &tr.collected[k] - &tr.claimed[k] + &tr.short[k];
                            if &resid + &pay[k] - &clm[k] < BigInt::from(0) { out.oracle_fail(&format!("claimable funding is not backed: collected + reported shortfalls - claimed + pending payable - pending claimable = {} for token {k}", &resid + &pay[k] - &clm[k]), &req); }
                            if resid < BigInt::from(0) {
                                if -&resid <= pay[k] { out.known("F-C08", "funding claimed before it was collected (deficit covered by pending payable funding of untouched payers)", &req); out.stat("funding.residual_negative"); }
                                else { out.oracle_fail("funding residual negative beyond the pending payable funding and the reported shortfalls", &req); }
                            }
                        }
                    }
                }
            }
            // ---------------- C11: a decrease realises the share of the position's pnl for the size ACTUALLY closed
            if (prop == "C11" || whole) && op == "dec" && ok {
                if let Some((il, size, tokens, uncapped, total)) = pre_pnl.clone() {
                    let closed = bi(rt[1]);
                    let requested = bi(t[4]);
                    // tokens closed: everything on a full close, else ceil (long) / floor (short) of tokens·closed/size
                    let sdt = if closed == size { tokens.clone() } else if il { (&tokens * &closed + &size - 1) / &size } else { &tokens * &closed / &size };
                    let share = |x: &BigInt| &sdt * x / &tokens; // truncation toward zero (num-bigint division)
                    if bi(rt[2]) != sdt { out.oracle_fail(&format!("decrease closed {closed} of {size} but reports {} size-in-tokens closed instead of {sdt} (position holds {tokens})", rt[2]), &req); }
                    if bi(rt[5]) != share(&total) { out.oracle_fail(&format!("decrease closed {closed} of {size} (requested {requested}) but realised pnl {} instead of the share {} of the position's pnl {total}", rt[5], share(&total)), &req); }
                    if bi(rt[6]) != share(&uncapped) { out.oracle_fail(&format!("decrease closed {closed} of {size} but reports uncapped pnl {} instead of {}", rt[6], share(&uncapped)), &req); }
                    if closed == size { out.stat("c11.full_close");
                        if requested < size { out.stat("c11.promoted_to_full_close"); } else if requested > size { out.stat("c11.capped_to_full_close"); }
                        if total > BigInt::from(0) { out.stat("c11.full_close_profit"); } else if total < BigInt::from(0) { out.stat("c11.full_close_loss"); }
                        if rt[8] != "1" { out.oracle_fail("the whole size was closed but the position was not removed", &req); }
                    } else { out.stat("c11.partial_close"); if closed != requested { out.stat("c11.partial_close_adjusted"); } }
                    if total != uncapped { out.stat("c11.trader_cap_binds"); }
                }
            }
            // ---------------- C03 on positions: an increase that does not improve the open-interest balance never receives a
            //                  positive price impact; one that improves it without crossing the balance point never a negative one
            if prop == "C03" && op == "inc" && ok && t.len() > 5 && rt.len() > 1 {
                if let (Some((ol, os)), Some((is_long, _, _))) = (&oi_before, &pos_before) {
                    let d = bi(t[5]); let x = bi(rt[1]);
                    let (nl, ns) = if *is_long { (ol + &d, os.clone()) } else { (ol.clone(), os + &d) };
                    let (i0, i1) = ((ol - os).magnitude().clone(), (&nl - &ns).magnitude().clone());
                    let crossed = (ol <= os) != (nl <= ns);
                    let zero = BigInt::from(0);
                    if d != zero {
                        out.stat(if i1 < i0 { "c03.pos.improved" } else { "c03.pos.not_improved" });
                        if i1 >= i0 && x > zero { out.oracle_fail(&format!("an increase that does not improve the open-interest balance ({ol}/{os} -> {nl}/{ns}) received a positive price impact {x}"), &req); }
                        // (the converse clause — improving ⇒ non-negative — is NOT asserted on the action's report: the reported value is
                        //  taken after the virtual-inventory rule and the caps of `get_execution_params`; it is covered on
                        //  `PoolDelta::price_impact` / `swap_impact_value` by bin c03 and by theorem priceImpact_improved_nonneg_partial)
                        if i1 < i0 && !crossed && x < zero { out.stat("c03.pos.improved_but_negative_report"); }
                    }
                }
            }
            // ---------------- C02 on position fees: exact split of order + borrowing + liquidation fees in every report
            {
                let fails: Vec<String> = FEE_SPLIT_FAILS.lock().unwrap().drain(..).collect();
                if prop == "C02" { for w in fails { out.oracle_fail(&w, &req); } if matches!(op, "inc" | "dec") && ok { out.stat("c02.position_fee_reports"); if rt.len() > 8 && rt.last().map_or(false, |_| resp_has_liq(&rt)) { out.stat("c02.with_liquidation_fees"); } } }
            }
            // ---------------- C12 on positions: pending funding defined and never negative, after EVERY operation
            if prop == "C12" || whole {
                let f = if is64 { db64.get(&sid).and_then(w64::check_c12) } else { db128.get(&sid).and_then(w128::check_c12) };
                if let Some(w) = f { if !c12_flagged.contains(&sid) { out.oracle_fail(&w, &req); c12_flagged.insert(sid.clone()); if c12_flagged.len() > 256 { c12_flagged.clear(); } } }
                else { out.stat("c12.positions_checked"); }
                if matches!(op, "inc" | "dec") && ok && rt.len() > 24 { let (a, b, c) = if op == "inc" { (11, 12, 13) } else { (22, 23, 24) };
                    if bi(rt[a]) != BigInt::from(0) { out.stat("c12.funding_fee_paid"); }
                    if bi(rt[b]) + bi(rt[c]) != BigInt::from(0) { out.stat("c12.funding_claimed"); } }
            }
            // ---------------- whole-market histories: C13 on the market and C12/C13 monotonicity after EVERY operation
            if whole {
                let f = if is64 { db64.get(&sid).and_then(w64::check_total_borrowing) } else { db128.get(&sid).and_then(w128::check_total_borrowing) };
                if let Some(w) = f { out.oracle_fail(&w, &req); }
                let idx = if is64 { db64.get(&sid).map(w64::indices) } else { db128.get(&sid).map(w128::indices) }.unwrap_or_default();
                if !matches!(op, "new" | "setpool") {
                    if let Some(prev) = prev_idx.get(&sid) { if prev.len() == idx.len() && prev.iter().zip(idx.iter()).any(|(a, b)| b < a) {
                        out.oracle_fail("an index (cumulative borrowing factor / funding amount per size / claimable funding amount per size) decreased", &req); } }
                    if prev_idx.get(&sid).map(|p| *p != idx).unwrap_or(false) { out.stat("whole.index_grew"); }
                }
                prev_idx.insert(sid.clone(), idx);
                if prev_idx.len() > 64 { let keep = sid.clone(); prev_idx.retain(|k, _| *k == keep); }
                out.stat("whole.steps_checked");
            }
            // ---------------- C09: health after increase/decrease, liquidation guard
            // The verdicts come from `health` (first principles, exact integers), NOT from the implementation's
            // `check_liquidatable`; the implementation's own answers (`chk`) are additionally compared with it.
            if prop == "C09" {
                let prices = |from: usize| t[from..].join(" ");
                let liq_gt = track.get(&sid).map(|x| bi(&x.cfg[33]) > bi(&x.cfg[32])).unwrap_or(false);
                match op {
                    "inc" => {
                        after_dec = None; after_inc = if ok { Some((sid.clone(), t[3].to_string(), prices(6))) } else { None };
                        if ok && t.len() == 12 {
                            let h0 = health_any(&db64, &db128, &track, is64, &sid, t[3], &t[6..], true, false);
                            let h1 = health_any(&db64, &db128, &track, is64, &sid, t[3], &t[6..], true, true);
                            match h0 { None => out.stat("health.uncomputable"), Some("none") => out.stat("health.inc_ok"),
                                Some(x) => out.oracle_fail(&format!("a successful increase left the position liquidatable at the execution prices (criterion recomputed independently: {x})"), &req) }
                            match h1 { None | Some("none") => {},
                                Some("leverage") if liq_gt => out.known("F-C09", "position liquidatable right after a successful order (liquidation factor above the open-position factor)", &req),
                                Some(x) => out.oracle_fail(&format!("a successful increase left the position liquidatable under the liquidation thresholds (criterion recomputed independently: {x})"), &req) }
                        }
                    }
                    "dec" => {
                        after_inc = None; after_dec = None;
                        let key = (sid.clone(), t[3].to_string(), prices(9));
                        if t[7] == "1" {
                            // liquidation order
                            if ok {
                                out.stat("liquidation.ok");
                                match pre_liq { Some("none") => out.oracle_fail("a liquidation succeeded for a position that is not liquidatable under the liquidation thresholds (criterion recomputed independently)", &req), Some(_) => out.stat("liquidation.ok_confirmed"), None => out.stat("health.uncomputable") }
                                match last_chk_liq.get(&key) { Some(x) if x != "none" => {}, Some(_) => out.oracle_fail("a liquidation succeeded for a position that is not liquidatable under the liquidation thresholds", &req), None => {} }
                                if rt[8] != "1" || Some(bi(rt[1])) != pos_before.clone().map(|x| x.2) { out.oracle_fail("a liquidation did not close the whole position", &req); }
                            } else if head == "err notliquidatable" {
                                out.stat("liquidation.rejected");
                                if let Some(x) = pre_liq { if x != "none" { out.oracle_fail(&format!("liquidation of a liquidatable position ({x} by the independently recomputed criterion) was rejected as not liquidatable"), &req); } }
                                if let Some(x) = last_chk_liq.get(&key) { if x != "none" { out.oracle_fail("liquidation of a liquidatable position was rejected as not liquidatable", &req); } }
                            }
                        } else if ok && rt[8] == "0" {
                            after_dec = Some(key);
                            let h0 = health_any(&db64, &db128, &track, is64, &sid, t[3], &t[9..], false, false);
                            let h1 = health_any(&db64, &db128, &track, is64, &sid, t[3], &t[9..], true, true);
                            match h0 { None => out.stat("health.uncomputable"), Some("none") => out.stat("health.dec_ok"),
                                Some(x) => out.oracle_fail(&format!("a decrease that left the position open left it liquidatable at the execution prices (criterion recomputed independently: {x})"), &req) }
                            match h1 { None | Some("none") => {},
                                Some(x) if x == "mincollateral" || (liq_gt && x == "leverage") => { out.known("F-C09", "position liquidatable right after a successful order (min collateral value not validated on decrease / liquidation factor above the open-position factor)", &req); out.stat("dec.left_liquidatable"); }
                                Some(x) => out.oracle_fail(&format!("a decrease that left the position open left it liquidatable under the liquidation thresholds (criterion recomputed independently: {x})"), &req) }
                        }
                    }
                    "chk" if ok => {
                        let key = (sid.clone(), t[3].to_string(), prices(6));
                        let (mc, fl) = (t[4], t[5]);
                        // the implementation's answer against the independent computation
                        match health_any(&db64, &db128, &track, is64, &sid, t[3], &t[6..], mc == "1", fl == "1") {
                            None => out.stat("health.uncomputable"),
                            Some(x) if x == rt[1] => out.stat("health.chk_agree"),
                            Some(x) => out.oracle_fail(&format!("check_liquidatable answered {} but the criterion recomputed from the state gives {x}", rt[1]), &req),
                        }
                        if mc == "1" && fl == "1" { last_chk_liq.insert(key.clone(), rt[1].to_string()); if last_chk_liq.len() > 4096 { last_chk_liq.clear(); } }
                        if after_inc.as_ref() == Some(&key) {
                            if mc == "1" && fl == "0" && rt[1] != "none" { out.oracle_fail("a successful increase left the position liquidatable at the execution prices", &req); }
                            if mc == "1" && fl == "1" && rt[1] != "none" {
                                if liq_gt && rt[1] == "leverage" { out.known("F-C09", "position liquidatable right after a successful order (liquidation factor above the open-position factor)", &req); }
                                else { out.oracle_fail("a successful increase left the position liquidatable under the liquidation thresholds", &req); }
                            }
                        }
                        if after_dec.as_ref() == Some(&key) {
                            if mc == "0" && fl == "0" && rt[1] != "none" { out.oracle_fail("a decrease that left the position open left it liquidatable at the execution prices", &req); }
                            if mc == "1" && fl == "1" && rt[1] != "none" {
                                if rt[1] == "mincollateral" || (liq_gt && rt[1] == "leverage") { out.known("F-C09", "position liquidatable right after a successful order (min collateral value not validated on decrease / liquidation factor above the open-position factor)", &req); out.stat("dec.left_liquidatable"); }
                                else { out.oracle_fail("a decrease that left the position open left it liquidatable under the liquidation thresholds", &req); }
                            }
                        }
                        nt = rt[1] != "none";
                    }
                    // any other operation of the session (clock, fee-state updates, liquidity, ...) ends the "right after the
                    // order" window: a later `chk` at the same prices speaks about a different state (time may have passed)
                    _ => {
                        if after_inc.as_ref().map(|k| k.0 == sid).unwrap_or(false) { after_inc = None; }
                        if after_dec.as_ref().map(|k| k.0 == sid).unwrap_or(false) { after_dec = None; }
                    }
                }
            }
            // ---------------- C10: open + immediate full close at unchanged prices
            // a pair = a successful increase of an EMPTY position immediately followed (next request of the session) by its
            // full close at the same prices; received value = outputs + claimable collateral + claimable FUNDING amounts
            // credited by either report
            if prop == "C10" {
                let key = (sid.clone(), t.get(3).map(|x| x.to_string()).unwrap_or_default());
                let p6 = |from: usize| -> Vec<BigInt> { t[from..].iter().map(|x| bi(x)).collect() };
                match op {
                    "inc" if ok && pos_before.as_ref().map(|x| x.2 == BigInt::from(0)).unwrap_or(false) && empty_before => {
                        let p = p6(6);
                        let claimed = bi(rt[12]) * &p[2] + bi(rt[13]) * &p[4];
                        last_inc.clear();
                        last_inc.insert(key, (t[6..].join(" "), bi(t[4]), claimed));
                    }
                    "dec" if ok => {
                        if let Some((pr, cin, claimed_inc)) = last_inc.remove(&key) {
                            if pr == t[9..].join(" ") && rt[8] == "1" {
                                out.stat("roundtrip.pairs");
                                if bi(t[4]) > bi(rt[1]) { out.stat("roundtrip.capped_close"); } else if bi(t[4]) < bi(rt[1]) { out.stat("roundtrip.promoted_close"); }
                                let (il, cl, _) = pos_before.clone().unwrap();
                                out.stat(&format!("roundtrip.side_long{}_coll_long{}", il as u8, cl as u8));
                                let p = p6(9);
                                // prices: index(min,max) long(min,max) short(min,max)
                                let (pc, pp) = (if cl { &p[2] } else { &p[4] }, if il { &p[2] } else { &p[4] });
                                let funding_claim = &claimed_inc + bi(rt[23]) * &p[2] + bi(rt[24]) * &p[4];
                                if funding_claim != BigInt::from(0) { out.stat("roundtrip.funding_claimable_credited"); }
                                let received = (bi(rt[9]) + bi(rt[13])) * pc + (bi(rt[10]) + bi(rt[14])) * pp + &funding_claim;
                                let deposited = &cin * pc;
                                let slack = BigInt::from(2) * if pc > pp { pc.clone() } else { pp.clone() };
                                if received > &deposited + &slack {
                                    // F-C10: positive impact cap above the negative one, surplus within the refunded price impact diff
                                    let cfg = track.get(&sid).map(|x| x.cfg.clone()).unwrap_or_default();
                                    let caps_inverted = cfg.len() > 35 && bi(&cfg[34]) > bi(&cfg[35]);
                                    let refunded = bi(rt[13]) * pc + bi(rt[14]) * pp;
                                    if caps_inverted && funding_claim == BigInt::from(0) && bi(rt[4]) > BigInt::from(0) && &received - &deposited <= &refunded + &slack {
                                        out.known("F-C10", "round trip profitable: max positive position impact factor exceeds the max negative one and the negative impact above the cap is refunded as claimable collateral", &req);
                                        out.stat("roundtrip.profit_caps_inverted");
                                    } else { out.oracle_fail(&format!("opening and immediately closing returned value {received} (of which claimable funding {funding_claim}) for a deposit worth {deposited}"), &req); }
                                }
                                if received > deposited { out.stat("roundtrip.within_slack"); } else if received < deposited { out.stat("roundtrip.loss"); }
                                if bi(rt[3]) > BigInt::from(0) { out.stat("roundtrip.close_positive_impact"); }
                                if oi_other { out.stat("roundtrip.with_other_open_interest"); }
                                if funding_hist { out.stat("roundtrip.after_funding_history"); }
                            }
                        }
                    }
                    // any other request of the session ends a pending pair
                    _ => { last_inc.retain(|k, _| k.0 != sid); }
                }
            }
        }
        out.case_nt(&req, &resp, nt);
    }
    if prop == "C09" { for _ in 0..POS_MATTERS.load(std::sync::atomic::Ordering::Relaxed) { out.stat("health.positive_impact_would_matter"); } }
    out.finish();
}
