//! `mkt` engine on the REAL model crate: markets (`h_model::market::TestMarket`, both `<u64, 9>` and
//! `<u128, 20>`) addressed by state id, driven by the line protocol of `lean/Gmx/Driver/Mkt.lean`.
//! Every response ends with `| <digest>`: all 16 pools (`PoolKind` order, `long,short`), supply,
//! funding factor per second, clock, market clocks, virtual inventories — taken AFTER the op, also
//! when the op failed (deposit / withdraw / distribute are not atomic in the model crate).
use std::collections::HashMap;
use std::panic::{catch_unwind, AssertUnwindSafe};

use gmsol_model::{
    clock::ClockKind,
    params::{
        fee::BorrowingFeeParams, position::PositionImpactDistributionParams, FeeParams, PriceImpactParams,
    },
    price::{Price, Prices},
    LiquidityMarketExt, LiquidityMarketMutExt, MarketAction, PnlFactorKind, PositionImpactMarketMutExt,
    SwapMarketMutExt,
};

use crate::market::{MaxPnlFactors, TestMarket, TestMarketConfig, TestPool};

pub enum AnyMarket {
    M64(Box<TestMarket<u64, 9>>),
    M128(Box<TestMarket<u128, 20>>),
}

/// A width-independent copy of the observable state, for oracles.
#[derive(Debug, Clone, PartialEq, Eq)]
pub struct Snap {
    pub w: u32,
    /// 16 pools in `PoolKind` order
    pub pools: Vec<(u128, u128)>,
    pub supply: u128,
    pub now: u64,
    pub vi_swaps: Option<(u128, u128)>,
    pub vi_positions: Option<(u128, u128)>,
}

impl Snap {
    /// liquidity + swap impact + claimable fee of one token side
    pub fn holdings(&self, is_long: bool) -> u128 {
        let g = |p: (u128, u128)| if is_long { p.0 } else { p.1 };
        g(self.pools[0]) + g(self.pools[1]) + g(self.pools[2])
    }
    pub fn side(&self, k: usize, is_long: bool) -> u128 {
        if is_long { self.pools[k].0 } else { self.pools[k].1 }
    }
}

pub fn err_tag(e: &gmsol_model::Error) -> &'static str {
    use gmsol_model::Error as E;
    match e {
        E::EmptySwap => "EmptySwap",
        E::EmptyDeposit => "EmptyDeposit",
        E::EmptyWithdrawal => "EmptyWithdrawal",
        E::InvalidArgument("invalid prices") => "InvalidPrices",
        E::MaxPoolAmountExceeded(_) => "PoolAmount",
        E::MaxPoolValueExceeded(_) => "PoolValue",
        E::InsufficientReserve(_, _) => "Reserve",
        E::PnlFactorExceeded(_, _) => "PnlFactor",
        E::InvalidPoolValue(_) => "InvalidPoolValue",
        _ => "Fail",
    }
}

fn kind_of(n: u64) -> Option<PnlFactorKind> {
    Some(match n {
        0 => PnlFactorKind::MaxAfterDeposit,
        1 => PnlFactorKind::MaxAfterWithdrawal,
        2 => PnlFactorKind::MaxForTrader,
        3 => PnlFactorKind::ForAdl,
        4 => PnlFactorKind::MinAfterAdl,
        _ => return None,
    })
}

/// `<u128, 20>` defaults (copy of `gmsol_model::test`; `market.rs` gates its `Default` impl behind
/// a cargo feature `h_model` does not define). Only the fields `mkt new` does not set matter.
fn default_cfg128() -> TestMarketConfig<u128, 20> {
    use gmsol_model::params::{fee::{BorrowingFeeKinkModelParamsForOneSide, FundingFeeParams, LiquidationFeeParams}, PositionParams};
    const SECONDS_PER_YEAR: u128 = 365 * 24 * 3600;
    let u = 10u128.pow(20);
    TestMarketConfig::<u128, 20> {
        swap_impact_params: PriceImpactParams::builder().exponent(2 * u).positive_factor(400_000_000_000).negative_factor(800_000_000_000).build(),
        swap_fee_params: FeeParams::builder().fee_receiver_factor(u / 100 * 37).positive_impact_fee_factor(u / 2000).negative_impact_fee_factor(u / 10000 * 7).build(),
        position_params: PositionParams::new(u, u, u / 100, u / 200, u / 200, u / 400),
        position_impact_params: PriceImpactParams::builder().exponent(2 * u).positive_factor(100_000_000_000).negative_factor(200_000_000_000).build(),
        order_fee_params: FeeParams::builder().fee_receiver_factor(u / 100 * 37).positive_impact_fee_factor(u / 2000).negative_impact_fee_factor(u / 10000 * 7).build(),
        position_impact_distribution_params: PositionImpactDistributionParams::builder().distribute_factor(u).min_position_impact_pool_amount(1_000_000_000).build(),
        borrowing_fee_params: BorrowingFeeParams::builder().receiver_factor(u / 100 * 37).factor_for_long(2_820_000_000_000).factor_for_short(2_820_000_000_000).exponent_for_long(u).exponent_for_short(u).build(),
        borrowing_fee_kink_model_params: BorrowingFeeKinkModelParamsForOneSide::builder().optimal_usage_factor(u / 100 * 75)
            .base_borrowing_factor(u / 10 * 6 / SECONDS_PER_YEAR).above_optimal_usage_borrowing_factor(u / 10 * 15 / SECONDS_PER_YEAR).build(),
        funding_fee_params: FundingFeeParams::builder().exponent(u).funding_factor(2_000_000_000_000).max_factor_per_second(1_000_000_000_000)
            .min_factor_per_second(30_000_000_000).increase_factor_per_second(790_000_000).decrease_factor_per_second(0)
            .threshold_for_stable_funding(u / 20).threshold_for_decrease_funding(0).build(),
        reserve_factor: u,
        open_interest_reserve_factor: u,
        max_pnl_factors: MaxPnlFactors { deposit: u / 10 * 6, withdrawal: u / 10 * 3, trader: u / 2, adl: u / 2 },
        min_pnl_factor_after_adl: 0,
        max_pool_amount: 1_000_000_000 * u,
        max_pool_value_for_deposit: 1_000_000_000_000_000 * u,
        max_open_interest: 1_000_000_000 * u,
        min_collateral_factor_for_oi: 5 * 10u128.pow(17) / 83_000_000,
        ignore_open_interest_for_usage_factor: false,
        liquidation_fee_params: LiquidationFeeParams::builder().factor(u / 500).receiver_factor(u / 100 * 37).build(),
    }
}

macro_rules! imp {
    ($T:ty, $D:expr, $new:ident, $pools:ident, $digest:ident, $snap:ident, $op:ident, $W:expr, $def:expr) => {
        fn $new(x: &[u128]) -> Option<TestMarket<$T, $D>> {
            if x.len() != 30 && x.len() != 31 { return None; }
            let mut v: Vec<$T> = Vec::new();
            for a in x { v.push(<$T>::try_from(*a).ok()?); }
            if v[25] > 1 || v[28] > 1 || v[29] > 1 { return None; }
            let d: TestMarketConfig<$T, $D> = $def;
            let unit = <$T as gmsol_model::fixed::FixedPointOps<$D>>::UNIT;
            let config = TestMarketConfig::<$T, $D> {
                swap_impact_params: PriceImpactParams::builder().exponent(v[0]).positive_factor(v[1]).negative_factor(v[2]).build(),
                swap_fee_params: { let f = FeeParams::builder().positive_impact_fee_factor(v[3]).negative_impact_fee_factor(v[4]).fee_receiver_factor(v[5]).build(); if v.len() == 31 { f.with_discount_factor(v[30]) } else { f } },
                position_impact_params: PriceImpactParams::builder().exponent(v[6]).positive_factor(v[7]).negative_factor(v[8]).build(),
                order_fee_params: FeeParams::builder().positive_impact_fee_factor(v[9]).negative_impact_fee_factor(v[10]).fee_receiver_factor(v[11]).build(),
                position_impact_distribution_params: PositionImpactDistributionParams::builder().distribute_factor(v[12]).min_position_impact_pool_amount(v[13]).build(),
                borrowing_fee_params: BorrowingFeeParams::builder().receiver_factor(v[14]).factor_for_long(0).factor_for_short(0).exponent_for_long(unit).exponent_for_short(unit).build(),
                reserve_factor: v[15],
                open_interest_reserve_factor: v[16],
                max_pnl_factors: MaxPnlFactors { deposit: v[17], withdrawal: v[18], trader: v[19], adl: v[20] },
                min_pnl_factor_after_adl: v[21],
                max_pool_amount: v[22],
                max_pool_value_for_deposit: v[23],
                max_open_interest: v[24],
                ignore_open_interest_for_usage_factor: v[25] == 1,
                ..d
            };
            let mut m = TestMarket::<$T, $D>::new(v[26], v[27], config);
            if v[28] == 1 { m.vi_swaps = Some(TestPool::default()); }
            if v[29] == 1 { m.vi_positions = Some(TestPool::default()); }
            Some(m)
        }

        fn $pools(m: &TestMarket<$T, $D>) -> Vec<TestPool<$T>> {
            vec![m.primary, m.swap_impact, m.fee, m.open_interest.0, m.open_interest.1, m.open_interest_in_tokens.0,
                 m.open_interest_in_tokens.1, m.position_impact, m.borrowing_factor, m.funding_amount_per_size.0,
                 m.funding_amount_per_size.1, m.claimable_funding_amount_per_size.0, m.claimable_funding_amount_per_size.1,
                 m.collateral_sum.0, m.collateral_sum.1, m.total_borrowing]
        }

        fn $digest(m: &TestMarket<$T, $D>) -> String {
            let ps: Vec<String> = $pools(m).iter().map(|p| format!("{},{}", p.long_amount, p.short_amount)).collect();
            let ck = |k: ClockKind| m.clocks.get(&k).map(|c| c.to_string()).unwrap_or("_".into());
            let op = |p: &Option<TestPool<$T>>| p.map(|p| format!("{},{}", p.long_amount, p.short_amount)).unwrap_or("_".into());
            format!("{} s={} ff={} now={} ck={},{},{} vi={} vp={}", ps.join(";"), m.total_supply, m.funding_factor_per_second, m.now,
                ck(ClockKind::PriceImpactDistribution), ck(ClockKind::Borrowing), ck(ClockKind::Funding), op(&m.vi_swaps), op(&m.vi_positions))
        }

        fn $snap(m: &TestMarket<$T, $D>) -> Snap {
            Snap {
                w: $W,
                pools: $pools(m).iter().map(|p| (p.long_amount as u128, p.short_amount as u128)).collect(),
                supply: m.total_supply as u128,
                now: m.now,
                vi_swaps: m.vi_swaps.map(|p| (p.long_amount as u128, p.short_amount as u128)),
                vi_positions: m.vi_positions.map(|p| (p.long_amount as u128, p.short_amount as u128)),
            }
        }

        /// `None` = bad-op (state untouched); otherwise the response without the digest.
        fn $op(m: &mut TestMarket<$T, $D>, op: &str, a: &[&str]) -> Option<String> {
            let n = |i: usize| -> Option<$T> { a.get(i)?.parse::<$T>().ok() };
            let prices = |i: usize| -> Option<Prices<$T>> {
                if a.len() != i + 6 { return None; }
                Some(Prices {
                    index_token_price: Price { min: n(i)?, max: n(i + 1)? },
                    long_token_price: Price { min: n(i + 2)?, max: n(i + 3)? },
                    short_token_price: Price { min: n(i + 4)?, max: n(i + 5)? },
                })
            };
            let fail = |e: gmsol_model::Error| format!("err {}", err_tag(&e));
            match op {
                "tick" => {
                    if a.len() != 1 { return None; }
                    let secs: u64 = a[0].parse().ok()?;
                    m.now = m.now.checked_add(secs)?;
                    Some("ok".into())
                }
                "setpool" => {
                    if a.len() != 3 { return None; }
                    let k: usize = a[0].parse().ok()?;
                    let p = TestPool { long_amount: n(1)?, short_amount: n(2)? };
                    match k {
                        0 => m.primary = p, 1 => m.swap_impact = p, 2 => m.fee = p, 3 => m.open_interest.0 = p, 4 => m.open_interest.1 = p,
                        5 => m.open_interest_in_tokens.0 = p, 6 => m.open_interest_in_tokens.1 = p, 7 => m.position_impact = p,
                        8 => m.borrowing_factor = p, 9 => m.funding_amount_per_size.0 = p, 10 => m.funding_amount_per_size.1 = p,
                        11 => m.claimable_funding_amount_per_size.0 = p, 12 => m.claimable_funding_amount_per_size.1 = p,
                        13 => m.collateral_sum.0 = p, 14 => m.collateral_sum.1 = p, 15 => m.total_borrowing = p,
                        _ => return None,
                    }
                    Some("ok".into())
                }
                "setvi" => {
                    if a.len() != 3 { return None; }
                    let p = TestPool { long_amount: n(1)?, short_amount: n(2)? };
                    match a[0] { "0" => m.vi_swaps = Some(p), "1" => m.vi_positions = Some(p), _ => return None }
                    Some("ok".into())
                }
                "setclock" => {
                    if a.len() != 2 { return None; }
                    let v: u64 = a[1].parse().ok()?;
                    let k = match a[0] { "0" => ClockKind::PriceImpactDistribution, "1" => ClockKind::Borrowing, "2" => ClockKind::Funding, _ => return None };
                    m.clocks.insert(k, v);
                    Some("ok".into())
                }
                "dist" => {
                    if !a.is_empty() { return None; }
                    Some(match m.distribute_position_impact().and_then(|x| x.execute()) {
                        Ok(r) => format!("ok {} {} {}", r.duration_in_seconds(), r.distribution_amount(), r.next_position_impact_pool_amount()),
                        Err(e) => fail(e),
                    })
                }
                "pv" => {
                    let kind = kind_of(a.first()?.parse().ok()?)?;
                    let maximize = match *a.get(1)? { "1" => true, "0" => false, _ => return None };
                    let p = prices(2)?;
                    Some(match m.pool_value(&p, kind, maximize) { Ok(v) => format!("ok {v}"), Err(e) => fail(e) })
                }
                "swap" => {
                    let in_long = match *a.first()? { "1" => true, "0" => false, _ => return None };
                    let amount = n(1)?;
                    let p = prices(2)?;
                    Some(match m.swap(in_long, amount, p).and_then(|s| s.execute()) {
                        Ok(r) => format!("ok {} {} {} {} {}", r.token_out_amount(), r.price_impact(), r.price_impact_amount(),
                            r.token_in_fees().fee_amount_for_pool(), r.token_in_fees().fee_amount_for_receiver()),
                        Err(e) => fail(e),
                    })
                }
                "deposit" => {
                    let (l, s) = (n(0)?, n(1)?);
                    let p = prices(2)?;
                    Some(match m.deposit(l, s, p).and_then(|d| d.execute()) {
                        Ok(r) => format!("ok {} {} {} {} {} {}", r.minted(), r.price_impact(),
                            r.long_token_fees().fee_amount_for_pool(), r.long_token_fees().fee_amount_for_receiver(),
                            r.short_token_fees().fee_amount_for_pool(), r.short_token_fees().fee_amount_for_receiver()),
                        Err(e) => fail(e),
                    })
                }
                "withdraw" => {
                    let amount = n(0)?;
                    let p = prices(1)?;
                    Some(match m.withdraw(amount, p).and_then(|w| w.execute()) {
                        Ok(r) => format!("ok {} {} {} {} {} {}", r.long_token_output(), r.short_token_output(),
                            r.long_token_fees().fee_amount_for_pool(), r.long_token_fees().fee_amount_for_receiver(),
                            r.short_token_fees().fee_amount_for_pool(), r.short_token_fees().fee_amount_for_receiver()),
                        Err(e) => fail(e),
                    })
                }
                _ => None,
            }
        }
    };
}

imp!(u64, 9, new64, pools64, digest64, snap64, op64, 64, TestMarketConfig::<u64, 9>::default());
imp!(u128, 20, new128, pools128, digest128, snap128, op128, 128, default_cfg128());

/// the market ops of the `mkt` engine on a bare market (used by the `lp` engine, whose sessions are
/// the position engine's): `None` = bad-op, otherwise the response without digest. Panics are
/// reported as `err Panic`.
pub fn market_op64(m: &mut TestMarket<u64, 9>, op: &str, a: &[&str]) -> Option<String> {
    match catch_unwind(AssertUnwindSafe(|| op64(m, op, a))) { Ok(r) => r, Err(_) => Some("err Panic".into()) }
}
pub fn market_op128(m: &mut TestMarket<u128, 20>, op: &str, a: &[&str]) -> Option<String> {
    match catch_unwind(AssertUnwindSafe(|| op128(m, op, a))) { Ok(r) => r, Err(_) => Some("err Panic".into()) }
}
pub fn market_snap64(m: &TestMarket<u64, 9>) -> Snap { snap64(m) }
pub fn market_snap128(m: &TestMarket<u128, 20>) -> Snap { snap128(m) }

#[derive(Default)]
pub struct Engine {
    pub db: HashMap<String, AnyMarket>,
}

impl Engine {
    pub fn new() -> Self { Self::default() }

    pub fn snap(&self, sid: &str) -> Option<Snap> {
        Some(match self.db.get(sid)? { AnyMarket::M64(m) => snap64(m), AnyMarket::M128(m) => snap128(m) })
    }

    pub fn digest(&self, sid: &str) -> Option<String> {
        Some(match self.db.get(sid)? { AnyMarket::M64(m) => digest64(m), AnyMarket::M128(m) => digest128(m) })
    }

    /// run `op` on a COPY of the market with the swap virtual inventory removed (oracle probe for the
    /// "worse of the two impacts" rule); the session itself is untouched
    pub fn probe_without_vi(&self, sid: &str, op: &str, args: &[&str]) -> Option<String> {
        match self.db.get(sid)? {
            AnyMarket::M64(m) => { let mut c = (**m).clone(); c.vi_swaps = None; market_op64(&mut c, op, args) }
            AnyMarket::M128(m) => { let mut c = (**m).clone(); c.vi_swaps = None; market_op128(&mut c, op, args) }
        }
    }

    /// Execute one request line (`mkt <op> <sid> …`); returns the canonical response.
    pub fn exec(&mut self, req: &str) -> String {
        let t: Vec<&str> = req.split(' ').collect();
        if t.len() < 3 || t[0] != "mkt" { return "bad-op".into(); }
        let (op, sid) = (t[1], t[2]);
        if op == "new" {
            let nums: Option<Vec<u128>> = t[3..].iter().map(|s| s.parse::<u128>().ok()).collect();
            let Some(nums) = nums else { return "bad-op".into() };
            if nums.len() != 32 && nums.len() != 33 { return "bad-op".into(); }
            let m = match (nums[0], nums[1]) {
                (64, 1_000_000_000) => new64(&nums[2..]).map(|m| AnyMarket::M64(Box::new(m))),
                (128, 100_000_000_000_000_000_000) => new128(&nums[2..]).map(|m| AnyMarket::M128(Box::new(m))),
                _ => None,
            };
            let Some(m) = m else { return "bad-op".into() };
            self.db.insert(sid.to_string(), m);
            return format!("ok | {}", self.digest(sid).unwrap());
        }
        let Some(m) = self.db.get_mut(sid) else { return "bad-op".into() };
        let r = catch_unwind(AssertUnwindSafe(|| match m {
            AnyMarket::M64(m) => op64(m, op, &t[3..]),
            AnyMarket::M128(m) => op128(m, op, &t[3..]),
        }));
        match r {
            Ok(None) => "bad-op".into(),
            Ok(Some(s)) => format!("{s} | {}", self.digest(sid).unwrap()),
            Err(_) => format!("err Panic | {}", self.digest(sid).unwrap()),
        }
    }
}

/// Split a response into (`ok`/`err` part tokens, digest).
pub fn split_resp(resp: &str) -> (Vec<&str>, &str) {
    match resp.split_once(" | ") {
        Some((a, d)) => (a.split(' ').collect(), d),
        None => (resp.split(' ').collect(), ""),
    }
}

/// A config palette entry rendered as the 30 numbers of `mkt new` (after `W U`).
#[derive(Clone, Debug)]
pub struct Cfg {
    pub w: u32,
    pub unit: u128,
    pub swap_impact: (u128, u128, u128),
    pub swap_fee: (u128, u128, u128),
    pub pos_impact: (u128, u128, u128),
    pub order_fee: (u128, u128, u128),
    pub dist_factor: u128,
    pub min_pip: u128,
    pub borrow_recv: u128,
    pub reserve: u128,
    pub oi_reserve: u128,
    pub pnl: (u128, u128, u128, u128, u128),
    pub max_pool_amount: u128,
    pub max_pool_value: u128,
    pub max_oi: u128,
    pub ignore_oi: bool,
    pub divisor: u128,
    pub funding_adj: u128,
    pub vi_swaps: bool,
    pub vi_positions: bool,
    /// swap fee discount factor (`FeeParams::with_discount_factor`); 0 = not set (not rendered)
    pub swap_fee_discount: u128,
}

impl Cfg {
    /// the defaults of `TestMarketConfig::default()` for the width
    pub fn default_for(w: u32) -> Cfg {
        if w == 64 {
            let u = 1_000_000_000u128;
            Cfg { w, unit: u, swap_impact: (2 * u, 4, 8), swap_fee: (500_000, 700_000, 370_000_000), pos_impact: (2 * u, 1, 2),
                order_fee: (500_000, 700_000, 370_000_000), dist_factor: u, min_pip: u, borrow_recv: 370_000_000, reserve: u, oi_reserve: u,
                pnl: (600_000_000, 300_000_000, 500_000_000, 500_000_000, 0), max_pool_amount: u * u, max_pool_value: u64::MAX as u128,
                max_oi: u64::MAX as u128, ignore_oi: false, divisor: 1, funding_adj: 10_000, vi_swaps: false, vi_positions: false, swap_fee_discount: 0 }
        } else {
            let u = 100_000_000_000_000_000_000u128;
            Cfg { w, unit: u, swap_impact: (2 * u, 400_000_000_000, 800_000_000_000), swap_fee: (u / 2000, u / 10000 * 7, u / 100 * 37),
                pos_impact: (2 * u, 100_000_000_000, 200_000_000_000), order_fee: (u / 2000, u / 10000 * 7, u / 100 * 37),
                dist_factor: u, min_pip: 1_000_000_000, borrow_recv: u / 100 * 37, reserve: u, oi_reserve: u,
                pnl: (u / 10 * 6, u / 10 * 3, u / 2, u / 2, 0), max_pool_amount: 1_000_000_000 * u, max_pool_value: 1_000_000_000_000_000 * u,
                max_oi: 1_000_000_000 * u, ignore_oi: false, divisor: 100_000_000_000, funding_adj: 10_000_000_000, vi_swaps: false, vi_positions: false, swap_fee_discount: 0 }
        }
    }

    pub fn new_req(&self, sid: &str) -> String {
        let b = |x: bool| if x { 1 } else { 0 };
        let tail = if self.swap_fee_discount != 0 { format!(" {}", self.swap_fee_discount) } else { String::new() };
        format!("mkt new {sid} {} {} {} {} {} {} {} {} {} {} {} {} {} {} {} {} {} {} {} {} {} {} {} {} {} {} {} {} {} {} {} {}{tail}",
            self.w, self.unit, self.swap_impact.0, self.swap_impact.1, self.swap_impact.2, self.swap_fee.0, self.swap_fee.1, self.swap_fee.2,
            self.pos_impact.0, self.pos_impact.1, self.pos_impact.2, self.order_fee.0, self.order_fee.1, self.order_fee.2,
            self.dist_factor, self.min_pip, self.borrow_recv, self.reserve, self.oi_reserve, self.pnl.0, self.pnl.1, self.pnl.2, self.pnl.3, self.pnl.4,
            self.max_pool_amount, self.max_pool_value, self.max_oi, b(self.ignore_oi), self.divisor, self.funding_adj, b(self.vi_swaps), b(self.vi_positions))
    }
}
