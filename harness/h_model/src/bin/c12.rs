//! C12 correspondence + oracle: the real funding-rate computation, `FundingFeeParams::change`,
//! pack/unpack helpers and `UpdateFundingState::execute` over the deterministic `TestMarket`.
//! Stateless requests; the `update`/`pending` requests of the history stream are snapshots of
//! market states reached by executing real deposits / position operations / clock advances.
use gmsol_model::action::decrease_position::DecreasePositionFlags;
use gmsol_model::action::update_funding_state::{pack_to_funding_amount_per_size, unpack_to_funding_amount_delta, UpdateFundingState};
use gmsol_model::params::fee::{FundingFeeParams, FundingRateChangeType};
use gmsol_model::price::Prices;
use gmsol_model::{ClockKind, MarketAction, PositionExt};
use h_model::market::TestMarket;
use h_model::perp::err_tag;
use hcommon::*;
use num_bigint::BigUint;

fn big(s: &str) -> BigUint { s.parse::<BigUint>().unwrap() }

macro_rules! engine {
    ($name:ident, $hist:ident, $U:ty, $I:ty, $D:expr, $W:expr, $wm:ident) => {
        fn $name(t: &[&str]) -> Option<String> {
            let u = |i: usize| -> Option<$U> { t.get(i)?.parse::<$U>().ok() };
            let s = |i: usize| -> Option<$I> { t.get(i)?.parse::<$I>().ok() };
            let unit = <$U as gmsol_model::fixed::FixedPointOps<$D>>::UNIT;
            let fp = |b: usize| -> Option<FundingFeeParams<$U>> {
                Some(FundingFeeParams::builder().exponent(u(b)?).funding_factor(u(b + 1)?).increase_factor_per_second(u(b + 2)?)
                    .decrease_factor_per_second(u(b + 3)?).max_factor_per_second(u(b + 4)?).min_factor_per_second(u(b + 5)?)
                    .threshold_for_stable_funding(u(b + 6)?).threshold_for_decrease_funding(u(b + 7)?).build())
            };
            match t[0] {
                "rate" => {
                    if t.len() != 15 || u(2)? != unit { return None; }
                    let mut cfg = h_model::perp::$wm::default_cfg();
                    cfg.funding_fee_params = fp(3)?;
                    let mut m = h_model::perp::$wm::new_market(cfg);
                    m.funding_factor_per_second = s(11)?;
                    let dur: u64 = t[12].parse().ok()?;
                    let (l, sh) = (u(13)?, u(14)?);
                    let a = UpdateFundingState::try_new(&mut m, &Prices::new_for_test(1, 1, 1)).ok()?;
                    Some(match a.next_funding_factor_per_second(dur, &l, &sh) {
                        Ok((f, lps, nx)) => format!("ok {f} {} {nx}", lps as u8),
                        Err(e) => format!("err {}", err_tag(&e)),
                    })
                }
                "pack" => {
                    if t.len() != 8 || u(2)? != unit { return None; }
                    let up = match t[7] { "1" => true, "0" => false, _ => return None };
                    Some(opt(pack_to_funding_amount_per_size::<$U, $D>(&u(3)?, &u(4)?, &u(5)?, &u(6)?, up)))
                }
                "unpack" | "pending" => {
                    if t.len() != 8 || u(2)? != unit { return None; }
                    let up = match t[7] { "1" => true, "0" => false, _ => return None };
                    Some(opt(unpack_to_funding_amount_delta::<$U, $D>(&u(3)?, &u(4)?, &u(5)?, &u(6)?, up)))
                }
                "update" => {
                    if t.len() != 28 || u(2)? != unit { return None; }
                    let mut cfg = h_model::perp::$wm::default_cfg();
                    cfg.funding_fee_params = fp(4)?;
                    let mut m = TestMarket::<$U, $D>::new(1 as $U, u(3)?, cfg);
                    m.funding_factor_per_second = s(12)?;
                    let dur: u64 = t[13].parse().ok()?;
                    let (pl, ps) = (u(14)?, u(15)?);
                    m.open_interest.0.long_amount = u(16)?; m.open_interest.0.short_amount = u(17)?;
                    m.open_interest.1.long_amount = u(18)?; m.open_interest.1.short_amount = u(19)?;
                    m.funding_amount_per_size.0.long_amount = u(20)?; m.funding_amount_per_size.0.short_amount = u(21)?;
                    m.funding_amount_per_size.1.long_amount = u(22)?; m.funding_amount_per_size.1.short_amount = u(23)?;
                    m.claimable_funding_amount_per_size.0.long_amount = u(24)?; m.claimable_funding_amount_per_size.0.short_amount = u(25)?;
                    m.claimable_funding_amount_per_size.1.long_amount = u(26)?; m.claimable_funding_amount_per_size.1.short_amount = u(27)?;
                    m.clocks.insert(ClockKind::Funding, 0);
                    m.now = dur;
                    let mut prices = Prices::new_for_test(1 as $U, pl, ps);
                    prices.index_token_price.min = 1; prices.index_token_price.max = 1;
                    let r = UpdateFundingState::try_new(&mut m, &prices).and_then(|a| a.execute());
                    Some(match r {
                        Ok(rep) => {
                            let mut out = format!("ok {}", rep.next_funding_factor_per_second());
                            for (a, b) in [(true, true), (true, false), (false, true), (false, false)] { out += &format!(" {}", rep.delta_funding_amount_per_size(a, b)); }
                            for (a, b) in [(true, true), (true, false), (false, true), (false, false)] { out += &format!(" {}", rep.delta_claimable_funding_amount_per_size(a, b)); }
                            let f = &m.funding_amount_per_size; let c = &m.claimable_funding_amount_per_size;
                            out += &format!(" {} {} {} {} {} {} {} {}", f.0.long_amount, f.0.short_amount, f.1.long_amount, f.1.short_amount, c.0.long_amount, c.0.short_amount, c.1.long_amount, c.1.short_amount);
                            out
                        }
                        Err(e) => format!("err {}", err_tag(&e)),
                    })
                }
                _ => None,
            }
        }

        /// one random history on the real code; returns `update` / `pending` / `rate` requests
        /// describing the states it went through.
        fn $hist(r: &mut Rng, out: &mut Out) -> Vec<String> {
            use h_model::perp::$wm::*;
            let mut reqs = vec![];
            let mut cfg = cfg_palette(r);
            // funding parameter palette (per-second factors as fractions of UNIT)
            let adaptive = r.chance(1, 2);
            let per_s = |r: &mut Rng| -> Num { match r.below(5) { 0 => 0, 1 => r.range(1, 20) as Num, 2 => UNIT / 1_000_000_000 * r.range(1, 500) as Num, 3 => UNIT / 10_000_000 * r.range(1, 50) as Num, _ => UNIT / 100_000 } };
            let mx = per_s(r).max(1);
            let mn = match r.below(4) { 0 => 0, 1 => mx, 2 => mx / 3, _ => mx / 30 };
            let fpar = FundingFeeParams::builder().exponent(UNIT * *r.pick(&[1 as Num, 1, 2, 0]))
                .funding_factor(match r.below(4) { 0 => 0, 1 => UNIT / 1_000_000_000 * 20, 2 => UNIT / 100_000, _ => UNIT / 50 })
                .increase_factor_per_second(if adaptive { per_s(r).max(1) } else { 0 }).decrease_factor_per_second(if r.chance(1, 2) { per_s(r) } else { 0 })
                .max_factor_per_second(mx).min_factor_per_second(mn)
                .threshold_for_stable_funding(*r.pick(&[0 as Num, UNIT / 20, UNIT / 2])).threshold_for_decrease_funding(*r.pick(&[0 as Num, UNIT / 100, UNIT / 4])).build();
            cfg.funding_fee_params = fpar.clone();
            let fp_str = format!("{} {} {} {} {} {} {} {}", fpar.exponent(), fpar.factor(), fpar.increase_factor_per_second(), fpar.decrease_factor_per_second(),
                fpar.max_factor_per_second(), fpar.min_factor_per_second(), fpar.threshold_for_stable_funding(), fpar.threshold_for_decrease_funding());
            let mut w = World::new(cfg);
            let mut px = 50 + r.below(200);
            let pr0 = prices((px, px), (px, px), (1, 1));
            let _ = w.deposit(1_000_000_000 + r.below(1_000_000_000_000) as Num, r.below(100_000_000_000_000) as Num, pr0);
            let _ = w.tick(0, &pr0);
            let nops = 6 + r.below(25);
            for _ in 0..nops {
                if r.chance(1, 4) { px = (px as i64 + r.below(21) as i64 - 10).max(2) as u64; }
                let spread = r.below(3);
                let pr = prices((px, px + spread), (px, px + spread), (1, 1));
                match r.below(7) {
                    0 | 1 | 2 => {
                        let idx = if w.ps.is_empty() || r.chance(1, 2) { w.open(r.chance(1, 2), r.chance(1, 2)) } else { r.below(w.ps.len() as u64) as usize };
                        let col_long = w.ps[idx].is_collateral_token_long;
                        let size = (*r.pick(&[1_000_000_000u64, 20_000_000_000, 500_000_000_000, 5_000_000_000_000]) + r.below(1_000_000_000)) as Num * SCALE;
                        let cval = (size / SCALE) as u64 / (1 + r.below(30)) + r.below(2_000_000_000);
                        let c = (if col_long { cval / px } else { cval }) as Num;
                        out.stat(if w.increase(idx, pr, c, size).is_ok() { "hist.increase.ok" } else { "hist.increase.err" });
                        w.sweep();
                    }
                    3 => {
                        if w.ps.is_empty() { continue; }
                        let idx = r.below(w.ps.len() as u64) as usize;
                        let size = w.ps[idx].size_in_usd;
                        let delta = match r.below(3) { 0 => size, 1 => size / 2, _ => size / 10 };
                        out.stat(if w.decrease(idx, pr, delta, 0, DecreasePositionFlags::default()).is_ok() { "hist.decrease.ok" } else { "hist.decrease.err" });
                        w.sweep();
                    }
                    _ => {
                        let secs = *r.pick(&[0u64, 1, 60, 3600, 86400, 30 * 86400, 400 * 86400]);
                        // snapshot of the funding state before the update
                        w.m.move_clock_forward(secs);
                        let m = &w.m;
                        let dur = m.now - m.clocks.get(&ClockKind::Funding).copied().unwrap_or(m.now);
                        let q = |p: &(h_model::market::TestPool<Num>, h_model::market::TestPool<Num>)| format!("{} {} {} {}", p.0.long_amount, p.0.short_amount, p.1.long_amount, p.1.short_amount);
                        reqs.push(format!("fund update {W} {UNIT} {} {fp_str} {} {dur} {} {} {} {} {}", m.funding_amount_per_size_adjustment, m.funding_factor_per_second,
                            pr.long_token_price.max, pr.short_token_price.max, q(&m.open_interest), q(&m.funding_amount_per_size), q(&m.claimable_funding_amount_per_size)));
                        let (lo, so) = (m.open_interest.0.long_amount + m.open_interest.0.short_amount, m.open_interest.1.long_amount + m.open_interest.1.short_amount);
                        if lo > 0 && so > 0 { reqs.push(format!("fund rate {W} {UNIT} {fp_str} {} {dur} {lo} {so}", m.funding_factor_per_second)); }
                        out.stat(if w.tick(0, &pr).is_ok() { "hist.tick.ok" } else { "hist.tick.err" });
                        // every open position's pending funding must be computable (never negative)
                        let adj = w.m.funding_amount_per_size_adjustment;
                        let World { m, ps } = &mut w;
                        for p in ps.iter_mut() {
                            let (il, cl) = (p.is_long, p.is_collateral_token_long);
                            let fa = if il { &m.funding_amount_per_size.0 } else { &m.funding_amount_per_size.1 };
                            let latest = if cl { fa.long_amount } else { fa.short_amount };
                            reqs.push(format!("fund pending {W} {UNIT} {adj} {latest} {} {} 1", p.funding_fee_amount_per_size, p.size_in_usd));
                            let ca = if il { &m.claimable_funding_amount_per_size.0 } else { &m.claimable_funding_amount_per_size.1 };
                            reqs.push(format!("fund pending {W} {UNIT} {adj} {} {} {} 0", ca.long_amount, p.claimable_funding_fee_amount_per_size.0, p.size_in_usd));
                            reqs.push(format!("fund pending {W} {UNIT} {adj} {} {} {} 0", ca.short_amount, p.claimable_funding_fee_amount_per_size.1, p.size_in_usd));
                            if p.ops(m).pending_funding_fees().is_err() { out.stat("hist.pending.err"); }
                        }
                    }
                }
            }
            reqs
        }
    };
}
engine!(exec64, hist64, u64, i64, 9, 64, w64);
engine!(exec128, hist128, u128, i128, 20, 128, w128);

fn exec_change(t: &[&str]) -> Option<String> {
    if t.len() != 7 { return None; }
    let u = |i: usize| -> Option<u128> { t.get(i)?.parse::<u128>().ok() };
    let p = FundingFeeParams::<u128>::builder().exponent(0).funding_factor(0).increase_factor_per_second(0).decrease_factor_per_second(0)
        .max_factor_per_second(0).min_factor_per_second(0).threshold_for_stable_funding(u(1)?).threshold_for_decrease_funding(u(2)?).build();
    let cur: i128 = t[3].parse().ok()?;
    Some(match p.change(&cur, &u(4)?, &u(5)?, &u(6)?) { FundingRateChangeType::NoChange => "0", FundingRateChangeType::Increase => "1", FundingRateChangeType::Decrease => "2" }.into())
}

fn exec(req: &str) -> String {
    let t: Vec<&str> = req.split(' ').collect();
    if t.len() < 3 || t[0] != "fund" { return "bad-op".into(); }
    let r = std::panic::catch_unwind(|| {
        if t[1] == "change" { return exec_change(&t[1..]); }
        match t[2] { "64" => exec64(&t[1..]), "128" => exec128(&t[1..]), _ => None }
    });
    match r { Ok(Some(s)) => s, Ok(None) => "bad-op".into(), Err(_) => "panic".into() }
}

/// random stateless requests (boundary stream included)
fn gen_random(r: &mut Rng) -> String {
    let (w, unit): (u32, u128) = if r.chance(1, 2) { (64, 1_000_000_000) } else { (128, 100_000_000_000_000_000_000) };
    let per_s = |r: &mut Rng| -> u128 { match r.below(7) { 0 => 0, 1 => r.range(1, 20) as u128, 2 => unit / 1_000_000_000 * r.range(1, 500) as u128, 3 => unit / 10_000_000 * r.range(1, 50) as u128, 4 => unit / 100_000, 5 => unit, _ => r.num(w) } };
    let oi = |r: &mut Rng| -> u128 { match r.below(8) { 0 => 0, 1 => r.num(w), 2 => unit * r.range(1, 1000) as u128, _ => unit / 1000 * r.range(1, 100_000_000) as u128 + r.below(1000) as u128 } };
    match r.below(10) {
        0 => {
            let (l, s) = (oi(r), oi(r));
            let cur = match r.below(4) { 0 => 0, 1 => r.inum(w), 2 => r.range(1, 1000) as i128, _ => -(r.range(1, 1000) as i128) };
            let th = |r: &mut Rng| -> u128 { *r.pick(&[0u128, 1, unit / 20, unit / 2, unit]) };
            let (ts, td) = (th(r), th(r));
            let df = match r.below(4) { 0 => ts, 1 => td, 2 => ts + 1, _ => td.saturating_sub(1) };
            let l2 = if r.chance(1, 5) { s } else { l };
            format!("fund change {ts} {td} {cur} {l2} {s} {df}")
        }
        1 | 2 | 3 | 4 => {
            let e = unit * *r.pick(&[0u128, 1, 1, 1, 2, 3]);
            let adaptive = r.chance(3, 5);
            let mx = per_s(r);
            let mn = match r.below(5) { 0 => 0, 1 => mx, 2 => mx / 3, 3 => mx / 30, _ => per_s(r) };
            let fac = match r.below(5) { 0 => 0, 1 => unit / 1_000_000_000 * 20, 2 => unit / 100_000, 3 => unit / 50, _ => r.num(w) };
            let inc = if adaptive { per_s(r).max(1) } else { 0 };
            let dec = per_s(r);
            let th = |r: &mut Rng| -> u128 { *r.pick(&[0u128, 1, unit / 20, unit / 2, unit]) };
            let (ts, td) = (th(r), th(r));
            let (mut l, mut s) = (oi(r).max(1), oi(r).max(1));
            let wmax: u128 = if w == 64 { u64::MAX as u128 } else { u128::MAX };
            match r.below(6) { 0 => s = l, 1 => s = l.saturating_add(r.range(1, 100) as u128).min(wmax), 2 => l = s.saturating_add(s / 100).min(wmax), 3 => { if r.chance(1, 4) { l = 0 } } _ => {} }
            let half: u128 = 1u128 << (w - 1);
            let cur: i128 = match r.below(8) { 0 => 0, 1 => r.inum(w), 2 => (mx.min(half - 1)) as i128, 3 => -((mx.min(half - 1)) as i128), 4 => (mn.min(half - 1)) as i128 / 2, 5 => if w == 64 { i64::MIN as i128 } else { i128::MIN }, _ => (r.below(2000) as i128 - 1000) };
            let dur = match r.below(6) { 0 => 0, 1 => 1, 2 => 3600, 3 => 86400 * 365, 4 => u64::MAX, _ => r.below(1_000_000) };
            format!("fund rate {w} {unit} {e} {fac} {inc} {dec} {mx} {mn} {ts} {td} {cur} {dur} {l} {s}")
        }
        5 => {
            // a synthetic funding update on a state with non-zero indices
            let adj = if w == 64 { 10_000u128 } else { 10_000_000_000 };
            let e = unit * *r.pick(&[1u128, 1, 2]);
            let mx = unit / 1_000_000_000 * r.range(1, 500) as u128;
            let inc = if r.chance(1, 2) { unit / 1_000_000_000 * r.range(1, 50) as u128 } else { 0 };
            let cur = if inc == 0 { 0 } else { r.below(2 * mx as u64 + 1) as i128 - mx as i128 };
            let scale: u128 = if w == 64 { 1 } else { 100_000_000_000 };
            let o = |r: &mut Rng| -> u128 { if r.chance(1, 5) { 0 } else { r.range(1, 5_000_000) as u128 * 1_000_000 * scale } };
            let idx = |r: &mut Rng| -> u128 { if r.chance(1, 4) { 0 } else { r.below(1_000_000_000_000) as u128 * scale } };
            let dur = *r.pick(&[1u64, 60, 3600, 86400]);
            let (pl, ps) = (r.range(1, 300) as u128 * scale, scale);
            format!("fund update {w} {unit} {adj} {e} {} {inc} 0 {mx} {} 0 0 {cur} {dur} {pl} {ps} {} {} {} {} {} {} {} {} {} {} {} {}", unit / 50, mx / 10,
                o(r), o(r), o(r), o(r), idx(r), idx(r), idx(r), idx(r), idx(r), idx(r), idx(r), idx(r))
        }
        6 => {
            let big_adj = r.num(w);
            let adj = *r.pick(&[if w == 64 { 10_000u128 } else { 10_000_000_000 }, 1, 0, big_adj]);
            let fv = oi(r); let o = oi(r);
            let price = match r.below(5) { 0 => 0, 1 => 1, 2 => r.num(w), _ => r.range(1, 5000) as u128 * if w == 64 { 1 } else { 100_000_000_000 } };
            format!("fund pack {w} {unit} {adj} {fv} {o} {price} {}", r.below(2))
        }
        _ => {
            let big_adj = r.num(w);
            let adj = *r.pick(&[if w == 64 { 10_000u128 } else { 10_000_000_000 }, 1, 0, big_adj]);
            let latest = match r.below(4) { 0 => r.num(w), 1 => 0, _ => r.below(1_000_000_000_000) as u128 };
            let wmax: u128 = if w == 64 { u64::MAX as u128 } else { u128::MAX };
            let snap = match r.below(5) { 0 => latest, 1 => latest.saturating_add(1).min(wmax), 2 => r.num(w), _ => latest / r.range(1, 10) as u128 };
            format!("fund unpack {w} {unit} {adj} {latest} {snap} {} {}", oi(r), r.below(2))
        }
    }
}

fn oracle(out: &mut Out, req: &str, resp: &str) -> bool {
    let t: Vec<&str> = req.split(' ').collect();
    let rt: Vec<&str> = resp.split(' ').collect();
    let ok = rt[0] == "ok";
    match t[1] {
        "change" => { out.stat(&format!("change.{resp}")); true }
        "rate" => {
            let (inc, mx, mn) = (big(t[6]), big(t[8]), big(t[9]));
            let (l, s) = (big(t[14]), big(t[15]));
            let zero = BigUint::from(0u8);
            out.stat(if inc == zero { "rate.fallback" } else { "rate.adaptive" });
            if !ok { out.stat(&format!("rate.{}", resp.replace(' ', "_"))); return false; }
            let f = big(rt[1]); let lps = rt[2] == "1";
            let stored = rt[3].trim_start_matches('-').parse::<BigUint>().unwrap();
            if l > zero && s > zero {
                if stored > mx { out.oracle_fail("stored next funding rate exceeds the configured maximum", req); }
                if f > mx { out.oracle_fail("funding rate per second exceeds the configured maximum", req); }
                if mn <= mx && f < mn {
                    if inc == zero { out.known("F-C12", "fallback (non-adaptive) funding rate below the configured minimum", req); out.stat("rate.below_min_fallback"); }
                    else { out.oracle_fail("adaptive funding rate below the configured minimum", req); }
                }
                if inc == zero && f > zero && lps != (l > s) { out.oracle_fail("without adaptive funding the smaller side pays", req); }
                if inc != zero { let pos = !rt[3].starts_with('-') && stored > zero; if f > zero && stored > zero && lps != pos { out.oracle_fail("payer side disagrees with the sign of the stored rate", req); } }
            }
            if f > zero { out.stat(if lps { "rate.longs_pay" } else { "rate.shorts_pay" }); }
            f > zero
        }
        "pack" => { if ok { out.stat("pack.ok"); } else { out.stat("pack.none"); } ok && rt[1] != "0" }
        "unpack" | "pending" => {
            // exact oracle: ⌊size·(latest−snap)/(adj·UNIT)⌋ (ceil if up) or failure
            let (unit, adj, latest, snap, size) = (big(t[3]), big(t[4]), big(t[5]), big(t[6]), big(t[7]));
            let w: u32 = t[2].parse().unwrap();
            let lim = BigUint::from(1u8) << w;
            let up = t[8] == "1";
            let expect: Option<BigUint> = if snap > latest { None } else {
                let a = &adj * &unit;
                if a >= lim || a == BigUint::from(0u8) { None } else {
                    let n = &size * (&latest - &snap);
                    let q = if up { (&n + &a - BigUint::from(1u8)) / &a } else { &n / &a };
                    if q >= lim { None } else { Some(q) }
                }
            };
            let got = if ok { Some(big(rt[1])) } else { None };
            if got != expect { out.oracle_fail("pending funding amount is not the exact rounded value", req); }
            if t[1] == "pending" {
                out.stat("pending.cases");
                if !ok { out.oracle_fail("pending funding fee of an open position is negative or not computable", req); }
            }
            ok && rt[1] != "0"
        }
        "update" => {
            if !ok { out.stat(&format!("update.{}", resp.replace(' ', "_"))); return false; }
            let olds: Vec<BigUint> = t[21..29].iter().map(|x| big(x)).collect();
            let news: Vec<BigUint> = rt[10..18].iter().map(|x| big(x)).collect();
            let mut moved = false;
            for i in 0..8 {
                if news[i] < olds[i] { out.oracle_fail("a funding index decreased", req); }
                if news[i] > olds[i] { moved = true; }
            }
            // payer indices move only on one side, claimable indices only on the other
            let d: Vec<BigUint> = rt[2..10].iter().map(|x| big(x)).collect();
            let z = BigUint::from(0u8);
            let pay_long = d[0] > z || d[1] > z; let pay_short = d[2] > z || d[3] > z;
            let rec_long = d[4] > z || d[5] > z; let rec_short = d[6] > z || d[7] > z;
            if (pay_long && pay_short) || (pay_long && rec_long) || (pay_short && rec_short) { out.oracle_fail("both sides pay or a side pays and receives", req); }
            let mx = big(t[9]);
            let stored = rt[1].trim_start_matches('-').parse::<BigUint>().unwrap();
            if stored > mx { out.oracle_fail("stored next funding rate exceeds the configured maximum", req); }
            out.stat(if moved { "update.moved" } else { "update.still" });
            if pay_long { out.stat("update.longs_pay"); } if pay_short { out.stat("update.shorts_pay"); }
            moved
        }
        _ => false,
    }
}

fn main() {
    let cli = cli();
    let mut out = Out::new();
    if std::env::var("H_DEBUG").is_err() { std::panic::set_hook(Box::new(|_| {})); }
    let reqs: Vec<String> = if cli.mode == "replay" { read_requests(cli.file.as_deref().unwrap()) } else {
        let mut r = Rng::new(cli.seed);
        let mut v = Vec::new();
        while (v.len() as u64) < cli.n {
            if r.chance(1, 40) { let h = if r.chance(2, 3) { hist64(&mut r, &mut out) } else { hist128(&mut r, &mut out) }; v.extend(h); }
            else { v.push(gen_random(&mut r)); }
        }
        v
    };
    for req in reqs {
        let resp = exec(&req);
        if resp == "panic" { out.oracle_fail("panicked", &req); }
        let nt = if resp == "bad-op" || resp == "panic" { false } else { oracle(&mut out, &req, &resp) };
        out.case_nt(&req, &resp, nt);
    }
    out.finish();
}
