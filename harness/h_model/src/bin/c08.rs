//! C08 harness: the shared `perp` engine (h_model::perp) with the C08 oracle.
fn main() { h_model::perp::run_bin("C08"); }
