//! C14 correspondence + oracle: the real `distribute_position_impact` on the deterministic market.
//! Scenario = a market with a chosen rate / minimum / pool amount, then `tick`/`dist` sequences;
//! twin markets `a<k>` (time split in pieces) and `b<k>` (one piece) check "splitting never
//! distributes more".
use h_model::mkt::{split_resp, Cfg, Engine};
use hcommon::*;
use num_bigint::BigUint;
use std::collections::HashMap;

fn gen_scenario(r: &mut Rng, k: u64, out: &mut Vec<String>) {
    let w: u32 = if r.chance(1, 2) { 64 } else { 128 };
    let mut c = Cfg::default_for(w);
    let u = c.unit;
    let max: u128 = if w == 64 { u64::MAX as u128 } else { u128::MAX };
    c.dist_factor = match r.below(9) { 0 => 0, 1 => r.range(1, 20) as u128, 2 => u / 2, 3 => u, 4 => u * 3 + 7, 5 => u / 1000 * r.range(1, 5000) as u128,
        6 => max - r.below(3) as u128, 7 => u - 1, _ => u + 1 };
    c.min_pip = match r.below(6) { 0 => 0, 1 => r.range(1, 1000) as u128, 2 => 1_000_000_000, 3 => u, 4 => max / 2, _ => r.num(w.min(100)) };
    let cur: u128 = match r.below(8) { 0 => 0, 1 => c.min_pip / 2, 2 => c.min_pip, 3 => c.min_pip.saturating_add(1), 4 => c.min_pip.saturating_add(r.range(2, 50) as u128),
        5 => c.min_pip.saturating_add(1_000_000).min(max), 6 => max - r.below(2) as u128, _ => c.min_pip.saturating_add(r.num(w.min(90))).min(max) };
    let n = r.range(1, 5);
    let ts: Vec<u64> = (0..n).map(|_| match r.below(9) { 0 => 0, 1 => 1, 2 => 2, 3 => r.range(3, 120), 4 => 3600, 5 => 86400 * 365, 6 => 1u64 << 62, 7 => r.range(1, 1000) * 1_000_000, _ => r.below(100_000) }).collect();
    for (sid, split) in [(format!("a{k}"), true), (format!("b{k}"), false)] {
        out.push(c.new_req(&sid));
        out.push(format!("mkt setpool {sid} 7 {cur} {}", r.below(3)));
        out.push(format!("mkt dist {sid}")); // initialises the clock (duration 0)
        if split {
            let mut now: u128 = 0;
            for t in &ts {
                out.push(format!("mkt tick {sid} {t}")); now += *t as u128;
                // occasionally move the distribution clock: ahead of `now` (reads as 0 s; the next distribution moves it BACK to now) or behind
                if r.chance(1, 8) && now < u64::MAX as u128 / 4 { let c = if r.chance(1, 2) { now + r.range(1, 100_000) as u128 } else { now.saturating_sub(r.range(0, 100) as u128) }; out.push(format!("mkt setclock {sid} 0 {c}")); }
                out.push(format!("mkt dist {sid}"));
            }
        } else {
            let tot: u128 = ts.iter().map(|t| *t as u128).sum();
            if tot <= u64::MAX as u128 / 2 { out.push(format!("mkt tick {sid} {tot}")); out.push(format!("mkt dist {sid}")); }
        }
    }
    if r.chance(1, 10) { out.push(format!("mkt dist zz{k}")); out.push(format!("mkt tick a{k} {}", u64::MAX)); out.push(format!("mkt setpool a{k} 16 1 1")); }
}

#[derive(Default, Clone)]
struct Track { factor: u128, min: u128, unit: u128, last_clock: Option<u64>, total: u128, time: u128, all_ok: bool, start: u128 }

fn main() {
    let cli = cli();
    let mut out = Out::new();
    std::panic::set_hook(Box::new(|_| {}));
    let reqs: Vec<String> = if cli.mode == "replay" { read_requests(cli.file.as_deref().unwrap()) } else {
        let mut r = Rng::new(cli.seed);
        let mut v = Vec::new();
        let mut k = 0;
        while (v.len() as u64) < cli.n { gen_scenario(&mut r, cli.seed * 1_000_000 + k, &mut v); k += 1; }
        v
    };
    let mut eng = Engine::new();
    let mut tr: HashMap<String, Track> = HashMap::new();
    for req in reqs {
        let t: Vec<&str> = req.split(' ').collect();
        let sid = t.get(2).copied().unwrap_or("").to_string();
        let before = eng.snap(&sid);
        let resp = eng.exec(&req);
        let after = eng.snap(&sid);
        let (r, _) = split_resp(&resp);
        let mut nt = false;
        out.stat(&format!("op.{}", t.get(1).copied().unwrap_or("?")));
        if r[0] == "bad-op" { out.stat("resp.bad-op"); }
        match t.get(1).copied() {
            Some("new") if r[0] == "ok" => {
                tr.insert(sid.clone(), Track { unit: t[4].parse().unwrap(), factor: t[17].parse().unwrap(), min: t[18].parse().unwrap(), all_ok: true, ..Default::default() });
            }
            Some("setclock") if r[0] == "ok" => { if t[3] == "0" { if let Some(x) = tr.get_mut(&sid) { x.last_clock = Some(t[4].parse().unwrap()); x.all_ok = false; } out.stat("setclock"); } }
            Some("setpool") if r[0] == "ok" => { if let Some(x) = tr.get_mut(&sid) { x.start = after.as_ref().unwrap().pools[7].0; } }
            Some("dist") if r[0] != "bad-op" => {
                let (b, a) = (before.unwrap(), after.unwrap());
                let x = tr.get_mut(&sid).unwrap();
                let dur = b.now.saturating_sub(x.last_clock.unwrap_or(b.now)); // a clock ahead of `now` reads as 0 s
                x.last_clock = Some(b.now);
                let cur = b.pools[7].0;
                // every pool except the long position-impact amount is untouched
                for k in 0..16 { if (k != 7 && a.pools[k] != b.pools[k]) || a.pools[7].1 != b.pools[7].1 { out.oracle_fail("distribution touched another pool", &req); } }
                if a.supply != b.supply { out.oracle_fail("distribution changed the supply", &req); }
                if r[0] == "ok" {
                    let (rd, d, next): (u64, u128, u128) = (r[1].parse().unwrap(), r[2].parse().unwrap(), r[3].parse().unwrap());
                    // the documented amount, in exact arithmetic
                    let spec: BigUint = if x.factor == 0 || cur <= x.min { BigUint::from(0u8) } else {
                        let raw = BigUint::from(dur) * BigUint::from(x.factor) / BigUint::from(x.unit);
                        raw.min(BigUint::from(cur - x.min))
                    };
                    if rd != dur { out.oracle_fail("reported duration is not the time since the last distribution", &req); }
                    if BigUint::from(d) != spec { out.oracle_fail("distributed amount is not rate*seconds capped at the excess over the minimum", &req); }
                    if next > cur { out.oracle_fail("distribution increased the pool", &req); }
                    if cur > x.min && next < x.min { out.oracle_fail("distribution took the pool below the minimum", &req); }
                    if next != cur - d.min(cur) || a.pools[7].0 != next { out.oracle_fail("pool after distribution is not current - distributed", &req); }
                    x.total += d; x.time += dur as u128;
                    nt = d > 0;
                    out.stat(if d == 0 { "dist.zero" } else if d == cur.saturating_sub(x.min) { "dist.capped" } else { "dist.rate" });
                    if cur <= x.min { out.stat("dist.at_or_below_min"); }
                } else {
                    out.stat("dist.err");
                    x.all_ok = false;
                    if a.pools[7] != b.pools[7] { out.oracle_fail("failed distribution changed the pool", &req); }
                }
                // twin check: b<k> (single interval) vs a<k> (split)
                if let Some(k) = sid.strip_prefix('b') {
                    if let (Some(xa), Some(xb)) = (tr.get(&format!("a{k}")), tr.get(&sid)) {
                        if xa.all_ok && xb.all_ok && xa.time == xb.time && xa.start == xb.start && xb.time > 0 {
                            out.stat("twin.compared");
                            if xa.total > xb.total { out.oracle_fail("splitting the interval distributed more than one distribution over the whole interval", &req); }
                            if xa.total < xb.total { out.stat("twin.split_less"); }
                        }
                    }
                }
            }
            _ => {}
        }
        out.case_nt(&req, &resp, nt);
    }
    out.finish();
}
