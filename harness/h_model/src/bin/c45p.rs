//! C45 (pricing part): the real `gmsol_model::glv` functions on deterministic market states, and the
//! deposit→withdraw round trip composed exactly as programs/store/src/ops/glv.rs does.
use gmsol_model::glv::{get_glv_value_for_market, get_market_token_amount_for_glv_value};
use gmsol_model::price::{Price, Prices};
use gmsol_model::utils::{market_token_amount_to_usd, usd_to_market_token_amount};
use gmsol_model::{LiquidityMarket, LiquidityMarketExt, LiquidityMarketMutExt, MarketAction, PnlFactorKind, SwapMarketMutExt};
use h_model::market::{TestMarket, TestPosition};
use gmsol_model::{Balance, PositionMutExt};
use hcommon::*;

type M = TestMarket<u128, 20>;
const DIV: u128 = 100_000_000_000; // 10^(20-9), the market's usd_to_amount_divisor

fn prices(r: &mut Rng) -> Prices<u128> {
    let p = |r: &mut Rng, base: u128| -> Price<u128> { let min = base * r.range(90, 110) as u128 / 100; Price { min, max: min + min * r.below(3) as u128 / 100 } };
    Prices { index_token_price: p(r, 120_000_000_000_000), long_token_price: p(r, 120_000_000_000_000), short_token_price: p(r, 1_000_000_000_000) }
}

fn main() {
    let cli = cli();
    let mut out = Out::new();
    std::panic::set_hook(Box::new(|_| {}));
    if cli.mode == "replay" {
        // stateless replays: only the arithmetic requests can be replayed without the market
        for req in read_requests(cli.file.as_deref().unwrap()) {
            let t: Vec<&str> = req.split(' ').collect();
            let u = |i: usize| t[i].parse::<u128>().unwrap();
            let resp = match t[1] {
                "mint" => opt(usd_to_market_token_amount(u(2), u(3), u(4), u(5))),
                "redeem" => { let v = market_token_amount_to_usd(&u(2), &u(3), &u(4)); match v { Some(v) => opt(usd_to_market_token_amount(v, u(5), u(6), u(7))), None => "none".into() } }
                _ => "bad-op".into(),
            };
            out.case_nt(&req, &resp, resp.starts_with("ok"));
        }
        out.finish();
        return;
    }
    let mut r = Rng::new(cli.seed);
    let mut done = 0u64;
    while done < cli.n {
        // a market state reached by deposits and swaps
        let mut m = M::default();
        let mut pr = prices(&mut r);
        for _ in 0..r.range(1, 4) {
            let (l, s) = (r.range(0, 2000) as u128 * 1_000_000, r.range(0, 300_000) as u128 * 1_000_000);
            let _ = m.deposit(l, s, pr).and_then(|d| d.execute());
            if r.chance(1, 3) { let _ = m.swap(r.chance(1, 2), r.range(1, 1000) as u128 * 1_000_000, pr).and_then(|s| s.execute()); }
        }
        pr = prices(&mut r);
        // pending trader profit around the two pnl caps (deposit / withdrawal): only then do the pool values of the two
        // pnl-factor kinds differ, i.e. only then does it matter WHICH kind each GLV pricing function uses
        if r.chance(3, 5) {
            let (dep, wd) = *r.pick(&[(60u128, 30u128), (60, 30), (30, 60), (50, 50), (80, 20), (45, 40)]);
            m.config.max_pnl_factors.deposit = dep * 1_000_000_000_000_000_000;
            m.config.max_pnl_factors.withdrawal = wd * 1_000_000_000_000_000_000;
            let p0 = pr.index_token_price.max;
            let long_value = m.primary.long_amount().ok().map(|a| a * pr.long_token_price.min).unwrap_or(0);
            if long_value > 0 {
                let size = long_value / 100 * r.range(40, 120) as u128;
                let coll_tokens = (size / 5) / pr.long_token_price.min;
                let mut pos = TestPosition::<u128, 20>::long(true);
                let opened = pos.ops(&mut m).increase(pr, coll_tokens.max(1), size, None).and_then(|a| a.execute()).is_ok();
                if opened {
                    out.stat("state.position_opened");
                    // target pnl as a percentage of the long pool value: below / between / above the caps
                    let f = *r.pick(&[10u128, 25, 29, 31, 35, 42, 48, 55, 59, 61, 75]);
                    let p1 = p0 + p0 * f / 100 * (long_value / 1_000_000) / (size / 1_000_000).max(1);
                    let np = Price { min: p1, max: p1 + p1 * r.below(2) as u128 / 100 };
                    pr = Prices { index_token_price: np, long_token_price: np, short_token_price: pr.short_token_price };
                }
            }
        }
        let sup = m.total_supply();
        let pv = |m: &M, k: PnlFactorKind, mx: bool| m.pool_value(&pr, k, mx).ok();
        let (Some(pdmin), Some(pdmax), Some(pwmax)) = (pv(&m, PnlFactorKind::MaxAfterDeposit, false), pv(&m, PnlFactorKind::MaxAfterDeposit, true), pv(&m, PnlFactorKind::MaxAfterWithdrawal, true)) else { continue };
        // the GLV already holds `b` of the `sup` market tokens and has `gs` GLV tokens outstanding
        let b = if sup == 0 { 0 } else { sup * r.range(1, 60) as u128 / 100 };
        let a = if sup == 0 { 0 } else { (sup * r.range(1, 30) as u128 / 100).max(1) };
        for (bal, mx, p) in [(b, true, pdmax), (a, false, pdmin), (b + a, false, pdmin)] {
            let req = format!("glv value {bal} {p} {sup}");
            let resp = opt(get_glv_value_for_market(&pr, &m, bal, mx).ok().map(|v| v.market_token_value_in_glv));
            out.case_nt(&req, &resp, resp.starts_with("ok") && resp != "ok 0");
            done += 1;
        }
        let (Ok(g_max), Ok(recv), Ok(g_after_min)) = (get_glv_value_for_market(&pr, &m, b, true).map(|v| v.market_token_value_in_glv), get_glv_value_for_market(&pr, &m, a, false).map(|v| v.market_token_value_in_glv), get_glv_value_for_market(&pr, &m, b + a, false).map(|v| v.market_token_value_in_glv)) else { continue };
        // GLV supply consistent with its value: about one GLV token per USD (amount units)
        let gs = if b == 0 { 0 } else { (g_max / DIV) * r.range(80, 120) as u128 / 100 };
        let req = format!("glv mint {recv} {g_max} {gs} {DIV}");
        let minted = usd_to_market_token_amount(recv, g_max, gs, DIV);
        out.case_nt(&req, &opt(minted), minted.map_or(false, |x| x != 0)); done += 1;
        let Some(g) = minted else { continue };
        // immediate withdrawal of the minted GLV tokens, as ops/glv.rs composes it
        let v = market_token_amount_to_usd(&g, &g_after_min, &(gs + g));
        let amt = v.and_then(|v| get_market_token_amount_for_glv_value(&pr, &m, v, true, DIV).ok());
        let req = format!("glv redeem {g} {g_after_min} {} {pwmax} {sup} {DIV}", gs + g);
        out.case_nt(&req, &opt(amt), amt.map_or(false, |x| x != 0)); done += 1;
        if let Some(v) = v { let req = format!("glv amount {v} {pwmax} {sup} {DIV}"); let resp = opt(get_market_token_amount_for_glv_value(&pr, &m, v, true, DIV).ok()); out.case_nt(&req, &resp, resp != "ok 0"); done += 1; }
        // ---- property oracle: the round trip never returns more market tokens than deposited
        out.stat("roundtrip");
        if gs > 0 { if let Some(o) = amt {
            if o > a {
                let (dc, wc) = (m.config.max_pnl_factors.deposit, m.config.max_pnl_factors.withdrawal);
                // known finding F-C45-caps: only with the withdrawal pnl cap configured ABOVE the deposit cap (then the pay-out
                // pool value can be below the valuation pool value — the hypothesis of `glv_roundtrip_no_gain` fails)
                if wc > dc && pwmax < pdmin { out.known("F-C45-caps", &format!("GLV round trip gains market tokens ({a} -> {o}) with the withdrawal pnl cap above the deposit pnl cap"), &req); }
                else { out.oracle_fail(&format!("GLV deposit of {a} market tokens followed by withdrawal returned {o} (pnl caps: deposit {dc}, withdrawal {wc})"), &req); }
            }
            if o == a { out.stat("roundtrip.exact"); }
        } }
        // deposit valued maximised, withdrawal minimised: min <= max
        if pdmin > pdmax { out.oracle_fail("minimised pool value exceeds the maximised one", &req); }
        if pwmax < pdmin { out.stat("withdrawal_pool_value_below_deposit_value"); }
        if pwmax != pdmax { out.stat("state.pnl_kinds_differ"); }
    }
    out.finish();
}
