//! C13 correspondence + oracle: borrowing factor per second (exponent and kink models), cumulative
//! factor update, total pending borrowing fees, `update_total_borrowing`, pending fee of a
//! position. Stateless requests; the `h*` / `update` requests of the history stream are snapshots
//! of market states reached by executing real operations.
use gmsol_model::action::update_borrowing_state::UpdateBorrowingState;
use gmsol_model::params::fee::{BorrowingFeeKinkModelParamsForOneSide, BorrowingFeeParams};
use gmsol_model::price::{Price, Prices};
use gmsol_model::{BorrowingFeeMarketExt, ClockKind, MarketAction, PositionExt, PositionMutExt};
use h_model::market::TestPosition;
use h_model::perp::err_tag;
use hcommon::*;
use num_bigint::BigUint;

fn big(s: &str) -> BigUint { s.parse::<BigUint>().unwrap() }
fn b01(s: &str) -> Option<bool> { match s { "1" => Some(true), "0" => Some(false), _ => None } }

macro_rules! engine {
    ($name:ident, $hist:ident, $U:ty, $I:ty, $D:expr, $wm:ident) => {
        fn $name(t: &[&str]) -> Option<String> {
            use h_model::perp::$wm::*;
            let u = |i: usize| -> Option<$U> { t.get(i)?.parse::<$U>().ok() };
            if u(2)? != UNIT { return None; }
            let res = |r: gmsol_model::Result<$U>| match r { Ok(v) => format!("ok {v}"), Err(e) => format!("err {}", err_tag(&e)) };
            match t[0] {
                "fps" | "next" | "pending" | "hpending" => {
                    if t.len() != 22 { return None; }
                    let (is_long, skip, ignore) = (b01(t[3])?, b01(t[4])?, b01(t[11])?);
                    let mut cfg = default_cfg();
                    cfg.borrowing_fee_params = BorrowingFeeParams::builder().receiver_factor(0).exponent_for_long(u(5)?).exponent_for_short(u(5)?)
                        .factor_for_long(u(6)?).factor_for_short(u(6)?).skip_borrowing_fee_for_smaller_side(skip).build();
                    cfg.borrowing_fee_kink_model_params = BorrowingFeeKinkModelParamsForOneSide::builder().optimal_usage_factor(u(7)?).base_borrowing_factor(u(8)?).above_optimal_usage_borrowing_factor(u(9)?).build();
                    cfg.open_interest_reserve_factor = u(10)?; cfg.ignore_open_interest_for_usage_factor = ignore; cfg.max_open_interest = u(12)?;
                    let mut m = new_market(cfg);
                    m.open_interest.0.long_amount = u(13)?; m.open_interest.1.long_amount = u(14)?;
                    m.open_interest_in_tokens.0.long_amount = u(15)?;
                    if is_long { m.primary.long_amount = u(16)?; } else { m.primary.short_amount = u(16)?; }
                    let (idx, tok) = (u(17)?, u(18)?);
                    let tp = Price { min: tok, max: tok };
                    let other = Price { min: 1, max: 1 };
                    let prices = Prices { index_token_price: Price { min: idx, max: idx }, long_token_price: if is_long { tp } else { other }, short_token_price: if is_long { other } else { tp } };
                    let (cur, total) = (u(19)?, u(21)?);
                    let dur: u64 = t[20].parse().ok()?;
                    if is_long { m.borrowing_factor.long_amount = cur; m.total_borrowing.long_amount = total; } else { m.borrowing_factor.short_amount = cur; m.total_borrowing.short_amount = total; }
                    m.clocks.insert(ClockKind::Borrowing, 0); m.now = dur;
                    Some(match t[0] {
                        "fps" => res(m.borrowing_factor_per_second(is_long, &prices)),
                        "next" => match m.next_cumulative_borrowing_factor(is_long, &prices, dur) { Ok((n, d)) => format!("ok {n} {d}"), Err(e) => format!("err {}", err_tag(&e)) },
                        _ => res(m.total_pending_borrowing_fees(&prices, is_long)),
                    })
                }
                "update" => {
                    if t.len() != 31 { return None; }
                    let (skip, ignore) = (b01(t[3])?, b01(t[5])?);
                    let mut cfg = default_cfg();
                    cfg.borrowing_fee_params = BorrowingFeeParams::builder().receiver_factor(0).exponent_for_long(u(6)?).factor_for_long(u(7)?).exponent_for_short(u(8)?)
                        .factor_for_short(u(9)?).skip_borrowing_fee_for_smaller_side(skip).build();
                    cfg.borrowing_fee_kink_model_params = BorrowingFeeKinkModelParamsForOneSide::builder().optimal_usage_factor(u(10)?).base_borrowing_factor(u(11)?).above_optimal_usage_borrowing_factor(u(12)?).build();
                    cfg.open_interest_reserve_factor = u(4)?; cfg.ignore_open_interest_for_usage_factor = ignore; cfg.max_open_interest = u(13)?;
                    let mut m = new_market(cfg);
                    m.open_interest.0.long_amount = u(14)?; m.open_interest.0.short_amount = u(15)?; m.open_interest.1.long_amount = u(16)?; m.open_interest.1.short_amount = u(17)?;
                    m.open_interest_in_tokens.0.long_amount = u(18)?; m.open_interest_in_tokens.0.short_amount = u(19)?;
                    m.primary.long_amount = u(20)?; m.primary.short_amount = u(21)?;
                    let prices = Prices { index_token_price: Price { min: u(22)?, max: u(23)? }, long_token_price: Price { min: u(24)?, max: u(25)? }, short_token_price: Price { min: u(26)?, max: u(27)? } };
                    m.borrowing_factor.long_amount = u(28)?; m.borrowing_factor.short_amount = u(29)?;
                    let dur: u64 = t[30].parse().ok()?;
                    m.clocks.insert(ClockKind::Borrowing, 0); m.now = dur;
                    Some(match UpdateBorrowingState::try_new(&mut m, &prices).and_then(|a| a.execute()) {
                        Ok(r) => format!("ok {} {}", r.next_cumulative_borrowing_factor(true), r.next_cumulative_borrowing_factor(false)),
                        Err(e) => format!("err {}", err_tag(&e)),
                    })
                }
                "utb" => {
                    if t.len() != 8 { return None; }
                    let mut m = new_market(default_cfg());
                    m.total_borrowing.long_amount = u(7)?;
                    let mut p: TestPosition<$U, $D> = TestPosition::long(true);
                    p.size_in_usd = u(3)?; p.borrowing_factor = u(4)?;
                    let (ns, nbf) = (u(5)?, u(6)?);
                    let r = p.ops(&mut m).update_total_borrowing(&ns, &nbf);
                    Some(match r { Ok(()) => format!("ok {}", m.total_borrowing.long_amount), Err(e) => format!("err {}", err_tag(&e)) })
                }
                "posfee" | "hposfee" => {
                    if t.len() != 6 { return None; }
                    let mut m = new_market(default_cfg());
                    m.borrowing_factor.long_amount = u(5)?;
                    let mut p: TestPosition<$U, $D> = TestPosition::long(true);
                    p.size_in_usd = u(3)?; p.borrowing_factor = u(4)?;
                    Some(res(p.ops(&mut m).pending_borrowing_fee_value()))
                }
                _ => None,
            }
        }

        fn $hist(r: &mut Rng, out: &mut Out) -> Vec<String> {
            use h_model::perp::$wm::*;
            let mut reqs = vec![];
            let mut cfg = cfg_palette(r);
            let skip = r.chance(2, 3);
            let per_y = |x: u64| -> Num { frac(x, 100) / (365 * 24 * 3600) };
            let (expl, exps) = (UNIT * *r.pick(&[1 as Num, 1, 2]), UNIT * *r.pick(&[1 as Num, 1, 2]));
            let bfac = |r: &mut Rng| -> Num { match r.below(4) { 0 => 0, 1 => UNIT / 1_000_000_000 * 28, 2 => UNIT / 100_000_000 * r.range(1, 50) as Num, _ => UNIT / 1_000_000 } };
            let (facl, facs) = (bfac(r), bfac(r));
            cfg.borrowing_fee_params = BorrowingFeeParams::builder().receiver_factor(frac(37, 100)).exponent_for_long(expl).exponent_for_short(exps).factor_for_long(facl).factor_for_short(facs).skip_borrowing_fee_for_smaller_side(skip).build();
            let (opt, base, above) = match r.below(4) { 0 => (0 as Num, 0 as Num, 0 as Num), 1 => (frac(75, 100), per_y(60), per_y(150)), 2 => (frac(10, 100), per_y(500), per_y(100)), _ => (frac(1, 100), per_y(30), per_y(30000)) };
            cfg.borrowing_fee_kink_model_params = BorrowingFeeKinkModelParamsForOneSide::builder().optimal_usage_factor(opt).base_borrowing_factor(base).above_optimal_usage_borrowing_factor(above).build();
            cfg.ignore_open_interest_for_usage_factor = r.chance(1, 2);
            if r.chance(1, 3) { cfg.max_open_interest = (*r.pick(&[1_000_000_000_000u64, 100_000_000_000_000]) as Num) * SCALE; }
            let (oires, ignore, maxoi) = (cfg.open_interest_reserve_factor, cfg.ignore_open_interest_for_usage_factor, cfg.max_open_interest);
            let mut w = World::new(cfg);
            let mut px = 50 + r.below(200);
            let pr0 = prices((px, px), (px, px), (1, 1));
            let _ = w.deposit(1_000_000_000 + r.below(1_000_000_000_000) as Num, r.below(100_000_000_000_000) as Num, pr0);
            let _ = w.tick(0, &pr0);
            let nops = 8 + r.below(30);
            for _ in 0..nops {
                let pr = World::random_prices(r, &mut px);
                match r.below(7) {
                    0 | 1 | 2 => { let (_, ok) = w.random_increase(r, pr, px); out.stat(if ok { "hist.increase.ok" } else { "hist.increase.err" }); }
                    3 | 4 => { match w.random_decrease(r, pr) { Some(Ok(rep)) => { out.stat("hist.decrease.ok"); if rep.should_remove() { out.stat("hist.decrease.removed"); } } Some(Err(_)) => out.stat("hist.decrease.err"), None => {} } }
                    _ => {
                        let secs = *r.pick(&[0u64, 1, 60, 3600, 86400, 30 * 86400, 400 * 86400]);
                        w.m.move_clock_forward(secs);
                        let m = &w.m;
                        let dur = m.now - m.clocks.get(&ClockKind::Borrowing).copied().unwrap_or(m.now);
                        reqs.push(format!("borr update {W} {UNIT} {} {oires} {} {expl} {facl} {exps} {facs} {opt} {base} {above} {maxoi} {} {} {} {} {} {} {} {} {} {} {} {} {} {} {} {} {dur}",
                            skip as u8, ignore as u8, m.open_interest.0.long_amount, m.open_interest.0.short_amount, m.open_interest.1.long_amount, m.open_interest.1.short_amount,
                            m.open_interest_in_tokens.0.long_amount, m.open_interest_in_tokens.0.short_amount, m.primary.long_amount, m.primary.short_amount,
                            pr.index_token_price.min, pr.index_token_price.max, pr.long_token_price.min, pr.long_token_price.max, pr.short_token_price.min, pr.short_token_price.max,
                            m.borrowing_factor.long_amount, m.borrowing_factor.short_amount));
                        out.stat(if w.tick(0, &pr).is_ok() { "hist.tick.ok" } else { "hist.tick.err" });
                    }
                }
                w.sweep();
                // snapshots after every operation: exact total-borrowing identity, pending fees defined
                if r.chance(1, 2) { w.m.move_clock_forward(*r.pick(&[0u64, 5, 7200])); }
                let m = &w.m;
                let dur = m.now - m.clocks.get(&ClockKind::Borrowing).copied().unwrap_or(m.now);
                for is_long in [true, false] {
                    let total = if is_long { m.total_borrowing.long_amount } else { m.total_borrowing.short_amount };
                    let cum = if is_long { m.borrowing_factor.long_amount } else { m.borrowing_factor.short_amount };
                    let mut s = format!("borr hsum {UNIT} {total}");
                    for p in w.ps.iter().filter(|p| p.is_long == is_long) {
                        s += &format!(" {} {}", p.size_in_usd, p.borrowing_factor);
                        reqs.push(format!("borr hposfee {W} {UNIT} {} {} {cum}", p.size_in_usd, p.borrowing_factor));
                    }
                    reqs.push(s);
                    let (oil, ois) = (m.open_interest.0.long_amount + m.open_interest.0.short_amount, m.open_interest.1.long_amount + m.open_interest.1.short_amount);
                    let oit = m.open_interest_in_tokens.0.long_amount + m.open_interest_in_tokens.0.short_amount;
                    let (e, f) = if is_long { (expl, facl) } else { (exps, facs) };
                    let (liq, tokmin) = if is_long { (m.primary.long_amount, pr.long_token_price.min) } else { (m.primary.short_amount, pr.short_token_price.min) };
                    reqs.push(format!("borr hpending {W} {UNIT} {} {} {e} {f} {opt} {base} {above} {oires} {} {maxoi} {oil} {ois} {oit} {liq} {} {tokmin} {cum} {dur} {total}",
                        is_long as u8, skip as u8, ignore as u8, pr.index_token_price.max));
                }
            }
            reqs
        }
    };
}
engine!(exec64, hist64, u64, i64, 9, w64);
engine!(exec128, hist128, u128, i128, 20, w128);

fn exec_hsum(t: &[&str]) -> Option<String> {
    // hsum U total (size bf)*  — exact identity evaluated with big integers
    if t.len() < 3 || (t.len() - 3) % 2 != 0 { return None; }
    let unit = t[1].parse::<BigUint>().ok()?;
    if unit == BigUint::from(0u8) { return None; }
    let total = t[2].parse::<BigUint>().ok()?;
    let mut sum = BigUint::from(0u8);
    for c in t[3..].chunks(2) { sum += c[0].parse::<BigUint>().ok()? * c[1].parse::<BigUint>().ok()? / &unit; }
    Some(if sum == total { "eq".into() } else { "ne".into() })
}

fn exec(req: &str) -> String {
    let t: Vec<&str> = req.split(' ').collect();
    if t.len() < 3 || t[0] != "borr" { return "bad-op".into(); }
    let r = std::panic::catch_unwind(|| {
        if t[1] == "hsum" { return exec_hsum(&t[1..]); }
        match t[2] { "64" => exec64(&t[1..]), "128" => exec128(&t[1..]), _ => None }
    });
    match r { Ok(Some(s)) => s, Ok(None) => "bad-op".into(), Err(_) => "panic".into() }
}

fn gen_random(r: &mut Rng) -> String {
    let (w, unit): (u32, u128) = if r.chance(1, 2) { (64, 1_000_000_000) } else { (128, 100_000_000_000_000_000_000) };
    let scale: u128 = if w == 64 { 1 } else { 100_000_000_000 };
    let wmax: u128 = if w == 64 { u64::MAX as u128 } else { u128::MAX };
    let usd = |r: &mut Rng| -> u128 { match r.below(8) { 0 => 0, 1 => r.num(w) / 4, _ => (r.range(1, 100_000_000) as u128 * 1_000_000 + r.below(1000) as u128) * scale } };
    let per_s = |r: &mut Rng| -> u128 { match r.below(6) { 0 => 0, 1 => r.range(1, 50) as u128, 2 => unit / 1_000_000_000 * r.range(1, 500) as u128, 3 => unit / 10_000_000, 4 => unit, _ => r.num(w) } };
    match r.below(10) {
        0 | 1 => {
            let (s, bf, ns, nbf) = (usd(r), per_s(r).min(wmax), usd(r), per_s(r).min(wmax));
            let ns = if r.chance(1, 4) { s } else if r.chance(1, 4) { 0 } else { ns };
            let nbf = if r.chance(1, 3) { bf } else { nbf };
            let total = match r.below(4) { 0 => 0, 1 => r.num(w), _ => (s as u128).wrapping_mul(bf) / unit % (wmax / 2) + r.below(1_000_000) as u128 };
            format!("borr utb {w} {unit} {s} {bf} {ns} {nbf} {}", total.min(wmax))
        }
        2 => { let latest = per_s(r); let posbf = match r.below(4) { 0 => latest, 1 => latest.saturating_add(1).min(wmax), 2 => latest / 2, _ => per_s(r) }; format!("borr posfee {w} {unit} {} {posbf} {latest}", usd(r)) }
        _ => {
            let op = *r.pick(&["fps", "fps", "next", "pending"]);
            let is_long = r.chance(1, 2);
            let e = unit * *r.pick(&[0u128, 1, 1, 1, 2, 3]);
            let fac = match r.below(5) { 0 => 0, 1 => unit / 1_000_000_000 * 28, 2 => unit / 100_000, 3 => unit, _ => r.num(w) };
            let (opt, base, above) = match r.below(6) { 0 | 1 => (0, 0, 0), 2 => (unit / 4 * 3, per_s(r), per_s(r)), 3 => (unit, per_s(r), per_s(r)), 4 => (unit + 5, per_s(r), per_s(r)), _ => (unit / 100 * r.range(1, 99) as u128, unit / 1_000_000_000 * 19, unit / 1_000_000_000 * 47) };
            let oires = *r.pick(&[unit, unit / 2, 0, unit * 2, 1]);
            let maxoi = match r.below(4) { 0 => 0, 1 => wmax, _ => usd(r) };
            let (oil, ois) = (usd(r), usd(r));
            let idx = (r.range(1, 5000) as u128) * scale;
            let oit = if r.chance(1, 6) { 0 } else { oil / idx.max(1) + r.below(3) as u128 };
            let tokmin = if is_long { idx } else { scale };
            let liq = match r.below(6) { 0 => 0, 1 => r.num(w) / 2, _ => (usd(r) / tokmin.max(1)).saturating_mul(r.range(1, 20) as u128).min(wmax) };
            let cur = match r.below(4) { 0 => 0, 1 => r.num(w), _ => unit / 1000 * r.range(0, 5000) as u128 };
            let dur = match r.below(6) { 0 => 0, 1 => 1, 2 => 3600, 3 => 86400 * 365, 4 => u64::MAX, _ => r.below(1_000_000) };
            let total = match r.below(3) { 0 => 0, 1 => (if is_long { oil } else { ois }).wrapping_mul(cur) / unit % (wmax / 2), _ => usd(r) };
            format!("borr {op} {w} {unit} {} {} {e} {fac} {opt} {base} {above} {oires} {} {maxoi} {oil} {ois} {oit} {liq} {idx} {tokmin} {cur} {dur} {total}", is_long as u8, r.below(2), r.below(2))
        }
    }
}

fn oracle(out: &mut Out, req: &str, resp: &str) -> bool {
    let t: Vec<&str> = req.split(' ').collect();
    let rt: Vec<&str> = resp.split(' ').collect();
    let ok = rt[0] == "ok";
    let tag = |p: &str| format!("{p}.{}", resp.replace(' ', "_"));
    match t[1] {
        "fps" => { if ok { let kink = t[8] != "0"; out.stat(if rt[1] == "0" { "fps.zero" } else if kink { "fps.kink" } else { "fps.exponent" }); } else { out.stat(&tag("fps")); } ok && rt[1] != "0" }
        "next" => {
            if !ok { out.stat(&tag("next")); return false; }
            if big(rt[1]) < big(t[20]) { out.oracle_fail("the cumulative borrowing factor decreased", req); }
            if big(rt[1]) != big(t[20]) + big(rt[2]) { out.oracle_fail("next cumulative factor is not current + delta", req); }
            rt[2] != "0"
        }
        "update" => {
            if !ok { out.stat(&tag("update")); return false; }
            if big(rt[1]) < big(t[29]) || big(rt[2]) < big(t[30]) { out.oracle_fail("a cumulative borrowing factor decreased", req); }
            let moved = big(rt[1]) > big(t[29]) || big(rt[2]) > big(t[30]);
            out.stat(if moved { "update.moved" } else { "update.still" });
            moved
        }
        "pending" => { if !ok { out.stat(&tag("pending")); } ok && rt[1] != "0" }
        "hpending" => {
            out.stat("hpending.cases");
            if !ok { out.oracle_fail("total pending borrowing fees of a reachable market state are negative or fail to compute", req); }
            ok && rt[1] != "0"
        }
        "hsum" => {
            out.stat("hsum.cases");
            if resp != "eq" { out.oracle_fail("recorded total borrowing differs from the sum over open positions of floor(size*factor/UNIT)", req); }
            t.len() > 4 && t[3] != "0"
        }
        "hposfee" => { if !ok { out.oracle_fail("pending borrowing fee of an open position fails to compute (factor above the cumulative one)", req); } ok && rt[1] != "0" }
        "posfee" => {
            let (unit, size, posbf, latest) = (big(t[3]), big(t[4]), big(t[5]), big(t[6]));
            let lim = BigUint::from(1u8) << t[2].parse::<u32>().unwrap();
            let expect = if posbf > latest { None } else { let v = size * (latest - posbf) / unit; if v >= lim { None } else { Some(v) } };
            if (if ok { Some(big(rt[1])) } else { None }) != expect { out.oracle_fail("pending borrowing fee value is not floor(size*(latest-factor)/UNIT)", req); }
            ok && rt[1] != "0"
        }
        "utb" => {
            let (unit, s, bf, ns, nbf, total) = (big(t[3]), big(t[4]), big(t[5]), big(t[6]), big(t[7]), big(t[8]));
            let w: u32 = t[2].parse().unwrap();
            let (lim, half) = (BigUint::from(1u8) << w, BigUint::from(1u8) << (w - 1));
            let (prev, next) = (&s * &bf / &unit, &ns * &nbf / &unit);
            let expect: Option<BigUint> = if prev >= lim || next >= lim { None } else if next >= prev {
                let d = &next - &prev; if d >= half { None } else { let r = &total + d; if r >= lim { None } else { Some(r) } }
            } else { let d = &prev - &next; if d >= half || d > total { None } else { Some(&total - d) } };
            if (if ok { Some(big(rt[1])) } else { None }) != expect { out.oracle_fail("update_total_borrowing did not add floor(next) - floor(previous) exactly", req); }
            if !ok { out.stat(&tag("utb")); }
            ok && rt[1] != t[8]
        }
        _ => false,
    }
}

fn main() {
    let cli = cli();
    let mut out = Out::new();
    if std::env::var("H_DEBUG").is_err() { std::panic::set_hook(Box::new(|_| {})); }
    let reqs: Vec<String> = if cli.mode == "replay" { read_requests(cli.file.as_deref().unwrap()) } else {
        let mut r = Rng::new(cli.seed);
        let mut v = Vec::new();
        while (v.len() as u64) < cli.n {
            if r.chance(1, 60) { let h = if r.chance(2, 3) { hist64(&mut r, &mut out) } else { hist128(&mut r, &mut out) }; v.extend(h); }
            else { v.push(gen_random(&mut r)); }
        }
        v
    };
    for req in reqs {
        let resp = exec(&req);
        if resp == "panic" { out.oracle_fail("panicked", &req); }
        let nt = if resp == "bad-op" || resp == "panic" { false } else { oracle(&mut out, &req, &resp) };
        out.case_nt(&req, &resp, nt);
    }
    out.finish();
}
