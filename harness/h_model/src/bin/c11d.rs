//! C11 on decreases: the shared `perp` engine with the oracle "a decrease realises the share of the position's pnl
//! for the size ACTUALLY closed" (promoted, capped and partial closes; totals recomputed from the raw state).
fn main() { h_model::perp::run_bin("C11"); }
