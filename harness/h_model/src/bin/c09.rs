//! C09 harness: the shared `perp` engine (h_model::perp) with the C09 oracle.
fn main() { h_model::perp::run_bin("C09"); }
