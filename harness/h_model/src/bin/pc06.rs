//! C06 with OPEN POSITIONS: deposits / withdrawals / round trips / pool-value queries on markets whose
//! open interest, borrowing and funding state were produced by the position engine's histories.
fn main() { h_model::lp::run_c06p(); }
