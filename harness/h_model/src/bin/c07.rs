//! C07 harness: the shared `perp` engine (h_model::perp) with the C07 oracle.
fn main() { h_model::perp::run_bin("C07"); }
