//! C12 on positions: the shared `perp` engine with the oracle "for every position, after every operation, the funding
//! snapshots are at most the market's indices, `pending_funding_fees` is defined and equals the amounts recomputed from
//! indices and snapshots (never negative)".
fn main() { h_model::perp::run_bin("C12"); }
