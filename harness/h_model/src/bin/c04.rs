//! C04 correspondence + oracle: swaps on the real model crate over generated histories
//! (generator and oracles in `h_model::liq`).
fn main() { h_model::liq::run("C04"); }
