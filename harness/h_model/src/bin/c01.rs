//! C01 correspondence + oracle: the real `gmsol_model` fixed-point helpers, both
//! `(u64, 9 decimals)` and `(u128, 20 decimals)`.
use gmsol_model::fixed::{Fixed, FixedPointOps};
use gmsol_model::num::{MulDiv, Unsigned};
use gmsol_model::utils;
use hcommon::*;
use num_bigint::{BigInt, BigUint};
use num_traits::CheckedMul;

fn big(x: u128) -> BigUint { BigUint::from(x) }
fn ibig(x: i128) -> BigInt { BigInt::from(x) }

macro_rules! engine {
    ($name:ident, $U:ty, $I:ty, $W:expr, $D:expr) => {
        fn $name(t: &[&str]) -> Option<String> {
            let u = |i: usize| -> Option<$U> { t.get(i)?.parse::<$U>().ok() };
            let s = |i: usize| -> Option<$I> { t.get(i)?.parse::<$I>().ok() };
            const UNIT: $U = <$U as FixedPointOps<$D>>::UNIT;
            Some(match t[0] {
                "muldiv" => opt(u(2)?.checked_mul_div(&u(3)?, &u(4)?)),
                "muldivceil" => opt(u(2)?.checked_mul_div_ceil(&u(3)?, &u(4)?)),
                "roundupdiv" => opt(u(2)?.checked_round_up_div(&u(3)?)),
                "roundupmag" => opt(u(2)?.as_divisor_to_round_up_magnitude_div(&s(3)?)),
                "bound" => match <$U as Unsigned>::bound_magnitude(&s(2)?, &u(3)?, &u(4)?) {
                    Ok(r) => format!("ok {r}"),
                    Err(gmsol_model::Error::InvalidArgument(_)) => "err MinGtMax".into(),
                    Err(gmsol_model::Error::Convert) => "err Convert".into(),
                    Err(gmsol_model::Error::Computation(_)) => "err Convert".into(),
                    Err(e) => format!("err Other({e})"),
                },
                "muldivsigned" => opt(u(2)?.checked_mul_div_with_signed_numerator(&s(3)?, &u(4)?)),
                "addsigned" => opt(u(2)?.checked_add_with_signed(&s(3)?)),
                "subsigned" => opt(u(2)?.checked_sub_with_signed(&s(3)?)),
                "mulsigned" => opt(u(2)?.checked_mul_with_signed(&s(3)?)),
                "signedsub" => opt(u(2)?.checked_signed_sub(u(3)?).ok()),
                "usd2mt" => opt(utils::usd_to_market_token_amount(u(2)?, u(3)?, u(4)?, u(5)?)),
                "mt2usd" => opt(utils::market_token_amount_to_usd(&u(2)?, &u(3)?, &u(4)?)),
                "applyfactor" => { if u(2)? != UNIT { return None; } opt(utils::apply_factor::<$U, $D>(&u(3)?, &u(4)?)) }
                "div2factor" => { if u(2)? != UNIT { return None; } opt(utils::div_to_factor::<$U, $D>(&u(3)?, &u(4)?, t.get(5)? == &"1")) }
                "div2factorsigned" => { if u(2)? != UNIT { return None; } opt(utils::div_to_factor_signed::<$U, $D>(&s(3)?, &u(4)?)) }
                "fixedmul" => { if u(2)? != UNIT { return None; }
                    opt(Fixed::<$U, $D>::from_inner(u(3)?).checked_mul(&Fixed::from_inner(u(4)?)).map(|f| f.into_inner())) }
                "pow" => { if u(2)? != UNIT { return None; }
                    opt(Fixed::<$U, $D>::from_inner(u(3)?).checked_pow(&Fixed::from_inner(u(4)?)).map(|f| f.into_inner())) }
                "applyfactors" => { if u(2)? != UNIT { return None; }
                    opt(utils::apply_factors::<$U, $D>(u(3)?, u(4)?, u(5)?).ok()) }
                _ => return None,
            })
        }
    };
}
engine!(exec64, u64, i64, 64, 9);
engine!(exec128, u128, i128, 128, 20);

/// run the real code on one request line `num <op> <W> args…`
fn exec(req: &str) -> String {
    let t: Vec<&str> = req.split(' ').collect();
    if t.len() < 3 || t[0] != "num" { return "bad-op".into(); }
    let r = std::panic::catch_unwind(|| match t[2] {
        "64" => exec64(&t[1..]),
        "128" => exec128(&t[1..]),
        _ => None,
    });
    match r { Ok(Some(s)) => s, Ok(None) => "bad-op".into(), Err(_) => "panic".into() }
}

/// The property oracle: exact big-integer recomputation of the documented rounding, stated
/// independently of the Lean model. `None` = this op has no oracle; Some(false) = violated.
fn oracle(req: &str, resp: &str) -> Option<bool> {
    let t: Vec<&str> = req.split(' ').collect();
    let w: u32 = t[2].parse().ok()?;
    let lim = BigUint::from(1u8) << w;
    let ilim = BigInt::from(1u8) << (w - 1);
    let u = |i: usize| -> BigUint { big(t[i].parse::<u128>().unwrap()) };
    let s = |i: usize| -> BigInt { ibig(t[i].parse::<i128>().unwrap()) };
    let got_u: Option<BigUint> = resp.strip_prefix("ok ").and_then(|x| x.parse::<u128>().ok()).map(big);
    let got_i: Option<BigInt> = resp.strip_prefix("ok ").and_then(|x| x.parse::<i128>().ok()).map(ibig);
    let zero = BigUint::from(0u8);
    let one = BigUint::from(1u8);
    let ceil = |n: &BigUint, d: &BigUint| -> BigUint { (n + d - &one) / d };
    // "exact or failure": if a result is returned it must be the exact rounded value;
    // a failure must be justified where the spec pins the failure set down.
    Some(match t[1] {
        "muldiv" | "applyfactor" | "fixedmul" | "mt2usd" => {
            let (a, b, c) = match t[1] {
                "muldiv" => (u(3), u(4), u(5)),
                "mt2usd" => (u(4), u(3), u(5)),
                _ => (u(4), u(5), u(3)),
            };
            if c == zero { return Some(resp == "none"); }
            let q = (&a * &b) / &c;
            if q < lim { got_u == Some(q) } else { resp == "none" }
        }
        "muldivceil" => {
            let (a, b, c) = (u(3), u(4), u(5));
            if c == zero { return Some(resp == "none"); }
            let q = ceil(&(&a * &b), &c);
            if q < lim { got_u == Some(q) } else { resp == "none" }
        }
        "roundupdiv" => {
            let (a, b) = (u(3), u(4));
            if b == zero { return Some(resp == "none"); }
            // may fail spuriously only when a + b overflows
            match got_u { Some(r) => r == ceil(&a, &b), None => &a + &b >= lim }
        }
        "roundupmag" => {
            let (k, d) = (u(3), s(4));
            if k == zero { return Some(resp == "none"); }
            match got_i {
                Some(r) => {
                    let mag = ceil(d.magnitude(), &k);
                    r.magnitude() == &mag && (r.sign() == d.sign() || mag == zero)
                }
                None => { // spurious failure allowed only near the limits
                    BigInt::from(k.clone()) >= ilim || d.magnitude() + &k >= ilim.magnitude().clone()
                }
            }
        }
        "bound" => {
            let (v, mn, mx) = (s(3), u(4), u(5));
            if mn > mx { return Some(resp == "err MinGtMax"); }
            let mag = v.magnitude().clone();
            let target = if mag < mn { mn.clone() } else if mag > mx { mx.clone() } else { mag.clone() };
            match got_i {
                Some(r) => r.magnitude() == &target && (r.sign() == v.sign() || target == zero || v.sign() == num_bigint::Sign::NoSign && r.sign() == num_bigint::Sign::Plus),
                None => resp == "err Convert" && BigInt::from(target) >= ilim,
            }
        }
        "muldivsigned" | "div2factorsigned" => {
            let (a, n, d) = if t[1] == "muldivsigned" { (u(3), s(4), u(5)) } else { (u(3), s(4), u(5)) };
            if d == zero { return Some(if t[1] == "muldivsigned" { resp == "none" } else { resp == "ok 0" }); }
            let q = (&a * n.magnitude()) / &d;
            match got_i {
                Some(r) => r.magnitude() == &q && (r.sign() == n.sign() || q == zero),
                None => BigInt::from(q) >= ilim,
            }
        }
        "div2factor" => {
            let (unit, v, d) = (u(3), u(4), u(5));
            if d == zero { return Some(resp == "ok 0"); }
            let q = if t[6] == "1" { ceil(&(&v * &unit), &d) } else { (&v * &unit) / &d };
            if q < lim { got_u == Some(q) } else { resp == "none" }
        }
        "usd2mt" => {
            let (usd, pool, supply, div) = (u(3), u(4), u(5), u(6));
            if div == zero { return Some(resp == "none"); }
            if supply == zero && pool == zero { got_u == Some(&usd / &div) }
            else if supply == zero { match got_u { Some(r) => r == (&pool + &usd) / &div, None => &pool + &usd >= lim } }
            else if pool == zero { resp == "none" }
            else { let q = &supply * &usd / &pool; if q < lim { got_u == Some(q) } else { resp == "none" } }
        }
        "addsigned" | "subsigned" => {
            let a = BigInt::from(u(3)); let sv = s(4);
            let e = if t[1] == "addsigned" { &a + &sv } else { &a - &sv };
            if e.sign() != num_bigint::Sign::Minus && e.magnitude() < &lim { got_u.map(BigInt::from) == Some(e) } else { resp == "none" }
        }
        "mulsigned" => {
            let e = BigInt::from(u(3)) * s(4);
            match got_i { Some(r) => r == e, None => e.magnitude() >= ilim.magnitude() }
        }
        "signedsub" => {
            let e = BigInt::from(u(3)) - BigInt::from(u(4));
            match got_i { Some(r) => r == e, None => e.magnitude() >= ilim.magnitude() }
        }
        "pow" => {
            let (unit, base, e) = (u(3), u(4), u(5));
            if (&e % &unit) != zero { return None; }
            let n = (&e / &unit).to_u64_digits().first().copied().unwrap_or(0);
            let mut acc = unit.clone();
            let mut ok = true;
            for _ in 0..n { acc = &acc * &base / &unit; if acc >= lim { ok = false; break; } }
            if ok { got_u == Some(acc) } else { resp == "none" }
        }
        "applyfactors" => {
            // exact specification: pow(value, e) is 0 below one unit, one unit at exactly one unit or e = 0, the value at e = 1,
            // otherwise the floored fixed-point power; then floor(pow * factor / UNIT); every overflow of the W-bit type is `none`
            let (unit, v, f, e) = (u(3), u(4), u(5), u(6));
            if (&e % &unit) != zero { return None; }
            let n = (&e / &unit).to_u64_digits().first().copied().unwrap_or(0);
            let p: Option<BigUint> = if v < unit { Some(zero.clone()) } else if v == unit { Some(unit.clone()) } else if n == 0 { Some(unit.clone()) } else if n == 1 { Some(v.clone()) } else {
                let mut acc = unit.clone(); let mut ok = true;
                for _ in 0..n { acc = &acc * &v / &unit; if acc >= lim { ok = false; break; } }
                if ok { Some(acc) } else { None }
            };
            match p { None => resp == "none", Some(p) => { let r = &p * &f / &unit; if r < lim { got_u == Some(r) } else { resp == "none" } } }
        }
        _ => return None,
    })
}

fn gen_req(r: &mut Rng) -> String {
    let (w, unit): (u32, u128) = if r.chance(1, 2) { (64, 1_000_000_000) } else { (128, 100_000_000_000_000_000_000) };
    let n = |r: &mut Rng| r.num(w);
    let i = |r: &mut Rng| r.inum(w);
    // operands correlated so that quotients often land near the type limit
    match r.below(19) {
        0 => { let (a, b) = (n(r), n(r)); let c = if r.chance(1, 3) { (a.min(b)).max(1) } else { n(r) }; format!("num muldiv {w} {a} {b} {c}") }
        1 => { let (a, b) = (n(r), n(r)); let c = if r.chance(1, 3) { (a.min(b)).max(1) } else { n(r) }; format!("num muldivceil {w} {a} {b} {c}") }
        2 => format!("num roundupdiv {w} {} {}", n(r), n(r)),
        3 => format!("num roundupmag {w} {} {}", n(r), i(r)),
        4 => { let v = i(r); let a = n(r); let mx: u128 = if w == 128 { u128::MAX } else { (1u128 << w) - 1 }; let b = if r.chance(3, 4) { a.saturating_add(n(r) >> r.below(w as u64)).min(mx) } else { n(r) }; format!("num bound {w} {v} {a} {b}") }
        5 => format!("num muldivsigned {w} {} {} {}", n(r), i(r), n(r)),
        6 => format!("num addsigned {w} {} {}", n(r), i(r)),
        7 => format!("num subsigned {w} {} {}", n(r), i(r)),
        8 => format!("num mulsigned {w} {} {}", n(r), i(r)),
        9 => format!("num signedsub {w} {} {}", n(r), n(r)),
        10 => { let z = |r: &mut Rng| if r.chance(1, 3) { 0 } else { r.num(w) }; format!("num usd2mt {w} {} {} {} {}", n(r), z(r), z(r), n(r)) }
        11 => format!("num mt2usd {w} {} {} {}", n(r), n(r), n(r)),
        12 => format!("num applyfactor {w} {unit} {} {}", n(r), n(r)),
        13 => format!("num div2factor {w} {unit} {} {} {}", n(r), n(r), r.below(2)),
        14 => format!("num div2factorsigned {w} {unit} {} {}", i(r), n(r)),
        15 => format!("num fixedmul {w} {unit} {} {}", n(r), n(r)),
        16 | 17 => { let e = r.below(6) as u128 * unit; let base = if r.chance(1, 2) { unit * r.range(1, 5000) as u128 / r.range(1, 1000) as u128 } else { n(r) >> (w / 2) }; format!("num pow {w} {unit} {base} {e}") }
        _ => { let e = r.below(4) as u128 * unit;
               // around one unit on purpose: `value < 1` gives 0, `value == 1` gives exactly the factor (1^e = 1), then the power
               let v = match r.below(8) { 0 => unit, 1 => unit - 1, 2 => unit + 1, 3 | 4 => unit * r.range(0, 3000) as u128 / 1000, _ => n(r) >> (w / 3) };
               format!("num applyfactors {w} {unit} {v} {} {e}", n(r) >> (w/2)) }
    }
}

fn main() {
    let cli = cli();
    let mut out = Out::new();
    std::panic::set_hook(Box::new(|_| {}));
    let reqs: Vec<String> = if cli.mode == "replay" {
        read_requests(cli.file.as_deref().unwrap())
    } else {
        let mut r = Rng::new(cli.seed);
        (0..cli.n).map(|_| gen_req(&mut r)).collect()
    };
    for req in reqs {
        let resp = exec(&req);
        let op = req.split(' ').nth(1).unwrap_or("?").to_string();
        out.stat(&format!("op.{op}"));
        out.stat(if resp.starts_with("ok") { "resp.ok" } else if resp == "none" { "resp.none" } else { "resp.err" });
        let nt = resp.starts_with("ok") && resp != "ok 0";
        if resp == "panic" { out.oracle_fail("panicked", &req); }
        match oracle(&req, &resp) {
            Some(false) => out.oracle_fail(&format!("documented rounding violated (got {resp})"), &req),
            Some(true) => out.stat("oracle.checked"),
            None => out.stat("oracle.none"),
        }
        out.case_nt(&req, &resp, nt);
    }
    out.finish();
}
