//! C03 on positions: the shared `perp` engine with the oracle "an increase that does not improve the open-interest balance never
//! receives a positive price impact, and one that improves it without crossing the balance point never a negative one"
//! (`PositionExt::position_price_impact`: the size delta goes to the POSITION's side).
fn main() { h_model::perp::run_bin("C03"); }
