//! C02 on position fees: the shared `perp` engine (increase / decrease / liquidation histories on the real model crate) with
//! the oracle "in every position-fee report, for_pool + for_receiver = total cost excluding funding" (order, borrowing and
//! liquidation fees together are split exactly: nothing created, nothing lost).
fn main() { h_model::perp::run_bin("C02"); }
