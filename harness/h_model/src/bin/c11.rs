//! C11 correspondence + oracle: the real `PositionExt::pnl_value` / `size_delta_in_tokens`.
//! Requests come in groups `(p1, δ) (p2, δ) (p2, full)` so that the oracle can compare the pnl of
//! one position at two index prices and a partial close with the full close.
use gmsol_model::price::{Price, Prices};
use gmsol_model::PositionExt;
use h_model::market::TestPosition;
use hcommon::*;
use num_bigint::{BigInt, BigUint, Sign};

fn big(s: &str) -> BigUint { s.parse::<BigUint>().unwrap() }
fn bigi(s: &str) -> BigInt { s.parse::<BigInt>().unwrap() }
fn b01(s: &str) -> Option<bool> { match s { "1" => Some(true), "0" => Some(false), _ => None } }
/// truncating division toward zero of a signed numerator by a positive denominator
fn tdiv(n: &BigInt, d: &BigUint) -> BigInt { let q = n.magnitude() / d; if n.sign() == Sign::Minus { -BigInt::from(q) } else { BigInt::from(q) } }

macro_rules! engine {
    ($name:ident, $hist:ident, $U:ty, $I:ty, $D:expr, $wm:ident) => {
        fn $name(t: &[&str]) -> Option<String> {
            use h_model::perp::$wm::*;
            let u = |i: usize| -> Option<$U> { t.get(i)?.parse::<$U>().ok() };
            match t[0] {
                "pnl" => {
                    if t.len() != 14 || u(2)? != UNIT { return None; }
                    let is_long = b01(t[3])?;
                    let mut cfg = default_cfg();
                    cfg.max_pnl_factors.trader = u(13)?;
                    let mut m = new_market(cfg);
                    let (oi, oit, pool, tok) = (u(9)?, u(10)?, u(11)?, u(12)?);
                    if is_long { m.open_interest.0.long_amount = oi; m.open_interest_in_tokens.0.long_amount = oit; m.primary.long_amount = pool; }
                    else { m.open_interest.1.long_amount = oi; m.open_interest_in_tokens.1.long_amount = oit; m.primary.short_amount = pool; }
                    let tp = Price { min: tok, max: tok };
                    let other = Price { min: 1 as $U, max: 1 as $U };
                    let prices = Prices { index_token_price: Price { min: u(6)?, max: u(7)? }, long_token_price: if is_long { tp } else { other }, short_token_price: if is_long { other } else { tp } };
                    let mut p: TestPosition<$U, $D> = if is_long { TestPosition::long(true) } else { TestPosition::short(false) };
                    p.size_in_usd = u(4)?; p.size_in_tokens = u(5)?;
                    let delta = u(8)?;
                    Some(match p.ops(&mut m).pnl_value(&prices, &delta) { Ok((a, b, c)) => format!("ok {a} {b} {c}"), Err(_) => "err".into() })
                }
                "sdt" => {
                    if t.len() != 6 { return None; }
                    let is_long = b01(t[2])?;
                    let mut m = new_market(default_cfg());
                    let mut p: TestPosition<$U, $D> = if is_long { TestPosition::long(true) } else { TestPosition::short(false) };
                    p.size_in_usd = u(3)?; p.size_in_tokens = u(4)?;
                    let delta = u(5)?;
                    Some(match p.ops(&mut m).size_delta_in_tokens(&delta) { Ok(v) => format!("ok {v}"), Err(_) => "none".into() })
                }
                _ => None,
            }
        }

        /// positions and market states reached by real histories, evaluated at two prices
        fn $hist(r: &mut Rng, out: &mut Out) -> Vec<String> {
            use h_model::perp::$wm::*;
            let mut reqs = vec![];
            let mut cfg = cfg_palette(r);
            cfg.max_pnl_factors.trader = *r.pick(&[frac(50, 100), frac(10, 100), frac(1, 100), 0, UNIT]);
            let trader = cfg.max_pnl_factors.trader;
            let mut w = World::new(cfg);
            let mut px = 50 + r.below(200);
            let pr0 = prices((px, px), (px, px), (1, 1));
            let _ = w.deposit(1_000_000_000 + r.below(100_000_000_000) as Num, r.below(10_000_000_000_000) as Num, pr0);
            let _ = w.tick(0, &pr0);
            for _ in 0..(4 + r.below(12)) {
                let pr = World::random_prices(r, &mut px);
                if r.chance(2, 3) { let (_, ok) = w.random_increase(r, pr, px); out.stat(if ok { "hist.increase.ok" } else { "hist.increase.err" }); }
                else { let _ = w.random_decrease(r, pr); }
                w.sweep();
            }
            // evaluate each open position at the current and a moved index price
            let m = &w.m;
            for p in w.ps.iter() {
                if p.size_in_usd == 0 { continue; }
                let (oi, oit, pool, tok) = if p.is_long {
                    (m.open_interest.0.long_amount + m.open_interest.0.short_amount, m.open_interest_in_tokens.0.long_amount + m.open_interest_in_tokens.0.short_amount, m.primary.long_amount, px as Num * SCALE)
                } else {
                    (m.open_interest.1.long_amount + m.open_interest.1.short_amount, m.open_interest_in_tokens.1.long_amount + m.open_interest_in_tokens.1.short_amount, m.primary.short_amount, SCALE)
                };
                let p1 = (px.saturating_sub(r.below(px / 2 + 1)).max(1)) as Num * SCALE;
                let p2 = p1 + (r.below(3 * px) as Num) * SCALE + r.below(2) as Num;
                let sp = r.below(3) as Num * SCALE;
                let delta = match r.below(4) { 0 => p.size_in_usd, 1 => p.size_in_usd / 2, 2 => p.size_in_usd / 3 + 1, _ => r.below(1_000_000) as Num % (p.size_in_usd + 1) };
                let head = |a: Num, b: Num, d: Num| format!("pos pnl {W} {UNIT} {} {} {} {a} {b} {d} {oi} {oit} {pool} {tok} {trader}", p.is_long as u8, p.size_in_usd, p.size_in_tokens);
                reqs.push(head(p1, p1 + sp, delta)); reqs.push(head(p2, p2 + sp, delta)); reqs.push(head(p2, p2 + sp, p.size_in_usd));
            }
            reqs
        }
    };
}
engine!(exec64, hist64, u64, i64, 9, w64);
engine!(exec128, hist128, u128, i128, 20, w128);

fn exec(req: &str) -> String {
    let t: Vec<&str> = req.split(' ').collect();
    if t.len() < 3 || t[0] != "pos" { return "bad-op".into(); }
    let r = std::panic::catch_unwind(|| match t[2] { "64" => exec64(&t[1..]), "128" => exec128(&t[1..]), _ => None });
    match r { Ok(Some(s)) => s, Ok(None) => "bad-op".into(), Err(_) => "panic".into() }
}

fn gen_random(r: &mut Rng) -> Vec<String> {
    let (w, unit): (u32, u128) = if r.chance(1, 2) { (64, 1_000_000_000) } else { (128, 100_000_000_000_000_000_000) };
    let scale: u128 = if w == 64 { 1 } else { 100_000_000_000 };
    let wmax: u128 = if w == 64 { u64::MAX as u128 } else { u128::MAX };
    let is_long = r.chance(1, 2);
    if r.chance(1, 8) {
        let (s, t) = (r.num(w), r.num(w));
        let d = match r.below(4) { 0 => s, 1 => s / 2, 2 => r.num(w), _ => s.saturating_sub(1) };
        return vec![format!("pos sdt {w} {} {s} {t} {d}", is_long as u8)];
    }
    // a market side: entry price around e, pool pnl controlled by the gap to the current price
    let e = r.range(2, 4000) as u128;
    let t_tokens = match r.below(5) { 0 => 0, 1 => 1, 2 => r.num(w) / 8, _ => r.range(1, 2_000_000_000) as u128 };
    let s_usd = match r.below(8) { 0 => 0, 1 => r.num(w) / 8, _ => (t_tokens.saturating_mul(e * scale)).min(wmax / 8) + r.below(1000) as u128 };
    let others_t = match r.below(4) { 0 => 0, _ => r.range(0, 50_000_000_000) as u128 };
    let oit = t_tokens.saturating_add(others_t).min(wmax / 8);
    let oi = s_usd.saturating_add(others_t.saturating_mul((e + r.below(20) as u128).saturating_sub(10).max(1) * scale)).min(wmax / 8);
    let pool = match r.below(5) { 0 => 0, 1 => r.num(w) / 8, _ => oit.saturating_mul(r.range(1, 12) as u128) / 4 + r.below(1000) as u128 };
    let trader = *r.pick(&[unit / 2, unit / 10, unit / 100, 0, unit, unit * 3, 1]);
    let p1 = (e as i128 + r.below(2 * e as u64 + 1) as i128 - e as i128).max(1) as u128 * scale;
    let p2 = (p1 + (r.below(2 * e as u64) as u128) * scale / *r.pick(&[1u128, 1, 10, 100]) + r.below(2) as u128).min(wmax / 4);
    let sp = *r.pick(&[0u128, 0, 1, scale]);
    let tok = if is_long && r.chance(2, 3) { p1 } else { scale * r.range(1, 300) as u128 };
    let delta = match r.below(6) { 0 | 1 => s_usd, 2 => s_usd / 2, 3 => s_usd / 3 + 1, 4 => r.below(1_000_000) as u128 % (s_usd + 1), _ => s_usd.saturating_add(1) };
    let head = |a: u128, b: u128, d: u128| format!("pos pnl {w} {unit} {} {s_usd} {t_tokens} {a} {b} {d} {oi} {oit} {pool} {tok} {trader}", is_long as u8);
    vec![head(p1, p1 + sp, delta), head(p2, p2 + sp, delta), head(p2, p2 + sp, s_usd)]
}

struct Parsed { is_long: bool, s: BigUint, t: BigUint, imin: BigUint, imax: BigUint, delta: BigUint, oi: BigUint, oit: BigUint, pool: BigUint, tok: BigUint, trader: BigUint, unit: BigUint, key: String }
fn parse(t: &[&str]) -> Parsed {
    Parsed { is_long: t[4] == "1", s: big(t[5]), t: big(t[6]), imin: big(t[7]), imax: big(t[8]), delta: big(t[9]), oi: big(t[10]), oit: big(t[11]), pool: big(t[12]), tok: big(t[13]), trader: big(t[14]), unit: big(t[3]),
        key: format!("{} {} {} {} {} {} {} {} {} {}", t[2], t[4], t[5], t[6], t[10], t[11], t[12], t[13], t[14], t[3]) }
}
/// does the trader cap bind at these prices? (independent big-integer evaluation)
fn cap_binds(p: &Parsed) -> bool {
    let price = if p.is_long { &p.imax } else { &p.imin }; // pick_price_for_pnl(is_long, maximize = true)
    let v = BigInt::from(&p.oit * price); let o = BigInt::from(p.oi.clone());
    let pool_pnl = if p.is_long { v - o } else { o - v };
    let cap = BigInt::from(&p.pool * &p.tok * &p.trader / &p.unit);
    pool_pnl > BigInt::from(0) && pool_pnl > cap
}

fn main() {
    let cli = cli();
    let mut out = Out::new();
    if std::env::var("H_DEBUG").is_err() { std::panic::set_hook(Box::new(|_| {})); }
    let reqs: Vec<String> = if cli.mode == "replay" { read_requests(cli.file.as_deref().unwrap()) } else {
        let mut r = Rng::new(cli.seed);
        let mut v = Vec::new();
        while (v.len() as u64) < cli.n {
            if r.chance(1, 30) { let h = if r.chance(2, 3) { hist64(&mut r, &mut out) } else { hist128(&mut r, &mut out) }; v.extend(h); }
            else { v.extend(gen_random(&mut r)); }
        }
        v
    };
    let mut prev: Option<(Parsed, BigInt, BigInt, BigUint)> = None;
    for req in reqs {
        let resp = exec(&req);
        if resp == "panic" { out.oracle_fail("panicked", &req); }
        let t: Vec<&str> = req.split(' ').collect();
        let rt: Vec<&str> = resp.split(' ').collect();
        let mut nt = false;
        if t.len() > 1 && t[1] == "sdt" && rt[0] == "ok" {
            // exact: full size => all tokens, long => ceil, short => floor
            let (il, s, tk, d) = (t[3] == "1", big(t[4]), big(t[5]), big(t[6]));
            let zero = BigUint::from(0u8);
            if s != zero || s == d {
                let exp = if s == d { tk.clone() } else if il { (&tk * &d + &s - BigUint::from(1u8)) / &s } else { &tk * &d / &s };
                if big(rt[1]) != exp { out.oracle_fail("size delta in tokens is not the documented rounding of T*delta/S", &req); }
            }
            nt = rt[1] != "0";
            prev = None;
        } else if t.len() == 15 && t[1] == "pnl" {
            if rt[0] == "ok" {
                let p = parse(&t);
                let (pnl, upnl, sdt) = (bigi(rt[1]), bigi(rt[2]), big(rt[3]));
                nt = pnl != BigInt::from(0);
                let binds = cap_binds(&p);
                out.stat(if binds { "pnl.cap_binds" } else { "pnl.cap_free" });
                out.stat(if pnl > BigInt::from(0) { "pnl.pos" } else if pnl < BigInt::from(0) { "pnl.neg" } else { "pnl.zero" });
                // exact uncapped value: trunc(sdt * (T*p − S) / T) at the price picked against the trader
                let price = if p.is_long { &p.imin } else { &p.imax };
                let tot = if p.is_long { BigInt::from(&p.t * price) - BigInt::from(p.s.clone()) } else { BigInt::from(p.s.clone()) - BigInt::from(&p.t * price) };
                if p.t != BigUint::from(0u8) && upnl != tdiv(&(BigInt::from(sdt.clone()) * &tot), &p.t) { out.oracle_fail("uncapped pnl is not trunc(size_delta_tokens * (T*p - S) / T)", &req); }
                // credited never exceeds uncapped, never flips sign
                if pnl > upnl { out.oracle_fail("credited pnl exceeds the uncapped pnl", &req); }
                if upnl <= BigInt::from(0) && pnl != upnl { out.oracle_fail("a non-positive pnl was changed by the cap", &req); }
                if pnl < BigInt::from(0) && upnl > BigInt::from(0) { out.oracle_fail("the cap turned a profit into a loss", &req); }
                if !binds && pnl != upnl { out.oracle_fail("pnl differs from the uncapped pnl although the cap does not bind", &req); }
                if let Some((q, qpnl, qupnl, _qsdt)) = &prev {
                    if q.key == p.key && q.delta == p.delta && q.imin <= p.imin && q.imax <= p.imax && (q.imin != p.imin || q.imax != p.imax) {
                        out.stat("pairs.price");
                        // price moved up: long pnl must not decrease, short pnl must not increase
                        let bad_u = if p.is_long { upnl < *qupnl } else { upnl > *qupnl };
                        if bad_u { out.oracle_fail("uncapped pnl moved against the price direction", &req); }
                        let bad = if p.is_long { pnl < *qpnl } else { pnl > *qpnl };
                        if bad {
                            // long: the cap binds at the higher price; short: profit grows as the price falls, so the cap binds at the lower price
                            let known = if p.is_long { binds } else { cap_binds(q) };
                            if known { out.known("F-C11", "capped pnl is not monotone in the index price (the trader cap binds at the more profitable price)", &req); out.stat("pairs.nonmonotone_capped"); }
                            else { out.oracle_fail("realised pnl moved against the price direction although the cap does not bind", &req); }
                        }
                    } else if q.key == p.key && q.imin == p.imin && q.imax == p.imax && p.delta == p.s && p.t != BigUint::from(0u8) {
                        out.stat("pairs.partial_full");
                        // partial close q (δ) vs full close p: |pnl(δ)·T − total·sdt(δ)| < T
                        let lhs = qpnl * BigInt::from(p.t.clone()) - &pnl * BigInt::from(_qsdt.clone());
                        if lhs.magnitude() >= &p.t { out.oracle_fail("partial close does not realise the proportional share of the pnl (up to rounding)", &req); }
                        // token share within 1 of T*δ/S
                        if q.s != BigUint::from(0u8) && q.delta <= q.s {
                            let exact_lo = &q.t * &q.delta / &q.s;
                            if *_qsdt < exact_lo || *_qsdt > exact_lo + BigUint::from(1u8) { out.oracle_fail("closed token share is not within one unit of T*delta/S", &req); }
                        }
                    }
                }
                prev = Some((p, pnl, upnl, sdt));
            } else { out.stat("pnl.err"); prev = None; }
        }
        out.case_nt(&req, &resp, nt);
    }
    out.finish();
}
