//! C02 correspondence + oracle: the real `FeeParams::{fee, apply_fees, base_position_fees}`.
use gmsol_model::fixed::FixedPointOps;
use gmsol_model::params::FeeParams;
use gmsol_model::pool::delta::BalanceChange;
use gmsol_model::price::Price;
use hcommon::*;
use num_bigint::BigUint;

fn bc(s: &str) -> Option<BalanceChange> {
    Some(match s { "0" => BalanceChange::Improved, "1" => BalanceChange::Worsened, "2" => BalanceChange::Unchanged, _ => return None })
}

macro_rules! engine {
    ($name:ident, $U:ty, $D:expr) => {
        fn $name(t: &[&str]) -> Option<String> {
            let u = |i: usize| -> Option<$U> { t.get(i)?.parse::<$U>().ok() };
            if u(2)? != <$U as FixedPointOps<$D>>::UNIT { return None; }
            let params = FeeParams::<$U>::builder()
                .positive_impact_fee_factor(u(3)?)
                .negative_impact_fee_factor(u(4)?)
                .fee_receiver_factor(u(5)?)
                .build()
                .with_discount_factor(u(6)?);
            Some(match t[0] {
                "apply" => match params.apply_fees::<$D>(bc(t[7])?, &u(8)?) {
                    Some((net, f)) => format!("ok {} {} {}", net, f.fee_amount_for_pool(), f.fee_amount_for_receiver()),
                    None => "none".into(),
                },
                "fee" => opt(params.fee::<$D>(bc(t[7])?, &u(8)?)),
                "order" => {
                    let price = Price { min: u(7)?, max: u(8)? };
                    match params.base_position_fees::<$D>(&price, &u(9)?, bc(t[10])?) {
                        Ok(f) => format!("ok {} {} {}", f.order_fees().fee_amounts().fee_amount_for_pool(),
                            f.order_fees().fee_amounts().fee_amount_for_receiver(), f.order_fees().fee_value()),
                        Err(gmsol_model::Error::InvalidPrices) => "err InvalidPrices".into(),
                        Err(gmsol_model::Error::Computation(_)) => "err Computation".into(),
                        Err(e) => format!("err Other({e})"),
                    }
                }
                _ => return None,
            })
        }
    };
}
engine!(exec64, u64, 9);
engine!(exec128, u128, 20);

fn exec(req: &str) -> String {
    let t: Vec<&str> = req.split(' ').collect();
    if t.len() < 3 || t[0] != "fee" { return "bad-op".into(); }
    let r = std::panic::catch_unwind(|| match t[2] { "64" => exec64(&t[1..]), "128" => exec128(&t[1..]), _ => None });
    match r { Ok(Some(s)) => s, Ok(None) => "bad-op".into(), Err(_) => "panic".into() }
}

/// Property oracle (independent of the Lean model), exact arithmetic:
///  * success ⇒ net + pool + receiver == gross, fee ≤ gross;
///  * all factors ≤ UNIT and amount fits ⇒ success (no spurious failure);
///  * a larger discount never raises the fee (checked on pairs by the generator, see `pair`);
///  * order: pool + receiver == floor(fee_value / price.min), fee_value ≤ size when factor ≤ UNIT.
fn oracle(req: &str, resp: &str, out: &mut Out) {
    let t: Vec<&str> = req.split(' ').collect();
    let n = |i: usize| -> BigUint { t[i].parse::<BigUint>().unwrap() };
    let unit = n(3);
    let vals: Vec<BigUint> = resp.strip_prefix("ok ").map(|r| r.split(' ').map(|x| x.parse().unwrap()).collect()).unwrap_or_default();
    match t[1] {
        "apply" => {
            let (pos, neg, recv, disc, a) = (n(4), n(5), n(6), n(7), n(9));
            let valid = pos <= unit && neg <= unit && recv <= unit && disc <= unit;
            if resp.starts_with("ok") {
                if &vals[0] + &vals[1] + &vals[2] != a { out.oracle_fail("fee split does not conserve the gross amount", req); }
                if &vals[1] + &vals[2] > a { out.oracle_fail("fee exceeds gross amount", req); }
                let f = if t[8] == "0" { &pos } else { &neg };
                let fee0 = &a * f / &unit;
                let fee = &fee0 - &fee0 * &disc / &unit;
                if &vals[1] + &vals[2] != fee { out.oracle_fail("fee is not floor(a*f/U) minus the floored discount", req); }
                if vals[2] != &fee * &recv / &unit { out.oracle_fail("receiver share is not floor(fee*recv/U)", req); }
                out.stat(if valid { "apply.ok.valid" } else { "apply.ok.invalid_factors" });
            } else {
                if valid { out.oracle_fail("valid factors (all <= 100%) but fee computation failed", req); }
                out.stat("apply.none.invalid_factors");
            }
        }
        "order" => {
            if resp.starts_with("ok") {
                let (pmin, size) = (n(8), n(10));
                if &vals[0] + &vals[1] != &vals[2] / &pmin { out.oracle_fail("order fee shares do not add up to floor(fee_value/price.min)", req); }
                let f = if t[11] == "0" { n(4) } else { n(5) };
                if f <= unit && vals[2] > size { out.oracle_fail("order fee value exceeds size", req); }
                out.stat("order.ok");
            } else { out.stat("order.err"); }
        }
        _ => {}
    }
}

fn gen_req(r: &mut Rng) -> Vec<String> {
    let (w, unit): (u32, u128) = if r.chance(1, 2) { (64, 1_000_000_000) } else { (128, 100_000_000_000_000_000_000) };
    // factor palette: zero, tiny, typical, 100%, slightly above, far above (malformed stream)
    let fac = |r: &mut Rng| -> u128 {
        match r.below(10) {
            0 => 0, 1 => r.below(100) as u128, 2 | 3 | 4 => unit / 10_000 * r.range(1, 100) as u128,
            5 => unit * r.range(1, 99) as u128 / 100, 6 => unit, 7 => unit - 1, 8 => unit + r.range(1, 1000) as u128,
            _ => r.num(w) >> r.below(w as u64),
        }
    };
    let (pos, neg, recv, disc) = (fac(r), fac(r), fac(r), fac(r));
    let a = if r.chance(1, 4) { r.num(w) } else { r.num(w) >> r.below(w as u64 - 1) };
    let b = r.below(3);
    match r.below(5) {
        0 | 1 => vec![format!("fee apply {w} {unit} {pos} {neg} {recv} {disc} {b} {a}")],
        2 => {
            // discount pair on the same inputs: the oracle in main compares the two fees
            let d2 = fac(r);
            vec![format!("fee fee {w} {unit} {pos} {neg} {recv} {disc} {b} {a}"), format!("fee fee {w} {unit} {pos} {neg} {recv} {d2} {b} {a}")]
        }
        _ => {
            let pmin = if r.chance(1, 10) { 0 } else { (r.num(w) >> r.below(w as u64 - 1)).max(1) };
            let pmax = if r.chance(1, 20) { 0 } else { pmin.saturating_add(r.below(1000) as u128).min(if w == 64 { u64::MAX as u128 } else { u128::MAX }) };
            vec![format!("fee order {w} {unit} {pos} {neg} {recv} {disc} {pmin} {pmax} {a} {b}")]
        }
    }
}

fn main() {
    let cli = cli();
    let mut out = Out::new();
    std::panic::set_hook(Box::new(|_| {}));
    let reqs: Vec<String> = if cli.mode == "replay" {
        read_requests(cli.file.as_deref().unwrap())
    } else {
        let mut r = Rng::new(cli.seed);
        let mut v = Vec::new();
        while (v.len() as u64) < cli.n { v.extend(gen_req(&mut r)); }
        v
    };
    let mut prev: Option<(String, String)> = None;
    for req in reqs {
        let resp = exec(&req);
        if resp == "panic" { out.oracle_fail("panicked", &req); }
        let t: Vec<&str> = req.split(' ').collect();
        out.stat(&format!("op.{}", t.get(1).unwrap_or(&"?")));
        if resp != "bad-op" && resp != "panic" { oracle(&req, &resp, &mut out); }
        // discount antitonicity on consecutive `fee fee` requests differing only in the discount
        if t.get(1) == Some(&"fee") {
            if let Some((preq, presp)) = &prev {
                let p: Vec<&str> = preq.split(' ').collect();
                if p.len() == t.len() && p[..7] == t[..7] && p[8..] == t[8..] {
                    if let (Some(f1), Some(f2)) = (presp.strip_prefix("ok "), resp.strip_prefix("ok ")) {
                        let (d1, d2): (u128, u128) = (p[7].parse().unwrap(), t[7].parse().unwrap());
                        let (f1, f2): (u128, u128) = (f1.parse().unwrap(), f2.parse().unwrap());
                        if (d1 <= d2 && f2 > f1) || (d2 <= d1 && f1 > f2) { out.oracle_fail("a larger discount raised the fee", &req); }
                        out.stat("discount.pairs");
                    }
                }
            }
            prev = Some((req.clone(), resp.clone()));
        }
        let nt = resp.starts_with("ok") && !resp.starts_with("ok 0 0");
        out.case_nt(&req, &resp, nt);
    }
    out.finish();
}
