//! C06 correspondence + oracle: deposits / withdrawals (round trips, value per market token) on
//! the real model crate over generated histories (generator in `h_model::liq`, oracle in `liq06`).
fn main() { h_model::liq::run("C06"); }
