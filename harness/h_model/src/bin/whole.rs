//! whole-market histories (C07 ∧ C08 ∧ C12 ∧ C13 in one pass): mixed deposit / withdraw / swap / increase / decrease /
//! liquidation / clock / funding / borrowing / distribution histories of up to 200 operations on the stateful `perp`
//! engine; after every operation the oracle recomputes Σ positions (open interest, tokens, collateral, total borrowing),
//! the token ledger identity, the funding-backed invariant and the monotonicity of the ten indices.
fn main() { h_model::perp::run_bin("WHOLE"); }
