//! C03 correspondence + oracle: the real `PoolDelta::price_impact` over `TestPool`s.
use gmsol_model::fixed::FixedPointOps;
use gmsol_model::params::PriceImpactParams;
use gmsol_model::pool::delta::BalanceChange;
use gmsol_model::test::TestPool;
use gmsol_model::{BalanceExt, Pool};
use hcommon::*;

macro_rules! engine {
    ($name:ident, $U:ty, $I:ty, $D:expr) => {
        fn $name(t: &[&str]) -> Option<String> {
            let u = |i: usize| -> Option<$U> { t.get(i)?.parse::<$U>().ok() };
            let s = |i: usize| -> Option<$I> { t.get(i)?.parse::<$I>().ok() };
            if u(2)? != <$U as FixedPointOps<$D>>::UNIT { return None; }
            let params = PriceImpactParams::<$U>::builder().exponent(u(3)?).positive_factor(u(4)?).negative_factor(u(5)?).build();
            let mut pool = TestPool::<$U>::default();
            // amounts fit the signed type by construction of the generator; otherwise bad-op
            let (pl, ps): ($I, $I) = (u(6)?.try_into().ok()?, u(7)?.try_into().ok()?);
            pool.apply_delta_to_long_amount(&pl).ok()?;
            pool.apply_delta_to_short_amount(&ps).ok()?;
            let d = match t[0] {
                "delta" => pool.pool_delta_with_values(s(8)?, s(9)?, &u(10)?, &u(11)?),
                "deltaamt" => pool.pool_delta_with_amounts(&s(8)?, &s(9)?, &u(10)?, &u(11)?),
                _ => return None,
            };
            let Ok(d) = d else { return Some("none".into()) };
            Some(match d.price_impact::<$D>(&params) {
                Ok(pi) => format!("ok {} {}", pi.value, match pi.balance_change { BalanceChange::Improved => 0, BalanceChange::Worsened => 1, BalanceChange::Unchanged => 2 }),
                Err(_) => "none".into(),
            })
        }
    };
}
/// `imp vdelta W U e fp fn pl ps vflag vl vs dl ds prl prs incl`: the real `SwapMarketExt::swap_impact_value` on a
/// market whose liquidity pool holds (pl, ps) and whose virtual inventory for swaps is (vl, vs) when `vflag` = 1.
macro_rules! vengine {
    ($name:ident, $U:ty, $I:ty, $D:expr) => {
        fn $name(t: &[&str]) -> Option<String> {
            use gmsol_model::SwapMarketExt;
            use h_model::market::TestMarket;
            let u = |i: usize| -> Option<$U> { t.get(i)?.parse::<$U>().ok() };
            let s = |i: usize| -> Option<$I> { t.get(i)?.parse::<$I>().ok() };
            if t.len() != 16 || u(2)? != <$U as FixedPointOps<$D>>::UNIT { return None; }
            let mut m = TestMarket::<$U, $D>::default();
            m.config.swap_impact_params = PriceImpactParams::<$U>::builder().exponent(u(3)?).positive_factor(u(4)?).negative_factor(u(5)?).build();
            let (pl, ps): ($I, $I) = (u(6)?.try_into().ok()?, u(7)?.try_into().ok()?);
            m.primary.apply_delta_to_long_amount(&pl).ok()?;
            m.primary.apply_delta_to_short_amount(&ps).ok()?;
            let vflag = match t[8] { "1" => true, "0" => false, _ => return None };
            let (vl, vs): ($I, $I) = (u(9)?.try_into().ok()?, u(10)?.try_into().ok()?);
            if vflag {
                let mut v = h_model::market::TestPool::<$U>::default();
                v.apply_delta_to_long_amount(&vl).ok()?;
                v.apply_delta_to_short_amount(&vs).ok()?;
                m.vi_swaps = Some(v);
            }
            let incl = match t[15] { "1" => true, "0" => false, _ => return None };
            let Ok(d) = m.primary.pool_delta_with_values(s(11)?, s(12)?, &u(13)?, &u(14)?) else { return Some("none".into()) };
            Some(match m.swap_impact_value(&d, incl) {
                Ok(pi) => format!("ok {} {}", pi.value, match pi.balance_change { BalanceChange::Improved => 0, BalanceChange::Worsened => 1, BalanceChange::Unchanged => 2 }),
                Err(_) => "none".into(),
            })
        }
    };
}
vengine!(vexec64, u64, i64, 9);
vengine!(vexec128, u128, i128, 20);
engine!(exec64, u64, i64, 9);
engine!(exec128, u128, i128, 20);

fn exec(req: &str) -> String {
    let t: Vec<&str> = req.split(' ').collect();
    if t.len() < 3 || t[0] != "imp" { return "bad-op".into(); }
    let r = std::panic::catch_unwind(|| match (t[1], t[2]) { ("vdelta", "64") => vexec64(&t[1..]), ("vdelta", "128") => vexec128(&t[1..]), (_, "64") => exec64(&t[1..]), (_, "128") => exec128(&t[1..]), _ => None });
    match r { Ok(Some(s)) => s, Ok(None) => "bad-op".into(), Err(_) => "panic".into() }
}

fn parse_ok(resp: &str) -> Option<(i128, u8)> {
    let r = resp.strip_prefix("ok ")?;
    let mut it = r.split(' ');
    Some((it.next()?.parse().ok()?, it.next()?.parse().ok()?))
}

/// is the rebalance cross-over? (recomputed from the request, prices applied)
fn cross_over(t: &[&str], amounts: bool) -> Option<bool> {
    let n = |i: usize| -> Option<i128> { t[i].parse::<i128>().ok() };
    let (pl, ps, dl, ds, prl, prs) = (n(7)?, n(8)?, n(9)?, n(10)?, n(11)?, n(12)?);
    let (cl, cs) = (pl.checked_mul(prl)?, ps.checked_mul(prs)?);
    let (nl, ns) = if amounts { (cl.checked_add(dl.checked_mul(prl)?)?, cs.checked_add(ds.checked_mul(prs)?)?) } else { (cl.checked_add(dl)?, cs.checked_add(ds)?) };
    Some((cl <= cs) != (nl <= ns))
}

fn gen_reqs(r: &mut Rng) -> Vec<String> {
    let (w, unit): (u32, u128) = if r.chance(1, 2) { (64, 1_000_000_000) } else { (128, 100_000_000_000_000_000_000) };
    let e = unit * *r.pick(&[0u128, 1, 1, 2, 2, 2, 3]);
    let fac = |r: &mut Rng| -> u128 { match r.below(6) { 0 => 0, 1 => r.range(1, 20) as u128, 2 => unit / 1_000_000_000 * r.range(1, 9000) as u128 + r.below(3) as u128, 3 => unit / 100_000 * r.range(1, 100) as u128, 4 => unit / 100 * r.range(1, 100) as u128, _ => unit } };
    let (fp, fneg) = (fac(r), fac(r));
    // values in USD with `unit` decimals: around the interesting points 0, <1, 1, >1 USD and large
    // USD values with `unit` decimals: mostly between 1 and 10^4 (64-bit) / 10^7 (128-bit) USD so that
    // the impact curve is non-zero; a few below one unit (curve = 0) and at the unit itself
    let scale = if w == 64 { *r.pick(&[1u128, 1_000_000_000, 1_000_000_000, 30_000_000_000, 1_000_000_000_000, 9_000_000_000_000]) }
                else { *r.pick(&[1u128, unit / 10, unit, unit, unit * 1000, unit * 1_000_000, unit * 10_000_000]) };
    let val = |r: &mut Rng| -> u128 { match r.below(10) { 0 => 0, 1 => scale, 2 => scale + r.below(3) as u128, _ => scale / 7 * r.range(1, 70) as u128 + r.below(5) as u128 } };
    let (pl, ps) = (val(r), val(r));
    // delta: small nudges, cross-over sized, exact cancel
    let dl: i128 = match r.below(6) { 0 => 0, 1 => -(pl as i128), 2 => (ps as i128) - (pl as i128) + r.range(0, 4) as i128 - 2, 3 => -((pl / 3) as i128), _ => (val(r) as i128) / 2 };
    let ds: i128 = match r.below(6) { 0 | 1 | 2 => 0, 3 => -((ps / 2) as i128), 4 => -(ps as i128), _ => (val(r) as i128) / 3 };
    if r.chance(1, 4) {
        // swap impact with a virtual inventory: forward change and its exact reverse (prices 1/1), the virtual pool
        // imbalanced the same way / the other way / balanced / absent
        let vflag = !r.chance(1, 6);
        let (vl, vs) = match r.below(5) { 0 => (pl * 3 + val(r), ps), 1 => (pl, ps * 3 + val(r)), 2 => (ps, pl), 3 => (val(r), val(r)), _ => (pl, ps) };
        let incl = if r.chance(1, 8) { 0 } else { 1 };
        let nl = pl as i128 + dl; let ns = ps as i128 + ds;
        let (vnl, vns) = (vl as i128 + dl, vs as i128 + ds);
        let first = format!("imp vdelta {w} {unit} {e} {fp} {fneg} {pl} {ps} {} {vl} {vs} {dl} {ds} 1 1 {incl}", vflag as u8);
        if nl < 0 || ns < 0 || vnl < 0 || vns < 0 { return vec![first]; }
        return vec![first, format!("imp vdelta {w} {unit} {e} {fp} {fneg} {nl} {ns} {} {vnl} {vns} {} {} 1 1 {incl}", vflag as u8, -dl, -ds)];
    }
    if r.chance(2, 3) {
        // round-trip pair at prices 1/1 (values == amounts)
        let first = format!("imp delta {w} {unit} {e} {fp} {fneg} {pl} {ps} {dl} {ds} 1 1");
        let nl = pl as i128 + dl; let ns = ps as i128 + ds;
        if nl < 0 || ns < 0 { return vec![first]; }
        vec![first, format!("imp delta {w} {unit} {e} {fp} {fneg} {nl} {ns} {} {} 1 1", -dl, -ds)]
    } else {
        let (prl, prs) = (r.range(1, 5000) as u128, r.range(1, 5000) as u128);
        let div = |x: u128, p: u128| x / p;
        vec![format!("imp deltaamt {w} {unit} {e} {fp} {fneg} {} {} {} {} {prl} {prs}", div(pl, prl), div(ps, prs), dl / prl as i128, ds / prs as i128)]
    }
}

fn main() {
    let cli = cli();
    let mut out = Out::new();
    if std::env::var("H_DEBUG").is_err() { std::panic::set_hook(Box::new(|_| {})); }
    let reqs: Vec<String> = if cli.mode == "replay" { read_requests(cli.file.as_deref().unwrap()) } else {
        let mut r = Rng::new(cli.seed);
        let mut v = Vec::new();
        while (v.len() as u64) < cli.n { v.extend(gen_reqs(&mut r)); }
        v
    };
    let mut prev: Option<(Vec<String>, Option<(i128, u8)>)> = None;
    let mut vprev: Option<(Vec<String>, Option<(i128, u8)>)> = None;
    for req in reqs {
        let resp = exec(&req);
        if resp == "panic" { out.oracle_fail("panicked", &req); }
        let t: Vec<&str> = req.split(' ').collect();
        if t.len() == 17 && t[1] == "vdelta" {
            // ---- swap impact with a virtual inventory: oracles from the property text, on exact integers
            let res = parse_ok(&resp);
            out.stat("op.vdelta");
            let n = |i: usize| -> Option<i128> { t[i].parse::<i128>().ok() };
            if let (Some((x, _)), Some(pl), Some(ps), Some(dl), Some(ds), Some(prl), Some(prs)) = (res, n(7), n(8), n(12), n(13), n(14), n(15)) {
                // balance change of the REAL pool, recomputed
                let real_change = (|| { let (cl, cs) = (pl.checked_mul(prl)?, ps.checked_mul(prs)?); let (nl, ns) = (cl.checked_add(dl)?, cs.checked_add(ds)?); Some(((cl - cs).unsigned_abs(), (nl - ns).unsigned_abs(), (cl <= cs) != (nl <= ns))) })();
                if let Some((i0, i1, crossed)) = real_change {
                    if i1 >= i0 && x > 0 { out.oracle_fail("a change that does not improve the real pool's balance received a positive impact (virtual inventory in play)", &req); }
                    out.stat(if i1 < i0 { "v.real_improved" } else { "v.real_not_improved" });
                    let _ = crossed;
                }
                // never better than the impact on the real pool alone
                let plain = exec(&format!("imp delta {} {} {} {} {} {} {} {} {} {} {}", t[2], t[3], t[4], t[5], t[6], t[7], t[8], t[12], t[13], t[14], t[15]));
                if let Some((y, _)) = parse_ok(&plain) {
                    if x > y { out.oracle_fail(&format!("the virtual inventory IMPROVED the impact: {x} > real pool's {y}"), &req); }
                    out.stat(if x < y { "v.virtual_taken" } else { "v.real_taken" });
                }
            } else { out.stat("v.none"); }
            // round trip: this request is the exact reverse of the previous vdelta
            if let Some((pt, pres)) = &vprev {
                let rev = pt[2..7] == t[2..7].iter().map(|s| s.to_string()).collect::<Vec<_>>()[..] && pt[9] == t[9] && pt[14] == "1" && pt[15] == "1" && t[14] == "1" && t[15] == "1" && pt[16] == t[16]
                    && n(12) == pt[12].parse::<i128>().ok().and_then(|v| v.checked_neg()) && n(13) == pt[13].parse::<i128>().ok().and_then(|v| v.checked_neg())
                    && n(7).is_some() && n(7) == pt[7].parse::<i128>().ok().zip(pt[12].parse::<i128>().ok()).and_then(|(a, b)| a.checked_add(b))
                    && n(8).is_some() && n(8) == pt[8].parse::<i128>().ok().zip(pt[13].parse::<i128>().ok()).and_then(|(a, b)| a.checked_add(b));
                if rev {
                    if let (Some((x, _)), Some((y, _))) = (pres, &res) {
                        out.stat("v.roundtrip.pairs");
                        let total = x.checked_add(*y).unwrap_or(if *x > 0 { i128::MAX } else { -1 });
                        if total > 1 { out.oracle_fail(&format!("round trip with a virtual inventory yields positive total impact {total}"), &req); }
                        else if total == 1 { out.known("F-C03b", "same-side round trip nets +1 unit of value (floor rounding)", &req); }
                    }
                }
            }
            vprev = Some((t.iter().map(|s| s.to_string()).collect(), res));
            let nt = matches!(res, Some((x, _)) if x != 0);
            out.case_nt(&req, &resp, nt);
            continue;
        }
        let res = parse_ok(&resp);
        let co = cross_over(&t, t[1] == "deltaamt");
        if let Some((x, bc)) = res {
            out.stat(match bc { 0 => "bc.improved", 1 => "bc.worsened", _ => "bc.unchanged" });
            out.stat(if co == Some(true) { "side.cross_over" } else { "side.same" });
            out.stat(if x > 0 { "impact.pos" } else if x < 0 { "impact.neg" } else { "impact.zero" });
            // clause 1: worsening never gets a positive impact
            if bc != 0 && x > 0 { out.oracle_fail("a rebalance that does not improve the pool balance received a positive impact", &req); }
            // clause 2: improving never gets a negative impact
            if bc == 0 && x < 0 {
                let (fp, fneg): (u128, u128) = (t[5].parse().unwrap(), t[6].parse().unwrap());
                if co == Some(true) && fp < fneg { out.known("F-C03", "cross-over improving rebalance charged a negative impact (positive factor < negative factor)", &req); }
                else { out.oracle_fail("an improving rebalance received a negative impact", &req); }
            }
        } else { out.stat("resp.none"); }
        // clause 3: a change followed by its exact reverse
        if let Some((pt, pres)) = &prev {
            let is_rev = t[1] == "delta" && pt[1] == "delta" && pt[2..7] == t[2..7].iter().map(|s| s.to_string()).collect::<Vec<_>>()[..]
                && t[11] == "1" && t[12] == "1" && pt[11] == "1"
                && t[9].parse::<i128>().ok() == pt[9].parse::<i128>().ok().and_then(|v| v.checked_neg()) && t[10].parse::<i128>().ok() == pt[10].parse::<i128>().ok().and_then(|v| v.checked_neg())
                && t[7].parse::<i128>().ok().is_some() && t[7].parse::<i128>().ok() == pt[7].parse::<i128>().ok().zip(pt[9].parse::<i128>().ok()).and_then(|(a, b)| a.checked_add(b))
                && t[8].parse::<i128>().ok().is_some() && t[8].parse::<i128>().ok() == pt[8].parse::<i128>().ok().zip(pt[10].parse::<i128>().ok()).and_then(|(a, b)| a.checked_add(b));
            if is_rev {
                if let (Some((x, _)), Some((y, _))) = (pres, &res) {
                    out.stat("roundtrip.pairs");
                    // exact integers: the two impacts are i128 and their sum may not fit
                    let total: i128 = match x.checked_add(*y) { Some(v) => v, None => { out.stat("roundtrip.sum_overflow"); if *x > 0 && *y > 0 { 1 << 100 } else { -1 } } };
                    if total > 0 {
                        if total == 1 && co == Some(false) { out.known("F-C03b", "same-side round trip nets +1 unit of value (floor rounding)", &req); }
                        else { out.oracle_fail(&format!("round trip yields positive total impact {total}"), &req); }
                    }
                    if total < 0 { out.stat("roundtrip.negative"); }
                }
            }
        }
        prev = Some((t.iter().map(|s| s.to_string()).collect(), res));
        let nt = matches!(res, Some((x, _)) if x != 0);
        out.case_nt(&req, &resp, nt);
    }
    out.finish();
}
