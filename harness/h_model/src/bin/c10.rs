//! C10 harness: the shared `perp` engine (h_model::perp) with the C10 oracle.
fn main() { h_model::perp::run_bin("C10"); }
